"""G10 -- settings persistence of the admin API (specs/Persist.tla, notes/G10.md).

Pipeline:

 1. TLC checks Persist.tla over the bounded universe (every state at most one component away
    from the initial deployment, or two components both at their first alternative value): the
    invariants WriteThrough / ReportsRunning and the step properties RefusedChangesNothing /
    RestartRestores / CrashAtomic / AcceptedEverywhere; five negative configurations (seeded
    faults in the specification) must each be caught by exactly the invariant they break.
 2. The same run emits one vector per (state, label) with the set of admissible outcomes.
 3. Direction A: the Go harness runs the REAL server (the test binary re-executes itself as a
    child process that calls run() as Main() does) and covers the vectors with tours: requests
    over TCP to the real web server, "reported" from the GET endpoints, "file" from
    AdGuardHome.yaml parsed independently, "running" from DNS answers and what mock upstreams
    see; restart = SIGTERM + new process, crash = SIGKILL (at a boundary / in mid-request).
    A disagreement ends the tour (new deployment); its history is replayed from a fresh
    deployment before it counts.
 4. Direction B: seeded random longer histories over the unbounded universe are recorded the
    same way and validated by TracePersist.tla; rejected lines are replayed from a fresh
    deployment and validated again before they count.
"""
import concurrent.futures
import json
import os
import random
import shutil

import vlib

PKG = "internal/home"
FILES = ["zz_verif_common_test.go", "zz_verif_g10_test.go"]
NEG = {
    "nowrite": "WriteThrough",
    "norun": "WriteThrough",
    "noreport": "ReportsRunning",
    "storefirst": "RefusedChangesNothing",
    "lostonrestart": "RestartRestores",
}
DNS_COMPS = set("ups boot blk blkttl prot rl rl4 ecs dnssec noaaaa csize cttl upmode lptr useptr uto".split())


def norm(x):
    if isinstance(x, dict):
        return {k: norm(v) for k, v in x.items() if k != "_bad"}
    if isinstance(x, list):
        l = [norm(v) for v in x]
        if all(not isinstance(v, (dict, list)) for v in l):
            l = sorted(l, key=lambda v: json.dumps(v))
        return l
    return x


def canon(x):
    return json.dumps(norm(x), sort_keys=True, separators=(",", ":"))


def labstr(l):
    return ":".join(x for x in (l["op"], l.get("x", ""), l.get("c", ""), l.get("v", ""), l.get("w", "")) if x)


def diff(st, init):
    return {k: v for k, v in (st or {}).items() if canon(v) != canon(init.get(k))}


# ------------------------------------------------------------------------ graph
def build_graph(raw):
    inits = [v for v in raw if "init" in v]
    if not inits:
        raise vlib.Inconclusive("TLC emitted no initial state")
    ids, states = {}, []

    def sid(st):
        k = canon(st)
        if k not in ids:
            ids[k] = len(states)
            states.append(norm(st))
        return ids[k]

    init = sid(inits[0]["init"])
    vecs, seen = [], set()
    for v in raw:
        if "src" not in v:
            continue
        s = sid(v["src"])
        key = (s, canon(v["lab"]))
        if key in seen:
            continue
        seen.add(key)
        outs = []
        for o in v["outs"]:
            e = {"cls": o["cls"], "dst": sid(o["st"])}
            if e not in outs:
                outs.append(e)
        vecs.append({"id": len(vecs), "src": s, "lab": v["lab"], "outs": outs, "target": True})
    return {"init": init, "states": states, "vecs": vecs}


def vec_class(v):
    op = v["lab"]["op"]
    if op == "set":
        return "set:dns" if v["lab"]["c"] in DNS_COMPS else "set"
    return op


def guards(graph):
    """Vacuity: every kind of label and of outcome set must be present."""
    g = {}
    for v in graph["vecs"]:
        g[vec_class(v)] = g.get(vec_class(v), 0) + 1
        cls = sorted({o["cls"] for o in v["outs"]})
        changes = any(o["dst"] != v["src"] for o in v["outs"])
        if cls == ["rej"]:
            g["must_refuse"] = g.get("must_refuse", 0) + 1
        if cls == ["ok", "rej"]:
            g["either"] = g.get("either", 0) + 1
        if cls == ["ok"] and changes:
            g["must_apply"] = g.get("must_apply", 0) + 1
        if v["lab"]["op"] == "crashduring" and len(v["outs"]) == 2:
            g["mid_two_outcomes"] = g.get("mid_two_outcomes", 0) + 1
        if v["lab"]["op"] in ("restart", "crash") and v["src"] != graph["init"]:
            g["restart_nondefault"] = g.get("restart_nondefault", 0) + 1
    need = ["set", "set:dns", "malformed", "restart", "crash", "crashduring", "ls_add", "ls_rm", "ls_set", "rw_add", "rw_del",
            "rw_upd", "cl_add", "cl_upd", "cl_del", "cl_add_clash", "ss_enable", "ss_disable", "svc_legacy", "profile",
            "must_refuse", "either", "must_apply", "mid_two_outcomes", "restart_nondefault"]
    empty = [n for n in need if not g.get(n)]
    if empty:
        raise vlib.Inconclusive("vacuous: no vector of class %s" % empty)
    return g


def select(ctx, graph):
    if not ctx.quick:
        return
    rng = random.Random(ctx.seed)
    p = {"set:dns": 0.07, "restart": 0.12, "crash": 0.10, "crashduring": 0.25, "malformed": 0.06}
    for v in graph["vecs"]:
        v["target"] = rng.random() < p.get(vec_class(v), 0.16)


# -------------------------------------------------------------------------- Go
def go(ctx, test, tag, env, timeout):
    e = {"VERIF_G10_PAR": os.environ.get("VERIF_G10_PAR", "5")}
    e.update(env)
    # distinct -run regexes keep vlib's overlay files apart
    rc, out = ctx.go_test(PKG, FILES, "^%s$|^zzg10_%s$" % (test, tag), env=e, timeout=timeout, go_timeout="%ds" % (timeout - 20))
    if "panic:" in out and "--- FAIL" not in out or rc != 0:
        raise vlib.Inconclusive("harness %s (%s) failed rc=%d:\n%s" % (test, tag, rc, out[-2500:]))
    return out


def match_step(graph, vec, step):
    obs = step.get("obs") or {}
    if obs.get("err") or obs.get("effbad") or (obs.get("rep") or {}).get("_bad") or (obs.get("file") or {}).get("_bad"):
        return None
    rep, fil = canon(obs.get("rep")), canon(obs.get("file"))
    for o in vec["outs"]:
        d = canon(graph["states"][o["dst"]])
        if o["cls"] == step.get("cls") and d == rep and d == fil:
            return o["dst"]
    return None


def run_scripts(ctx, tag, scripts):
    sp, op = ctx.path("g10_scripts_%s.ndjson" % tag), ctx.path("g10_scripts_%s.out" % tag)
    vlib.write_ndjson(sp, [{"id": str(i), "labs": labs} for i, labs in enumerate(scripts)])
    go(ctx, "TestZZVerifG10Script", tag, {"VERIF_G10_SCRIPTS": sp, "VERIF_G10_OUT": op, "VERIF_G10_SETTLE_MS": "4000"}, 900)
    by = {}
    for r in vlib.read_ndjson(op):
        by.setdefault(int(r["id"]), {})[r["i"]] = r
    return by


# ------------------------------------------------------------------ classifying
def classify(hist, cls, obs, want_states, init):
    """Narrow keys of the known findings.  hist: the labels since the fresh deployment, the offending one last;
    want_states: the admissible destinations."""
    obs = obs or {}
    eff = obs.get("effbad") or []
    rep_ok = any(canon(obs.get("rep")) == canon(w) and canon(obs.get("file")) == canon(w) for w in want_states)
    # The deprecated enable call was the last thing that touched safe search in this process (no restart, no settings call since),
    # everything is reported and written as it should be, and the only contradiction is what is rewritten: the running engine still
    # has the rules it was last built with (none after a start with safe search off).  (It shows at the call itself, or later when
    # DNS probing becomes possible again.)
    touching = [l for l in hist if l["op"] in ("ss_enable", "restart", "crash", "crashduring") or (l["op"] == "set" and l.get("c") == "ss")]
    if (touching and touching[-1]["op"] == "ss_enable" and cls in ("ok", "rej") and rep_ok and eff and not obs.get("err")
            and all(e.startswith('ss="') for e in eff)):
        return "safesearch-enable-not-in-effect-until-restart"
    # The emptied list of blocked hosts: accepted, reported and written as empty, then replaced in memory by the three default names
    # at the next reconfiguration (any dns_config change) or start -- the file keeps saying empty.
    def but_acc(st, acc):
        st = dict(st or {})
        st["acc"] = acc
        return st
    if (not obs.get("err") and not eff and (obs.get("file") or {}).get("acc") == "nohosts" and (obs.get("rep") or {}).get("acc") == "none"
            and any(canon(obs.get("file")) == canon(w) and canon(but_acc(obs.get("rep"), "nohosts")) == canon(w) for w in want_states)):
        return "access-empty-blocked-hosts-replaced-by-defaults"
    # G07's finding seen from here: a list added after a restart within the same second got the id of a list that was already
    # there (two lists with one id in the file, or the start-up warning about it), so one list file holds the other's rules.
    if (rep_ok and eff and not obs.get("err") and "duplicate filter id" in (obs.get("notes") or [])
            and all(e.startswith("lists=") for e in eff)):
        return "list-id-reused-after-restart-within-the-second"
    return None


def replayable(labs_with_effect):
    """A crash in mid-request is replayed as what it turned out to be: the change followed by a crash, or only the crash."""
    out = []
    for lab, applied in labs_with_effect:
        if lab["op"] == "crashduring" and applied is not None:
            if applied:
                out.append({"op": lab["x"], "x": "", "c": lab["c"], "v": lab["v"], "w": lab["w"]})
            out.append({"op": "crash", "x": "", "c": "", "v": "", "w": ""})
        else:
            out.append(lab)
    return out


def signature(lab, cls, obs, init):
    obs = obs or {}
    return "%s|%s|rep%s|file%s|eff%s|%s" % (labstr(lab), cls, canon(diff(obs.get("rep"), init))[:200], canon(diff(obs.get("file"), init))[:200],
                                            sorted(e.split(":")[0] for e in obs.get("effbad") or []), (obs.get("err") or "")[:80])


# ------------------------------------------------------------------ direction A
def direction_a(ctx, graph, reports):
    init = graph["states"][graph["init"]]
    gp, op = ctx.path("g10_graph.json"), ctx.path("g10_walk.out")
    json.dump(graph, open(gp, "w"))
    budget = 30 if ctx.quick else 330
    go(ctx, "TestZZVerifG10Walk", "walk", {"VERIF_G10_GRAPH": gp, "VERIF_G10_OUT": op, "VERIF_G10_BUDGET_S": str(budget)}, budget + 300)
    rows = vlib.read_ndjson(op)
    rigs = [r for r in rows if r["kind"] == "rig"]
    oks = [r for r in rows if r["kind"] == "ok"]
    bads = [r for r in rows if r["kind"] == "bad"]
    end = [r for r in rows if r["kind"] == "end"]
    if not end:
        raise vlib.Inconclusive("the walker did not finish")
    if rigs and not oks:
        raise vlib.Inconclusive("rig: %s" % json.dumps(rigs[0])[:1500])
    vecs = graph["vecs"]
    groups = {}
    for b in bads:
        v = vecs[b["v"]]
        st = b["step"]
        wants = [graph["states"][o["dst"]] for o in v["outs"]]
        key = classify(b["hist"], st.get("cls"), st.get("obs"), wants, init)
        sig = key or signature(v["lab"], st.get("cls"), st.get("obs"), init)
        groups.setdefault((key, sig), []).append(b)
    reps = []
    n_unc = 0
    for (key, sig), bs in sorted(groups.items(), key=lambda kv: (kv[0][0] is None, kv[0][1])):
        bs.sort(key=lambda b: len(b["hist"]))
        if key is None:
            n_unc += 1
            if n_unc > 10:
                continue
        reps.append((key, sig, bs[0]))
    reproduced, flaky = 0, 0
    if reps:
        ctx.log("direction A: %d disagreeing steps in %d groups; replaying %d histories from fresh deployments" % (len(bads), len(groups), len(reps)))
        by = run_scripts(ctx, "again_a", [b["hist"] for _, _, b in reps])
        for i, (key, sig, b) in enumerate(reps):
            v = vecs[b["v"]]
            last = by.get(i, {}).get(len(b["hist"]) - 1)
            if last is None:
                flaky += len(groups[(key, sig)])
                continue
            st2 = last["step"]
            wants = [graph["states"][o["dst"]] for o in v["outs"]]
            again = match_step(graph, v, st2) is None
            key2 = classify(b["hist"], st2.get("cls"), st2.get("obs"), wants, init)
            if not again or key2 != key:
                flaky += len(groups[(key, sig)])
                continue
            reproduced += 1
            rec = {"direction": "A", "label": v["lab"], "history": b["hist"], "src": diff(graph["states"][v["src"]], init),
                   "admissible": [{"cls": o["cls"], "settings": diff(graph["states"][o["dst"]], init)} for o in v["outs"]],
                   "observed": {"cls": st2.get("cls"), "code": st2.get("code"), "body": st2.get("body"),
                                "reported": diff((st2.get("obs") or {}).get("rep"), init), "file": diff((st2.get("obs") or {}).get("file"), init),
                                "effects_contradicting_report": (st2.get("obs") or {}).get("effbad"), "err": (st2.get("obs") or {}).get("err")},
                   "same_kind": len(groups[(key, sig)]), "settings_shown_as": "difference from the initial deployment"}
            what = "%s from %s: answered %s, reported %s, file %s, effects %s; admissible %s" % (
                labstr(v["lab"]), canon(rec["src"]), st2.get("cls"), canon(rec["observed"]["reported"]), canon(rec["observed"]["file"]),
                rec["observed"]["effects_contradicting_report"] or rec["observed"]["err"] or "agree",
                canon(rec["admissible"])[:300])
            reports.append((key, rec, what, len(groups[(key, sig)])))
    covered = {r["v"] for r in oks}
    targets = [v for v in vecs if v["target"]]
    # States the implementation never enters (it refuses a request the documentation is silent about, so the state "accepted" does not
    # occur): their vectors cannot be executed.
    visited = {graph["init"]} | {r["dst"] for r in oks}
    unreachable = [v["id"] for v in vecs if v["src"] not in visited]
    tried = covered | {b["v"] for b in bads}
    return {
        "vectors": len(vecs), "vectors_selected": len(targets), "vectors_selected_covered": sum(1 for v in targets if v["id"] in covered),
        "vectors_covered": len(covered), "steps": len(oks) + len(bads), "tours": 1 + sum(1 for r in oks if r.get("n") == 1),
        "disagreeing_steps": len(bads), "disagreement_groups": len(groups), "reproduced_groups": reproduced, "flaky_steps": flaky,
        "remaining": end[0]["remaining"], "vectors_of_states_never_entered": len(unreachable),
        "all_enterable_tried": all(v["id"] in tried or v["src"] not in visited for v in vecs), "by_class": {c: sum(1 for i in covered if vec_class(vecs[i]) == c) for c in sorted({vec_class(v) for v in vecs})},
        "covered_ids": covered,
    }


# ------------------------------------------------------------------ direction B
def validate(ctx, path, tag):
    cfg = ctx.path("TracePersist.%s.cfg" % tag)
    shutil.copy(os.path.join(vlib.SPECS, "TracePersist.cfg"), cfg)
    dst = os.path.join(vlib.SPECS, os.path.basename(cfg))
    # ctx.tlc copies the cfg from specs/: hand it an absolute path instead
    res = ctx.tlc("TracePersist", os.path.relpath(cfg, vlib.SPECS), workers=1, timeout=600, extra_files=[(path, "trace.ndjson")])
    vs = [v for v in res["vectors"] if "n" in v]
    if not vs:
        raise vlib.Inconclusive("TracePersist printed no verdict:\n%s" % res["out"][-1500:])
    return vs[-1]


def direction_b(ctx, graph, reports):
    init = graph["states"][graph["init"]]
    tp = ctx.path("g10_trace.ndjson")
    nh, length, budget = (10, 40, 20) if ctx.quick else (60, 120, 200)
    go(ctx, "TestZZVerifG10Trace", "trace", {"VERIF_G10_TRACE": tp, "VERIF_G10_HISTORIES": str(nh), "VERIF_G10_LENGTH": str(length),
                                             "VERIF_G10_BUDGET_S": str(budget)}, budget + 300)
    lines = vlib.read_ndjson(tp)
    steps = [l for l in lines if l.get("ev") == "step"]
    if len(steps) < 50:
        raise vlib.Inconclusive("the trace driver produced %d steps" % len(steps))
    verdict = validate(ctx, tp, "main")
    if verdict["n"] != len(lines):
        raise vlib.Inconclusive("TracePersist consumed %s of %d lines" % (verdict["n"], len(lines)))
    groups = {}
    for b in sorted(verdict["bad"], key=lambda b: b["i"]):
        ln = lines[b["i"] - 1]
        if b["why"] in ("rig", "noout"):
            raise vlib.Inconclusive("trace line %d (%s): %s" % (b["i"], labstr(ln.get("lab", {"op": "?"})), b["why"]))
        hl = [l for l in lines[:b["i"]] if l["h"] == ln["h"] and l.get("ev") in ("step", "reset")]
        pairs = []
        for prev, cur in zip(hl, hl[1:]):
            last = cur is hl[-1]
            pairs.append((cur["lab"], None if last else canon(cur.get("rep")) != canon(prev.get("rep"))))
        hist = replayable(pairs)
        obs = {"rep": ln.get("rep"), "file": ln.get("file"), "effbad": ln.get("effbad"), "err": ln.get("err"), "notes": ln.get("notes")}
        # the classifier wants the admissible destinations: for the known keys "reported = file" is what matters
        wants = [ln.get("file")]
        key = classify(hist, ln.get("cls"), obs, wants, init)
        sig = key or signature(ln["lab"], ln.get("cls"), obs, init)
        groups.setdefault((key, sig), []).append((b, hist))
    reps = []
    n_unc = 0
    for (key, sig), bs in sorted(groups.items(), key=lambda kv: (kv[0][0] is None, kv[0][1])):
        bs.sort(key=lambda x: len(x[1]))
        if key is None:
            n_unc += 1
            if n_unc > 8:
                continue
        reps.append((key, sig, bs[0]))
    reproduced = 0
    if reps:
        ctx.log("direction B: %d rejected lines in %d groups; replaying %d histories from fresh deployments" % (len(verdict["bad"]), len(groups), len(reps)))
        by = run_scripts(ctx, "again_b", [hist for _, _, (b, hist) in reps])
        rows, last_of = [], {}
        for i, (key, sig, (b, hist)) in enumerate(reps):
            d = by.get(i, {})
            if -1 not in d or "obs" not in d[-1]:
                continue
            o = d[-1]["obs"]
            rows.append({"h": i, "i": 0, "ev": "reset", "lab": {"op": "init", "x": "", "c": "", "v": "", "w": ""}, "cls": "init",
                         "rep": o.get("rep") or {}, "file": o.get("file") or {}, "effbad": o.get("effbad") or [], "err": o.get("err") or ""})
            for j in range(len(hist)):
                if j not in d:
                    break
                st = d[j]["step"]
                ob = st.get("obs") or {}
                rows.append({"h": i, "i": j + 1, "ev": "step", "lab": st["lab"], "cls": st["cls"], "rep": ob.get("rep") or {},
                             "file": ob.get("file") or {}, "effbad": ob.get("effbad") or [],
                             "err": ob.get("err") or ("" if ob.get("rep") else "no observation: " + st["cls"])})
                if j == len(hist) - 1:
                    last_of[i] = (len(rows), st)
        t2 = ctx.path("g10_trace2.ndjson")
        vlib.write_ndjson(t2, rows)
        bad2 = {b["i"] for b in validate(ctx, t2, "again")["bad"]} if rows else set()
        for i, (key, sig, (b, hist)) in enumerate(reps):
            if i not in last_of or last_of[i][0] not in bad2:
                continue
            st = last_of[i][1]
            ob = st.get("obs") or {}
            wants = [ob.get("file")]
            if classify(hist, st.get("cls"), ob, wants, init) != key:
                continue
            reproduced += 1
            rec = {"direction": "B", "label": st["lab"], "history": hist, "seed": ctx.seed,
                   "observed": {"cls": st.get("cls"), "code": st.get("code"), "body": st.get("body"), "reported": diff(ob.get("rep"), init),
                                "file": diff(ob.get("file"), init), "effects_contradicting_report": ob.get("effbad"), "err": ob.get("err")},
                   "same_kind": len(groups[(key, sig)]), "settings_shown_as": "difference from the initial deployment"}
            what = "trace: %s after %d steps answered %s, reported %s, file %s, effects %s; rejected by TracePersist" % (
                labstr(st["lab"]), len(hist) - 1, st.get("cls"), canon(rec["observed"]["reported"]), canon(rec["observed"]["file"]),
                ob.get("effbad") or ob.get("err") or "agree")
            reports.append((key, rec, what, 0))
    hs = {l["h"] for l in lines}
    mid = len(steps) // 2
    return {"trace_lines": len(lines), "trace_steps": len(steps), "trace_histories": len(hs), "trace_lines_rejected": len(verdict["bad"]),
            "trace_lines_skipped_after_rejection": verdict.get("skipped", 0), "trace_groups": len(groups), "trace_groups_reproduced": reproduced,
            "sample": {k: steps[mid].get(k) for k in ("lab", "cls", "code")} | {"reported": diff(steps[mid].get("rep"), init)}}


# -------------------------------------------------------------------------- run
def run(ctx):
    ctx.sany("Persist")
    ctx.sany("TracePersist")
    def neg(name):
        if name == "gen":
            return name, ctx.tlc("Persist", "Persist.gen.cfg", workers=2, timeout=600, coverage=False)
        return name, ctx.tlc("Persist", "Persist.neg-%s.cfg" % name, workers=1, timeout=300, expect_violation=True)

    with concurrent.futures.ThreadPoolExecutor(4) as ex:
        negs = dict(ex.map(neg, ["gen"] + list(NEG)))
    gen = negs.pop("gen")
    for name, want in NEG.items():
        out = negs[name]["out"]
        if negs[name]["violated"] is None or want not in out:
            raise vlib.Inconclusive("negative configuration %s: expected a violation of %s, TLC says %s" % (name, want, negs[name]["violated"]))
    graph = build_graph(gen["vectors"])
    # Admissible destinations outside the bound (a silent value accepted in a non-initial state) are listed but not explored.
    if len({v["src"] for v in graph["vecs"]}) != gen["distinct"]:
        raise vlib.Inconclusive("%d source states in the vectors, %d found by TLC" % (len({v["src"] for v in graph["vecs"]}), gen["distinct"]))
    guard = guards(graph)
    select(ctx, graph)
    ctx.log("Persist: %d states, %d (state, label) vectors, %d selected" % (len(graph["states"]), len(graph["vecs"]), sum(1 for v in graph["vecs"] if v["target"])))

    reports = []
    a = direction_a(ctx, graph, reports)
    b = direction_b(ctx, graph, reports)

    truncated = 0
    for key, rec, what, n_same in reports:
        if ctx.disagreement(key, rec, what) == "known":
            truncated += n_same
    covered = a.pop("covered_ids")
    vecs = graph["vecs"]
    if a["vectors_selected_covered"] < 0.6 * a["vectors_selected"] and not ctx.violations:
        raise vlib.Inconclusive("only %d of %d selected vectors were executed (out of time?)" % (a["vectors_selected_covered"], a["vectors_selected"]))
    if a["flaky_steps"] > 0.02 * max(a["steps"], 1) + 3 and not ctx.violations:
        raise vlib.Inconclusive("%d disagreeing steps did not reproduce from a fresh deployment" % a["flaky_steps"])
    init = graph["states"][graph["init"]]
    samples = []
    for i in sorted(covered)[:: max(1, len(covered) // 4)][:4]:
        v = vecs[i]
        samples.append({"from": diff(graph["states"][v["src"]], init), "label": labstr(v["lab"]),
                        "admissible": [{"cls": o["cls"], "settings": diff(graph["states"][o["dst"]], init)} for o in v["outs"]]})
    samples.append({"trace_line": b.pop("sample")})
    cov = {
        "traces_validated_against_impl": a["tours"] + b["trace_histories"],
        "evaluations": a["steps"] + b["trace_steps"],
        "distinct_nontrivial": sum(1 for i in covered if any(o["dst"] != vecs[i]["src"] for o in vecs[i]["outs"]) or
                                   vecs[i]["lab"]["op"] in ("restart", "crash") and vecs[i]["src"] != graph["init"] or
                                   all(o["cls"] == "rej" for o in vecs[i]["outs"])),
        "rule": "one vector per (reachable settings state, label) of Persist.tla with its set of admissible outcomes, executed on a real server "
                "process from that process's own current state and compared in all three places (GET endpoints, parsed AdGuardHome.yaml, DNS "
                "behaviour); non-trivial = the label may change the settings, or must be refused, or is a restart / crash of a non-default state",
        "direction_a": a, "direction_b": b, "vacuity_guards": guard, "negative_configurations": {n: negs[n]["violated"] for n in NEG},
        "states": gen["distinct"], "transitions": gen["generated"],
        "truncated_by_known_finding": truncated,
        "exhaustive": (not ctx.quick) and a["all_enterable_tried"],
        "samples": samples,
    }
    return ctx.finish("model_checking", cov, assumptions=[
        "TLC; the concretisation / abstraction tables of zz_verif_g10_test.go (abstract value <-> request body, GET body, YAML keys) and its "
        "effect table (which DNS behaviour shows which setting, and when a setting's effect is not observable: notes/G10.md)",
        "the server is the real run() in a child process of the test binary (signals wired as in Main); hygiene only through the initial "
        "AdGuardHome.yaml: loopback ports, mock upstream, no remote lists, no runtime client sources, no hosts file, probes exempt from rate limiting",
        "an accepted change is given up to 2.5 s for its DNS effect to show (the filtering engine is rebuilt in the background)",
        "no DNS probes while safe browsing / parental control are on (they would query the remote service); rate limit, bootstrap, upstream mode, "
        "cache TTLs, DNSSEC, EDNS client subnet, update interval, language, theme are compared in report and file only",
    ])


def replay(ctx, path):
    rec = json.load(open(path))["record"]
    by = run_scripts(ctx, "replay", [rec["history"]])
    last = by.get(0, {}).get(len(rec["history"]) - 1)
    if last is None:
        print(json.dumps({"history": rec["history"], "observed_now": "the history could not be replayed to its end"}, indent=1))
        return 2
    gen = ctx.tlc("Persist", "Persist.gen.cfg", workers=4, timeout=600)
    graph = build_graph(gen["vectors"])
    init = graph["states"][graph["init"]]
    st = last["step"]
    ob = st.get("obs") or {}
    now = {"cls": st.get("cls"), "code": st.get("code"), "reported": diff(ob.get("rep"), init), "file": diff(ob.get("file"), init),
           "effects_contradicting_report": ob.get("effbad"), "err": ob.get("err")}
    print(json.dumps({"history": [labstr(l) for l in rec["history"]], "admissible": rec.get("admissible"), "observed_then": rec["observed"],
                      "observed_now": now}, indent=1))
    # Judge the whole replayed history with TracePersist.
    d = by[0]
    rows = [{"h": 0, "i": 0, "ev": "reset", "lab": {"op": "init", "x": "", "c": "", "v": "", "w": ""}, "cls": "init",
             "rep": d[-1]["obs"].get("rep") or {}, "file": d[-1]["obs"].get("file") or {}, "effbad": d[-1]["obs"].get("effbad") or [],
             "err": d[-1]["obs"].get("err") or ""}]
    for j in range(len(rec["history"])):
        s = d[j]["step"]
        o = s.get("obs") or {}
        rows.append({"h": 0, "i": j + 1, "ev": "step", "lab": s["lab"], "cls": s["cls"], "rep": o.get("rep") or {}, "file": o.get("file") or {},
                     "effbad": o.get("effbad") or [], "err": o.get("err") or ("" if o.get("rep") else "no observation")})
    t = ctx.path("g10_replay.ndjson")
    vlib.write_ndjson(t, rows)
    verdict = validate(ctx, t, "replay")
    return 1 if verdict["bad"] else 0
