#!/usr/bin/env python3
import json, sys
pid = sys.argv[1]; n = int(sys.argv[2]) if len(sys.argv) > 2 else 3
WAVE = sys.argv[3] if len(sys.argv) > 3 else ''
out = 'out' + WAVE
p = next(json.loads(l) for l in open('/verif/properties.jsonl') if json.loads(l)['id'] == pid)
low = pid.lower()
extra = ("This is a second round: favour defects that depend on STATE accumulated across several operations (a cache or memo that is not invalidated on one path, an index or counter left stale by one kind of update, a reconfiguration or restart sequence, reuse of a long-lived object after an error), on BOUNDARY values (zero, maximum, one past the limit, empty collections, exact equality at a threshold) or on an unusual but legal COMBINATION of settings. " if WAVE == "2" else ("This is a third round: favour (i) TWO COOPERATING edits at different sites that each look harmless alone and only together break the property, (ii) defects that only show under a FAULT at a particular point (an I/O or network error, a rejected operation, a restart or crash between two steps) and the behaviour AFTER that fault, (iii) defects in rarely used but documented ALTERNATIVE entry points or legacy code paths that reach the same state (a second API for the same setting, config-file load vs API, IPv6 vs IPv4, TCP vs UDP), and (iv) off-by-one errors at documented limits. Avoid plain single-site condition flips. " if WAVE == "3" else ""))
print(f"""You are testing how robust a Go code base's guarantees are. You have a scratch git worktree of AdGuard Home at /tmp/atk-{low} (a detached checkout; work ONLY there and under /tmp/atk-{low}-{out}; never touch /repo or /verif, and do not read anything under /verif).

Property under attack:
"{p['title']}. {p['statement']}"
It must hold {p['quantifier']['text']}.
Relevant code: {', '.join(p['anchors']['files'])}.

Task: produce {n} different, independent source changes (each a separate small patch against the worktree's HEAD) to AdGuard Home, each of which BREAKS this property while (a) the module still compiles (`go build ./...`) and (b) the existing tests of every package you touch still pass (`go test -vet=off -count=1 ./internal/<pkg>/...`). {extra}Prefer realistic slips a developer could make in a refactoring or "optimisation", and prefer changes that need something SPECIFIC to manifest (a particular interleaving, a crash or fault at a particular point, a multi-step sequence of operations, an unusual input or boundary value, or two cooperating sites that each look fine alone) rather than ones that ordinary use would expose at once. The {n} changes should break different clauses / parts of the property.

For each change i in 1..{n} write into /tmp/atk-{low}-{out}/<i>/:
- patch.diff  (output of `git diff` in the worktree for exactly that change; reset the worktree with `git checkout -- .` between changes)
- demo_test.go (a self-contained in-package Go test file that can be dropped into the package directory named in README; it must FAIL with the change applied and PASS without it, deterministically (run it 3 times on the clean tree); name the test TestSeededDemo...; if it needs `-race` or a GOEXPERIMENT say so in README)
- README.md (3-6 lines: what the change is; the package directory the demo belongs to (e.g. internal/home) and the exact go test command; what exactly is needed for it to manifest; which clause of the property it breaks)
Verify all of this yourself: with the patch applied `go build ./...` succeeds, the existing tests of the touched packages pass, and the demo fails; without the patch the demo passes. Remove the demo file from the worktree after each verification and leave the worktree clean (`git status` empty) at the end.

Environment: run Go with `export GOFLAGS=-mod=mod GOPROXY=off` (no network; do NOT set GOSUMDB or GOTOOLCHAIN). The machine is heavily loaded by other jobs: allow generous timeouts and do not conclude "flaky" from a single slow run. Final message: a short list of the changes and the verification results you observed.""")
