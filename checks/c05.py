"""C05 -- reconfiguring the live server never races with, crashes or stalls DNS serving."""
import json
import os
import re
import subprocess
import sys
import time
from concurrent.futures import ThreadPoolExecutor

import vlib

sys.path.insert(0, os.path.join(vlib.VERIF, "tools"))
import raceparse  # noqa: E402

PKG = "internal/home"
FILES = ["zz_verif_common_test.go", "zz_verif_c05_test.go"]

# Non-test shim files overlaid into these packages: each exposes ONE step of a
# background worker's own loop body to the harness (no behaviour is changed).
SHIMS = ["internal/filtering", "internal/stats", "internal/querylog"]

# Spec writer (admin op or background worker) -> harness family that executes it.
FAMILY_OF_WRITER = {
    "FilterRefresh": "FilterLists",      # /control/filtering/refresh + the periodic worker
    "StatsFlush": "StatsConf",           # stats reset / config change force unit swaps
    "QLogFlush": "QueryLogConf",         # MemSize=7: the buffer is flushed constantly under load
    "ProtectionTimer": "Protection",     # pause with a 15 ms duration: the re-enable worker fires
}


def build_binary(ctx, race=True):
    overlay = {os.path.join(vlib.REPO, PKG, f): os.path.join(vlib.HARNESS, PKG, f) for f in FILES}
    for pkg in SHIMS:
        overlay[os.path.join(vlib.REPO, pkg, "zz_verif_c05_shim.go")] = os.path.join(vlib.HARNESS, pkg, "zz_verif_c05_shim.go")
    ov = ctx.path("c05_overlay.json")
    json.dump({"Replace": overlay}, open(ov, "w"))
    out = ctx.path("home.c05.test")
    cmd = ["go", "test", "-c", "-overlay", ov, "-vet=off", "-o", out]
    if race:
        cmd.append("-race")
    cmd.append("./" + PKG)
    p = subprocess.run(cmd, cwd=vlib.REPO, env=vlib.go_env(), capture_output=True, text=True, timeout=900)
    if p.returncode != 0 or not os.path.exists(out):
        raise vlib.Inconclusive("C05 harness build failed:\n" + (p.stdout + p.stderr)[-3000:])
    return out


def run_gated(ctx, binary, rounds, seed, tag=""):
    d = ctx.path("run_gated%s" % tag)
    os.makedirs(d, exist_ok=True)
    outp = os.path.join(d, "out.ndjson")
    logp = os.path.join(d, "log.txt")
    env = vlib.go_env({"GORACE": "halt_on_error=0", "VERIF_DIR": d, "VERIF_OUT": outp,
                       "VERIF_C05_ROUNDS": str(rounds), "VERIF_SEED": str(seed)})
    with open(logp, "w") as fh:
        try:
            p = subprocess.run([binary, "-test.run", "^TestZZVerifC05Gated$", "-test.timeout", "%ds" % (120 + 25 * rounds)],
                               cwd=d, env=env, stdout=fh, stderr=subprocess.STDOUT, timeout=180 + 25 * rounds)
            rc = p.returncode
        except subprocess.TimeoutExpired:
            rc = -9
    return {"family": "Gated", "rc": rc, "log": open(logp, errors="replace").read(), "rows": vlib.read_ndjson(outp), "dir": d}


def analyse_gated(ctx, res):
    rows = [r for r in res["rows"] if r.get("kind") == "gated"]
    bad = [r for r in rows if r.get("bad")]
    races = raceparse.parse(res["log"])
    seen = set()
    for r in races:
        key = race_key(r["pair"])
        if key is None or (key, r["pair"]) in seen:
            continue
        seen.add((key, r["pair"]))
        ctx.disagreement(key, {"family": "Gated", "pair": list(r["pair"]), "report": r["raw"]},
                         "data race between %s and %s (gated interleavings)" % r["pair"])
    return rows, bad


def run_family(ctx, binary, fam, ms, seed, tag=""):
    d = ctx.path("run_%s%s" % (fam, tag))
    os.makedirs(d, exist_ok=True)
    outp = os.path.join(d, "out.ndjson")
    logp = os.path.join(d, "log.txt")
    env = vlib.go_env({
        "GORACE": "halt_on_error=0",
        "VERIF_DIR": d, "VERIF_OUT": outp, "VERIF_C05_MS": str(ms), "VERIF_C05_FAMILIES": fam,
        "VERIF_SEED": str(seed),
    })
    t = time.time()
    limit = ms / 1000.0 + 90
    with open(logp, "w") as fh:
        try:
            p = subprocess.run([binary, "-test.run", "^TestZZVerifC05Stress$", "-test.timeout", "%ds" % int(limit)],
                               cwd=d, env=env, stdout=fh, stderr=subprocess.STDOUT, timeout=limit + 30)
            rc = p.returncode
        except subprocess.TimeoutExpired:
            rc = -9
    log = open(logp, errors="replace").read()
    rows = vlib.read_ndjson(outp)
    return {"family": fam, "rc": rc, "log": log, "rows": rows, "wall": time.time() - t, "dir": d}


_blocked = re.compile(r"^goroutine \d+ \[(sync\.(?:RW)?Mutex\.(?:R?Lock))(?:, (\d+) minutes)?\]:$")


def lock_blocked_frames(dump):
    """Top application frames of goroutines blocked on a mutex in a goroutine dump."""
    frames = set()
    blocks = dump.split("\n\n")
    for b in blocks:
        lines = b.strip().splitlines()
        if not lines or not _blocked.match(lines[0].strip()):
            continue
        for ln in lines[1:]:
            ln = ln.strip()
            if ln.startswith("github.com/AdguardTeam/AdGuardHome/internal/") and ".zzC05" not in ln:
                fn = ln[len("github.com/AdguardTeam/AdGuardHome/internal/"):]
                fn = fn[:fn.rindex("(")] if "(" in fn else fn
                fn = re.sub(r"\.func\d+(\.\d+)*$", "", fn)
                frames.add(fn)
                break
    return sorted(frames)


# One open finding covers every race whose one side is the serialisation of the
# live filtering configuration: package home keeps the very *filtering.Config
# object it handed to filtering.New as config.Filtering, so config.write (YAML
# encoding under home's own lock) and DNSFilter.WriteDiskConfig (`*c = *d.conf`
# onto itself) read and write fields that the filter guards with confMu /
# filtersMu or reads without any lock on the request path.
SHARED_CONF_SITES = {"filtering.(*DNSFilter).WriteDiskConfig", "home.(*configuration).write"}
SHARED_CONF_KEY = "race:config.write-serialises-live-filtering-config"
# Frames that only run in the harness's own teardown (the server is being
# closed: not "while DNS queries are being served").
TEARDOWN = {"home.closeDNSServer", "home.stopDNSServer", "HARNESS"}


def race_key(pair):
    if set(pair) & TEARDOWN:
        return None
    if set(pair) & SHARED_CONF_SITES:
        return SHARED_CONF_KEY
    return "race:" + "|".join(pair)


def analyse(ctx, res, reproduced_stall=None):
    """Turn one family run into disagreements.  Returns summary dict."""
    fam = res["family"]
    summ = {"family": fam, "races": 0, "queries": 0, "admin_ops": 0, "stalled": False}
    famrow = next((r for r in res["rows"] if r.get("kind") == "family"), None)
    races = raceparse.parse(res["log"])
    summ["races"] = len(races)
    seen = set()
    for r in races:
        key = race_key(r["pair"])
        if key is None:
            summ["ignored_teardown_races"] = summ.get("ignored_teardown_races", 0) + 1
            continue
        if (key, r["pair"]) in seen:
            continue
        seen.add((key, r["pair"]))
        ctx.disagreement(key, {"family": fam, "pair": list(r["pair"]), "report": r["raw"]},
                         "data race between %s and %s (family %s)" % (r["pair"][0], r["pair"][1], fam))
    dump = ""
    if famrow:
        summ["queries"] = famrow["queries"]
        summ["admin_ops"] = famrow["admin_ops"]
        summ["classes"] = famrow["classes"]
        summ["codes"] = famrow.get("codes")
        summ["worker_steps"] = famrow.get("worker_steps", 0)
        for pn in famrow.get("panics") or []:
            top = "?"
            for ln in pn.splitlines():
                ln = ln.strip()
                if ln.startswith("github.com/AdguardTeam/AdGuardHome/internal/") and ".zzC05" not in ln:
                    top = ln[len("github.com/AdguardTeam/AdGuardHome/internal/"):].split("(0x")[0]
                    top = re.sub(r"\(\.\.\.\)$|\(\)$", "", top)
                    break
            ctx.disagreement("panic:" + top, {"family": fam, "panic": pn[:6000]}, "panic in %s (family %s)" % (top, fam))
        for mf in famrow.get("malformed") or []:
            ctx.disagreement("malformed-response", {"family": fam, "what": mf}, "malformed DNS response: " + mf[:200])
        if famrow.get("stalls"):
            summ["stalled"] = True
            dump = "\n".join(famrow["stalls"])
    if res["rc"] not in (0, 1) or "test timed out" in res["log"] or (famrow is None):
        # The process hung or crashed before reporting.
        summ["stalled"] = True
        dump += "\n" + res["log"]
        m = re.search(r"^(panic: (?!test timed out).*|fatal error: .*)$", res["log"], re.M)
        if m and "test timed out" not in m.group(1):
            ctx.disagreement("crash:" + m.group(1)[:80], {"family": fam, "log": res["log"][-8000:]},
                             "process crashed: %s (family %s)" % (m.group(1)[:200], fam))
            summ["stalled"] = False
    summ["stall_frames"] = lock_blocked_frames(dump) if summ["stalled"] else []
    summ["stall_dump"] = dump[-20000:] if summ["stalled"] else ""
    return summ


# ------------------------------------------------------------------ lock order
BASELINE = os.path.join(vlib.VERIF, "checks", "c05_lockorder_baseline.json")


def extract_lockgraph(ctx):
    out = ctx.path("lockgraph.json")
    p = subprocess.run(["go", "run", os.path.join(vlib.VERIF, "tools", "lockgraph", "main.go"), "-out", out],
                       cwd=vlib.REPO, env=vlib.go_env(), capture_output=True, text=True, timeout=600)
    if p.returncode != 0 or not os.path.exists(out):
        raise vlib.Inconclusive("lockgraph extractor failed:\n" + (p.stdout + p.stderr)[-2000:])
    g = json.load(open(out))
    if g["functions"] < 500 or len(g["locks"]) < 10 or len(g["edges"]) < 30:
        raise vlib.Inconclusive("lockgraph extraction looks empty: %d functions, %d locks, %d edges" % (
            g["functions"], len(g["locks"]), len(g["edges"])))
    return g


def sccs(nodes, adj):
    """Tarjan; returns list of sets."""
    index, low, onst, st, out = {}, {}, set(), [], []
    sys.setrecursionlimit(10000)

    def strong(v):
        index[v] = low[v] = len(index)
        st.append(v)
        onst.add(v)
        for w in adj.get(v, ()):
            if w not in index:
                strong(w)
                low[v] = min(low[v], low[w])
            elif w in onst:
                low[v] = min(low[v], index[w])
        if low[v] == index[v]:
            comp = set()
            while True:
                w = st.pop()
                onst.discard(w)
                comp.add(w)
                if w == v:
                    break
            out.append(comp)
    for v in nodes:
        if v not in index:
            strong(v)
    return out


def edge_id(e):
    return "%s(%s)>%s(%s)" % (e["held"], e["hmode"], e["acq"], e["amode"])


def tla_str(s):
    return '"' + s.replace("\\", "/").replace('"', "'") + '"'


def lock_order(ctx):
    """Static half: extract the lock graph, let TLC look for deadlocks among the
    pairs that lie on cycles.  Returns summary dict."""
    g = extract_lockgraph(ctx)
    adj = {}
    nodes = set()
    for e in g["edges"]:
        adj.setdefault(e["held"], set()).add(e["acq"])
        nodes.update((e["held"], e["acq"]))
    cyc_nodes = set()
    for comp in sccs(sorted(nodes), adj):
        if len(comp) > 1 or any(n in adj.get(n, ()) for n in comp):
            cyc_nodes |= comp
    comp_of = {}
    for comp in sccs(sorted(nodes), adj):
        for n in comp:
            comp_of[n] = frozenset(comp)
    cyc_edges = [e for e in g["edges"] if e["held"] in cyc_nodes and comp_of[e["held"]] == comp_of[e["acq"]]]
    baseline = json.load(open(BASELINE)) if os.path.exists(BASELINE) else {"accepted": []}
    accepted = {a["edge"]: a for a in baseline["accepted"]}
    live = [e for e in cyc_edges if edge_id(e) not in accepted]
    summ = {"functions": g["functions"], "locks": len(g["locks"]), "edges": len(g["edges"]),
            "edges_on_cycles": [edge_id(e) for e in cyc_edges],
            "accepted_out_of_scope": sorted(set(edge_id(e) for e in cyc_edges) & set(accepted)),
            "deadlocks": []}
    for k in summ["accepted_out_of_scope"]:
        ctx.log("NOTE lock-order cycle edge accepted as out of scope: %s (%s)" % (k, accepted[k]["reason"]))
    # Self-test of the model on a fixed AB/BA pair of write locks: TLC must find
    # the deadlock those two paths admit, otherwise the deadlock half is vacuous.
    facts = ctx.path("LockOrderFacts_selftest.tla")
    with open(facts, "w") as fh:
        fh.write("--------------------------- MODULE LockOrderFacts ---------------------------\n")
        fh.write("NThreads == 2\nPaths == {\n  << <<\"selftest.A\", \"w\">>, <<\"selftest.B\", \"w\">> >>,\n"
                 "  << <<\"selftest.B\", \"w\">>, <<\"selftest.A\", \"w\">> >>\n}\n")
        fh.write("=============================================================================\n")
    r = ctx.tlc("LockOrder", "LockOrder.cfg", workers=2, timeout=300, extra_files=[(facts, "LockOrderFacts.tla")],
                expect_violation=True)
    if r["violated"] != "NoDeadlock":
        raise vlib.Inconclusive("LockOrder self-test: TLC did not find the deadlock of an AB/BA pair")
    summ["selftest"] = "TLC finds the deadlock of a fixed AB/BA pair of write locks"
    rounds = 0
    while live and rounds < 6:
        rounds += 1
        locks = sorted({e["held"] for e in live} | {e["acq"] for e in live})
        paths = ["<< <<%s, %s>>, <<%s, %s>> >>" % (tla_str(e["held"]), tla_str(e["hmode"]), tla_str(e["acq"]), tla_str(e["amode"]))
                 for e in live]
        paths += ["<< <<%s, \"w\">> >>" % tla_str(l) for l in locks if "w" in g["locks"].get(l, "")]
        nthreads = 4 if len(paths) <= 6 else 3
        facts = ctx.path("LockOrderFacts_%d.tla" % rounds)
        with open(facts, "w") as fh:
            fh.write("--------------------------- MODULE LockOrderFacts ---------------------------\n")
            fh.write("\\* generated by checks/c05.py from tools/lockgraph output on %s\n" % vlib.REPO)
            fh.write("NThreads == %d\nPaths == {\n  %s\n}\n" % (nthreads, ",\n  ".join(paths)))
            fh.write("=============================================================================\n")
        r = ctx.tlc("LockOrder", "LockOrder.cfg", workers=4, timeout=600, extra_files=[(facts, "LockOrderFacts.tla")],
                    expect_violation=True)
        if not r["violated"]:
            if not r["ok"]:
                raise vlib.Inconclusive("LockOrder TLC run failed:\n" + r["out"][-2000:])
            break
        # Identify the blocked threads' two-lock paths in the final state.
        o = r["out"]
        i = o.rfind("/\\ path =")
        j = o.find("\n/\\ ", i + 5)
        last = re.sub(r"\s+", " ", o[i:j if j > 0 else len(o)]) if i >= 0 else ""
        blocked = [e for e in live if ('<<"%s", "%s">>, <<"%s", "%s">>' % (e["held"], e["hmode"], e["acq"], e["amode"])) in last]
        if not blocked:
            raise vlib.Inconclusive("could not identify deadlocked paths in TLC output:\n" + r["out"][-3000:])
        key = "lockcycle:" + "+".join(sorted(edge_id(e) for e in blocked))
        summ["deadlocks"].append(key)
        ctx.disagreement(key, {"edges": blocked, "tlc_trace": r["out"][-6000:]},
                         "lock order extracted from the source admits a deadlock (TLC trace): " + "; ".join(
                             "%s holds %s(%s) and acquires %s(%s) via %s at %s" % (e["fn"], e["held"], e["hmode"], e["acq"], e["amode"], e["via"] or "itself", e["pos"])
                             for e in blocked))
        live = [e for e in live if e not in blocked]
    return summ


def run(ctx):
    # Half 1: the abstract protocol and the derivation of the scenario families.
    mc = ctx.tlc("Concurrency", "Concurrency.mc.cfg", workers=6, timeout=600)
    fams = [v for v in mc["vectors"] if "families" in v]
    if not fams:
        raise vlib.Inconclusive("Concurrency.tla emitted no scenario families")
    spec_fams = fams[0]["families"]
    wanted = {}
    for w, stages in spec_fams.items():
        if stages:
            wanted.setdefault(FAMILY_OF_WRITER.get(w, w), set()).update(stages)
    lo = lock_order(ctx)
    binary = build_binary(ctx, race=True)
    ms = 2500 if ctx.quick else 15000
    families = sorted(wanted) + ["Reads"]
    if "FilterRefresh" in (fams[0].get("persist") or []):
        # Concurrency.tla PersistPairs: config.write (reader of every cell) against the
        # refresh worker's write-back of the filter set and its enabled flag.
        families.append("Persist")
    par = 4 if ctx.quick else 6
    with ThreadPoolExecutor(max_workers=par) as ex:
        results = list(ex.map(lambda f: run_family(ctx, binary, f, ms, ctx.seed), families))
    summaries = []
    total_q = total_a = total_races = 0
    for res in results:
        s = analyse(ctx, res)
        if s["stalled"]:
            # Reproduce the stall in isolation with a longer run before reporting it.
            ctx.log("family %s stalled; re-running alone" % s["family"])
            res2 = run_family(ctx, binary, s["family"], ms * 2, ctx.seed + 1000, tag="_again")
            s2 = analyse(ctx, res2)
            if s2["stalled"]:
                frames = sorted(set(s["stall_frames"]) | set(s2["stall_frames"]))
                key = "deadlock:" + "|".join(frames)
                ctx.disagreement(key, {"family": s["family"], "blocked_in": frames, "dump": s2["stall_dump"]},
                                 "DNS serving / admin API stalled in family %s; goroutines blocked on locks in %s" % (
                                     s["family"], ", ".join(frames)))
            else:
                ctx.notes.append("stall in family %s not reproduced" % s["family"])
                s["unreproduced_stall"] = True
            s["stall_dump"] = ""
        s.pop("stall_dump", None)
        summaries.append(s)
        total_q += s["queries"]
        total_a += s["admin_ops"]
        total_races += s["races"]
    # Deterministic interleavings: requests parked in the Upstream stage while
    # each admin operation runs.
    grounds = 3 if ctx.quick else 12
    gres = run_gated(ctx, binary, grounds, ctx.seed)
    grows, gbad = analyse_gated(ctx, gres)
    if gbad:
        # Reproduce in a second, isolated run before reporting.
        gres2 = run_gated(ctx, binary, grounds, ctx.seed, tag="_again")
        grows2, gbad2 = analyse_gated(ctx, gres2)
        fams_bad = {r["family"] for r in gbad} & {r["family"] for r in gbad2}
        for r in gbad2:
            if r["family"] in fams_bad:
                what = r["bad"][0].splitlines()[0][:200]
                kind = "stall" if what.startswith("STALL") else ("panic" if what.startswith("panic") else
                                                                  ("stale-engine" if what.startswith("rule change after") else
                                                                   ("list-state-corrupted" if what.startswith("list state corrupted") else "no-wellformed-response")))
                ctx.disagreement("gated:%s:%s" % (kind, r["family"]), {"family": r["family"], "round": r["round"], "bad": [b[:8000] for b in r["bad"]], "replies": r["replies"]},
                                 ("DHCP lease removed while a request that has looked it up is in flight: %s" % what) if r.get("round", 0) >= 2000
                                 else ("refresh worker parked in a list download during a list operation: %s" % what) if r.get("round", 0) >= 1000
                                 else "request parked in Upstream during admin op %s: %s" % (r["family"], what))
        if not fams_bad:
            ctx.notes.append("gated failure not reproduced: %s" % sorted({r["family"] for r in gbad}))
    if gres["rc"] not in (0, 1) and "test timed out" in gres["log"]:
        # The whole driver hung: requests or admin calls never returned.  Treat
        # it like a stall: reproduce once, key by the lock-blocked frames.
        gres2 = run_gated(ctx, binary, grounds, ctx.seed + 1, tag="_hang")
        if gres2["rc"] not in (0, 1) and "test timed out" in gres2["log"]:
            frames = sorted(set(lock_blocked_frames(gres["log"])) | set(lock_blocked_frames(gres2["log"])))
            ctx.disagreement("deadlock:" + "|".join(frames), {"family": "Gated", "blocked_in": frames, "dump": gres2["log"][-20000:]},
                             "gated interleavings: the server stopped answering (driver hung twice); goroutines blocked on locks in %s" % ", ".join(frames))
        else:
            ctx.notes.append("gated driver hang not reproduced")
    if (not grows or gres["rc"] not in (0, 1)) and not gbad and not ctx.violations:
        raise vlib.Inconclusive("gated interleaving driver did not complete:\n" + gres["log"][-2000:])
    parked = sum(r.get("parked", 0) for r in grows)
    if parked == 0 and not ctx.violations:
        raise vlib.Inconclusive("gated driver never parked a request in the upstream")
    wparked = [r for r in grows if 1000 <= r.get("round", 0) < 1500]
    dparked = [r for r in grows if r.get("round", 0) >= 2000]
    if (not dparked or not any(r.get("parked") for r in dparked)) and not ctx.violations:
        raise vlib.Inconclusive("gated driver never removed a DHCP lease under a request in flight")
    if (not wparked or not any(r.get("parked") for r in wparked)) and not ctx.violations:
        raise vlib.Inconclusive("gated driver never parked the refresh worker in a list download")
    unrepro = [s["family"] for s in summaries if s.get("unreproduced_stall")]
    # Vacuity: every family must have executed queries and successful admin operations.
    for s in summaries:
        if s.get("stalled"):
            continue
        ok_codes = sum(n for k, n in (s.get("codes") or {}).items() if k.endswith(" 200") and not k.startswith("GET "))
        if s["family"] != "Reads" and ok_codes == 0:
            raise vlib.Inconclusive("family %s executed no successful admin operation: %s" % (s["family"], s.get("codes")))
        if s["family"] in ("FilterLists", "StatsConf", "QueryLogConf") and not s.get("worker_steps"):
            raise vlib.Inconclusive("family %s: background worker steps did not run" % s["family"])
        if s["queries"] < 20:
            raise vlib.Inconclusive("family %s served only %d queries" % (s["family"], s["queries"]))
    # A stall that does not reproduce in the isolated second run is recorded in
    # the evidence but is neither a violation nor a reason to fail the run: on
    # a heavily loaded machine three consecutive time-outs can happen without
    # any defect, and a genuine deadlock reproduces (it never resolves).
    cov = {
        "traces_validated_against_impl": len(results) + len(grows),
        "evaluations": total_q + total_a,
        "distinct_nontrivial": len([s for s in summaries if s["queries"] > 0 and s["admin_ops"] > 0]),
        "rule": "one execution per scenario family derived from Concurrency.tla's conflict pairs (writer x request stage sharing a cell); "
                "non-trivial = the family ran both DNS queries and admin operations concurrently under the race detector",
        "queries": total_q, "admin_ops": total_a, "race_reports": total_races,
        "families": {s["family"]: {k: s.get(k) for k in ("queries", "admin_ops", "races", "classes", "stalled")} for s in summaries},
        "lock_order": lo,
        "gated_interleavings": len(grows), "gated_requests_parked": parked,
        "gated_refresh_worker_parked": sum(1 for r in wparked if r.get("parked")),
        "gated_lease_removed_mid_request": sum(1 for r in dparked if r.get("parked")),
        "unreproduced_stalls": unrepro,
        "conflict_pairs": fams[0]["pairs"], "spec_families": spec_fams,
        "samples": [summaries[0], summaries[-1]],
        "exhaustive": False,
    }
    return ctx.finish("model_checking", cov, assumptions=[
        "the Go race detector reports only real races but only on executed schedules; absence of a report is not proof of absence",
        "stall = 3 consecutive 4 s query timeouts or an admin call not returning in 20 s, reproduced in a second isolated run",
        "safe browsing / parental lookups are never enabled (their lookup service is not reachable offline)"])


def replay(ctx, path):
    rec = json.load(open(path))["record"]
    binary = build_binary(ctx, race=True)
    res = run_family(ctx, binary, rec["family"], 8000, ctx.seed)
    s = analyse(ctx, res)
    print(json.dumps({k: s.get(k) for k in ("family", "races", "queries", "admin_ops", "stalled", "stall_frames")}, indent=1))
    for key, p, what in ctx.violations:
        print("observed:", key, what)
    return 1 if ctx.violations else 0
