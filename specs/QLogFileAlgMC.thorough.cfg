SPECIFICATION Spec
CONSTANTS
  MaxEntry = 4
  BufSize = 12
  DepthLimit = 100
  EmptyFileSeek = {"ioerr", "tooEarly"}
  MaxLines = 6
  MinLen = 1
  MaxLen = 3
  SkipEmpty = TRUE
VIEW View
PROPERTY Refines
INVARIANTS TargetInRange Premise PositionOnLine BufferCovers SearchInterval DepthBounded NLBelowAgrees NeverFragment
