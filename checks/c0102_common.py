"""Shared machinery of the C01 / C02 checks (DnsPipeline.tla + dnsforward harness)."""
import json
import os
import random
import vlib

PKG = "internal/dnsforward"
FILES01 = ["zz_verif_common_test.go", "zz_verif_c0102_test.go", "zz_verif_c01_test.go"]
FILES02 = ["zz_verif_common_test.go", "zz_verif_c0102_test.go", "zz_verif_c01_test.go", "zz_verif_c02_test.go"]
SHARDS = 6
EXTRA_ENV = {}      # set by a check module: extra environment of its replay runs
TLC_WORKERS = 6


def model_check(ctx):
    """Half 1: the stepwise pipeline model, with coverage for the vacuity guard."""
    for m in ("RuleEngine", "DnsPipelineCore", "DnsPipeline", "TraceDnsPipeline"):
        ctx.sany(m)
    r = ctx.tlc("DnsPipeline", "DnsPipeline.mc.cfg", workers=TLC_WORKERS, timeout=900, coverage=True)
    # Every stage action must have been taken, and both kinds of behaviours
    # (C01 and C02) must have been explored.
    out = r["out"]
    import re
    never = []
    for act in ("Pick01", "Pick02", "Before", "Initial", "FilterBefore", "Upstream", "FilterAfter", "Log",
                "Boot", "Ask", "Repeat", "Reconfigure", "ReconfigureFails", "EditClients", "ProtAPI", "PauseExpires", "WriteBack",
                "Finish"):
        # TLC prints interim coverage every minute: the LAST report is the final one
        ms = re.findall(r"<%s line \d+, col \d+ to line \d+, col \d+ of module DnsPipeline>: (\d+):(\d+)" % act, out)
        if not ms or int(ms[-1][1]) == 0:
            never.append(act)
    if never:
        raise vlib.Inconclusive("vacuous model check: actions never taken: %s" % never)
    if r["distinct"] < 10000:
        raise vlib.Inconclusive("model check explored only %d states" % r["distinct"])
    return r


def rule_key(r):
    return "%d@%s" % (r["id"], r["place"])


def cfg_key(c):
    return json.dumps(c, sort_keys=True)


def why_sig(entry):
    """The set of 'why' codes of one table entry, as a string."""
    return "".join(sorted({o["why"] for o in entry}))


def go_replay(ctx, test, files, vin, vout, shards=SHARDS, timeout=1500, settle_ms=2000):
    # settle_ms bounds the wait for a reconfiguration of a live server to take effect
    env = {"VERIF_IN": vin, "VERIF_OUT": vout, "VERIF_SHARDS": str(shards), "VERIF_WORK": ctx.path("gowork"),
           "VERIF_SETTLE_MS": str(settle_ms)}
    env.update(EXTRA_ENV)
    os.makedirs(ctx.path("gowork"), exist_ok=True)
    rc, out = ctx.go_test(PKG, files, "^%s$" % test, env=env, timeout=timeout)
    rows = vlib.read_ndjson(vout)
    summ = [r for r in rows if r.get("kind") == "summary"]
    if rc != 0 or len(summ) != max(shards, 1):
        raise vlib.Inconclusive("%s did not complete (rc=%d, %d summaries):\n%s" % (test, rc, len(summ), out[-3000:]))
    return rows, summ


def flag_sig(cfg):
    """What a live server cannot change through the reconfiguration entry points the
    harness drives (rule lists, custom rules, blocking mode, adding/removing the
    persistent client): configurations with the same signature can follow each other
    on ONE server."""
    cl = dict(cfg["client"])
    cl.pop("known")
    # (the protection state is NOT part of it: the walks switch it through the two
    # protection APIs)
    return json.dumps([cfg["filt"], cfg["svc"], cfg["aaaaOff"], cfg["cache"], cl], sort_keys=True)


def make_walks(cfgs, rng, kind, length=4, extra=()):
    """Chain the configurations into walks of one live server: `length` different
    configurations with the same flag signature (seeded order), then the first one
    again ("... and back").  Any sequence is a behaviour of DnsPipeline!SpecHist
    (Reconfigure may install any configuration), and its invariant HistVerdict says the
    verdict table after a reconfiguration is the table of the current configuration."""
    groups = {}
    for c in cfgs:
        groups.setdefault(flag_sig(c["cfg"]), []).append(c)
    walks = []
    for sig in sorted(groups):
        g = groups[sig]
        rng.shuffle(g)
        for j in range(0, len(g), length):
            chunk = g[j:j + length]
            steps = chunk + ([chunk[0]] if len(chunk) > 1 else [])
            steps = [dict({"ci": c["i"], "cfg": c["cfg"], "tab": c["tab"]},
                          **{k: c[k] for k in extra if k in c}) for c in steps]
            if rng.randrange(4) == 0:
                # DnsPipeline!ReconfigureFails: after one of the steps a rebuild of the
                # engines fails (a fault is injected); nothing changes, so the same
                # configuration and tables are expected once more
                j = rng.randrange(len(steps))
                steps.insert(j + 1, dict(steps[j], fail=True))
            walks.append({"kind": kind, "i": len(walks), "steps": steps})
    return walks


def replay_with_confirmation(ctx, test, files, header, walks, tag):
    """Replay the walks; re-run every walk that showed a disagreement alone, in a
    fresh process; return (rows of confirmed bad entries, stats)."""
    vin, vout = ctx.path(tag + "_in.ndjson"), ctx.path(tag + "_out.ndjson")
    vlib.write_ndjson(vin, [header] + walks)
    rows, summ = go_replay(ctx, test, files, vin, vout)
    skips = [r for r in rows if r.get("kind") == "skip"]
    stats = {"walks": sum(s["walks"] for s in summ), "configs": sum(s["configs"] for s in summ),
             "evals": sum(s["evals"] for s in summ), "udp": sum(s.get("udp", 0) for s in summ),
             "reconfigurations": sum(s.get("reconfigurations", 0) for s in summ),
             "faults": sum(s.get("faults", 0) for s in summ),
             "flaky": 0, "skipped": sum(r.get("configs", 1) for r in skips),
             "samples": [r for r in rows if r.get("kind") == "sample"][:3]}
    bad = [r for r in rows if r.get("kind") == "bad"]
    confirmed = []
    if bad:
        by_i = {l["i"]: l for l in walks}
        ids = sorted({b["i"] for b in bad})[:30]
        vin2, vout2 = ctx.path(tag + "_in2.ndjson"), ctx.path(tag + "_out2.ndjson")
        vlib.write_ndjson(vin2, [header] + [by_i[i] for i in ids])
        # the same histories once more, each on a fresh server, alone, with a four times
        # longer bound on the wait for a reconfiguration to take effect
        rows2, _ = go_replay(ctx, test, files, vin2, vout2, shards=SHARDS, settle_ms=8000)
        again = {(r["i"], r["s"], r["q"]) for r in rows2 if r.get("kind") == "bad"}
        for b in bad:
            if (b["i"], b["s"], b["q"]) in again:
                w = by_i[b["i"]]
                b["walk"] = dict(w, steps=w["steps"][:b["s"] + 1])
                b["header"] = header
                b["seed"] = ctx.seed     # the concrete choices (spelling, operations) are seeded
                confirmed.append(b)
        stats["flaky"] = len({(b["i"], b["s"], b["q"]) for b in bad if b["i"] in ids} - again)
    total = sum(len(w["steps"]) for w in walks)
    if stats["skipped"] > max(5, total // 50):
        raise vlib.Inconclusive("%d configurations could not be built/reconfigured: %s" % (stats["skipped"], skips[:2]))
    if stats["configs"] + stats["skipped"] != total:
        raise vlib.Inconclusive("replayed %d of %d configuration visits" % (stats["configs"], total))
    return confirmed, stats


def replay_stored_walk(ctx, test, files, rec, tag):
    """--replay of a direction-A record: walk the stored history again."""
    ctx.seed = int(rec.get("seed", ctx.seed))
    w = dict(rec["walk"], i=rec["i"])
    confirmed, st = replay_with_confirmation(ctx, test, files, rec["header"], [w], tag)
    hits = [b for b in confirmed if (b["s"], b["q"]) == (rec["s"], rec["q"])]
    print(json.dumps({"history": rec.get("history"), "expected": rec["want"],
                      "observed": [b["got"] for b in hits] or "admissible",
                      "concrete": [b["concrete"] for b in hits]}, indent=1))
    return 1 if hits else 0


def trace_validate(ctx, test, files, n_cfg, tag, only=None):
    """Direction B: record a trace from the real server, let TLC judge it.
    A few corrupted copies of accepted lines are appended; TLC must reject
    exactly those (binding demonstration for the trace direction)."""
    tout = ctx.path(tag + "_trace.ndjson")
    env = {"VERIF_OUT": tout, "VERIF_N": str(n_cfg), "VERIF_WORK": ctx.path("gowork")}
    if only is not None:
        env["VERIF_ONLY"] = ",".join(str(x) for x in only)
    os.makedirs(ctx.path("gowork"), exist_ok=True)
    rc, out = ctx.go_test(PKG, files, "^%s$" % test, env=env, timeout=900)
    rows = [r for r in vlib.read_ndjson(tout) if r.get("ev") in ("cfg", "q")]
    if rc != 0 or not rows:
        raise vlib.Inconclusive("%s did not complete:\n%s" % (test, out[-3000:]))
    nreal = len(rows)
    # corrupted copies: appended after a copy of their configuration line
    rng = random.Random(ctx.seed)
    qidx = [i for i, r in enumerate(rows) if r["ev"] == "q"]
    corrupt = []
    for i in rng.sample(qidx, min(6, len(qidx))):
        j = i
        while rows[j]["ev"] != "cfg":
            j -= 1
        r = json.loads(json.dumps(rows[i]))
        # a single corrupted field: the number of upstream exchanges
        r["obs"]["calls"] = r["obs"]["calls"] + 2
        r["corrupt"] = True
        rows.append(rows[j])
        rows.append(r)
        corrupt.append(len(rows))
    slim = [{k: v for k, v in r.items() if k in ("ev", "cfg", "req", "ans", "obs", "rep")} for r in rows]
    tfile = ctx.path(tag + "_trace_tlc.ndjson")
    vlib.write_ndjson(tfile, slim)
    r = ctx.tlc("TraceDnsPipeline", "TraceDnsPipeline.cfg", workers=1, timeout=900,
                extra_files=[(tfile, "trace.ndjson")])
    if not r["vectors"]:
        raise vlib.Inconclusive("trace spec produced no verdict")
    verdict = r["vectors"][-1]
    if verdict["n"] != len(rows):
        raise vlib.Inconclusive("trace spec consumed %s of %d lines" % (verdict["n"], len(rows)))
    badset = set(verdict["bad"])
    missed = [c for c in corrupt if c not in badset]
    if missed:
        raise vlib.Inconclusive("trace spec accepted corrupted lines %s: it does not bind" % missed)
    real_bad = sorted(b for b in badset if b <= nreal)
    return rows[:nreal], real_bad, len(corrupt)


def cfg_index_of_line(rows, line_no):
    """0-based index of the configuration a (1-based) trace line belongs to."""
    ci = -1
    for r in rows[:line_no]:
        if r["ev"] == "cfg":
            ci += 1
    return ci


def replay_trace_record(ctx, test, files, rec, tag):
    """Re-drive the configuration of a stored direction-B record with the seed
    it was recorded under and let TLC judge the same request again."""
    ctx.seed = int(rec["seed"])
    rows, bad, _ = trace_validate(ctx, test, files, int(rec["n_cfg"]), tag, only=[int(rec["ci"])])
    sig = lambda r: json.dumps([r["req"], r["ans"]], sort_keys=True)
    hits = [rows[b - 1] for b in bad if sig(rows[b - 1]) == sig(rec)]
    print(json.dumps({"request": rec["req"], "upstream_answer": rec["ans"], "lists": rec.get("lists"),
                      "observed_again": [h["obs"] for h in hits] or "admissible",
                      "concrete": [h.get("concrete") for h in hits]}, indent=1))
    return 1 if hits else 0
