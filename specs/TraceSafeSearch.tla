-------------------------- MODULE TraceSafeSearch --------------------------
(***************************************************************************)
(* Direction B for G03: a history recorded from the real code (one real    *)
(* DNSFilter with its HTTP handlers, a real client.Storage, engines with a *)
(* virtual clock) over ALL services, every rule host and its look-alikes,  *)
(* two persistent clients and a stranger.  Each line is one step: the      *)
(* action with its arguments, the observed reply, and the projected state  *)
(* after it (status, client records, which recently asked keys each engine *)
(* still remembers).                                                       *)
(*                                                                         *)
(* The specification state is carried along with SafeSearchCore's own      *)
(* operators (Answer, Touch, Age): a line is accepted iff                  *)
(*   - a query's verdict is in Answer(current settings ...),               *)
(*   - the projected settings and client records equal the specification's,*)
(*   - every remembered key is within the specification's memory bound.    *)
(* The memory bound follows the OBSERVED verdicts (an engine may remember  *)
(* only what it answered, for at most TTL ticks, never across a change of  *)
(* its settings), so that one rejected verdict does not cascade.           *)
(* Rejected lines are collected in `bad` and printed at the end.           *)
(***************************************************************************)
EXTENDS SafeSearchCore, TLC, Json, Integers

CONSTANT TTL

SX == INSTANCE SequencesExt

Trace == ndJsonDeserialize("trace.ndjson")

CNames == {"kid", "tv"}

ConfOf(j)   == [en |-> j.en, sv |-> SX!ToSet(j.sv)]
ClientOf(j) == [known |-> j.known, own |-> j.own, conf |-> ConfOf(j.conf)]
KeysOf(seq) == {[n |-> seq[i].n, q |-> seq[i].q] : i \in DOMAIN seq}

VARIABLES l, g, cls, gc, ccs, bad
tvars == <<l, g, cls, gc, ccs, bad>>

Init == /\ l = 1
        /\ g = OffConf
        /\ cls = [c \in CNames |-> NoClient]
        /\ gc = {}
        /\ ccs = [c \in CNames |-> {}]
        /\ bad = {}

ClOf(who)  == IF who \in CNames THEN cls[who] ELSE NoClient
Role(who)  == IF who \in CNames THEN "client" ELSE "other"

\* The next specification state after line x.
NextG(x) ==
    CASE x.act = "put"     -> ConfOf(x.c)
      [] x.act = "enable"  -> [g EXCEPT !.en = TRUE]
      [] x.act = "disable" -> [g EXCEPT !.en = FALSE]
      [] OTHER             -> g

NextCls(x) ==
    CASE x.act = "clset" -> [cls EXCEPT ![x.cn] = ClientOf(x.cr)]
      [] x.act = "cldel" -> [cls EXCEPT ![x.cn] = NoClient]
      [] OTHER           -> cls

Remembered(x) == x.act = "query" /\ x.out.k \in {"cname", "ip", "nodata"}

NextGc(x) ==
    CASE x.act \in {"put", "restart"} -> {}
      [] x.act = "tick" -> Age(gc, TTL)
      [] Remembered(x) /\ ~UsesOwn(ClOf(x.who), Role(x.who)) -> Touch(gc, x.lc, x.qt)
      [] OTHER -> gc

NextCcs(x) ==
    CASE x.act = "restart" -> [c \in CNames |-> {}]
      [] x.act \in {"clset", "cldel"} -> [ccs EXCEPT ![x.cn] = {}]
      [] x.act = "tick" -> [c \in CNames |-> Age(ccs[c], TTL)]
      [] Remembered(x) /\ UsesOwn(ClOf(x.who), Role(x.who)) -> [ccs EXCEPT ![x.who] = Touch(@, x.lc, x.qt)]
      [] OTHER -> ccs

\* Why line x is rejected ("" = accepted).
Why(x) ==
    LET g2 == NextG(x)
        c2 == NextCls(x)
        m2 == NextGc(x)
        k2 == NextCcs(x)
    IN
    IF x.act = "query" /\ [k |-> x.out.k, v |-> IF x.out.k \in {"pass", "nodata"} THEN "" ELSE x.out.v]
                            \notin Answer(g, ClOf(x.who), Role(x.who), x.prot, x.lc, x.qt)
    THEN "verdict"
    ELSE IF x.act # "query" /\ x.out.k # "ok" THEN "refused"
    ELSE IF ConfOf(x.pg) # g2 THEN "status"
    ELSE IF \E c \in CNames : ClientOf(x.pcl[c]) # c2[c] THEN "client"
    ELSE IF ~(KeysOf(x.glive) \subseteq Keys(m2)) THEN "memory-global"
    ELSE IF \E c \in CNames : ~(KeysOf(x.clive[c]) \subseteq Keys(k2[c])) THEN "memory-client"
    ELSE ""

Next ==
    /\ l <= Len(Trace)
    /\ LET x == Trace[l] IN
       /\ g' = NextG(x)
       /\ cls' = NextCls(x)
       /\ gc' = NextGc(x)
       /\ ccs' = NextCcs(x)
       /\ bad' = IF Why(x) = "" THEN bad ELSE bad \cup {<<l, Why(x)>>}
    /\ l' = l + 1
    /\ (l' = Len(Trace) + 1 => PrintT(<<"@@V", ToJson([n |-> Len(Trace), bad |-> bad'])>>))

Spec == Init /\ [][Next]_tvars
=============================================================================
