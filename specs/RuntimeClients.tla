--------------------------- MODULE RuntimeClients ---------------------------
(***************************************************************************)
(* G05 -- runtime clients and per-client upstreams of client.Storage as a  *)
(* state machine over the vocabulary of RuntimeClientsCore.tla.            *)
(*                                                                         *)
(*   rt       the runtime view: address -> one datum per source            *)
(*   leases   the DHCP server's lease table (environment)                  *)
(*   clients  the persistent registry (C04's) with upstream settings and   *)
(*            the "a current configuration is built" flag                  *)
(*   last     the label of the last step (history variable, hidden by the  *)
(*            VIEW; only the action properties read it)                    *)
(*                                                                         *)
(* One transition group per API call of client.Storage:                    *)
(*   upd     UpdateAddress(ip, host, whois)        (rDNS / WHOIS report)   *)
(*   arp     ReloadARP with the neighbour table T  (start, ticker, SIGHUP) *)
(*   hosts   a hosts-file update T arrives on HostsContainer.Upd()         *)
(*   lease   the DHCP server's table changes       (environment)           *)
(*   list    UpdateDHCP + RangeRuntime             (GET /control/clients)  *)
(*   look    ClientRuntime(ip)                                             *)
(*   who     Find(ip) else ClientRuntime(ip)       (clients/find, search)  *)
(*   add / updc / rem   Add / Update / RemoveByName of a persistent client *)
(*   common  UpdateCommonUpstreamConfig                                    *)
(*   cust    CustomUpstreamConfig(clientID, ip)                            *)
(*                                                                         *)
(* T<op>(s) is the SET of labelled transitions [a, out, dst, nd] of group  *)
(* op in state s: arguments, the reply the statement demands (for          *)
(* look/who/cust a set of admissible replies), the successor, and nd =     *)
(* "one of several admissible successors" (places where the documentation  *)
(* is silent).  Next takes exactly these transitions, Observe prints       *)
(* exactly these transitions: what TLC checks is what the Go harness       *)
(* replays (checks/g05.py verifies the counts).  nd-edges are explored and *)
(* checked by TLC but cannot be replayed as a tour step (the successor is  *)
(* not determined); they are exercised by the trace direction instead.     *)
(*                                                                         *)
(* TLC explores ALL histories over a finite universe U (cfg).              *)
(***************************************************************************)
EXTENDS RuntimeClientsCore, FiniteSetsExt, Functions, TLC, Json

CONSTANT U      \* the universe record; see the end of the module.  U.w = W

ASSUME U.w = W

VARIABLES rt, leases, clients, last
vars == <<rt, leases, clients, last>>
view == <<rt, leases, clients>>

RangeOf(s) == {s[i] : i \in DOMAIN s}
Idx(s, x)  == CHOOSE i \in DOMAIN s : s[i] = x

Addrs      == RangeOf(U.addrs)         \* addresses with runtime data
LeaseAddrs == RangeOf(U.leaseaddrs)    \* addresses the DHCP server may lease
QAddrs     == RangeOf(U.qaddrs)        \* source addresses of cust lookups
Names      == RangeOf(U.names)         \* persistent client names
Cids       == RangeOf(U.cids)          \* ClientIDs of cust lookups (NoId = none)

ASSUME U.dhcpOn => LeaseAddrs \subseteq Addrs

Cur == [rt |-> rt, ls |-> leases, cl |-> clients]

Mk(n, ids, k) == [name |-> n, ids |-> ids, ups |-> U.upsvals[k].ups, ce |-> U.upsvals[k].ce, cfg |-> "unbuilt"]

\* -------------------------------------------------------------- encodings
NameNo == [n \in Names |-> Idx(U.names, n)]
IdBit  == [id \in RangeOf(U.ids) |-> Pow2(Idx(U.ids, id) - 1)]
Mask(ids) == MapThenSumSet(LAMBDA id : IdBit[id], ids)
UpsIdx(c) == CHOOSE k \in DOMAIN U.upsvals : U.upsvals[k] = [ups |-> c.ups, ce |-> c.ce]

\* The key of a state (printed; checks/g05.py and the Go harness decode it).
Key(s) ==
    [r |-> [i \in 1..Len(U.addrs) |->
              LET x == s.rt[U.addrs[i]] IN <<x.whois, x.arp, x.rdns, x.dhcp, x.hosts>>],
     l |-> [i \in 1..Len(U.leaseaddrs) |->
              LET x == s.ls[U.leaseaddrs[i]] IN <<x.mac[2], x.host>>],
     c |-> [i \in 1..Len(U.names) |->
              LET x == ByName(s.cl, U.names[i]) IN
              IF x.name = "" THEN <<0, 0, "">> ELSE <<Mask(x.ids), UpsIdx(x), x.cfg>>]]

Tab(T) == [i \in 1..Len(U.addrs) |-> T[U.addrs[i]]]

\* ------------------------------------------------------- transition groups
On(op) == op \in U.ops

TUpd(s) ==
    IF ~On("upd") THEN {} ELSE
    UNION {LET alts == UpdAddrAlts(s.rt, s.cl, MacOf(s.ls), q[1], q[2], q[3]) IN
           {[a |-> <<Idx(U.addrs, q[1]), q[2], q[3]>>, out |-> 0,
             dst |-> [s EXCEPT !.rt = r2], nd |-> Cardinality(alts) > 1] : r2 \in alts}
           : q \in {x \in Addrs \X (U.rdns \cup {""}) \X (U.whois \cup {None}) : ~(x[2] = "" /\ x[3] = None)}}

TArp(s) ==
    IF ~On("arp") THEN {} ELSE
    UNION {LET alts == ArpRefreshAlts(s.rt, T) IN
           {[a |-> Tab(T), out |-> 0, dst |-> [s EXCEPT !.rt = r2], nd |-> Cardinality(alts) > 1] : r2 \in alts}
           : T \in [Addrs -> U.arp \cup {None}]}

THosts(s) ==
    IF ~On("hosts") THEN {} ELSE
    {[a |-> Tab(T), out |-> 0, dst |-> [s EXCEPT !.rt = HostsUpdate(s.rt, T)], nd |-> FALSE]
       : T \in [Addrs -> U.hosts \cup {None}]}

\* The DHCP server hands an address to a machine, renames it, or the lease ends.
TLease(s) ==
    IF ~On("lease") THEN {} ELSE
    UNION {{[a |-> <<Idx(U.leaseaddrs, x), v.mac[2], v.host>>, out |-> 0,
             dst |-> [s EXCEPT !.ls = [s.ls EXCEPT ![x] = v]], nd |-> FALSE]
              : v \in (U.leasevals \cup {NoLease}) \ {s.ls[x]}}
           : x \in LeaseAddrs}

TList(s) ==
    IF ~On("list") THEN {} ELSE
    LET r2 == SyncDHCP(s.rt, s.ls, U.dhcpOn) IN
    {[a |-> <<>>, out |-> [i \in 1..Len(U.addrs) |-> View(r2[U.addrs[i]])],
      dst |-> [s EXCEPT !.rt = r2], nd |-> FALSE]}

TLook(s) ==
    IF ~On("look") THEN {} ELSE
    {[a |-> <<Idx(U.addrs, x)>>, out |-> LookupViews(s.rt, s.ls, U.dhcpOn, x),
      dst |-> [s EXCEPT !.rt = LookupRT(s.rt, s.ls, U.dhcpOn, x)], nd |-> FALSE] : x \in Addrs}

TWho(s) ==
    IF ~On("who") THEN {} ELSE
    {LET r == WhoRes(s.rt, s.cl, s.ls, U.dhcpOn, x) IN
     [a |-> <<Idx(U.addrs, x)>>, out |-> [p |-> r.p, v |-> r.v],
      dst |-> [s EXCEPT !.rt = r.rt], nd |-> FALSE] : x \in Addrs}

Reply(o) == IF o = "ok" THEN 0 ELSE 1

TAdd(s) ==
    IF ~On("add") THEN {} ELSE
    {LET r == AddCRes(s.cl, Mk(q[1], q[2], q[3])) IN
     [a |-> <<NameNo[q[1]], Mask(q[2]), q[3]>>, out |-> Reply(r.out),
      dst |-> [s EXCEPT !.cl = r.reg], nd |-> FALSE]
       : q \in Names \X U.idsets \X DOMAIN U.upsvals}

TUpdC(s) ==
    IF ~On("updc") THEN {} ELSE
    {LET r == UpdCRes(s.cl, q[1], Mk(q[2], q[3], q[4])) IN
     [a |-> <<NameNo[q[1]], NameNo[q[2]], Mask(q[3]), q[4]>>, out |-> Reply(r.out),
      dst |-> [s EXCEPT !.cl = r.reg], nd |-> FALSE]
       : q \in Names \X Names \X U.idsets \X DOMAIN U.upsvals}

TRem(s) ==
    IF ~On("rem") THEN {} ELSE
    {LET r == RemoveRes(s.cl, n) IN
     [a |-> <<NameNo[n]>>, out |-> Reply(r.out), dst |-> [s EXCEPT !.cl = r.reg], nd |-> FALSE] : n \in Names}

TCommon(s) ==
    IF ~On("common") THEN {} ELSE
    {[a |-> <<>>, out |-> 0, dst |-> [s EXCEPT !.cl = CommonRes(s.cl)], nd |-> FALSE]}

TCust(s) ==
    IF ~On("cust") THEN {} ELSE
    {LET r == CustRes(s.cl, MacOf(s.ls), q[1], q[2]) IN
     [a |-> <<Idx(U.cids, q[1]), Idx(U.qaddrs, q[2])>>,
      out |-> [who |-> r.out.who, ups |-> r.out.ups, ce |-> r.out.ce, fresh |-> r.out.fresh,
               via |-> Via(s.cl, MacOf(s.ls), q[1], q[2])],
      dst |-> [s EXCEPT !.cl = r.reg], nd |-> FALSE]
       : q \in Cids \X QAddrs}

\* --------------------------------------------------------------- behaviour
Init == /\ rt = [a \in Addrs |-> NoInfo]
        /\ leases = [a \in LeaseAddrs |-> NoLease]
        /\ clients = {}
        /\ last = [op |-> "init"]

Take(op, T) == \E t \in T : /\ rt' = t.dst.rt /\ leases' = t.dst.ls /\ clients' = t.dst.cl
                            /\ last' = [op |-> op]

DoUpd    == Take("upd", TUpd(Cur))
DoArp    == Take("arp", TArp(Cur))
DoHosts  == Take("hosts", THosts(Cur))
DoLease  == Take("lease", TLease(Cur))
DoList   == Take("list", TList(Cur))
DoLook   == Take("look", TLook(Cur))
DoWho    == Take("who", TWho(Cur))
DoAdd    == Take("add", TAdd(Cur))
DoUpdC   == Take("updc", TUpdC(Cur))
DoRem    == Take("rem", TRem(Cur))
DoCommon == Take("common", TCommon(Cur))
DoCust   == Take("cust", TCust(Cur))

\* ---------------------------------------------------------------- emission
Pr(T) == {[a |-> t.a, out |-> t.out, dst |-> Key(t.dst), nd |-> t.nd] : t \in T}

StateRecord(s) ==
    [k |-> Key(s),
     \* RangeRuntime as it stands (no UpdateDHCP): the view of every address
     v |-> [i \in 1..Len(U.addrs) |-> View(s.rt[U.addrs[i]])],
     \* Storage.Find(address) for every runtime and lookup address: the owner's name or ""
     f |-> [i \in 1..Len(U.addrs \o U.qaddrs) |-> ByAddr(s.cl, MacOf(s.ls), (U.addrs \o U.qaddrs)[i]).name],
     e |-> [upd |-> Pr(TUpd(s)), arp |-> Pr(TArp(s)), hosts |-> Pr(THosts(s)), lease |-> Pr(TLease(s)),
            list |-> Pr(TList(s)), look |-> Pr(TLook(s)), who |-> Pr(TWho(s)), add |-> Pr(TAdd(s)),
            updc |-> Pr(TUpdC(s)), rem |-> Pr(TRem(s)), common |-> Pr(TCommon(s)), cust |-> Pr(TCust(s))]]

IsInit == /\ \A a \in Addrs : rt[a] = NoInfo
          /\ \A a \in LeaseAddrs : leases[a] = NoLease
          /\ clients = {}

Observe == /\ U.emit
           /\ PrintT(<<"@@S", ToJson(StateRecord(Cur))>>)
           /\ (IsInit => PrintT(<<"@@U", ToJson([addrs |-> U.addrs, leaseaddrs |-> U.leaseaddrs, qaddrs |-> U.qaddrs,
                                                 names |-> U.names, ids |-> U.ids, cids |-> U.cids,
                                                 upsvals |-> U.upsvals, dhcpOn |-> U.dhcpOn, w |-> U.w,
                                                 ops |-> U.ops])>>))
           /\ UNCHANGED vars

Next == DoUpd \/ DoArp \/ DoHosts \/ DoLease \/ DoList \/ DoLook \/ DoWho
          \/ DoAdd \/ DoUpdC \/ DoRem \/ DoCommon \/ DoCust \/ Observe
Spec == Init /\ [][Next]_vars

\* ------------------------------------------------ properties of the statement
Data == U.rdns \cup U.arp \cup U.hosts \cup {v.host : v \in U.leasevals} \cup {None}

TypeOK ==
    /\ \A a \in Addrs : /\ rt[a].whois \in U.whois \cup {None}
                        /\ rt[a].arp \in U.arp \cup {None}
                        /\ rt[a].rdns \in U.rdns \cup {None}
                        /\ rt[a].hosts \in U.hosts \cup {None}
                        /\ rt[a].dhcp \in {v.host : v \in U.leasevals} \cup {None}
    /\ \A a \in LeaseAddrs : leases[a] \in U.leasevals \cup {NoLease}
    /\ \A c \in clients : c.name \in Names /\ c.ids \in U.idsets /\ c.cfg \in {"unbuilt", "built", "either"}

\* "The host name reported for an address is the one from the highest-priority
\* source that currently has information about it" -- declaratively, independent
\* of the IF-chain in RuntimeClientsCore!Winner.
WinnerIsHighest ==
    \A a \in Addrs :
      LET r == rt[a]  v == View(r) IN
      /\ (Known(r) = {}) <=> (v = NoView)
      /\ Known(r) # {} =>
            /\ v[1] \in Known(r)
            /\ \A t \in Known(r) : Prio(t) <= Prio(v[1])
            /\ v[2] = (IF v[1] = "whois" THEN "" ELSE r[v[1]])
            /\ v[3] = r.whois

\* With clients.runtime_sources.dhcp off, DHCP never contributes.
DhcpOffSilent == ~U.dhcpOn => \A a \in Addrs : rt[a].dhcp = None

\* The registry stays consistent (C04) whatever else happens.
RegistryConsistent == Consistent(clients)

\* A built (or possibly kept) configuration exists only for a client that has
\* effective upstream lines.
BuiltOnlyWithUpstreams == \A c \in clients : c.cfg # "unbuilt" => EffUps(c.ups) # <<>>

\* "The returned config corresponds to the CURRENT settings of the owning
\* client -- never a stale one -- and is nil when the client has no upstreams."
CustCurrent ==
    \A cid \in Cids, a \in QAddrs :
      LET o == CustRes(clients, MacOf(leases), cid, a).out
          c == Resolve(clients, MacOf(leases), cid, a) IN
      /\ (o.who = "") <=> (c.name = "" \/ \A i \in DOMAIN c.ups : c.ups[i].t # "up")
      /\ o.who # "" => /\ o.who = c.name /\ o.ce = c.ce
                       /\ o.ups = EffVals(c.ups)
                       /\ ("same" \in o.fresh => c.cfg # "unbuilt")
                       /\ ("new" \in o.fresh => c.cfg # "built")

\* Every step changes only the column(s) of its own source.
OwnCols(op) == CASE op = "upd" -> {"rdns", "whois"}
                 [] op = "arp" -> {"arp"}
                 [] op = "hosts" -> {"hosts"}
                 [] op \in {"list", "look", "who"} -> {"dhcp"}
                 [] OTHER -> {}
OnlyOwnSource ==
    [][\A a \in Addrs : \A s \in Srcs \ OwnCols(last'.op) : rt'[a][s] = rt[a][s]]_vars

\* Runtime steps never touch the registry; registry steps never touch the runtime view.
Separation ==
    [][/\ last'.op \in {"upd", "arp", "hosts", "lease", "list", "look", "who"} => clients' = clients
       /\ last'.op \in {"add", "updc", "rem", "common", "cust", "lease"} => rt' = rt]_vars

\* GET /control/clients: after UpdateDHCP the DHCP column IS the lease table
\* ("removal when a DHCP lease goes away").
ListSyncs ==
    [][last'.op = "list" /\ U.dhcpOn => \A a \in Addrs : rt'[a].dhcp = LeaseAt(leases, a).host]_vars

\* A change of the common upstream settings invalidates every built configuration.
CommonInvalidates ==
    [][last'.op = "common" => \A c \in clients' : c.cfg = "unbuilt"]_vars

\* ---------------------------------------------------------------- universes
(***************************************************************************)
(* Addresses are 4-bit numbers (W = 4; the Go harness embeds them in a     *)
(* real /24 or /120).  <<"net",4,2>> = 01xx covers 4..7.                   *)
(***************************************************************************)
Up(v) == [t |-> "up", v |-> v]
Cm    == [t |-> "comment", v |-> ""]
Em    == [t |-> "empty", v |-> ""]
M1 == <<"mac", 1, 0>>
Ls(h) == [mac |-> M1, host |-> h]
NoUps == << [ups |-> <<>>, ce |-> FALSE] >>
RtOps == {"upd", "arp", "hosts", "list", "look", "who"}

\* Four sources on two overlapping addresses; no DHCP, no persistent clients.
\* ARP may know an address without a name (""); rDNS and hosts can rename.
USrc == [
    w |-> 4, emit |-> TRUE, dhcpOn |-> FALSE, ops |-> RtOps,
    addrs |-> <<5, 6>>, leaseaddrs |-> <<>>, qaddrs |-> <<>>,
    whois |-> {"w1"}, arp |-> {"a1", ""}, rdns |-> {"r1", "r2"}, hosts |-> {"h1", "h2"},
    leasevals |-> {}, names |-> <<>>, ids |-> <<>>, idsets |-> {}, upsvals |-> NoUps, cids |-> <<>> ]

\* DHCP between rDNS (below) and the hosts file (above): leases come, are
\* renamed, lose their name, end; learned on lookup, synchronised on listing.
UDhcp == [
    w |-> 4, emit |-> TRUE, dhcpOn |-> TRUE, ops |-> {"upd", "hosts", "lease", "list", "look", "who"},
    addrs |-> <<5, 6>>, leaseaddrs |-> <<5, 6>>, qaddrs |-> <<>>,
    whois |-> {}, arp |-> {}, rdns |-> {"r1"}, hosts |-> {"h1"},
    leasevals |-> {Ls("d1"), Ls("d2"), Ls("")}, names |-> <<>>, ids |-> <<>>, idsets |-> {},
    upsvals |-> NoUps, cids |-> <<>> ]

\* A persistent client (by exact IP, CIDR, lease MAC, or IP and MAC) against
\* the runtime data of an address it can own by address (5) and one it can
\* own only through the lease (12): shadowing, WHOIS refused for owned addresses.
UPers == [
    w |-> 4, emit |-> TRUE, dhcpOn |-> TRUE,
    ops |-> {"upd", "lease", "list", "look", "who", "add", "updc", "rem"},
    addrs |-> <<5, 12>>, leaseaddrs |-> <<12>>, qaddrs |-> <<>>,
    whois |-> {"w1", "w2"}, arp |-> {}, rdns |-> {"r1"}, hosts |-> {},
    leasevals |-> {Ls("d1")}, names |-> <<"n1">>,
    ids |-> << <<"ip", 5, 0>>, <<"net", 4, 2>>, M1 >>,
    idsets |-> {{<<"ip", 5, 0>>}, {<<"net", 4, 2>>}, {M1}, {<<"ip", 5, 0>>, M1}},
    upsvals |-> NoUps, cids |-> <<>> ]

\* Part 2: two clients, identifiers of every kind, four upstream settings
\* (none / u1 / u1 with cache / a comment, an empty line and u2), the lease
\* that makes mac 1 the owner of address 12, changes of the common settings,
\* lookups for every (ClientID, address).  cid 9 is nobody's.
UUps == [
    w |-> 4, emit |-> TRUE, dhcpOn |-> FALSE,
    ops |-> {"lease", "add", "updc", "rem", "common", "cust"},
    addrs |-> <<>>, leaseaddrs |-> <<12>>, qaddrs |-> <<5, 6, 12>>,
    whois |-> {}, arp |-> {}, rdns |-> {}, hosts |-> {},
    leasevals |-> {Ls("d1")}, names |-> <<"n1", "n2">>,
    ids |-> << <<"cid", 1, 0>>, <<"ip", 5, 0>>, <<"net", 4, 2>>, M1 >>,
    idsets |-> {{<<"cid", 1, 0>>, <<"ip", 5, 0>>}, {<<"ip", 5, 0>>}, {<<"net", 4, 2>>}, {M1}},
    upsvals |-> << [ups |-> <<>>, ce |-> FALSE], [ups |-> <<Up("u1")>>, ce |-> FALSE],
                   [ups |-> <<Up("u1")>>, ce |-> TRUE], [ups |-> <<Cm, Em, Up("u2")>>, ce |-> FALSE],
                   [ups |-> <<Cm>>, ce |-> TRUE] >>,
    cids |-> << NoId, <<"cid", 1, 0>>, <<"cid", 9, 0>> >> ]

\* The quick tier replays EVERY edge of three smaller universes (and of UPers):
\* one rDNS name; no lease renaming; three upstream settings, no foreign ClientID.
USrcQ  == [USrc EXCEPT !.rdns = {"r1"}]
UDhcpQ == [UDhcp EXCEPT !.leasevals = {Ls("d1"), Ls("")}]
UUpsQ  == [UUps EXCEPT
    !.idsets = {{<<"cid", 1, 0>>, <<"ip", 5, 0>>}, {<<"net", 4, 2>>}, {M1}},
    !.upsvals = << [ups |-> <<>>, ce |-> FALSE], [ups |-> <<Up("u1")>>, ce |-> FALSE],
                   [ups |-> <<Up("u1")>>, ce |-> TRUE] >>,
    !.cids = << NoId, <<"cid", 1, 0>> >> ]

\* Small universe for the coverage (vacuity) run: every group enabled.
UCov == [
    w |-> 4, emit |-> FALSE, dhcpOn |-> TRUE,
    ops |-> RtOps \cup {"lease", "add", "updc", "rem", "common", "cust"},
    addrs |-> <<5>>, leaseaddrs |-> <<5>>, qaddrs |-> <<5>>,
    whois |-> {"w1"}, arp |-> {"a1"}, rdns |-> {"r1"}, hosts |-> {"h1"},
    leasevals |-> {Ls("d1")}, names |-> <<"n1">>,
    ids |-> << <<"ip", 5, 0>>, M1 >>, idsets |-> {{<<"ip", 5, 0>>}, {M1}},
    upsvals |-> << [ups |-> <<>>, ce |-> FALSE], [ups |-> <<Up("u1")>>, ce |-> TRUE] >>,
    cids |-> << NoId >> ]
=============================================================================
