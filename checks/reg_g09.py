PROPERTY = "G09"
ENTRY = {
        "text": "Growth item: system composition.  AdGuardHomeCore.tla composes AccessCore, ClientsCore, RewritesCore, DnsPipelineCore / RuleEngine and IgnoreAnonCore (instantiated unedited) over one "
                "shared state record: persistent-client registry, protection / filtering switches, blocked services, custom rules, legacy rewrites, access lists, query-log configuration (enabled, "
                "ignored names, anonymisation), statistics configuration, the query log as a sequence and the statistics counters.  One action per admin endpoint family (clients add / update / delete, "
                "access set, set_rules, rewrite add / delete, blocked_services, protection, filtering config, querylog config, stats config, querylog_clear, stats_reset) and Query(address, ClientID, "
                "transport, name, type), whose reply, upstream exchange, log entry and statistics increment are derived from the composed modules.  AdGuardHome.tla is checked by TLC over ALL histories "
                "of at most 3 operations (<= 2 admin calls, <= 2 queries) from 4 base configurations (58 admin calls x 48 queries; 2.0M states) with the statement as invariants written without the "
                "composed operators: every served, not ignored query is in the log exactly once with its client and a reason matching the response; statistics totals = counted queries, blocked = those "
                "with a blocking reason; a request excluded by the access lists is neither resolved nor logged nor counted; every query in every reached configuration obeys the documented sentence of "
                "each setting.  Binding: the universe TLC prints is turned into long seeded histories covering every (admin call, query) pair (thorough) that are executed on the really booted server "
                "(real initContextClients, setupDNSFilteringConf, registerControlHandlers, initDNS, startDNSServer; admin calls through the real mux; queries over real UDP / TCP sockets from loopback "
                "source addresses, DoH + ClientID through the mux; every second system with a 6-entry log buffer so that the log is served from file and memory); a Go driver adds random histories "
                "over a larger universe; after every step reply, upstream questions, GET /control/querylog and GET /control/stats are recorded and TraceAdGuardHome.tla (same operators) accepts or "
                "rejects the line.  A rejected line counts only when the whole history is rejected at the same step again on a freshly booted system.",
        "design_ref": "DESIGN.md section 5 (AdGuardHome.tla); notes/G09.md",
        "note": "Trusted: TLC, conc()/abs() of zz_verif_g09_test.go, the mock upstream, the sub-specifications as validated by C01/C03/C04/C06/C08.  Documentation silent => nondeterministic: "
                "log entries and top_* items whose name / client is ignored now may be missing, client_info.name is the owner at read or at write time, top_queried_domains with or without blocked "
                "queries, top_clients compared per anonymised address while anonymisation has been on.  No pause, schedules, DHCP, runtime clients, rule lists, safe search / browsing, restart.  "
                "TLC -coverage is unusable on the nested instances (OOM): vacuity is checked by a probe of every transition out of the initial states.  The enumerated bounded histories are "
                "model-checked; what is replayed are planned paths over the same universe (exhaustive: false).  Every query of the universe is also replayed from every base configuration of the model.  No findings of its own on the unchanged tree (efe83b6); 21 wiring mutations caught.",
        "technique": "TLA+ composition model-checked by TLC over all bounded histories; planned pair-covering walks + random histories on the fully wired server; TLC trace validation with fresh-boot reproduction",
    }
