----------------------------- MODULE IgnoreAnon -----------------------------
(***************************************************************************)
(* C08 -- ignored names / clients and un-anonymised addresses never reach  *)
(* the query log or the statistics.                                        *)
(*                                                                         *)
(* A tail-stage model: what happens to a query AFTER it has been answered. *)
(* One behaviour is one server life ("script"):                            *)
(*                                                                         *)
(*   Pick C0 -> Record round 1 (and ANY probes) under C0 -> Flush (memory  *)
(*   buffer to querylog.json) -> Reconf to C1 (admin API: new ignore       *)
(*   lists, client flags flipped) -> Record round 2 under C1 -> Reconf to  *)
(*   C2 -> done.                                                           *)
(*                                                                         *)
(* Stores: mem (query-log ring buffer), file (querylog.json), unit (the    *)
(* current statistics unit: domains and clients / top-clients are          *)
(* projections of it).  The log API is the operator Search.                *)
(*                                                                         *)
(* The MECHANISM (how the decision is taken) is modelled in two variants   *)
(* selected by the constant Design:                                        *)
(*   "intended"  the client is looked up by the address the query came     *)
(*               from, the address is anonymised for storing only; the     *)
(*               log API re-applies the current ignore list and client     *)
(*               flag to memory and file entries alike;                    *)
(*   "asbuilt"   dnsforward/stats.go as it is: the address is anonymised   *)
(*               first and the client looked up by the result;             *)
(*               querylog/search.go re-filters file entries only.          *)
(* The STATEMENT is the set of invariants at the end.  TLC shows           *)
(* intended |= invariants (IgnoreAnon.mc.cfg / gen.cfg), and that asbuilt  *)
(* violates them (IgnoreAnon.asbuilt*.cfg, expected violations), and that  *)
(* no design can satisfy the strict search-time clause once the stored     *)
(* address is anonymised (IgnoreAnon.strict.cfg, expected violation).      *)
(*                                                                         *)
(* Direction A: the final action of every script prints one JSON line      *)
(* with the three configurations and the verdict tables of the statement   *)
(* (IgnoreAnonCore: LogVerdict, CountVerdict, ApiVerdict) for every query  *)
(* and observation point; the Go harness runs the script against the real  *)
(* wiring of package home.                                                 *)
(***************************************************************************)
EXTENDS Sequences, Naturals, FiniteSets, TLC, Json

CONSTANT Design

INSTANCE IgnoreAnonCore WITH LowBits <- 2

VARIABLES ph,     \* phase of the script
          par,    \* the script's parameters (output only)
          cfg,    \* current configuration
          c0, c1, \* configurations rounds 1 and 2 were recorded under
          mem, file, unit
vars == <<ph, par, cfg, c0, c1, mem, file, unit>>

\* ----------------------------------------------------------------- universe
Names == << Root, <<"com">>, <<"a", "com">>, <<"b", "a", "com">>, <<"xa", "com">>, <<"b", "org">> >>

P(k, n) == [k |-> k, n |-> n]
Lists == << {},
            {P("plain", <<"a", "com">>)},
            {P("domain", <<"a", "com">>)},
            {P("wild", <<"a", "com">>)},
            {P("root", Root)},
            {P("plain", <<"b", "org">>), P("wild", <<"com">>)} >>
NL == Len(Lists)
L(i) == Lists[(i % NL) + 1]

A(f, b) == [fam |-> f, bits |-> b]
T4 == A("v4", <<0, 1, 1, 0>>)     \* the client that gets marked
S4 == A("v4", <<0, 1, 0, 1>>)     \* same anonymised form as T4, another host
U4 == A("v4", <<1, 0, 1, 1>>)     \* unrelated
Z4 == A("v4", <<0, 1, 0, 0>>)     \* = Anon(T4): a host whose own low bits are 0
T6 == A("v6", <<0, 1, 1, 0>>)
S6 == A("v6", <<0, 1, 0, 1>>)
M4 == A("m4", <<0, 1, 1, 0>>)     \* T4 in IPv4-mapped form
X4 == A("v4", <<1, 1, 0, 1>>)     \* carrier address of the ClientID clients

\* The querying principals.  qt = <<type in round 1, type in round 2>>: the
\* question type is the tag by which an observed entry is attributed to its
\* query (addresses cannot, they get anonymised).
Senders == <<
    [cl |-> "T4", addr |-> T4, cid |-> "",     qt |-> <<"A", "AAAA">>],
    [cl |-> "S4", addr |-> S4, cid |-> "",     qt |-> <<"TXT", "MX">>],
    [cl |-> "U4", addr |-> U4, cid |-> "",     qt |-> <<"SRV", "CAA">>],
    [cl |-> "Z4", addr |-> Z4, cid |-> "",     qt |-> <<"NAPTR", "LOC">>],
    [cl |-> "T6", addr |-> T6, cid |-> "",     qt |-> <<"HINFO", "RP">>],
    [cl |-> "S6", addr |-> S6, cid |-> "",     qt |-> <<"AFSDB", "SSHFP">>],
    [cl |-> "M4", addr |-> M4, cid |-> "",     qt |-> <<"TLSA", "URI">>],
    [cl |-> "C1", addr |-> X4, cid |-> "cli1", qt |-> <<"CERT", "SPF">>],
    [cl |-> "C2", addr |-> X4, cid |-> "cli2", qt |-> <<"KX", "DNAME">>] >>

\* A query is identified by <<name index, sender index, round>>; round 3 is
\* the ANY probe, sent by T4 together with round 1.
Q(ni, si, r) == [id |-> <<ni, si, r>>, name |-> Names[ni], addr |-> Senders[si].addr,
                 cid |-> Senders[si].cid,
                 qt |-> IF r = 3 THEN "ANY" ELSE Senders[si].qt[r]]
Round(r) == {Q(ni, si, r) : ni \in DOMAIN Names, si \in DOMAIN Senders}
AnyProbe == {Q(ni, 1, 3) : ni \in DOMAIN Names}
Batch1 == Round(1) \cup AnyProbe
Batch2 == Round(2)

ClientVariants ==
    { [kind |-> "ip", addr |-> T4], [kind |-> "ip", addr |-> Z4], [kind |-> "ip", addr |-> T6],
      [kind |-> "cidr", fam |-> "v4", bits |-> <<0, 1>>],
      [kind |-> "cidr", fam |-> "v4", bits |-> <<0, 1, 1>>],
      [kind |-> "cidr", fam |-> "v6", bits |-> <<0, 1, 1>>],
      [kind |-> "mac", addr |-> T4],
      [kind |-> "cid", cid |-> "cli1"] }
NoClient == [kind |-> "none"]
FlagPairs == {<<TRUE, FALSE>>, <<FALSE, TRUE>>, <<TRUE, TRUE>>}

\* ------------------------------------------------------------ configurations
Conf0(p) == [ignQ |-> L(p.li), ignS |-> L(p.li + 1), client |-> p.client,
             flagQ |-> p.fl[1], flagS |-> p.fl[2], anon |-> p.anon, refuseAny |-> p.refuseAny]
\* First reconfiguration: both lists replaced, both client flags flipped.
Conf1(p) == [Conf0(p) EXCEPT !.ignQ = L(p.li + 2), !.ignS = L(p.li + 3),
                             !.flagQ = (p.client.kind # "none" /\ ~p.fl[1]),
                             !.flagS = (p.client.kind # "none" /\ ~p.fl[2])]
\* Second one: another query-log list, the query-log flag flipped back.
Conf2(p) == [Conf1(p) EXCEPT !.ignQ = L(p.li + 4),
                             !.flagQ = (p.client.kind # "none" /\ p.fl[1])]

\* ---------------------------------------------------------------- mechanism
LookupAddr(c, q) == IF Design = "asbuilt" THEN StoredAddr(c, q) ELSE q.addr
Refused(c, q)    == q.qt = "ANY" /\ c.refuseAny     \* answered by the proxy itself
MechLog(c, q)    == /\ ~Refused(c, q)
                    /\ ~(c.flagQ /\ IdentsBy(c.client, LookupAddr(c, q), q.cid))
                    /\ ~IgnoreMatch(c.ignQ, q.name)
MechCount(c, q)  == /\ ~Refused(c, q)
                    /\ ~(c.flagS /\ IdentsBy(c.client, LookupAddr(c, q), q.cid))
                    /\ ~IgnoreMatch(c.ignS, q.name)

\* A stored entry: the query's id, which configuration it was recorded under
\* (0 = c0, 1 = c1; history information for the invariants) and the address
\* as stored.
Entry(c, q) == [q |-> q.id, r |-> IF ph = "r1" THEN 0 ELSE 1, addr |-> StoredAddr(c, q)]
QOf(e)   == Q(e.q[1], e.q[2], e.q[3])
RecOf(e) == IF e.r = 0 THEN c0 ELSE c1

\* The log API under configuration cur.  A stored entry can only be
\* re-identified by what was stored.
Visible(cur, e) == /\ ~IgnoreMatch(cur.ignQ, QOf(e).name)
                   /\ ~(cur.flagQ /\ IdentsBy(cur.client, e.addr, QOf(e).cid))
Search(cur) == {e \in file : Visible(cur, e)}
                 \cup (IF Design = "asbuilt" THEN mem ELSE {e \in mem : Visible(cur, e)})
Reported(cur, e) == IF cur.anon THEN Anon(e.addr) ELSE e.addr

\* ------------------------------------------------------------- vector output
NonYes(t) == {x \in t : x.v # "yes"}
Tbl(rec, cur, qs) == {[q |-> q.id, v |-> ApiVerdict(rec, cur, q)] : q \in qs}
Vector(p) ==
    LET k0 == Conf0(p)  k1 == Conf1(p)  k2 == Conf2(p) IN
    [kind |-> "script", par |-> p, c0 |-> k0, c1 |-> k1, c2 |-> k2,
     \* record-time verdicts (round 1 + ANY under c0, round 2 under c1)
     log |-> NonYes({[q |-> q.id, v |-> LogVerdict(k0, q)] : q \in Batch1}
                      \cup {[q |-> q.id, v |-> LogVerdict(k1, q)] : q \in Batch2}),
     cnt |-> NonYes({[q |-> q.id, v |-> CountVerdict(k0, q)] : q \in Batch1}
                      \cup {[q |-> q.id, v |-> CountVerdict(k1, q)] : q \in Batch2}),
     \* the log API at the four later observation points
     api1  |-> NonYes(Tbl(k0, k1, Batch1)),
     api1b |-> NonYes(Tbl(k0, k1, Batch1) \cup Tbl(k1, k1, Batch2)),
     api2  |-> NonYes(Tbl(k0, k2, Batch1) \cup Tbl(k1, k2, Batch2))]

Universe == [kind |-> "universe", names |-> Names, senders |-> Senders, lowbits |-> 2, width |-> 4]

\* ---------------------------------------------------------------- behaviour
NoPar == [li |-> 0, client |-> NoClient, fl |-> <<FALSE, FALSE>>, anon |-> FALSE, refuseAny |-> FALSE]
NoCfg == Conf0(NoPar)

Init == /\ ph = "universe" /\ par = NoPar /\ cfg = NoCfg /\ c0 = NoCfg /\ c1 = NoCfg
        /\ mem = {} /\ file = {} /\ unit = {}

EmitUniverse ==
    /\ ph = "universe"
    /\ PrintT(<<"@@V", ToJson(Universe)>>)
    /\ ph' = "pick"
    /\ UNCHANGED <<par, cfg, c0, c1, mem, file, unit>>

Pick ==
    /\ ph = "pick"
    /\ \E li \in 0..(NL - 1), an \in BOOLEAN, ra \in BOOLEAN :
         \E cf \in ({<<NoClient, <<FALSE, FALSE>>>>} \cup (ClientVariants \X FlagPairs)) :
           /\ par' = [li |-> li, client |-> cf[1], fl |-> cf[2], anon |-> an, refuseAny |-> ra]
           /\ cfg' = Conf0(par')
    /\ c0' = cfg' /\ ph' = "r1"
    /\ UNCHANGED <<c1, mem, file, unit>>

Record(batch) ==
    /\ mem'  = mem  \cup {Entry(cfg, q) : q \in {x \in batch : MechLog(cfg, x)}}
    /\ unit' = unit \cup {Entry(cfg, q) : q \in {x \in batch : MechCount(cfg, x)}}

Record1 == /\ ph = "r1" /\ Record(Batch1) /\ ph' = "flush"
           /\ UNCHANGED <<par, cfg, c0, c1, file>>
Flush   == /\ ph = "flush" /\ file' = file \cup mem /\ mem' = {} /\ ph' = "reconf1"
           /\ UNCHANGED <<par, cfg, c0, c1, unit>>
Reconf1 == /\ ph = "reconf1" /\ cfg' = Conf1(par) /\ c1' = cfg' /\ ph' = "r2"
           /\ UNCHANGED <<par, c0, mem, file, unit>>
Record2 == /\ ph = "r2" /\ Record(Batch2) /\ ph' = "reconf2"
           /\ UNCHANGED <<par, cfg, c0, c1, file>>
Reconf2 == /\ ph = "reconf2" /\ cfg' = Conf2(par) /\ ph' = "done"
           /\ PrintT(<<"@@V", ToJson(Vector(par))>>)
           /\ UNCHANGED <<par, c0, c1, mem, file, unit>>

Next == EmitUniverse \/ Pick \/ Record1 \/ Flush \/ Reconf1 \/ Record2 \/ Reconf2
Spec == Init /\ [][Next]_vars

\* ------------------------------------------------- the statement, as invariants
Stored == mem \cup file

\* "... are never recorded in the query log (resp. statistics), neither in
\* memory nor on disk"
NoIgnoredLogged  == \A e \in Stored : ShouldLog(RecOf(e), QOf(e))
NoIgnoredCounted == \A e \in unit   : ShouldCount(RecOf(e), QOf(e))
\* "... every client address stored ..."
AnonStored       == \A e \in Stored \cup unit : RecOf(e).anon => IsAnon(e.addr)
\* "... or reported ..."
AnonReported     == \A e \in Search(cfg) : cfg.anon => IsAnon(Reported(cfg, e))
\* "... the log API does not return entries whose name ... is currently ignored"
SearchNames      == \A e \in Search(cfg) : ~IgnoreMatch(cfg.ignQ, QOf(e).name)
\* "... or client is currently ignored" -- as far as the stored entry still
\* identifies its sender (a ClientID, the full address, or an address whose
\* anonymised form is still inside the client's subnet) ...
SearchClientsIdentifiable ==
    \A e \in Search(cfg) : ~(IgnoredClientQ(cfg, QOf(e)) /\ ~LostByAnon(cfg, QOf(e)))
\* ... and as the statement literally says.  No mechanism can satisfy this one
\* for entries stored anonymised (strict.cfg shows the counterexample).
SearchClientsStrict == \A e \in Search(cfg) : ~IgnoredClientQ(cfg, QOf(e))

\* The verdict tables handed to the harness agree with the intended mechanism:
\* nothing recorded is "no", everything "yes" is recorded.
OracleConsistent ==
    LET logged  == {e.q : e \in Stored}
        counted == {e.q : e \in unit}
        found   == {e.q : e \in Search(cfg)}
        Agree(c, batch) ==
            \A q \in batch :
                /\ IsNo(LogVerdict(c, q))      => q.id \notin logged
                /\ LogVerdict(c, q) = "yes"    => q.id \in logged
                /\ IsNo(CountVerdict(c, q))    => q.id \notin counted
                /\ CountVerdict(c, q) = "yes"  => q.id \in counted
        \* The strict search-time clause is unattainable for entries whose
        \* sender can no longer be identified (LostByAnon): excluded here,
        \* see SearchClientsStrict.
        AgreeApi(c, batch) ==
            \A q \in batch :
                /\ IsNo(ApiVerdict(c, cfg, q)) /\ ~LostByAnon(cfg, q) => q.id \notin found
                /\ ApiVerdict(c, cfg, q) = "yes" => q.id \in found
    IN /\ ph = "reconf1" => Agree(c0, Batch1) /\ AgreeApi(c0, Batch1)
       /\ ph = "done"    => Agree(c1, Batch2) /\ AgreeApi(c0, Batch1) /\ AgreeApi(c1, Batch2)

\* Non-vacuity (every kind of verdict occurs, every reason occurs) is checked
\* by checks/c08.py on the emitted tables.
=============================================================================
