SPECIFICATION Spec
CONSTANTS
  Dst = "d/dst"
  Protocol <- ProtoAtomic
  MaxSaves = 4
  MaxChunks = 3
  MaxCrashes = 3
  InitPresent = TRUE
  WithReader = TRUE
INVARIANTS TypeOK DstOldOrNew CrashSafe CrashStrict ReaderOK
PROPERTIES Effective CrashAgree
