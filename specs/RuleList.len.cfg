SPECIFICATION Spec
CONSTANTS MaxLines = 3
          Shapes <- ShapesLen
          Endings <- EndingsLFCR
          Policies <- UniformPolicies
INVARIANTS Statement
