SPECIFICATION Spec
