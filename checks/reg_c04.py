PROPERTY = "C04"
ENTRY = {
        "text": "Clients.tla/ClientsCore.tla (abstract registry written from the statement: ownership, clash rejection, precedence "
                "ClientID > exact IP > longest prefix > DHCP-lease MAC, own-vs-global settings) is explored by TLC over all histories of five "
                "finite universes (incl. IPv6-zoned addresses; Add/Update/Remove/LeaseChange and LoadConfig = start-up from a configuration file) with 5 invariants and 1 action property; every labelled edge TLC prints is walked through a real client.Storage "
                "behind a real filtering.DNSFilter (edge-covering tours), comparing Find for every identifier/address, FindByName, RangeByName and the "
                "effective filtering settings of every (ClientID, address) pair after every step; ClientSettings.tla enumerates every "
                "(global value x own value x opt-out switch) combination of the five settings times the state of the global and the client's own blocked-services schedule (36864 vectors, clients built as package home builds them) "
                "and each is replayed; seeded random histories over a larger universe are "
                "recorded and validated by TraceClients.tla.",
        "design_ref": "DESIGN.md section 4 C04",
        "note": "Trusted: TLC, conc()/abs() of zz_verif_c04_test.go. Exported API only (Storage.Add/Update/RemoveByName/Find/FindByName/RangeByName, "
                "DNSFilter.Settings+ApplyAdditionalFiltering with Storage.ApplyClientFiltering as the hook). Identifiers are registered under seeded legal spellings (letter case, host bits of prefixes, the same identifier twice in one list). Lookups are repeated under other legal spellings (prefix text, upper-case ClientID, IPv4-mapped address and prefix, EUI-64 with colons) and through Storage.FindLoose as home.findMultiple calls it (query log / statistics attribution = the same precedence, address without zone). "
                " Single goroutine per Storage. quick replays the edges of a seeded fifth of the states.",
        "technique": "TLA+ state machine explored by TLC; edge-covering tour replay into real code + TLC trace validation",
    }
