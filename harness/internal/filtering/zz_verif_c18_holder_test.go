package filtering

// C18 conformance harness, the schedule IN EFFECT under a history of updates
// (specs/ScheduleHolder.tla, specs/TraceScheduleHolder.tla).
//
//   - TestZZVerifC18Holder drives one edge-covering walk over the edges that
//     TLC enumerated -- accepted and rejected documents, the bad day at every
//     weekday position with valid / absent days around it -- through the real
//     handlers PUT /control/blocked_services/update and GET
//     /control/blocked_services/get of ONE long-lived DNSFilter, and after
//     every step compares the reply, the schedule read back and Contains at
//     the probe instants with the spec's successor state.
//   - TestZZVerifC18HolderTrace records random histories for TLC to judge.

import (
	"encoding/json"
	"fmt"
	"math"
	"math/rand"
	"net/http"
	"net/http/httptest"
	"net/netip"
	"os"
	"path/filepath"
	"sort"
	"strings"
	"testing"
	"time"

	"github.com/AdguardTeam/AdGuardHome/internal/schedule"
	"gopkg.in/yaml.v3"
)

// zzC18Doc is a serialised schedule in the spec's vocabulary: zone name and
// seven [start ms, end ms, start sub-ms ns, end sub-ms ns], Sunday first.
type zzC18Doc struct {
	TZ string     `json:"tz"`
	W  [][4]int64 `json:"w"`
}

func (d *zzC18Doc) equal(o *zzC18Doc) (ok bool) {
	if d.TZ != o.TZ || len(d.W) != len(o.W) {
		return false
	}

	for i := range d.W {
		if d.W[i] != o.W[i] {
			return false
		}
	}

	return true
}

// zzC18Pair is the state of the two holders, "g" and "c".
type zzC18Pair struct {
	G *zzC18Doc `json:"g"`
	C *zzC18Doc `json:"c"`
}

func (p *zzC18Pair) of(h string) (d *zzC18Doc) {
	if p == nil {
		return nil
	}

	if h == "c" {
		return p.C
	}

	return p.G
}

// zzC18Step is one request of a walk: act = "put" (update API), "null"
// (update API, "schedule": null), "yaml" / "json" (restart of the holder from a
// configuration document decoded on top of the defaults), to holder H.  Out,
// Dst and Eff are the spec's reply, successor state and Contains table of
// both holders (absent: observe only).
type zzC18Step struct {
	I     int                   `json:"i"`
	Reset bool                  `json:"reset"`
	H     string                `json:"h"`
	Act   string                `json:"act"`
	Form  string                `json:"form"`
	Doc   *zzC18Doc             `json:"doc"`
	Out   string                `json:"out"`
	Src   *zzC18Pair            `json:"src"`
	Dst   *zzC18Pair            `json:"dst"`
	Eff   map[string][][2]int64 `json:"eff"`
}

// zzC18MsExact writes ms milliseconds + ns nanoseconds exactly as a decimal
// number of milliseconds.
func zzC18MsExact(rng *rand.Rand, ms, ns int64) (s string) {
	total := ms*1000000 + ns
	if total%1000000 != 0 {
		sign, a := "", total
		if a < 0 {
			sign, a = "-", -a
		}

		return strings.TrimRight(fmt.Sprintf("%s%d.%06d", sign, a/1000000, a%1000000), "0")
	}

	if rng.Intn(3) == 0 {
		return fmt.Sprintf("%d.0", total/1000000)
	}

	return fmt.Sprintf("%d", total/1000000)
}

// zzC18PutBody renders the request body of the update API.
func zzC18PutBody(rng *rand.Rand, doc *zzC18Doc) (body string) {
	parts := []string{}
	for i, r := range doc.W {
		if r == [4]int64{} {
			switch rng.Intn(4) {
			case 0:
				parts = append(parts, fmt.Sprintf("%q:null", zzC18DayKeys[i]))
			case 1:
				parts = append(parts, fmt.Sprintf("%q:{\"start\":0,\"end\":0}", zzC18DayKeys[i]))
			}

			continue
		}

		parts = append(parts, fmt.Sprintf("%q:{\"start\":%s,\"end\":%s}", zzC18DayKeys[i],
			zzC18MsExact(rng, r[0], r[2]), zzC18MsExact(rng, r[1], r[3])))
	}

	parts = append(parts, fmt.Sprintf("\"time_zone\":%q", doc.TZ))
	if rng.Intn(2) == 0 {
		// The decoder walks the days in its own order, whatever the order of
		// the members.
		rng.Shuffle(len(parts), func(i, j int) { parts[i], parts[j] = parts[j], parts[i] })
	}

	return fmt.Sprintf("{\"ids\":[%q],\"schedule\":{%s}}", zzC18GlobalSvc, strings.Join(parts, ","))
}

type zzC18Holder struct {
	d         *DNSFilter
	useClient bool

	// noIDs: the holder was started from a configuration without any blocked
	// service.
	noIDs bool
}

func zzC18NewHolder(t testing.TB) (h *zzC18Holder) {
	// The default configuration, as home/config.go has it.
	return zzC18NewHolderWith(t, &BlockedServices{Schedule: schedule.EmptyWeekly(), IDs: []string{zzC18GlobalSvc}})
}

func zzC18NewHolderWith(t testing.TB, bs *BlockedServices) (h *zzC18Holder) {
	h = &zzC18Holder{}
	d, err := New(&Config{
		BlockedServices:      bs,
		ApplyClientFiltering: func(_ string, _ netip.Addr, _ *Settings) {},
		ConfigModified:       func() {},
	}, nil)
	if err != nil {
		t.Fatalf("creating filter: %v", err)
	}

	t.Cleanup(d.Close)
	h.d = d

	return h
}

// zzC18LoadNone starts a server from a configuration file whose blocked
// services carry no schedule, in the given spelling, decoded on top of the
// default configuration as home/config.go does.
func zzC18LoadNone(t testing.TB, form string) (h *zzC18Holder, detail string) {
	conf := &zzC18ConfigFile{
		BlockedServices: &BlockedServices{Schedule: schedule.EmptyWeekly(), IDs: []string{}},
	}

	ids := fmt.Sprintf("  ids:\n  - %s\n", zzC18GlobalSvc)
	var text string
	switch form {
	case "null":
		text = "blocked_services:\n  schedule: null\n" + ids
	case "tilde":
		text = "blocked_services:\n  schedule: ~\n" + ids
	case "blank":
		text = "blocked_services:\n  schedule:\n" + ids
	case "absent":
		text = "blocked_services:\n" + ids
	default:
		text = "blocked_services:\n"
	}

	if err := yaml.Unmarshal([]byte(text), conf); err != nil {
		return nil, err.Error()
	}

	h = zzC18NewHolderWith(t, conf.BlockedServices)
	h.noIDs = form == "section-blank"

	return h, "loaded " + strings.ReplaceAll(text, "\n", "\\n")
}

// putNull sends an update without a schedule.
func (h *zzC18Holder) putNull() (ok bool, detail string) {
	body := fmt.Sprintf("{\"ids\":[%q],\"schedule\":null}", zzC18GlobalSvc)
	rec := httptest.NewRecorder()
	req := httptest.NewRequest(http.MethodPut, "/control/blocked_services/update", strings.NewReader(body))
	h.d.handleBlockedServicesUpdate(rec, req)

	return rec.Code == http.StatusOK, fmt.Sprintf("%d %s", rec.Code, strings.TrimSpace(rec.Body.String()))
}

// zzC18ConfigFile is the part of the configuration that matters here.
type zzC18ConfigFile struct {
	BlockedServices *BlockedServices `yaml:"blocked_services" json:"blocked_services"`
}

// zzC18Load decodes a configuration document, YAML or JSON, on top of the
// default configuration (whose schedule is schedule.EmptyWeekly(), as in
// home/config.go) and, if it is accepted, returns a server started from it.
func zzC18Load(t testing.TB, rng *rand.Rand, form string, doc *zzC18Doc) (h *zzC18Holder, detail string) {
	conf := &zzC18ConfigFile{
		BlockedServices: &BlockedServices{Schedule: schedule.EmptyWeekly(), IDs: []string{}},
	}

	var err error
	if form == "json" {
		body := zzC18PutBody(rng, doc)
		err = json.Unmarshal([]byte("{\"blocked_services\":"+body+"}"), conf)
	} else {
		b := &strings.Builder{}
		fmt.Fprintf(b, "blocked_services:\n  schedule:\n    time_zone: %s\n", doc.TZ)
		for i, r := range doc.W {
			if r == [4]int64{} && rng.Intn(2) == 0 {
				continue
			}

			fmt.Fprintf(b, "    %s:\n      start: %s\n      end: %s\n", zzC18DayKeys[i],
				time.Duration(r[0]*1000000+r[2]), time.Duration(r[1]*1000000+r[3]))
		}

		fmt.Fprintf(b, "  ids:\n  - %s\n", zzC18GlobalSvc)
		err = yaml.Unmarshal([]byte(b.String()), conf)
	}

	if err != nil {
		return nil, err.Error()
	}

	return zzC18NewHolderWith(t, conf.BlockedServices), "loaded"
}

// put sends the document through the update API; ok = answered 200.
func (h *zzC18Holder) put(rng *rand.Rand, doc *zzC18Doc) (ok bool, detail string) {
	body := zzC18PutBody(rng, doc)
	rec := httptest.NewRecorder()
	req := httptest.NewRequest(http.MethodPut, "/control/blocked_services/update", strings.NewReader(body))
	h.d.handleBlockedServicesUpdate(rec, req)

	return rec.Code == http.StatusOK, fmt.Sprintf("%d %s", rec.Code, strings.TrimSpace(rec.Body.String()))
}

// get reads the schedule in effect back through the API.
func (h *zzC18Holder) get() (doc *zzC18Doc, err error) {
	rec := httptest.NewRecorder()
	req := httptest.NewRequest(http.MethodGet, "/control/blocked_services/get", nil)
	h.d.handleBlockedServicesGet(rec, req)
	if rec.Code != http.StatusOK {
		return nil, fmt.Errorf("GET: %d %s", rec.Code, rec.Body.String())
	}

	resp := struct {
		Schedule map[string]json.RawMessage `json:"schedule"`
	}{}
	if err = json.Unmarshal(rec.Body.Bytes(), &resp); err != nil {
		return nil, fmt.Errorf("GET body: %w", err)
	}

	doc = &zzC18Doc{W: make([][4]int64, 7)}
	if raw, has := resp.Schedule["time_zone"]; has {
		_ = json.Unmarshal(raw, &doc.TZ)
	}

	if resp.Schedule == nil {
		// "schedule": null is read as what it says: no range on any day (the
		// empty schedule of the default zone).
		doc.TZ = "Local"
	}

	for i, k := range zzC18DayKeys {
		raw, has := resp.Schedule[k]
		if !has || string(raw) == "null" {
			continue
		}

		day := struct {
			Start float64 `json:"start"`
			End   float64 `json:"end"`
		}{}
		if err = json.Unmarshal(raw, &day); err != nil {
			return nil, fmt.Errorf("GET day %s: %w", k, err)
		}

		split := func(ms float64) (t, n int64) {
			total := int64(math.Round(ms * 1e6))
			t = total / 1000000
			if total%1000000 < 0 {
				t--
			}

			return t, total - t*1000000
		}

		s, sn := split(day.Start)
		e, en := split(day.End)
		doc.W[i] = [4]int64{s, e, sn, en}
	}

	return doc, nil
}

// contains asks the schedule object in effect directly (state read for the
// abstraction function).
func (h *zzC18Holder) contains(t time.Time) (ok bool, panicked string) {
	h.d.confMu.RLock()
	defer h.d.confMu.RUnlock()
	defer func() {
		if r := recover(); r != nil {
			panicked = fmt.Sprint(r)
		}
	}()

	bs := h.d.conf.BlockedServices
	if bs == nil {
		// No blocked services at all: no schedule object to ask; the DNS
		// path is asked instead.
		return false, ""
	}

	return bs.Schedule.Contains(t), ""
}

// paused asks the DNS path at virtual time t: the pause schedule is in effect
// iff a host of the globally blocked service is not answered as blocked.
func (h *zzC18Holder) paused(t time.Time) (ok, valid bool, panicked string) {
	o := zzC18At(h.d, t, false, &h.useClient)

	return !o.globalBlocked, !o.foreign && o.now.Equal(t), o.panicked
}

// zzC18World is the pair of holders a walk acts on.
type zzC18World struct {
	t testing.TB
	h map[string]*zzC18Holder
}

func zzC18NewWorld(t testing.TB) (wd *zzC18World) {
	return &zzC18World{t: t, h: map[string]*zzC18Holder{"g": zzC18NewHolder(t), "c": zzC18NewHolder(t)}}
}

type zzC18StepObs struct {
	ok     bool
	detail string
	got    zzC18Pair
	eff    []string

	// panics counts the probes that were not answered at all.
	panics int
}

// observe reads back what both holders have in effect and compares Contains
// with the given tables (nil: no comparison).
func (wd *zzC18World) observe(rng *rand.Rand, eff map[string][][2]int64, o *zzC18StepObs) {
	for _, name := range []string{"g", "c"} {
		h := wd.h[name]
		got, err := h.get()
		if err != nil {
			o.detail += " / " + name + ": " + err.Error()
			got = &zzC18Doc{TZ: "?"}
		}

		if name == "g" {
			o.got.G = got
		} else {
			o.got.C = got
		}

		tab := eff[name]
		for k, p := range tab {
			at := time.Unix(p[0], 0)
			if k%2 == 0 {
				at = at.UTC()
			}

			c, pv := h.contains(at)
			switch {
			case pv != "":
				o.panics++
				o.eff = append(o.eff, fmt.Sprintf("%s: Contains(%s) panics: %s", name, at.UTC().Format(time.RFC3339), pv))
			case c != (p[1] == 1):
				o.eff = append(o.eff, fmt.Sprintf("%s: Contains(%s)=%v", name, at.UTC().Format(time.RFC3339), c))
			}
		}

		// One of the probes also through the DNS path at that virtual time.
		if len(tab) > 0 {
			p := tab[rng.Intn(len(tab))]
			at := time.Unix(p[0], 0)
			ps, valid, pv := h.paused(at)
			switch {
			case pv != "":
				o.panics++
				o.eff = append(o.eff, fmt.Sprintf("%s: DNS path at %s panics: %s", name, at.UTC().Format(time.RFC3339), pv))
			case valid && !h.noIDs && ps != (p[1] == 1):
				// (Without any blocked service there is nothing whose
				// blocking could be paused.)
				o.eff = append(o.eff, fmt.Sprintf("%s: paused(%s)=%v", name, at.UTC().Format(time.RFC3339), ps))
			}
		}
	}
}

// do performs one request and observes everything the property names, on both
// holders.
func (wd *zzC18World) do(rng *rand.Rand, st *zzC18Step) (o zzC18StepObs) {
	name := st.H
	if name != "c" {
		name = "g"
	}

	switch st.Act {
	case "null":
		o.ok, o.detail = wd.h[name].putNull()
	case "yamlnone":
		nh, detail := zzC18LoadNone(wd.t, st.Form)
		o.ok, o.detail = nh != nil, detail
		if nh != nil {
			wd.h[name] = nh
		}
	case "yaml", "json":
		nh, detail := zzC18Load(wd.t, rng, st.Act, st.Doc)
		o.ok, o.detail = nh != nil, detail
		if nh != nil {
			wd.h[name] = nh
		}
	default:
		o.ok, o.detail = wd.h[name].put(rng, st.Doc)
	}

	wd.observe(rng, st.Eff, &o)

	return o
}

// install brings a new world into the given state through the update API.
func (wd *zzC18World) install(rng *rand.Rand, p *zzC18Pair) (err error) {
	for _, name := range []string{"g", "c"} {
		d := p.of(name)
		if d == nil || zzC18IsBoot(d) {
			continue
		}

		if ok, detail := wd.h[name].put(rng, d); !ok {
			return fmt.Errorf("cannot install %s: %s", name, detail)
		}
	}

	return nil
}

func zzC18StepAgrees(st *zzC18Step, o zzC18StepObs) (ok bool) {
	return o.ok == (st.Out == "ok") && o.got.G.equal(st.Dst.G) && o.got.C.equal(st.Dst.C) && len(o.eff) == 0
}

func zzC18IsBoot(d *zzC18Doc) (ok bool) {
	if d == nil || d.TZ != "Local" {
		return false
	}

	for _, r := range d.W {
		if r != [4]int64{} {
			return false
		}
	}

	return true
}

// TestZZVerifC18Holder is direction A for the schedules in effect.
func TestZZVerifC18Holder(t *testing.T) {
	w := zzNewWriter(t, "VERIF_OUT")
	defer w.close()

	rng := rand.New(rand.NewSource(zzSeed()))
	InitModule()
	wd := zzC18NewWorld(t)

	var steps, bad, badNoSchedule, installs, rejects, resyncs, truncated int
	zzReadNDJSON(t, "VERIF_IN", func(line []byte) {
		st := &zzC18Step{}
		if err := json.Unmarshal(line, st); err != nil {
			t.Fatalf("bad step: %v", err)
		}

		if bad-badNoSchedule >= 40 {
			// Enough reproduced disagreements: the rest of the walk is not
			// taken, only counted.
			if !st.Reset {
				truncated++
			}

			return
		}

		if st.Reset {
			wd = zzC18NewWorld(t)

			return
		}

		steps++
		o := wd.do(rng, st)
		w.put(map[string]any{"kind": "obs", "i": st.I, "ok": zzC18B(o.ok), "get": o.got, "eff": o.eff})
		if st.Out == "" || st.Dst == nil {
			// Observation only (isolated re-run of a recorded step).
			return
		}

		if st.Out == "ok" {
			installs++
		} else {
			rejects++
		}

		if zzC18StepAgrees(st, o) {
			return
		}

		// Reproduce on new servers: install the source state of both
		// holders, then this request.  (The orchestrator then confirms in a
		// new process, with as much of the walk before it as is needed.)
		wd2 := zzC18NewWorld(t)
		if err := wd2.install(rng, st.Src); err != nil {
			w.put(map[string]any{"kind": "unconfirmed", "i": st.I, "err": err.Error()})
		}

		o2 := wd2.do(rng, st)
		if zzC18StepAgrees(st, o2) {
			// Not a function of the visible state: the history matters.
			o2 = o
		}

		bad++
		what := "holder-state-differs"
		switch {
		case st.Act == "yamlnone" && o2.ok && o2.panics > 0 && o2.panics == len(o2.eff) &&
			o2.got.G.equal(st.Dst.G) && o2.got.C.equal(st.Dst.C):
			// Loaded, reads back as the empty schedule, but nothing that
			// consults it answers.  (Not counted against the cap: cheap, and
			// every such edge shows it.)
			what = "holder-no-schedule-panics"
			badNoSchedule++
		case o2.ok != (st.Out == "ok") && o2.ok:
			what = "holder-accepted"
		case o2.ok != (st.Out == "ok"):
			what = "holder-refused"
		case !o2.got.of(zzC18OtherName(st.H)).equal(st.Dst.of(zzC18OtherName(st.H))):
			what = "holder-changed-by-request-to-the-other"
		case st.Out == "rejected":
			what = "holder-rejected-update-took-effect"
		case st.Act == "null":
			what = "holder-empty-schedule-not-empty"
		}

		w.put(map[string]any{
			"kind": "bad", "what": what, "step": st.I, "h": st.H, "act": st.Act, "src": st.Src, "doc": st.Doc,
			"want_out": st.Out, "got_ok": o2.ok, "reply": o2.detail, "want_dst": st.Dst, "got_dst": o2.got,
			"eff": o2.eff, "probes": st.Eff,
		})

		// The real state has left the walk: start over from the state the
		// walk expects.
		resyncs++
		wd = zzC18NewWorld(t)
		_ = wd.install(rng, st.Dst)
	})

	w.put(map[string]any{
		"kind": "summary", "steps": steps, "bad": bad, "installs": installs, "rejects": rejects, "resyncs": resyncs,
		"truncated": truncated, "bad_no_schedule": badNoSchedule,
	})
}

func zzC18OtherName(h string) (o string) {
	if h == "c" {
		return "g"
	}

	return "c"
}

func zzC18B(x bool) (b int) {
	if x {
		return 1
	}

	return 0
}

// ---------------------------------------------------------------- direction B

func zzC18HostZones() (names []string) {
	root := "/usr/share/zoneinfo"
	for _, area := range []string{"Africa", "America", "Asia", "Atlantic", "Australia", "Europe", "Indian", "Pacific", "Etc"} {
		ents, err := os.ReadDir(filepath.Join(root, area))
		if err != nil {
			continue
		}

		for _, e := range ents {
			n := area + "/" + e.Name()
			if e.IsDir() {
				continue
			}

			if _, lerr := time.LoadLocation(n); lerr == nil {
				names = append(names, n)
			}
		}
	}

	if len(names) == 0 {
		names = []string{"UTC"}
	}

	sort.Strings(names)

	return names
}

func zzC18RandDay(rng *rand.Rand) (r [4]int64) {
	switch rng.Intn(8) {
	case 0, 1:
		return r
	case 2:
		return [4]int64{0, 86400000, 0, 0}
	default:
		a, b := rng.Intn(1441), rng.Intn(1441)
		if a == b {
			return r
		}

		if a > b {
			a, b = b, a
		}

		return [4]int64{int64(a) * 60000, int64(b) * 60000, 0, 0}
	}
}

func zzC18BadDay(rng *rand.Rand) (r [4]int64) {
	m := func(max int) int64 { return int64(rng.Intn(max)) * 60000 }
	switch rng.Intn(8) {
	case 0:
		return [4]int64{-60000 - m(600), m(1440), 0, 0}
	case 1:
		a := 60000 + m(1439)

		return [4]int64{a, a - 60000 - m(int(a/60000)), 0, 0}
	case 2:
		return [4]int64{0, 86400000 + 60000 + m(1440), 0, 0}
	case 3:
		return [4]int64{82800000 + m(60), 86400000 + 60000 + m(120), 0, 0}
	case 4:
		return [4]int64{m(700), 43200000 + m(700) + 1000*int64(1+rng.Intn(59)), 0, 0}
	case 5:
		return [4]int64{m(700) + int64(1+rng.Intn(59999)), 43200000 + m(700), 0, 0}
	case 6:
		return [4]int64{m(700), 43200000 + m(700), 0, 15625 * int64(1+rng.Intn(63))}
	default:
		return [4]int64{m(700), 43200000 + m(700), 500000, 0}
	}
}

// TestZZVerifC18HolderTrace is direction B for the schedules in effect: a
// random history of requests (update, update without schedule, restart from
// a YAML / JSON configuration) to two holders; after each one both holders
// are read back and probed.
func TestZZVerifC18HolderTrace(t *testing.T) {
	w := zzNewWriter(t, "VERIF_OUT")
	defer w.close()

	rng := rand.New(rand.NewSource(zzSeed()))
	n := 1500
	if strings.EqualFold(strings.TrimSpace(zzGetenv("VERIF_TIER")), "thorough") {
		n = 12000
	}

	InitModule()
	zones := zzC18HostZones()
	wd := zzC18NewWorld(t)
	lo, hi := time.Date(2000, 1, 5, 0, 0, 0, 0, time.UTC).Unix(), time.Date(2037, 12, 20, 0, 0, 0, 0, time.UTC).Unix()

	split := func(d *zzC18Doc) (a, b [][2]int64) {
		for _, r := range d.W {
			a = append(a, [2]int64{r[0], r[1]})
			b = append(b, [2]int64{r[2], r[3]})
		}

		return a, b
	}

	for i := 0; i < n; i++ {
		if i%150 == 149 {
			wd = zzC18NewWorld(t)
			w.put(map[string]any{"k": "reset"})

			continue
		}

		st := &zzC18Step{
			H:   []string{"g", "c"}[rng.Intn(2)],
			Act: []string{"put", "put", "put", "put", "null", "yaml", "yaml", "json", "yamlnone"}[rng.Intn(9)],
		}
		doc := &zzC18Doc{TZ: zones[rng.Intn(len(zones))], W: make([][4]int64, 7)}
		if st.Act == "null" || st.Act == "yamlnone" {
			doc.TZ = "Local"
			st.Form = []string{"null", "tilde", "blank", "absent", "section-blank"}[rng.Intn(5)]
		} else {
			for d := range doc.W {
				doc.W[d] = zzC18RandDay(rng)
			}

			if rng.Intn(2) == 0 {
				// One or two bad days, anywhere in the week.
				for k := 1 + rng.Intn(2); k > 0; k-- {
					doc.W[rng.Intn(7)] = zzC18BadDay(rng)
				}
			}
		}

		st.Doc = doc
		o := wd.do(rng, st)

		line := map[string]any{"k": "op", "h": st.H, "act": st.Act, "form": st.Form, "ok": zzC18B(o.ok)}
		panics := 0
		line["tz"] = doc.TZ
		line["w"], line["wn"] = split(doc)
		for _, name := range []string{"g", "c"} {
			got := o.got.of(name)
			// Probes: random instants, read with the zone that GET reports.
			loc := time.Local
			if got.TZ != "Local" {
				if l, lerr := time.LoadLocation(got.TZ); lerr == nil {
					loc = l
				}
			}

			probes := [][3]int64{}
			for k := 0; k < 4; k++ {
				at := time.Unix(lo+rng.Int63n(hi-lo), 0)
				_, off := at.In(loc).Zone()
				c, pv := wd.h[name].contains(at)
				ans := int64(zzC18B(c))
				if pv == "" && k == 0 {
					// The first probe also through the DNS path.
					if _, _, dv := wd.h[name].paused(at); dv != "" {
						pv = dv
					}
				}

				if pv != "" {
					// Not answered at all.
					ans = 2
					panics++
				}

				probes = append(probes, [3]int64{at.Unix(), int64(off), ans})
			}

			gw, gn := split(got)
			line[name] = map[string]any{"tz": got.TZ, "w": gw, "wn": gn, "probes": probes}
		}

		line["panics"] = panics
		w.put(line)
		if panics > 0 {
			// A holder that cannot be asked any more: the history ends here.
			wd = zzC18NewWorld(t)
			w.put(map[string]any{"k": "reset"})
		}
	}
}
