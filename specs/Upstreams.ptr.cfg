SPECIFICATION Spec
CONSTANTS
  Up = {"u1", "u2", "u3", "u4"}
  UpLists <- PtrUpLists
  FbLists <- PtrFbLists
  BootVals <- OneBoot
  PtrLists <- PtrPtrLists
  UseVals <- BOOLEAN
  Shapes <- PtrShapes
  Near <- NearAny
  Queries <- PtrQueries
  Locs <- LocBoth
  FailSet <- FailPtr
  SysVals <- SysBoth
  TestReqs <- PtrTestReqs
INVARIANTS TypeOK StoredValid Decided
