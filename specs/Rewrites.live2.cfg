\* Termination: the evaluation as a step machine; liveness under weak
\* fairness, no state constraint, plus the variant.  Tables: the reduced cycle
\* family (cycles of length 1..4 through exact and wildcard links) and all
\* tables of at most two entries (thorough tier).
CONSTANTS U = "small" MaxLen = 2 EmitFrom = 1 Shard = 0 Perms = FALSE Families = 1 Mode = "live"
SPECIFICATION Spec
PROPERTIES Terminates VariantGrows
INVARIANTS VariantBounded MachineAgrees
