SPECIFICATION Spec
CONSTANTS
  MaxLines = 4
  LenClasses = {"t", "h", "m"}
  LayoutSet <- McLayouts
INVARIANTS TypeOK Contiguous RunsToOldest ReadBackwardsComplete SeekLandsOnEntry OkSeekKeepsOlder AbsentReports PresentNeverError FileClasses BelowAgrees FallthroughAdmissible EmptyAsTooEarlyComposes OnlyTooEarlyForEmptyCurrent
PROPERTY FailedSeekKeepsPosition
