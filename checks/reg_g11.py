PROPERTY = "G11"
ENTRY = {
        "text": "Upstreams.tla/UpstreamsCore.tla (abstract upstream lists = general upstreams + one section per domain pattern naming upstreams or '#', "
                "a flag for AdGuard Home's own address and the kind of the one invalid line; dns_config requests of every shape merged over the stored "
                "configuration and accepted iff every carried list is valid and the RESULTING private-rDNS pair has a server in effect; selection = the "
                "most specific matching section incl. '[/*.d/]' subdomain-only sections, '#' = the general upstreams, fallback servers only after every "
                "selected upstream was asked and failed; private PTR questions answered from DHCP / hosts, else sent to the private resolvers only (the "
                "OS's without AdGuard Home itself when none are set), NXDOMAIN for outside clients and when the switch is off; unknown names under the "
                "DHCP domain NXDOMAIN, never forwarded; test_upstream_dns reports every named server and every invalid line) is explored by TLC over "
                "all histories of three finite universes (3 invariants, the statement's sentences asserted on every dns_config / question / test "
                "transition); every state is printed with its verdict table and its dns_config edges, the graphs are covered by tours from the initial "
                "state, each walked on a fresh real dnsforward.Server (real handleSetConfig / handleGetConfig / handleTestUpstreamDNS, questions over "
                "real UDP sockets from inside / outside dns.private_networks) between four recording mock upstreams on real UDP+TCP sockets, comparing "
                "status code, dns_info, the configuration handed out for the file, server liveness, which mocks received each question, who answered "
                "and the response class, under every combination of failing upstreams; seeded random histories over a larger universe are recorded and "
                "validated line by line by TraceUpstreams.tla.",
        "design_ref": "DESIGN.md section 5 (item 5, upstream side); notes/G11.md",
        "note": "Trusted: TLC, the concretisation of zz_verif_g11_test.go (rendering of abstract lists incl. comments, empty lines, letter case, merged / "
                "split section lines; request id + name identify a question at a mock; sentinel answers identify the answering mock), the fake "
                "operating-system resolver list (Server.sysResolvers, as in the package's own tests). Nondeterministic where the documentation is "
                "silent (the domain d of '[/*.d/]' below a less specific section; PTR for a DHCP-known address while private rDNS is off; a private "
                "server list that only names AdGuard Home while the switch is off). Not generated: '[/d/]' together with '[/*.d/]', '#' mixed with "
                "upstreams in one line, lists without general upstreams, '[//]' (unqualified names), upstream_dns_file, DoH/DoT/DoQ upstreams, "
                "fastest_addr mode. Selection itself lives in the dnsproxy module (v0.75.3), outside /repo. Two open findings with one proposed fix "
                "(dns_config validates the private rDNS fields of the request alone, not the resulting configuration: clearing local_ptr_upstreams "
                "while the switch is on stops the DNS server with a 500; switching it on alone is refused although servers are stored).",
        "technique": "TLA+ state machine explored by TLC; edge-covering tour replay into real code + TLC trace validation",
    }
