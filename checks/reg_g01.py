PROPERTY = "G01"
ENTRY = {
        "text": "DnsFront.tla / DnsFrontCore.tla (front stages of the DNS request pipeline, written from the documentation: refuse_any, "
                "private reverse zones, aaaa_disabled, Firefox canary, healthcheck name, DDR, DHCP host names, DHCP PTR answers, private rDNS, DNS64, "
                "and their precedence over each other and over blocking) is enumerated by TLC over every configuration of a finite universe; "
                "19 sentences of the statement are invariants on every verdict table; every table is replayed into live, really reconfigured "
                "servers (Server.Prepare, lease table, DHCP switch) in seeded orders and each observed outcome (answer class, which upstream "
                "was asked, addresses / PTR targets / DDR endpoints, query-log write) must be in the admissible set; a seeded random run over a "
                "larger universe is recorded and validated by TraceDnsFront.tla. Disagreements seen only on the live server are reported as "
                "history-dependent with a shrunk, replayable history.",
        "design_ref": "notes/G01.md (growth item; DESIGN.md section 5)",
        "note": "Trusted: TLC, abs()/zzG01Endpoint()/the RFC 6303 and reverse-name classifiers of zz_verif_g01_test.go. Requests enter through "
                "Server.ServeHTTP (part over a real UDP socket); upstreams, lease table and query log are recording doubles. Blocking mode default, "
                "response cache off. Not asserted: TTLs, SVCB priority values, logging of locally answered requests where the documentation is silent.",
        "technique": "TLA+ spec enumerated by TLC; exhaustive verdict-table replay into real code + TLC trace validation",
    }
