package dnsforward

// G02 conformance harness, pipeline level: what the DNS client and the
// upstream see for $dnsrewrite rules, system-hosts rewrites and their
// precedence (reply code, records built from the rule values, CNAME resolved
// through the upstream with the original question restored, hosts answers,
// nothing asked upstream when answered locally).
//
// One real Server (UDP listener on loopback, real filtering.DNSFilter with a
// real aghnet.HostsContainer) with a recording mock upstream whose behaviour
// (answer / no data / NXDOMAIN / SERVFAIL) is a seeded function of the asked
// name.  The server is reconfigured while it runs: custom rules through POST
// /control/filtering/set_rules, the hosts file through the watcher, the legacy
// table through /control/rewrite/add|delete, protection through POST
// /control/protection; a fresh server is built when hosts_file_enabled or the
// allow list differ and every few dozen configurations.
//
// The harness has NO expectations of its own: it logs the configuration in
// force and, per question, the projected observation; specs/TraceDnsRewrite.tla
// (DnsRewriteCore's own Outcomes and Serve) accepts or rejects every line.
//   TestZZVerifG02Pipeline   direction A: configurations enumerated by TLC
//   TestZZVerifG02PipeTrace  direction B: random larger configurations
//   TestZZVerifG02PipeProbe  a rejected line re-executed alone on a fresh server

import (
	"bytes"
	"encoding/json"
	"fmt"
	"hash/fnv"
	"math/rand"
	"net"
	"net/http"
	"net/http/httptest"
	"net/netip"
	"os"
	"path/filepath"
	"sort"
	"strconv"
	"strings"
	"sync"
	"testing"
	"testing/fstest"
	"time"

	"github.com/AdguardTeam/AdGuardHome/internal/aghnet"
	"github.com/AdguardTeam/AdGuardHome/internal/aghtest"
	"github.com/AdguardTeam/AdGuardHome/internal/filtering"
	"github.com/AdguardTeam/AdGuardHome/internal/filtering/rulelist"
	"github.com/AdguardTeam/AdGuardHome/internal/schedule"
	"github.com/AdguardTeam/dnsproxy/proxy"
	"github.com/AdguardTeam/dnsproxy/upstream"
	"github.com/AdguardTeam/golibs/logutil/slogutil"
	"github.com/AdguardTeam/golibs/netutil"
	"github.com/miekg/dns"
)

// ------------------------------------------------------------ abstract side

type zzG02Rw struct {
	K string   `json:"k"`
	T string   `json:"t"`
	V string   `json:"v"`
	N []string `json:"n"`
}

type zzG02Tgt struct {
	N []string `json:"n"`
}

type zzG02Rule struct {
	Place string     `json:"place"`
	Kind  string     `json:"kind"`
	Pat   string     `json:"pat"`
	Tgt   zzG02Tgt   `json:"tgt"`
	Imp   bool       `json:"imp"`
	Dt    string     `json:"dt"`
	Dtype string     `json:"dtype"`
	Cl    string     `json:"cl"`
	Da    [][]string `json:"da"`
	Rw    zzG02Rw    `json:"rw"`
}

type zzG02Line struct {
	IP    string     `json:"ip"`
	Names [][]string `json:"names"`
}

type zzG02LEntry struct {
	W  bool     `json:"w"`
	N  []string `json:"n"`
	K  string   `json:"k"`
	IP string   `json:"ip"`
	T  []string `json:"t"`
}

type zzG02Cfg struct {
	Rules   []zzG02Rule   `json:"rules"`
	Hosts   []zzG02Line   `json:"hosts"`
	HostsOn bool          `json:"hostsOn"`
	Legacy  []zzG02LEntry `json:"legacy"`
	Filt    bool          `json:"filt"`
	Prot    bool          `json:"prot"`
}

type zzG02Out struct {
	R     string     `json:"r"`
	Rcode string     `json:"rcode"`
	Canon []string   `json:"canon"`
	Vals  [][]string `json:"vals"`
	Up    bool       `json:"up"`
}

type zzG02Rq struct {
	Host []string `json:"host"`
	Qt   string   `json:"qt"`
	C1   bool     `json:"c1"`
}

type zzG02Group struct {
	Q  []zzG02Rq  `json:"q"`
	O  []zzG02Out `json:"o"`
	Kf []zzG02Out `json:"kf"`
}

type zzG02Vec struct {
	Kind string       `json:"kind"`
	Fam  string       `json:"fam"`
	ID   int          `json:"id"`
	Cfg  zzG02Cfg     `json:"cfg"`
	Vd   []zzG02Group `json:"vd"`
	// edges of the reconfiguration machine
	Src zzG02Cfg `json:"src"`
	Dst zzG02Cfg `json:"dst"`
	Act string   `json:"act"`
}

func zzG02JSON(v any) (s string) {
	b, _ := json.Marshal(v)

	return string(b)
}

// key is a canonical form of an outcome for comparison: reason, reply code,
// canonical name and the SET of values (up is not observable here).
func (o *zzG02Out) key() (k string) {
	vs := make([]string, 0, len(o.Vals))
	for _, v := range o.Vals {
		vs = append(vs, strings.Join(v, "."))
	}
	sort.Strings(vs)
	vs = zzG02Uniq(vs)

	return o.R + "|" + o.Rcode + "|" + strings.Join(o.Canon, ".") + "|" + strings.Join(vs, ",")
}

func zzG02Uniq(ss []string) (r []string) {
	r = []string{}
	for i, s := range ss {
		if i == 0 || s != ss[i-1] {
			r = append(r, s)
		}
	}

	return r
}

func zzG02In(o *zzG02Out, set []zzG02Out) (ok bool) {
	k := o.key()
	for i := range set {
		if set[i].key() == k {
			return true
		}
	}

	return false
}

// cfgKey is a canonical form of a configuration (rules and lines are sets).
func zzG02CfgKey(c *zzG02Cfg) (k string) {
	rs := make([]string, 0, len(c.Rules))
	for i := range c.Rules {
		rs = append(rs, zzG02JSON(c.Rules[i]))
	}
	sort.Strings(rs)
	hs := make([]string, 0, len(c.Hosts))
	for _, l := range c.Hosts {
		ns := make([]string, 0, len(l.Names))
		for _, n := range l.Names {
			ns = append(ns, strings.Join(n, "."))
		}
		sort.Strings(ns)
		hs = append(hs, l.IP+" "+strings.Join(ns, " "))
	}
	sort.Strings(hs)

	return fmt.Sprintf("%s|%s|%v|%s|%v|%v", strings.Join(rs, ";"), strings.Join(hs, ";"), c.HostsOn,
		zzG02JSON(c.Legacy), c.Filt, c.Prot)
}

// ------------------------------------------------------------ concrete side

var zzG02Labels = map[string]string{
	"a": "host", "b": "other", "c": "com", "x": "www", "d": "org", "y": "sub", "e": "ext", "z": "mail",
}

var zzG02QTypes = map[string]uint16{
	"A": dns.TypeA, "AAAA": dns.TypeAAAA, "TXT": dns.TypeTXT, "MX": dns.TypeMX, "PTR": dns.TypePTR,
	"HTTPS": dns.TypeHTTPS, "SVCB": dns.TypeSVCB, "SRV": dns.TypeSRV, "CNAME": dns.TypeCNAME,
}

// Clients: c1 is the client that $client rules name.
const (
	zzG02C1    = "127.0.7.1"
	zzG02Other = "127.0.7.2"
)

type zzG02Conc struct {
	seed   int64
	ips    map[string]string
	rev    map[string]string
	labRev map[string]string
}

func zzG02NewConc(seed int64) (c *zzG02Conc) {
	rng := rand.New(rand.NewSource(seed))
	c = &zzG02Conc{seed: seed, ips: map[string]string{}, rev: map[string]string{}, labRev: map[string]string{}}
	v4 := func(tok string, third int) { c.ips[tok] = fmt.Sprintf("93.184.%d.%d", third, 1+rng.Intn(250)) }
	v6 := func(tok string, third int) { c.ips[tok] = fmt.Sprintf("2a02:6b8:%x::%x", third, 1+rng.Intn(0xfffe)) }
	for i, tok := range []string{"v4a", "v4b", "v4c", "h4a", "h4b", "h4c", "l4", "p4"} {
		v4(tok, 10+i)
	}
	for i, tok := range []string{"v6a", "v6b", "h6a", "h6b", "h6c", "l6"} {
		v6(tok, 10+i)
	}
	// IPv4-mapped IPv6 addresses are IPv6 addresses.
	c.ips["v6m"] = fmt.Sprintf("::ffff:93.184.30.%d", 1+rng.Intn(250))
	c.ips["h6m"] = fmt.Sprintf("::ffff:93.184.31.%d", 1+rng.Intn(250))
	for k, v := range c.ips {
		c.rev[netip.MustParseAddr(v).String()] = k
	}
	for k, v := range zzG02Labels {
		c.labRev[v] = k
	}

	return c
}

func (c *zzG02Conc) ip(tok string) (s string) {
	if s, ok := c.ips[tok]; ok {
		return s
	}

	return tok
}

func (c *zzG02Conc) absIP(a netip.Addr) (tok string) {
	if s, ok := c.rev[a.String()]; ok {
		return s
	}

	return a.String()
}

// name renders an abstract name; <<tok, "REV">> is the reverse name of tok.
func (c *zzG02Conc) name(ls []string) (s string) {
	if len(ls) == 2 && ls[1] == "REV" {
		a, err := netip.ParseAddr(c.ip(ls[0]))
		if err != nil {
			return ls[0] + ".invalid"
		}

		return zzG02Reverse(a)
	}

	parts := make([]string, len(ls))
	for i, l := range ls {
		if r, ok := zzG02Labels[l]; ok {
			parts[i] = r
		} else {
			parts[i] = l
		}
	}

	return strings.Join(parts, ".")
}

// zzG02Reverse is the reverse-lookup name of an address: in-addr.arpa for an
// IPv4 address, ip6.arpa for an IPv6 address (an IPv4-mapped one included).
func zzG02Reverse(a netip.Addr) (s string) {
	if a.Is4() {
		b := a.As4()

		return fmt.Sprintf("%d.%d.%d.%d.in-addr.arpa", b[3], b[2], b[1], b[0])
	}

	const hex = "0123456789abcdef"
	b := a.As16()
	parts := make([]string, 0, 34)
	for i := 15; i >= 0; i-- {
		parts = append(parts, string(hex[b[i]&0xf]), string(hex[b[i]>>4]))
	}

	return strings.Join(parts, ".") + ".ip6.arpa"
}

func (c *zzG02Conc) absName(s string) (ls []string) {
	s = strings.ToLower(strings.TrimSuffix(s, "."))
	if s == "" {
		return []string{}
	}
	if strings.HasSuffix(s, ".arpa") {
		// the reverse name of a known address
		if a, err := netutil.IPFromReversedAddr(s); err == nil {
			if tok, ok := c.rev[a.String()]; ok {
				return []string{tok, "REV"}
			}
		}
	}
	ls = strings.Split(s, ".")
	for i, l := range ls {
		if a, ok := c.labRev[l]; ok {
			ls[i] = a
		}
	}

	return ls
}

// Record values.  The tokens of the structured types stand for fixed texts.
var zzG02ValText = map[string]string{
	"TXT/t1": "hello_world", "TXT/t2": "second_text",
	"MX/m1": "32 mail.other.com", "MX/m2": "10 mx2.other.com",
	"HTTPS/s1": "32 svc.other.com alpn=h3", "SVCB/s1": "32 svc.other.com",
	"HTTPS/s2": "1 alt.other.com", "SVCB/s2": "1 alt.other.com",
	"PTR/p1": "ptr-one.other.com.", "PTR/p2": "ptr-two.other.com",
	"SRV/r1": "10 60 8080 srv.other.com", "SRV/r2": "20 10 443 srv2.other.com",
}

// spelling bits of one rule occurrence
func (c *zzG02Conc) bits(salt string) (h uint32) {
	h = 2166136261
	for _, b := range []byte(fmt.Sprintf("%d/%s", c.seed, salt)) {
		h ^= uint32(b)
		h *= 16777619
	}

	return h
}

func (c *zzG02Conc) rwValue(rw *zzG02Rw, short bool) (s string) {
	switch rw.K {
	case "empty":
		return ""
	case "rcode":
		if short {
			return rw.T
		}

		return rw.T + ";;"
	case "noerror":
		if short {
			return "NOERROR"
		}

		return "NOERROR;;"
	case "cname":
		if short {
			return c.name(rw.N)
		}

		return "NOERROR;CNAME;" + c.name(rw.N)
	case "rr":
		if rw.T == "A" || rw.T == "AAAA" {
			if short {
				return c.ip(rw.V)
			}

			return "NOERROR;" + rw.T + ";" + c.ip(rw.V)
		}
		if t, ok := zzG02ValText[rw.T+"/"+rw.V]; ok {
			return "NOERROR;" + rw.T + ";" + t
		}

		return "NOERROR;" + rw.T + ";" + rw.V
	}

	return "?" + rw.K
}

// ruleText renders one rule; salt selects the spelling.
func (c *zzG02Conc) ruleText(r *zzG02Rule, salt string) (s string) {
	h := c.bits(salt + zzG02JSON(r))
	name := c.name(r.Tgt.N)
	switch r.Pat {
	case "exact":
		s = "|" + name + "^"
	case "wild":
		s = "*." + name + "^"
	default:
		s = "||" + name + "^"
	}
	if r.Kind == "allow" {
		s = "@@" + s
	}

	mods := []string{}
	if r.Imp {
		mods = append(mods, "important")
	}
	switch r.Dt {
	case "only":
		mods = append(mods, "dnstype="+r.Dtype)
	case "except":
		mods = append(mods, "dnstype=~"+r.Dtype)
	}
	switch r.Cl {
	case "only":
		mods = append(mods, "client="+zzG02C1)
	case "except":
		mods = append(mods, "client=~"+zzG02C1)
	}
	if len(r.Da) > 0 {
		ns := []string{}
		for _, n := range r.Da {
			ns = append(ns, c.name(n))
		}
		mods = append(mods, "denyallow="+strings.Join(ns, "|"))
	}
	if r.Rw.K != "none" {
		v := c.rwValue(&r.Rw, h&1 == 0)
		if r.Rw.K == "empty" {
			mods = append(mods, "dnsrewrite")
		} else {
			mods = append(mods, "dnsrewrite="+v)
		}
	}
	if len(mods) == 0 {
		return s
	}

	// seeded order of the modifiers
	rng := rand.New(rand.NewSource(int64(h >> 1)))
	rng.Shuffle(len(mods), func(i, j int) { mods[i], mods[j] = mods[j], mods[i] })

	return s + "$" + strings.Join(mods, ",")
}

// rendering of a configuration
type zzG02Text struct {
	Custom []string `json:"custom"`
	Allow  []string `json:"allow"`
	Block  []string `json:"block"`
	Hosts  []string `json:"hosts"`
	Legacy []string `json:"legacy"`
}

func (c *zzG02Conc) render(cfg *zzG02Cfg, salt string) (t zzG02Text) {
	rng := rand.New(rand.NewSource(int64(c.bits("order/" + salt))))
	rs := append([]zzG02Rule{}, cfg.Rules...)
	rng.Shuffle(len(rs), func(i, j int) { rs[i], rs[j] = rs[j], rs[i] })
	for i := range rs {
		line := c.ruleText(&rs[i], salt)
		switch rs[i].Place {
		case "allow":
			t.Allow = append(t.Allow, line)
		case "block":
			t.Block = append(t.Block, line)
		default:
			t.Custom = append(t.Custom, line)
		}
	}

	ls := append([]zzG02Line{}, cfg.Hosts...)
	rng.Shuffle(len(ls), func(i, j int) { ls[i], ls[j] = ls[j], ls[i] })
	for _, l := range ls {
		ns := []string{}
		for _, n := range l.Names {
			ns = append(ns, c.name(n))
		}
		rng.Shuffle(len(ns), func(i, j int) { ns[i], ns[j] = ns[j], ns[i] })
		t.Hosts = append(t.Hosts, c.ip(l.IP)+" "+strings.Join(ns, " "))
	}

	for _, e := range cfg.Legacy {
		t.Legacy = append(t.Legacy, c.legacy(&e).Domain+" -> "+c.legacy(&e).Answer)
	}

	return t
}

func (c *zzG02Conc) legacy(e *zzG02LEntry) (rw *filtering.LegacyRewrite) {
	rw = &filtering.LegacyRewrite{Domain: c.name(e.N)}
	if e.W {
		rw.Domain = "*." + rw.Domain
	}
	switch e.K {
	case "ip4", "ip6":
		rw.Answer = c.ip(e.IP)
	case "A", "AAAA":
		rw.Answer = e.K
	default:
		rw.Answer = c.name(e.T)
	}

	return rw
}

// spell varies the letter case of a question name.
func zzG02Spell(s string, variant uint32) (r string) {
	switch variant % 3 {
	case 1:
		return strings.ToUpper(s)
	case 2:
		b := []byte(s)
		for i := range b {
			if i%2 == 0 && b[i] >= 'a' && b[i] <= 'z' {
				b[i] -= 'a' - 'A'
			}
		}

		return string(b)
	default:
		return s
	}
}

// ------------------------------------------------------------ mock upstream

// zzG02Upstream answers every question with records derived from the question
// name, or, for some names, with no data / NXDOMAIN / SERVFAIL, and logs the
// questions.
type zzG02Upstream struct {
	mu    sync.Mutex
	seed  int64
	epoch int
	log   [][2]string
	// data maps the textual data of every record ever served to the name it
	// was served for.
	data map[string]string
}

func zzG02UpData(name string, qt uint16) (s string) {
	h := fnv.New32a()
	_, _ = h.Write([]byte(name))
	x := h.Sum32()
	switch qt {
	case dns.TypeA:
		return netip.AddrFrom4([4]byte{10, byte(x >> 16), byte(x >> 8), byte(x)}).String()
	case dns.TypeAAAA:
		return netip.AddrFrom16([16]byte{0xfd, 0x99, 12: byte(x >> 24), 13: byte(x >> 16), 14: byte(x >> 8), 15: byte(x)}).String()
	default:
		return "up:" + name
	}
}

func (u *zzG02Upstream) setEpoch(e int) {
	u.mu.Lock()
	defer u.mu.Unlock()

	u.epoch = e
}

// mode is what the upstream does when asked for name: it answers five names
// out of eight, has no data for one, says that one does not exist and fails
// for one; the assignment changes with every configuration (epoch).
func (u *zzG02Upstream) mode(name string) (m string) {
	h := fnv.New32a()
	u.mu.Lock()
	epoch := u.epoch
	u.mu.Unlock()
	_, _ = h.Write([]byte(fmt.Sprintf("%d/%d/%s", u.seed, epoch, strings.ToLower(name))))
	switch h.Sum32() % 8 {
	case 5:
		return "nodata"
	case 6:
		return "nxdomain"
	case 7:
		return "servfail"
	default:
		return "answer"
	}
}

func (u *zzG02Upstream) Exchange(req *dns.Msg) (resp *dns.Msg, err error) {
	q := req.Question[0]
	name := strings.ToLower(strings.TrimSuffix(q.Name, "."))
	data := zzG02UpData(name, q.Qtype)
	m := u.mode(name)

	u.mu.Lock()
	u.log = append(u.log, [2]string{name, dns.TypeToString[q.Qtype]})
	if m == "answer" {
		u.data[data] = name
	}
	u.mu.Unlock()

	resp = (&dns.Msg{}).SetReply(req)
	resp.RecursionAvailable = true
	switch m {
	case "nodata":
		return resp, nil
	case "nxdomain":
		resp.Rcode = dns.RcodeNameError

		return resp, nil
	case "servfail":
		resp.Rcode = dns.RcodeServerFailure

		return resp, nil
	}

	hdr := dns.RR_Header{Name: q.Name, Rrtype: q.Qtype, Class: dns.ClassINET, Ttl: 300}
	switch q.Qtype {
	case dns.TypeA:
		resp.Answer = []dns.RR{&dns.A{Hdr: hdr, A: net.ParseIP(data)}}
	case dns.TypeAAAA:
		resp.Answer = []dns.RR{&dns.AAAA{Hdr: hdr, AAAA: net.ParseIP(data)}}
	default:
		hdr.Rrtype = dns.TypeTXT
		resp.Answer = []dns.RR{&dns.TXT{Hdr: hdr, Txt: []string{data}}}
	}

	return resp, nil
}

func (u *zzG02Upstream) Address() (addr string) { return "upstream.example" }
func (u *zzG02Upstream) Close() (err error)     { return nil }

func (u *zzG02Upstream) take() (log [][2]string) {
	u.mu.Lock()
	defer u.mu.Unlock()

	log, u.log = u.log, nil

	return log
}

func (u *zzG02Upstream) owner(data string) (name string, ok bool) {
	u.mu.Lock()
	defer u.mu.Unlock()

	name, ok = u.data[data]

	return name, ok
}

var _ upstream.Upstream = (*zzG02Upstream)(nil)

type zzG02DHCP struct{}

func (zzG02DHCP) HostByIP(_ netip.Addr) (host string) { return "" }
func (zzG02DHCP) IPByHost(_ string) (ip netip.Addr)   { return netip.Addr{} }
func (zzG02DHCP) Enabled() (ok bool)                  { return false }

// ------------------------------------------------------------------- server

type zzG02Srv struct {
	conc     *zzG02Conc
	s        *Server
	ups      *zzG02Upstream
	f        *filtering.DNSFilter
	fconf    *filtering.Config
	hc       *aghnet.HostsContainer
	fsys     fstest.MapFS
	events   chan struct{}
	handlers map[string]http.HandlerFunc
	addr     string
	dir      string
	gen      int
	cur      zzG02Cfg
	curText  zzG02Text
	age      int
	stats    map[string]int
}

const (
	zzG02RuleMarker  = "g%d.zz-g02-marker.example"
	zzG02HostsMarker = "g%d.zz-g02-hosts-marker.example"
	zzG02AllowID     = 4201
	zzG02BlockID     = 4202
)

func (z *zzG02Srv) hostsData(lines []string) (b []byte) {
	z.gen++
	all := append(append([]string{"# zz-g02"}, lines...), "192.0.2.254 "+fmt.Sprintf(zzG02HostsMarker, z.gen))

	return []byte(strings.Join(all, "\n") + "\n")
}

// zzG02NewSrv builds a fresh filter and server for cfg.
func zzG02NewSrv(conc *zzG02Conc, ups *zzG02Upstream, cfg *zzG02Cfg, salt string, stats map[string]int) (z *zzG02Srv, err error) {
	z = &zzG02Srv{conc: conc, ups: ups, handlers: map[string]http.HandlerFunc{}, stats: stats}
	z.dir, err = os.MkdirTemp("", "zz-g02-")
	if err != nil {
		return nil, err
	}

	text := conc.render(cfg, salt)
	fdir := filepath.Join(z.dir, "filters")
	if err = os.MkdirAll(fdir, 0o755); err != nil {
		return nil, err
	}

	z.gen++
	marker := "||" + fmt.Sprintf(zzG02RuleMarker, z.gen) + "^"
	z.fconf = &filtering.Config{
		ApplyClientFiltering: func(_ string, _ netip.Addr, _ *filtering.Settings) {},
		BlockedServices:      &filtering.BlockedServices{Schedule: schedule.EmptyWeekly()},
		BlockingMode:         filtering.BlockingModeDefault,
		DataDir:              z.dir,
		UserRules:            append(append([]string{}, text.Custom...), marker),
		FilteringEnabled:     cfg.Filt,
		ProtectionEnabled:    cfg.Prot,
		ConfigModified:       func() {},
		HTTPRegister: func(method, url string, h http.HandlerFunc) {
			z.handlers[method+" "+url] = h
		},
	}
	for _, e := range cfg.Legacy {
		z.fconf.Rewrites = append(z.fconf.Rewrites, conc.legacy(&e))
	}

	lists := []struct {
		id    int
		lines []string
		white bool
	}{{zzG02AllowID, text.Allow, true}, {zzG02BlockID, text.Block, false}}
	for _, l := range lists {
		if len(l.lines) == 0 {
			continue
		}
		p := filepath.Join(fdir, strconv.Itoa(l.id)+".txt")
		body := "! Title: zz-g02\n" + strings.Join(l.lines, "\n") + "\n"
		if err = os.WriteFile(p, []byte(body), 0o644); err != nil {
			return nil, err
		}
		y := filtering.FilterYAML{Enabled: true, URL: "https://lists.example/" + strconv.Itoa(l.id) + ".txt", Name: "zz-g02",
			Filter: filtering.Filter{ID: rulelist.URLFilterID(l.id)}}
		if l.white {
			z.fconf.WhitelistFilters = append(z.fconf.WhitelistFilters, y)
		} else {
			z.fconf.Filters = append(z.fconf.Filters, y)
		}
	}

	if cfg.HostsOn {
		z.fsys = fstest.MapFS{"etc/hosts": &fstest.MapFile{Data: z.hostsData(text.Hosts)}}
		z.events = make(chan struct{})
		w := &aghtest.FSWatcher{
			OnStart:  func() (_ error) { return nil },
			OnEvents: func() (e <-chan struct{}) { return z.events },
			OnAdd:    func(_ string) (_ error) { return nil },
			OnClose:  func() (_ error) { return nil },
		}
		z.hc, err = aghnet.NewHostsContainer(z.fsys, w, "etc/hosts")
		if err != nil {
			return nil, fmt.Errorf("hosts container: %w", err)
		}
		z.fconf.EtcHosts = z.hc
	}

	z.f, err = filtering.New(z.fconf, nil)
	if err != nil {
		return nil, fmt.Errorf("filtering.New: %w", err)
	}

	z.f.Start()
	z.f.EnableFilters(false)

	z.s, err = NewServer(DNSCreateParams{
		DHCPServer:  zzG02DHCP{},
		DNSFilter:   z.f,
		PrivateNets: netutil.SubnetSetFunc(netutil.IsLocallyServed),
		Logger:      slogutil.NewDiscardLogger(),
	})
	if err != nil {
		return nil, fmt.Errorf("NewServer: %w", err)
	}

	err = z.s.Prepare(&ServerConfig{
		UDPListenAddrs: []*net.UDPAddr{{IP: net.IP{127, 0, 0, 1}}},
		TCPListenAddrs: []*net.TCPAddr{{IP: net.IP{127, 0, 0, 1}}},
		TLSConf:        &TLSConfig{},
		Config: Config{
			UpstreamDNS:      []string{"8.8.8.8:53"},
			UpstreamMode:     UpstreamModeLoadBalance,
			EDNSClientSubnet: &EDNSClientSubnet{Enabled: false},
			ClientsContainer: EmptyClientsContainer{},
		},
		ConfigModified: func() {},
		ServePlainDNS:  true,
	})
	if err != nil {
		return nil, fmt.Errorf("Prepare: %w", err)
	}

	z.s.conf.UpstreamConfig.Upstreams = []upstream.Upstream{z.ups}
	if err = z.s.Start(); err != nil {
		return nil, fmt.Errorf("Start: %w", err)
	}

	z.addr = z.s.dnsProxy.Addr(proxy.ProtoUDP).String()
	z.cur, z.curText = *cfg, text
	stats["fresh_servers"]++

	return z, nil
}

func (z *zzG02Srv) close() {
	if z.s != nil {
		_ = z.s.Stop()
	}
	if z.f != nil {
		z.f.Close()
	}
	if z.hc != nil {
		_ = z.hc.Close()
	}
	_ = os.RemoveAll(z.dir)
}

func (z *zzG02Srv) callH(h http.HandlerFunc, key string, body any) (err error) {
	b, _ := json.Marshal(body)
	parts := strings.SplitN(key, " ", 2)
	r := httptest.NewRequest(parts[0], parts[1], bytes.NewReader(b))
	r.Header.Set("Content-Type", "application/json")
	w := httptest.NewRecorder()
	h(w, r)
	if w.Code != http.StatusOK {
		return fmt.Errorf("%s %s: %d %s", key, b, w.Code, strings.TrimSpace(w.Body.String()))
	}

	return nil
}

func (z *zzG02Srv) call(key string, body any) (err error) {
	h, ok := z.handlers[key]
	if !ok {
		return fmt.Errorf("no handler %s", key)
	}

	return z.callH(h, key, body)
}

func (z *zzG02Srv) compatible(cfg *zzG02Cfg) (ok bool) {
	if z.cur.HostsOn != cfg.HostsOn {
		return false
	}

	lists := func(c *zzG02Cfg) (s string) {
		ls := []string{}
		for i := range c.Rules {
			if c.Rules[i].Place != "custom" {
				ls = append(ls, zzG02JSON(c.Rules[i]))
			}
		}
		sort.Strings(ls)

		return strings.Join(ls, ";")
	}

	return lists(&z.cur) == lists(cfg)
}

// apply reconfigures the LIVE server.
func (z *zzG02Srv) apply(cfg *zzG02Cfg, salt string) (err error) {
	text := z.conc.render(cfg, salt)
	h := z.conc.bits("apply/" + salt)

	customOf := func(c *zzG02Cfg) (s string) {
		ls := []string{}
		for i := range c.Rules {
			if c.Rules[i].Place == "custom" {
				ls = append(ls, zzG02JSON(c.Rules[i]))
			}
		}
		sort.Strings(ls)

		return strings.Join(ls, ";")
	}
	if customOf(&z.cur) != customOf(cfg) || h%5 == 0 {
		z.gen++
		marker := fmt.Sprintf(zzG02RuleMarker, z.gen)
		body := map[string]any{"rules": append(append([]string{}, text.Custom...), "||"+marker+"^")}
		if err = z.call("POST /control/filtering/set_rules", body); err != nil {
			return err
		}
		setts := &filtering.Settings{FilteringEnabled: true, ProtectionEnabled: true}
		deadline := time.Now().Add(10 * time.Second)
		for {
			res, cerr := z.f.CheckHostRules(marker, dns.TypeA, setts)
			if cerr == nil && res.IsFiltered {
				break
			}
			if time.Now().After(deadline) {
				return fmt.Errorf("engines not rebuilt within 10 s after set_rules")
			}
			time.Sleep(100 * time.Microsecond)
		}
		z.stats["live_set_rules"]++
	} else {
		text.Custom = z.curText.Custom
	}

	hostsOf := func(c *zzG02Cfg) (s string) { return zzG02CfgKey(&zzG02Cfg{Hosts: c.Hosts}) }
	if z.hc != nil && (hostsOf(&z.cur) != hostsOf(cfg) || h%7 == 0) {
		z.fsys["etc/hosts"] = &fstest.MapFile{Data: z.hostsData(text.Hosts)}
		marker := fmt.Sprintf(zzG02HostsMarker, z.gen)
		z.events <- struct{}{}
		// Wait for the container to have read the file.  If it does not
		// within the bound the questions are asked all the same: stale
		// answers then disagree with the specification.
		bound := 3 * time.Second
		if z.stats["hosts_not_refreshed"] > 0 {
			bound = 50 * time.Millisecond
		}
		deadline := time.Now().Add(bound)
		for len(z.hc.ByName(marker)) == 0 {
			if time.Now().After(deadline) {
				z.stats["hosts_not_refreshed"]++

				break
			}
			time.Sleep(100 * time.Microsecond)
		}
		z.stats["live_hosts"]++
	} else {
		text.Hosts = z.curText.Hosts
	}

	if zzG02JSON(z.cur.Legacy) != zzG02JSON(cfg.Legacy) {
		for _, e := range z.cur.Legacy {
			rw := z.conc.legacy(&e)
			if err = z.call("POST /control/rewrite/delete", map[string]string{"domain": rw.Domain, "answer": rw.Answer}); err != nil {
				return err
			}
		}
		for _, e := range cfg.Legacy {
			rw := z.conc.legacy(&e)
			if err = z.call("POST /control/rewrite/add", map[string]string{"domain": rw.Domain, "answer": rw.Answer}); err != nil {
				return err
			}
		}
		z.stats["live_legacy"]++
	}

	if z.cur.Prot != cfg.Prot {
		// dnsforward's own handler of POST /control/protection
		if err = z.callH(z.s.handleSetProtection, "POST /control/protection", map[string]any{"enabled": cfg.Prot}); err != nil {
			return err
		}
		z.stats["live_prot"]++
	}
	if z.cur.Filt != cfg.Filt {
		if err = z.call("POST /control/filtering/config", map[string]any{"enabled": cfg.Filt, "interval": 0}); err != nil {
			return err
		}
		z.stats["live_filt"]++
	}

	z.cur, z.curText = *cfg, text
	z.age++

	return nil
}

// zzG02Obs is what the client and the upstream saw for one question, in the
// vocabulary of DnsRewriteCore!Serve.
type zzG02Obs struct {
	// Ask is the name the upstream was asked (with the client's question
	// type), [] if it was not asked.  Anything else (several questions,
	// another type) is written as ["?", description].
	Ask []string `json:"ask"`
	// Rcode of the reply ("?..." if the reply's question is not the one sent).
	Rcode string `json:"rcode"`
	// Cname is the target of the CNAME record leading the answer and owned by
	// the queried name, [] if there is none.
	Cname []string `json:"cname"`
	// Vals are the record values in the answer that did not come from the
	// upstream.
	Vals [][]string `json:"vals"`
	// FromUp is the name whose upstream records are in the answer, [] if none.
	FromUp []string `json:"fromup"`
}

func (z *zzG02Srv) structured(t, text string) (tok []string) {
	for k, v := range zzG02ValText {
		if strings.HasPrefix(k, t+"/") && strings.TrimSuffix(v, ".") == strings.TrimSuffix(text, ".") {
			return []string{strings.TrimPrefix(k, t+"/")}
		}
	}

	return []string{"?" + t + ":" + text}
}

// query sends one question over UDP from the client's address and projects
// what happened.  m is the upstream's behaviour for the name it was asked.
func (z *zzG02Srv) query(rq *zzG02Rq, variant uint32) (o zzG02Obs, m string, err error) {
	z.ups.take()
	qt := zzG02QTypes[rq.Qt]
	name := zzG02Spell(z.conc.name(rq.Host), variant)
	req := &dns.Msg{}
	req.Id = dns.Id()
	req.RecursionDesired = true
	req.Question = []dns.Question{{Name: name + ".", Qtype: qt, Qclass: dns.ClassINET}}

	src := zzG02Other
	if rq.C1 {
		src = zzG02C1
	}
	cl := &dns.Client{Net: "udp", Timeout: 3 * time.Second,
		Dialer: &net.Dialer{LocalAddr: &net.UDPAddr{IP: net.ParseIP(src)}, Timeout: 3 * time.Second}}
	reply, _, err := cl.Exchange(req, z.addr)
	z.stats["queries"]++
	log := z.ups.take()
	o = zzG02Obs{Ask: []string{}, Cname: []string{}, Vals: [][]string{}, FromUp: []string{}}
	m = "answer"
	if err != nil {
		// No (usable) reply is an observation, not a harness failure; a run
		// in which the server hardly answers at all is abandoned.
		z.stats["no_reply"]++
		o.Rcode = "?noreply"
		if len(log) == 1 && log[0][1] == rq.Qt {
			o.Ask = z.conc.absName(log[0][0])
			m = z.ups.mode(log[0][0])
		}

		return o, m, nil
	}

	switch {
	case len(log) == 1 && log[0][1] == rq.Qt:
		o.Ask = z.conc.absName(log[0][0])
		m = z.ups.mode(log[0][0])
	case len(log) > 0:
		o.Ask = []string{"?", fmt.Sprint(log)}
	}

	o.Rcode = dns.RcodeToString[reply.Rcode]
	if len(reply.Question) != 1 || reply.Question[0] != req.Question[0] {
		o.Rcode = "?question:" + fmt.Sprint(reply.Question)
	}

	odd := []string{}
	for i, rr := range reply.Answer {
		data := ""
		var val []string
		switch rr := rr.(type) {
		case *dns.CNAME:
			if i == 0 && strings.EqualFold(rr.Hdr.Name, name+".") {
				o.Cname = z.conc.absName(rr.Target)
			} else {
				odd = append(odd, "cname@"+fmt.Sprint(i)+":"+rr.String())
			}

			continue
		case *dns.A:
			a, _ := netip.AddrFromSlice(rr.A.To4())
			data, val = a.String(), []string{z.conc.absIP(a)}
		case *dns.AAAA:
			a, _ := netip.AddrFromSlice(rr.AAAA.To16())
			data, val = a.String(), []string{z.conc.absIP(a)}
		case *dns.TXT:
			data = strings.Join(rr.Txt, "")
			val = z.structured("TXT", data)
		case *dns.MX:
			val = z.structured("MX", fmt.Sprintf("%d %s", rr.Preference, strings.TrimSuffix(rr.Mx, ".")))
		case *dns.PTR:
			val = z.structured("PTR", rr.Ptr)
			if strings.HasPrefix(val[0], "?") {
				// a host name from the hosts file
				val = z.conc.absName(rr.Ptr)
			}
		case *dns.SRV:
			val = z.structured("SRV", fmt.Sprintf("%d %d %d %s", rr.Priority, rr.Weight, rr.Port, strings.TrimSuffix(rr.Target, ".")))
		case *dns.HTTPS:
			val = z.structured("HTTPS", zzG02SVCBText(&rr.SVCB))
		case *dns.SVCB:
			val = z.structured("SVCB", zzG02SVCBText(rr))
		default:
			odd = append(odd, rr.String())

			continue
		}

		if !strings.EqualFold(rr.Header().Name, name+".") && !(len(o.Cname) > 0) {
			odd = append(odd, "owner:"+rr.Header().Name)
		}

		if owner, fromUp := z.ups.owner(data); data != "" && fromUp {
			if len(o.FromUp) > 0 && strings.Join(o.FromUp, ".") != strings.Join(z.conc.absName(owner), ".") {
				odd = append(odd, "second upstream owner "+owner)
			}
			o.FromUp = z.conc.absName(owner)
		} else {
			o.Vals = append(o.Vals, val)
		}
	}

	if len(odd) > 0 {
		o.Vals = append(o.Vals, []string{"?odd:" + strings.Join(odd, "; ")})
	}

	return o, m, nil
}

func zzG02SVCBText(rr *dns.SVCB) (s string) {
	s = fmt.Sprintf("%d %s", rr.Priority, strings.TrimSuffix(rr.Target, "."))
	kvs := []string{}
	for _, kv := range rr.Value {
		kvs = append(kvs, kv.Key().String()+"="+kv.String())
	}
	sort.Strings(kvs)
	if len(kvs) > 0 {
		s += " " + strings.Join(kvs, " ")
	}

	return s
}

// askAll logs the configuration in force and the observation of every
// question.
func (z *zzG02Srv) askAll(w *zzWriter, cfg *zzG02Cfg, qs []zzG02Rq, salt, how string, id, epoch int) (err error) {
	w.put(map[string]any{"k": "cfg", "cfg": cfg, "how": how, "text": z.curText, "salt": salt, "id": id, "epoch": epoch})
	for qi := range qs {
		o, m, qerr := z.query(&qs[qi], z.conc.bits(fmt.Sprintf("case/%s/%d", salt, qi)))
		if qerr != nil {
			return qerr
		}
		w.put(map[string]any{"k": "p", "q": qs[qi], "m": m, "obs": o})
		if z.stats["no_reply"] > 12 {
			// the server hardly answers at all: what was seen so far is
			// enough, every further question costs a timeout
			return errZZG02Abandon
		}
	}

	return nil
}

var errZZG02Abandon = fmt.Errorf("more than 12 questions without a reply")

// TestZZVerifG02Pipeline is direction A at the pipeline level.
func TestZZVerifG02Pipeline(t *testing.T) {
	w := zzNewWriter(t, "VERIF_OUT")
	defer w.close()

	seed := zzSeed()
	conc := zzG02NewConc(seed)
	rng := rand.New(rand.NewSource(seed))
	stats := map[string]int{}
	ups := &zzG02Upstream{data: map[string]string{}, seed: seed}

	var z *zzG02Srv
	defer func() {
		if z != nil {
			z.close()
		}
	}()

	maxAge := 20 + rng.Intn(40)
	n := 0
	abandoned := false
	zzReadNDJSON(t, "VERIF_IN", func(line []byte) {
		v := &zzG02Vec{}
		if err := json.Unmarshal(line, v); err != nil {
			t.Fatalf("vector: %v", err)
		}
		if v.Kind != "cfg" || abandoned {
			return
		}

		n++
		ups.setEpoch(n)
		salt := fmt.Sprintf("pipe/%d", v.ID)
		how := "live"
		var err error
		if z != nil && z.age < maxAge && z.compatible(&v.Cfg) {
			err = z.apply(&v.Cfg, salt)
		} else {
			if z != nil {
				z.close()
			}
			how = "fresh"
			maxAge = 20 + rng.Intn(40)
			z, err = zzG02NewSrv(conc, ups, &v.Cfg, salt, stats)
		}
		if err != nil {
			t.Fatalf("configuration %d: %v", v.ID, err)
		}

		qs := []zzG02Rq{}
		for _, g := range v.Vd {
			qs = append(qs, g.Q...)
		}
		if abandoned {
			return
		}
		if err = z.askAll(w, &v.Cfg, qs, salt, how, v.ID, n); err == errZZG02Abandon {
			abandoned = true
		} else if err != nil {
			t.Fatalf("asking: %v", err)
		}
	})

	w.put(map[string]any{"k": "summary", "n": n, "stats": stats, "abandoned": abandoned})
}

// TestZZVerifG02PipeProbe re-executes single questions on fresh servers:
// VERIF_IN holds {cfg, q, salt, epoch} records.
func TestZZVerifG02PipeProbe(t *testing.T) {
	w := zzNewWriter(t, "VERIF_OUT")
	defer w.close()

	seed := zzSeed()
	conc := zzG02NewConc(seed)
	stats := map[string]int{}
	ups := &zzG02Upstream{data: map[string]string{}, seed: seed}
	zzReadNDJSON(t, "VERIF_IN", func(line []byte) {
		rec := &struct {
			Cfg   zzG02Cfg `json:"cfg"`
			Q     zzG02Rq  `json:"q"`
			Salt  string   `json:"salt"`
			Epoch int      `json:"epoch"`
		}{}
		if err := json.Unmarshal(line, rec); err != nil {
			t.Fatalf("record: %v", err)
		}

		// twice, each time on a fresh server
		var o, o2 zzG02Obs
		var m string
		var text zzG02Text
		for i := 0; i < 2; i++ {
			ups.setEpoch(rec.Epoch)
			z, err := zzG02NewSrv(conc, ups, &rec.Cfg, rec.Salt, stats)
			if err != nil {
				t.Fatalf("server: %v", err)
			}
			o2 = o
			o, m, err = z.query(&rec.Q, 0)
			text = z.curText
			z.close()
			if err != nil {
				t.Fatalf("query: %v", err)
			}
		}
		w.put(map[string]any{"k": "probe", "q": rec.Q, "m": m, "obs": o, "obs2": o2, "text": text})
	})
}

// ------------------------------------------------------------- direction B

var zzG02BNames = [][]string{
	{"a", "c"}, {"x", "a", "c"}, {"y", "x", "a", "c"}, {"b", "c"}, {"z", "b", "c"}, {"e", "d"}, {"a", "d"},
	{"x", "y", "a", "d"},
}

func zzG02BRw(rng *rand.Rand, exc bool) (rw zzG02Rw) {
	none := []string{}
	vals := []zzG02Rw{
		{K: "rr", T: "A", V: "v4a", N: none}, {K: "rr", T: "A", V: "v4b", N: none}, {K: "rr", T: "A", V: "v4c", N: none},
		{K: "rr", T: "AAAA", V: "v6a", N: none}, {K: "rr", T: "AAAA", V: "v6b", N: none}, {K: "rr", T: "AAAA", V: "v6m", N: none},
		{K: "cname", N: []string{"b", "c"}}, {K: "cname", N: []string{"e", "d"}}, {K: "cname", N: []string{"a", "c"}},
		{K: "rcode", T: "NXDOMAIN", N: none}, {K: "rcode", T: "REFUSED", N: none}, {K: "rcode", T: "SERVFAIL", N: none},
		{K: "rr", T: "TXT", V: "t1", N: none}, {K: "rr", T: "TXT", V: "t2", N: none},
		{K: "rr", T: "MX", V: "m1", N: none}, {K: "rr", T: "MX", V: "m2", N: none},
		{K: "rr", T: "HTTPS", V: "s1", N: none}, {K: "rr", T: "SVCB", V: "s2", N: none},
		{K: "rr", T: "PTR", V: "p2", N: none}, {K: "rr", T: "SRV", V: "r2", N: none},
	}
	if exc {
		if rng.Intn(3) == 0 {
			return zzG02Rw{K: "empty", N: none}
		}
	} else if rng.Intn(12) == 0 {
		return zzG02Rw{K: "noerror", N: none}
	}

	return vals[rng.Intn(len(vals))]
}

// zzG02BCfg draws a random configuration from the larger universe.
func zzG02BCfg(rng *rand.Rand, hostsOn bool) (cfg zzG02Cfg) {
	cfg = zzG02Cfg{Rules: []zzG02Rule{}, Hosts: []zzG02Line{}, Legacy: []zzG02LEntry{}, HostsOn: hostsOn,
		Filt: rng.Intn(12) != 0, Prot: rng.Intn(4) != 0}
	nr := rng.Intn(7)
	for i := 0; i < nr; i++ {
		r := zzG02Rule{Place: "custom", Kind: "block", Pat: "domain", Dt: "none", Cl: "none", Da: [][]string{}}
		r.Tgt.N = zzG02BNames[rng.Intn(3)]
		if rng.Intn(4) == 0 {
			r.Tgt.N = zzG02BNames[rng.Intn(len(zzG02BNames))]
		}
		if rng.Intn(5) == 0 {
			r.Pat = "exact"
		}
		switch k := rng.Intn(10); {
		case k < 5:
			r.Rw = zzG02BRw(rng, false)
		case k < 8:
			r.Kind, r.Rw = "allow", zzG02BRw(rng, true)
		case k < 9:
			r.Rw = zzG02Rw{K: "none", N: []string{}}
		default:
			r.Kind, r.Rw = "allow", zzG02Rw{K: "none", N: []string{}}
		}
		r.Imp = rng.Intn(4) == 0
		if rng.Intn(4) == 0 {
			r.Dt = []string{"only", "except"}[rng.Intn(2)]
			r.Dtype = []string{"A", "AAAA", "TXT", "MX"}[rng.Intn(4)]
		}
		if rng.Intn(5) == 0 {
			r.Cl = []string{"only", "except"}[rng.Intn(2)]
		}
		if r.Pat == "domain" && rng.Intn(8) == 0 && len(r.Tgt.N) == 2 {
			r.Da = [][]string{append([]string{"x"}, r.Tgt.N...)}
		}
		dup := false
		for j := range cfg.Rules {
			dup = dup || zzG02JSON(cfg.Rules[j]) == zzG02JSON(r)
		}
		if !dup {
			cfg.Rules = append(cfg.Rules, r)
		}
	}

	if hostsOn || rng.Intn(2) == 0 {
		nl := rng.Intn(6)
		ips := []string{"h4a", "h4b", "h4c", "h6a", "h6b", "h6c", "h6m"}
		for i := 0; i < nl; i++ {
			l := zzG02Line{IP: ips[rng.Intn(len(ips))]}
			nn := 1 + rng.Intn(3)
			for j := 0; j < nn; j++ {
				n := zzG02BNames[rng.Intn(len(zzG02BNames))]
				dup := false
				for _, o := range l.Names {
					dup = dup || strings.Join(o, ".") == strings.Join(n, ".")
				}
				if !dup {
					l.Names = append(l.Names, n)
				}
			}
			dup := false
			for _, o := range cfg.Hosts {
				dup = dup || zzG02JSON(o) == zzG02JSON(l)
			}
			if !dup {
				cfg.Hosts = append(cfg.Hosts, l)
			}
		}
	}

	switch rng.Intn(6) {
	case 0:
		cfg.Legacy = append(cfg.Legacy, zzG02LEntry{N: zzG02BNames[rng.Intn(3)], K: "ip4", IP: "l4", T: []string{}})
	case 1:
		cfg.Legacy = append(cfg.Legacy, zzG02LEntry{W: true, N: []string{"a", "c"}, K: "ip6", IP: "l6", T: []string{}})
	}

	return cfg
}

func zzG02BQueries(rng *rand.Rand, cfg *zzG02Cfg, n int) (qs []zzG02Rq) {
	qts := []string{"A", "AAAA", "TXT", "MX", "PTR", "HTTPS", "SVCB", "SRV", "CNAME"}
	for i := 0; i < n; i++ {
		rq := zzG02Rq{Host: zzG02BNames[rng.Intn(len(zzG02BNames))], Qt: qts[rng.Intn(len(qts))], C1: rng.Intn(3) == 0}
		if rng.Intn(3) == 0 {
			rq.Qt = []string{"A", "AAAA"}[rng.Intn(2)]
		}
		if rng.Intn(6) == 0 {
			ips := []string{"h4a", "h4b", "h4c", "h6a", "h6b", "h6c", "h6m", "v4a"}
			rq.Host, rq.Qt = []string{ips[rng.Intn(len(ips))], "REV"}, "PTR"
		}
		qs = append(qs, rq)
	}

	return qs
}

// TestZZVerifG02PipeTrace is direction B at the pipeline level.
func TestZZVerifG02PipeTrace(t *testing.T) {
	w := zzNewWriter(t, "VERIF_OUT")
	defer w.close()

	seed := zzSeed()
	conc := zzG02NewConc(seed)
	rng := rand.New(rand.NewSource(seed ^ 0x6703))
	stats := map[string]int{}
	ups := &zzG02Upstream{data: map[string]string{}, seed: seed}
	ncfg := 120
	if s := zzGetenv("VERIF_G02_TRACE_CFGS"); s != "" {
		ncfg, _ = strconv.Atoi(s)
	}
	abandoned := false

	var z *zzG02Srv
	defer func() {
		if z != nil {
			z.close()
		}
	}()

	for i := 0; i < ncfg; i++ {
		hostsOn := rng.Intn(5) != 0
		if z != nil && rng.Intn(8) != 0 {
			hostsOn = z.cur.HostsOn
		}
		cfg := zzG02BCfg(rng, hostsOn)
		salt := fmt.Sprintf("ptrace/%d", i)
		ups.setEpoch(100000 + i)
		how := "live"
		var err error
		if z != nil && z.age < 40 && z.compatible(&cfg) {
			err = z.apply(&cfg, salt)
		} else {
			if z != nil {
				z.close()
			}
			how = "fresh"
			z, err = zzG02NewSrv(conc, ups, &cfg, salt, stats)
		}
		if err != nil {
			t.Fatalf("configuration %d: %v", i, err)
		}
		if err = z.askAll(w, &cfg, zzG02BQueries(rng, &cfg, 12), salt, how, 100000+i, 100000+i); err == errZZG02Abandon {
			abandoned = true

			break
		} else if err != nil {
			t.Fatalf("asking: %v", err)
		}
	}

	w.put(map[string]any{"k": "summary", "n": ncfg, "stats": stats, "abandoned": abandoned})
}
