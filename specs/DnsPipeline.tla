---------------------------- MODULE DnsPipeline ----------------------------
(***************************************************************************)
(* C01 -- a query blocked by rules is answered locally and never forwarded *)
(* C02 -- upstream answers revealing a blocked CNAME target or address are *)
(*        not delivered                                                    *)
(*                                                                         *)
(* The stages of dnsforward.Server.handleDNSRequest are the actions     *)
(* Before, Initial, FilterBefore, Upstream, FilterAfter, Log (their bodies *)
(* are DnsPipelineCore!Step; the rule precedence of the external engine is *)
(* RuleEngine.tla).  Three ways of running this module:                    *)
(*                                                                         *)
(*  DnsPipeline.mc.cfg   SpecMC: every behaviour Pick -> Before -> ... ->  *)
(*      Log over a reduced universe; the statements are invariants on the  *)
(*      final state and the action property UpstreamOnlyWithoutResponse.   *)
(*  DnsPipeline.c01*.cfg SpecGen01: one step per configuration of the C01  *)
(*      universe; the step computes the verdict table (every request of    *)
(*      Queries), checks the C01 statements on it and prints it as a       *)
(*      vector for the Go harness.                                         *)
(*  DnsPipeline.c02*.cfg SpecGen02: the same for C02: per configuration the*)
(*      table over (query type x upstream answer section).                 *)
(***************************************************************************)
EXTENDS Sequences, Naturals, FiniteSets, TLC, Json

CONSTANTS AllModes      \* TRUE: the flag stratum F is crossed with all five modes (thorough)
                        \* FALSE: one mode per configuration of F, rotating (quick)
                        \* (the rule stratum R always rotates the mode: the mode only
                        \* selects the synthetic response, independently of precedence)

SvcDom  == {<<"4chan", "org">>}       \* the globally blocked service ("4chan")
Svc2Dom == {<<"9gag", "com">>}        \* the service of a client's own set ("9gag")
INSTANCE DnsPipelineCore WITH SvcDomains <- SvcDom, Svc2Domains <- Svc2Dom

VARIABLES cfg, req, p, tab, bk, live
vars == <<cfg, req, p, tab, bk, live>>

\* ------------------------------------------------------------------ names
ACOM  == <<"a", "com">>
BACOM == <<"b", "a", "com">>
CHAN  == <<"4chan", "org">>

\* Queried names: the targets, a sub-subdomain, a look-alike ("xa.com" must
\* not match ||a.com^), a sibling TLD, an unrelated name, the service.
QNames == <<ACOM, BACOM, <<"a", "b", "a", "com">>, <<"xa", "com">>, <<"a", "org">>,
            <<"b", "com">>, CHAN, <<"b", "4chan", "org">>, <<"9gag", "com">>>>
QTypes  == <<"A", "AAAA", "HTTPS", "TXT">>
Clients == <<"c1", "c2">>

\* Every second (name, type) pair is asked over an encrypted protocol with a
\* ClientID: from address c1 with a ClientID configured for nobody, from
\* address c2 with the persistent client's ClientID.
CidOf(i) == IF ((i - 1) \div Len(Clients)) % 2 = 0 THEN ""
            ELSE IF (i - 1) % Len(Clients) = 0 THEN "x" ELSE "kid"
Queries == [i \in 1..(Len(QNames) * Len(QTypes) * Len(Clients)) |->
              [name   |-> QNames[((i - 1) \div (Len(QTypes) * Len(Clients))) + 1],
               qtype  |-> QTypes[(((i - 1) \div Len(Clients)) % Len(QTypes)) + 1],
               client |-> Clients[((i - 1) % Len(Clients)) + 1],
               cid    |-> CidOf(i)]]

ModeSeq == <<"default", "refused", "nxdomain", "null_ip", "custom_ip">>

\* ------------------------------------------------------------ rule family
Net(id, kind, pat, tgt, imp, dt, dtype, cl, clv, da, bad) ==
    [id |-> id, place |-> "", kind |-> kind, pat |-> pat, tgt |-> NameHost(tgt), imp |-> imp,
     dt |-> dt, dtype |-> dtype, cl |-> cl, clv |-> clv, da |-> da, ip |-> "", bad |-> bad]
Plain(id, kind, pat, tgt) == Net(id, kind, pat, tgt, FALSE, "none", "", "none", "", <<>>, FALSE)
Hosts(id, tgt, ip) ==
    [id |-> id, place |-> "", kind |-> "hosts", pat |-> "exact", tgt |-> NameHost(tgt), imp |-> FALSE,
     dt |-> "none", dtype |-> "", cl |-> "none", clv |-> "", da |-> <<>>, ip |-> ip, bad |-> FALSE]

Family ==
    {   \* plain block / exception rules over every pattern shape
        Plain(1, "block", "domain", ACOM),   Plain(2, "allow", "domain", ACOM),
        Plain(3, "block", "domain", BACOM),  Plain(4, "allow", "domain", BACOM),
        Plain(5, "block", "exact", ACOM),    Plain(6, "allow", "exact", ACOM),
        Plain(7, "block", "wild", ACOM),     Plain(8, "allow", "wild", ACOM),
        Plain(9, "block", "domain", CHAN),   Plain(10, "allow", "domain", CHAN),
        Plain(11, "block", "exact", BACOM),  Plain(12, "allow", "exact", BACOM),
        \* $important
        Net(13, "block", "domain", ACOM, TRUE, "none", "", "none", "", <<>>, FALSE),
        Net(14, "allow", "domain", ACOM, TRUE, "none", "", "none", "", <<>>, FALSE),
        Net(15, "block", "domain", BACOM, TRUE, "none", "", "none", "", <<>>, FALSE),
        Net(16, "allow", "domain", BACOM, TRUE, "none", "", "none", "", <<>>, FALSE),
        Net(17, "block", "wild", ACOM, TRUE, "none", "", "none", "", <<>>, FALSE),
        Net(18, "allow", "exact", ACOM, TRUE, "none", "", "none", "", <<>>, FALSE),
        \* $dnstype
        Net(19, "block", "domain", ACOM, FALSE, "only", "A", "none", "", <<>>, FALSE),
        Net(20, "block", "domain", ACOM, FALSE, "except", "A", "none", "", <<>>, FALSE),
        Net(21, "block", "domain", ACOM, FALSE, "only", "HTTPS", "none", "", <<>>, FALSE),
        Net(22, "allow", "domain", ACOM, FALSE, "only", "A", "none", "", <<>>, FALSE),
        Net(23, "allow", "domain", ACOM, FALSE, "except", "AAAA", "none", "", <<>>, FALSE),
        Net(24, "block", "domain", ACOM, TRUE, "only", "AAAA", "none", "", <<>>, FALSE),
        \* $client
        Net(25, "block", "domain", ACOM, FALSE, "none", "", "only", "ip", <<>>, FALSE),
        Net(26, "block", "domain", ACOM, FALSE, "none", "", "except", "ip", <<>>, FALSE),
        Net(27, "block", "domain", ACOM, FALSE, "none", "", "only", "name", <<>>, FALSE),
        Net(28, "block", "domain", ACOM, FALSE, "none", "", "only", "cidr", <<>>, FALSE),
        Net(29, "allow", "domain", ACOM, FALSE, "none", "", "only", "ip", <<>>, FALSE),
        Net(30, "allow", "domain", ACOM, FALSE, "none", "", "except", "name", <<>>, FALSE),
        \* $denyallow
        Net(31, "block", "domain", ACOM, FALSE, "none", "", "none", "", <<BACOM>>, FALSE),
        Net(32, "block", "wild", ACOM, FALSE, "none", "", "none", "", <<BACOM>>, FALSE),
        Net(33, "allow", "domain", ACOM, FALSE, "none", "", "none", "", <<BACOM>>, FALSE),
        Net(34, "block", "domain", ACOM, TRUE, "none", "", "none", "", <<<<"a", "b", "a", "com">>, <<"x", "org">>>>, FALSE),
        \* $badfilter
        Net(35, "block", "domain", ACOM, FALSE, "none", "", "none", "", <<>>, TRUE),
        Net(36, "allow", "domain", ACOM, FALSE, "none", "", "none", "", <<>>, TRUE),
        Net(37, "block", "domain", ACOM, TRUE, "none", "", "none", "", <<>>, TRUE),
        \* hosts-style lines and a bare domain
        Hosts(38, ACOM, "r1"), Hosts(39, ACOM, "r2"), Hosts(40, ACOM, "r6"), Hosts(41, ACOM, "null4"),
        Hosts(42, BACOM, "r1"), Hosts(43, CHAN, "r6"), Hosts(44, <<"xa", "com">>, "r2")
    }

Places    == <<"allow", "block", "custom">>
PlaceIx(pl) == CHOOSE i \in DOMAIN Places : Places[i] = pl
Placed(r, pl) == [r EXCEPT !.place = pl]
\* The family in the three live places, and a few rules in lists that are
\* switched off (Enabled = false: "an enabled blocking rule").
PlacedFamily == {Placed(r, Places[i]) : r \in Family, i \in DOMAIN Places}
OffFamily    == {Placed(r, "offblock") : r \in {x \in Family : x.id \in {1, 13, 38}}}
                  \cup {Placed(r, "offallow") : r \in {x \in Family : x.id \in {2, 14}}}
AllPlaced    == PlacedFamily \cup OffFamily

\* rule sets of size <= 2, and a fixed "precedence ladder" of size 3 and 4
ById(id, pl) == Placed(CHOOSE r \in Family : r.id = id, pl)
Ladders ==
    { {ById(1, "block"), ById(2, "custom"), ById(13, "block")},
      {ById(1, "block"), ById(2, "custom"), ById(13, "block"), ById(14, "custom")},
      {ById(1, "custom"), ById(14, "block"), ById(13, "custom")},
      {ById(13, "block"), ById(2, "allow"), ById(38, "custom")},
      {ById(13, "block"), ById(6, "allow"), ById(3, "custom")},
      {ById(38, "block"), ById(39, "custom"), ById(40, "block")},
      {ById(38, "block"), ById(40, "custom"), ById(4, "custom")},
      {ById(1, "block"), ById(35, "custom"), ById(38, "block")},
      {ById(1, "block"), ById(35, "block"), ById(3, "custom")},
      {ById(2, "custom"), ById(36, "block"), ById(1, "block")},
      {ById(13, "custom"), ById(37, "block"), ById(1, "block")},
      {ById(19, "block"), ById(23, "custom"), ById(40, "block")},
      {ById(25, "block"), ById(29, "custom"), ById(13, "block")},
      {ById(31, "block"), ById(12, "custom"), ById(42, "block")},
      {ById(9, "custom"), ById(10, "allow"), ById(43, "block")},
      {ById(7, "block"), ById(18, "custom"), ById(16, "custom")} }

\* A total order on placed rules, so that every pair is enumerated once.
PlaceNo(pl) == CASE pl = "allow" -> 1 [] pl = "block" -> 2 [] pl = "custom" -> 3
                 [] pl = "offblock" -> 4 [] OTHER -> 5
RKey(r) == r.id * 10 + PlaceNo(r.place)

RECURSIVE SumIds(_)
SumIds(S) == IF S = {} THEN 0
             ELSE LET r == CHOOSE x \in S : TRUE
                  IN r.id + 7 * PlaceNo(r.place) + SumIds(S \ {r})

NoClient  == [known |-> FALSE, useOwn |-> FALSE, filt |-> TRUE, svc |-> "inherit"]
BaseCfg(rs, mode) ==
    [rules |-> rs, mode |-> mode, prot |-> "on", filt |-> TRUE, svc |-> "none",
     client |-> NoClient, aaaaOff |-> FALSE, cache |-> FALSE, cust |-> 1]

\* Stratum R: every rule set of size <= 2 (and the ladders), everything else
\* at its default; c1 is a persistent client (without own settings) in half
\* of the configurations so that $client by name is exercised both ways.
\* The stratum is enumerated in buckets (one per first rule) so that TLC's
\* workers share the work: successors of ONE state are computed by one worker.
KnownClient == [known |-> TRUE, useOwn |-> FALSE, filt |-> TRUE, svc |-> "inherit"]
GenModes == IF AllModes THEN {ModeSeq[i] : i \in DOMAIN ModeSeq} ELSE {"rot"}
\* The proxy's response cache is on in a third of the configurations.
MkR(rs, m) == [BaseCfg(rs, m) EXCEPT !.client = IF SumIds(rs) % 2 = 0 THEN KnownClient ELSE NoClient,
                                     !.cache = (SumIds(rs) % 3 = 1)]
FlagSum(c) ==
    (CASE c.prot = "on" -> 0 [] c.prot = "off" -> 1 [] c.prot = "paused" -> 2 [] OTHER -> 3)
    + (IF c.filt THEN 0 ELSE 1) + (CASE c.svc = "none" -> 0 [] c.svc = "active" -> 1 [] OTHER -> 2)
    + (IF c.client.known THEN 1 ELSE 0) + (IF c.client.useOwn THEN 2 ELSE 0) + (IF c.client.filt THEN 0 ELSE 1)
    + (CASE c.client.svc = "inherit" -> 0 [] c.client.svc = "none" -> 1 [] c.client.svc = "active" -> 2 [] OTHER -> 3)
    + (IF c.aaaaOff THEN 1 ELSE 0)
\* The rotating mode, and which of the two pairs of custom addresses is
\* configured (independent of the mode: consecutive configurations of a walk
\* with the same mode custom_ip and different addresses occur).
FixMode(c) ==
    LET sum == SumIds(c.rules) + FlagSum(c)
        cu  == ((sum \div 5) % 2) + 1
    IN IF c.mode = "rot" THEN [c EXCEPT !.mode = ModeSeq[(sum % 5) + 1], !.cust = cu]
       ELSE [c EXCEPT !.cust = (sum % 2) + 1]
RuleSetsOf(U, k) ==      \* the sets {r1} and {r1, r2}, r1 = the rule of U with key k, r2 not before it
    LET r1 == CHOOSE r \in U : RKey(r) = k
    IN {x \in {{r1, r2} : r2 \in {y \in U : RKey(y) >= k}} : ~Ambiguous(x)}
Buckets01 == {<<"R", RKey(r)>> : r \in AllPlaced} \cup {<<"L", 0>>}
                \cup {<<"F", i>> : i \in 1..10}
\* Quick tier: pairs are drawn from the places allow / custom / off only (block
\* lists and custom rules feed the same engine; the block-list placement is
\* still covered by the one-rule sets, the ladders and stratum F).
QuickRuleSetsOf(k) ==
    LET r1 == CHOOSE r \in AllPlaced : RKey(r) = k
    IN IF r1.place = "block" THEN {{r1}}
       ELSE {x \in {{r1, r2} : r2 \in {y \in AllPlaced : RKey(y) >= k /\ y.place # "block"}} : ~Ambiguous(x)}
StratumRB(b) ==
    IF b[1] = "R" THEN {MkR(rs, "rot") : rs \in (IF AllModes THEN RuleSetsOf(AllPlaced, b[2]) ELSE QuickRuleSetsOf(b[2]))}
    ELSE {MkR(rs, "rot") : rs \in {{}} \cup Ladders}

\* Stratum F: a few representative rule sets crossed with every combination
\* of mode, protection state, global / per-client filtering and blocked
\* services (global and per-client, active or paused by the schedule).
FlagRuleSets ==
    << {},
       {ById(1, "block")},
       {ById(1, "custom"), ById(4, "allow")},
       {ById(13, "block"), ById(2, "custom")},
       {ById(38, "block"), ById(40, "custom")},
       {ById(27, "custom")},
       {ById(9, "block"), ById(43, "custom")},
       {ById(10, "custom")},
       {ById(10, "allow"), ById(3, "block")},
       {ById(1, "offblock"), ById(42, "block")} >>
ClientRecs ==
    {NoClient} \cup
    {[known |-> TRUE, useOwn |-> u, filt |-> f, svc |-> s] :
        u \in BOOLEAN, f \in BOOLEAN, s \in {"inherit", "none", "active", "paused"}}
StratumFB(fi) ==
    {[rules |-> rs, mode |-> m, prot |-> pr, filt |-> f, svc |-> s, client |-> c, aaaaOff |-> FALSE,
      cache |-> FALSE, cust |-> 1] :
        rs \in {FlagRuleSets[fi]}, m \in GenModes,
        pr \in {"on", "off", "paused", "expired"}, f \in BOOLEAN,
        s \in {"none", "active", "paused"},
        c \in {x \in ClientRecs : x.useOwn \/ x.filt}}   \* filt is irrelevant without useOwn

\* The upstream of C01 answers every question with a harmless sentinel record.
Harmless == <<[t |-> "TXT", o |-> <<>>, n |-> <<>>, a |-> "", h4 |-> <<>>, h6 |-> <<>>]>>

Table01(c)  == [i \in DOMAIN Queries |-> Verdict(c, Queries[i], Harmless)]
\* admissible outcomes when the question was asked on this server before
\* (under this or an earlier configuration); differs from Table01 only with
\* the cache on, so it is emitted for those configurations only
Table01R(c) == IF c.cache THEN [i \in DOMAIN Queries |-> VerdictRepeat(c, Queries[i], Harmless)] ELSE <<>>

\* ------------------------------------------------------------ C02 universe
QCOM == <<"q", "com">>        \* the queried name
BCOM == <<"b", "com">>        \* CNAME targets
CCOM == <<"c", "com">>
UCOM == <<"u", "com">>        \* a name unrelated to the question
RR(t, n, a, h4, h6) == [t |-> t, o |-> <<>>, n |-> n, a |-> a, h4 |-> h4, h6 |-> h6]
RRs == << RR("CNAME", BCOM, "", <<>>, <<>>), RR("CNAME", CCOM, "", <<>>, <<>>),
          RR("A", <<>>, "i1", <<>>, <<>>),   RR("A", <<>>, "i2", <<>>, <<>>),
          RR("AAAA", <<>>, "i6", <<>>, <<>>),
          RR("HTTPS", <<>>, "", <<"i1">>, <<>>), RR("HTTPS", <<>>, "", <<"i2">>, <<"i6">>),
          RR("TXT", <<>>, "", <<>>, <<>>) >>
NRR == Len(RRs)
\* all answer sections of length 0..3, as sequences of indices into RRs, in a
\* fixed enumeration order (the table of a configuration is indexed by it)
NAns == 1 + NRR + NRR * NRR + NRR * NRR * NRR
AnsIxOf(j) ==
    IF j = 0 THEN <<>>
    ELSE IF j <= NRR THEN <<j>>
    ELSE IF j <= NRR + NRR * NRR
         THEN LET t == j - NRR - 1 IN <<(t \div NRR) + 1, (t % NRR) + 1>>
         ELSE LET t == j - NRR - NRR * NRR - 1
              IN <<(t \div (NRR * NRR)) + 1, ((t \div NRR) % NRR) + 1, (t % NRR) + 1>>
AnsSeq == [k \in 1..NAns |-> AnsIxOf(k - 1)]
AnsIx  == {AnsSeq[k] : k \in 1..NAns}
AnsOf(ix) == [k \in DOMAIN ix |-> RRs[ix[k]]]
\* Owner names.  Pattern 0 "chain": every record is owned by the target of the
\* last CNAME before it (the usual rendering); 1 "flat": all owned by the
\* question name; 2 "ahead": owned by the target of the first CNAME AFTER it
\* (addresses before the CNAME that points at their owner, reversed chains);
\* 3 "foreign": owned by an unrelated name (except a leading CNAME).
CnamesBefore(ix, j) == {i \in 1..(j - 1) : RRs[ix[i]].t = "CNAME"}
CnamesAfter(ix, j)  == {i \in (j + 1)..Len(ix) : RRs[ix[i]].t = "CNAME"}
MaxOf(S) == CHOOSE x \in S : \A y \in S : y <= x
MinOf(S) == CHOOSE x \in S : \A y \in S : x <= y
OwnerOf(ix, pat, j) ==
    CASE pat = 0 -> IF CnamesBefore(ix, j) = {} THEN <<>> ELSE RRs[ix[MaxOf(CnamesBefore(ix, j))]].n
      [] pat = 1 -> <<>>
      [] pat = 2 -> IF CnamesAfter(ix, j) = {} THEN <<>> ELSE RRs[ix[MinOf(CnamesAfter(ix, j))]].n
      [] OTHER   -> IF j = 1 /\ RRs[ix[1]].t = "CNAME" THEN <<>> ELSE UCOM
Owners(ix, pat) == [j \in DOMAIN ix |-> OwnerOf(ix, pat, j)]
AnsOfP(ix, pat) == [j \in DOMAIN ix |-> [RRs[ix[j]] EXCEPT !.o = OwnerOf(ix, pat, j)]]
QTypes02 == <<"A", "HTTPS", "AAAA">>

IPRule(id, kind, pat, tok, imp, da) ==
    [id |-> id, place |-> "", kind |-> kind, pat |-> pat, tgt |-> IPHost(tok), imp |-> imp,
     dt |-> "none", dtype |-> "", cl |-> "none", clv |-> "", da |-> da, ip |-> "", bad |-> FALSE]
NameRule(id, kind, pat, n, imp, cl, da) ==
    Net(id, kind, pat, n, imp, "none", "", cl, IF cl = "none" THEN "" ELSE "ip", da, FALSE)
Family02 ==
    {   NameRule(101, "block", "domain", BCOM, FALSE, "none", <<>>),
        NameRule(102, "allow", "domain", BCOM, FALSE, "none", <<>>),
        NameRule(103, "block", "domain", BCOM, TRUE, "none", <<>>),
        NameRule(104, "allow", "domain", BCOM, TRUE, "none", <<>>),
        NameRule(105, "block", "exact", CCOM, FALSE, "none", <<>>),
        NameRule(106, "block", "domain", <<"com">>, FALSE, "none", <<QCOM, CCOM>>),  \* ||com^$denyallow=q.com|c.com
        NameRule(107, "block", "domain", BCOM, FALSE, "only", <<>>),                 \* $client=c1
        NameRule(108, "allow", "domain", QCOM, FALSE, "none", <<>>),                 \* queried name allow-listed
        NameRule(109, "block", "wild", <<"com">>, FALSE, "except", <<QCOM>>),
        Hosts(110, BCOM, "r1"),
        IPRule(111, "block", "domain", "i1", FALSE, <<>>),
        IPRule(112, "allow", "domain", "i1", FALSE, <<>>),
        IPRule(113, "block", "exact", "i2", FALSE, <<>>),
        IPRule(114, "block", "domain", "i6", FALSE, <<>>),
        IPRule(115, "allow", "domain", "i6", TRUE, <<>>),
        IPRule(116, "block", "domain", "i1", TRUE, <<>>),
        IPRule(117, "block", "domain", "i1", FALSE, <<CCOM>>),                       \* $denyallow never matches an address
        IPRule(118, "allow", "domain", "i2", FALSE, <<>>)                            \* an allowed hint in front of a blocked one
    }
Placed02 == {Placed(r, pl) : r \in Family02, pl \in {"allow", "block", "custom"}}
                \cup {Placed(r, "offblock") : r \in {x \in Family02 : x.id \in {101, 111}}}
Flag02 ==  \* (prot, filt, client record, aaaaOff, cache)
    { <<"on", TRUE, NoClient, FALSE, FALSE>>, <<"on", TRUE, NoClient, TRUE, FALSE>>, <<"off", TRUE, NoClient, FALSE, FALSE>>,
      <<"paused", TRUE, NoClient, TRUE, FALSE>>, <<"on", FALSE, NoClient, FALSE, FALSE>>,
      <<"on", TRUE, [known |-> TRUE, useOwn |-> TRUE, filt |-> FALSE, svc |-> "inherit"], FALSE, FALSE>>,
      <<"on", FALSE, [known |-> TRUE, useOwn |-> TRUE, filt |-> TRUE, svc |-> "inherit"], FALSE, FALSE>>,
      <<"expired", TRUE, KnownClient, FALSE, FALSE>>,
      <<"on", TRUE, NoClient, FALSE, TRUE>>, <<"on", TRUE, NoClient, TRUE, TRUE>>,
      <<"off", TRUE, NoClient, FALSE, TRUE>> }
FlagRuleSets02 ==
    << {Placed(CHOOSE r \in Family02 : r.id = 101, "block")},
       {Placed(CHOOSE r \in Family02 : r.id = 111, "custom")},
       {Placed(CHOOSE r \in Family02 : r.id = 114, "block"), Placed(CHOOSE r \in Family02 : r.id = 113, "custom")},
       {Placed(CHOOSE r \in Family02 : r.id = 108, "custom"), Placed(CHOOSE r \in Family02 : r.id = 101, "block")} >>
MkCfg02(rs, m, fl) ==
    [rules |-> rs, mode |-> m, prot |-> fl[1], filt |-> fl[2], svc |-> "none", client |-> fl[3],
     aaaaOff |-> fl[4], cache |-> fl[5], cust |-> 1]
MkR02(rs, m) ==
    MkCfg02(rs, m, <<"on", TRUE, NoClient, SumIds(rs) % 3 = 0, SumIds(rs) % 4 = 1>>)
Buckets02 == {<<"R", RKey(r)>> : r \in Placed02} \cup {<<"L", 0>>} \cup {<<"F", i>> : i \in 1..4}
Stratum02B(b) ==
    CASE b[1] = "R" -> {MkR02(rs, "rot") : rs \in RuleSetsOf(Placed02, b[2])}
      [] b[1] = "L" -> {MkR02({}, "rot")}
      [] OTHER      -> {MkCfg02(FlagRuleSets02[b[2]], m, fl) : m \in GenModes, fl \in Flag02}

\* The client is c1 throughout; AAAA is asked only while AAAA resolving is on
\* (with it off the server answers AAAA queries itself, which is outside C02).
\* With the cache on every entry asks its own name under q.com (a cache
\* answers by question, and the entries differ in the upstream's answer).
QName02(c, k) == IF c.cache THEN <<"n" \o ToString(k)>> \o QCOM ELSE QCOM
Req02N(n, qt) == [name |-> n, qtype |-> qt, client |-> "c1", cid |-> ""]
Req02(c, qt)  == Req02N(QCOM, qt)
QTypesFor(c) == IF c.aaaaOff THEN <<"A", "HTTPS">> ELSE QTypes02
\* The table of a configuration: one entry per answer section; the query type
\* and the owner pattern rotate with the entry (k mod 3 and k mod 4: all
\* twelve combinations occur).  Thorough (AllModes): every answer section of
\* length <= 3; quick: every section of length <= 2 and one eighth of the
\* sections of length 3 (a different eighth per rule set).
AnsKeys(c) ==
    IF AllModes THEN 1..NAns
    ELSE {k \in 1..NAns : k <= 1 + NRR + NRR * NRR \/ k % 8 = SumIds(c.rules) % 8}
QTypeAt(c, k) == QTypesFor(c)[(k % Len(QTypesFor(c))) + 1]
PatAt(k) == k % 4
Entry02(c, k) ==
    LET rq == Req02N(QName02(c, k), QTypeAt(c, k))
        ua == AnsOfP(AnsSeq[k], PatAt(k))
    IN [k |-> k, qt |-> rq.qtype, name |-> rq.name, own |-> Owners(AnsSeq[k], PatAt(k)),
        out |-> Verdict(c, rq, ua),
        outr |-> IF c.cache THEN VerdictRepeat(c, rq, ua) ELSE {}]
Table02(c) == {Entry02(c, k) : k \in AnsKeys(c)}

\* ----------------------------------------------------------------- actions
NoCfg == BaseCfg({}, "default")
NoReq == [name |-> <<>>, qtype |-> "A", client |-> "c2", cid |-> ""]
Idle  == [P0 EXCEPT !.stage = "idle"]

\* The live server: the rule sets installed in its engines, the questions it
\* has been asked since it was started, and history bounds.
Live0 == [inst |-> {}, asked |-> {}, nre |-> 0, n |-> 0, np |-> 0]
Init == cfg = NoCfg /\ req = NoReq /\ p = Idle /\ tab = <<>> /\ bk = <<"", 0>> /\ live = Live0

\* --- SpecMC: the pipeline step by step over a reduced universe
\* (the universes below take a dummy argument so that TLC does not evaluate
\* them at start-up of the runs that do not use them)
MCConfigs(z) ==
    {FixMode(MkR(rs, "rot")) : rs \in {{}} \cup {{r} : r \in {x \in AllPlaced : x.place # "block"}} \cup Ladders}
      \cup {FixMode(c) : c \in {x \in UNION {StratumFB(i) : i \in {7}} :
               /\ x.mode \in {"rot", "default"} /\ x.prot \in {"on", "off", "expired"}
               /\ (x.client.known => x.client.svc \in {"inherit", "active"})}}
MCConfigs02(z) == {FixMode(MkR02(rs, "rot")) : rs \in {{}} \cup {{r} : r \in Placed02}}
MCAnswers02(z) == {AnsOfP(ix, Len(ix)) : ix \in {x \in AnsIx : Len(x) <= 2}}

Pick01 == /\ p.stage = "idle"
          /\ \E c \in MCConfigs(0), i \in DOMAIN Queries :
                /\ cfg' = c /\ req' = Queries[i] /\ p' = P0 /\ tab' = <<Harmless>> /\ UNCHANGED bk
                /\ live' = [Live0 EXCEPT !.inst = c.rules]
Pick02 == /\ p.stage = "idle"
          /\ \E c \in MCConfigs02(0), ua \in MCAnswers02(0), q \in {"A", "HTTPS"} :
                /\ cfg' = c /\ req' = Req02(c, q) /\ p' = P0 /\ tab' = <<ua>> /\ UNCHANGED bk
                /\ live' = [Live0 EXCEPT !.inst = c.rules]
\* One action per stage of handleDNSRequest; the bodies are Core!Step.
\* The engines answer from what is INSTALLED in them.
EffCfg == [cfg EXCEPT !.rules = live.inst]
Advance == /\ \E q \in Step(EffCfg, req, p, {tab[1]}) : p' = q
           /\ UNCHANGED <<cfg, req, tab, bk, live>>
Before       == p.stage = "before" /\ Advance
Initial      == p.stage = "initial" /\ Advance
FilterBefore == p.stage = "filterbefore" /\ Advance
Upstream     == p.stage = "upstream" /\ Advance
FilterAfter  == p.stage = "filterafter" /\ Advance
Log          == p.stage = "log" /\ Advance
NextMC == Pick01 \/ Pick02 \/ Before \/ Initial \/ FilterBefore \/ Upstream \/ FilterAfter \/ Log
SpecMC == Init /\ [][NextMC]_vars

\* --- SpecHist: ONE live server through reconfigurations and repeated
\* questions.  Boot installs a configuration; Ask sends a question (Repeat: one
\* that this server has been asked before -- with the cache on it may be
\* served from the cache); Reconfigure replaces the rule lists by those of ANY
\* other configuration (rules added, removed, lists switched off and on again
\* -- two Reconfigure steps --, down to the empty allow set and back; another
\* blocking mode, or the same mode custom_ip with other addresses) and
\* installs exactly them; Finish returns to
\* the ready state.  Bounds: 2 reconfigurations / protection switches, 2 questions.
HRules == {ById(2, "allow"), ById(1, "block"), Placed(CHOOSE r \in Family02 : r.id = 101, "custom")}
HModes(ch) == IF ch THEN {<<"default", 1>>}
              ELSE {<<"default", 1>>, <<"custom_ip", 1>>, <<"custom_ip", 2>>}
HConfigs(z) == UNION {{[BaseCfg(rs, mc[1]) EXCEPT !.cache = ch, !.cust = mc[2]] :
                         rs \in SUBSET HRules, mc \in HModes(ch)} : ch \in BOOLEAN}
HAsks(z) == {[req |-> Queries[2], ans |-> Harmless], [req |-> Queries[11], ans |-> Harmless],
          [req |-> Queries[26], ans |-> Harmless],
          [req |-> Req02N(QCOM, "A"), ans |-> AnsOfP(<<3, 1>>, 2)],       \* A i1 owned by b.com, then CNAME b.com
          [req |-> Req02N(QCOM, "HTTPS"), ans |-> AnsOfP(<<4>>, 0)]}
Question(r) == <<r.name, r.qtype>>
Ready == [P0 EXCEPT !.stage = "ready"]
Boot == /\ p.stage = "idle"
        /\ \E c \in HConfigs(0) : cfg' = c /\ live' = [Live0 EXCEPT !.inst = c.rules]
        /\ p' = Ready /\ UNCHANGED <<req, tab, bk>>
AskWith(first) ==
    /\ p.stage = "ready" /\ live.n < 2
    /\ \E a \in HAsks(0) :
         /\ (Question(a.req) \notin live.asked) = first
         /\ req' = a.req /\ tab' = <<a.ans>>
         /\ p' \in (IF ~first /\ cfg.cache THEN {P0, P0Hit} ELSE {P0})
         /\ live' = [live EXCEPT !.n = @ + 1, !.asked = @ \cup {Question(a.req)}]
    /\ UNCHANGED <<cfg, bk>>
Ask    == p.stage = "ready" /\ AskWith(TRUE)
Repeat == p.stage = "ready" /\ AskWith(FALSE)
Finish == /\ p.stage = "done" /\ live.n > 0     \* (not after the one-question behaviours of Pick01/02)
          /\ p' = Ready /\ UNCHANGED <<cfg, req, tab, bk, live>>
Reconfigure ==
    /\ p.stage = "ready" /\ live.np + live.nre < 2
    /\ \E c \in HConfigs(0) :
         /\ c.cache = cfg.cache /\ [c EXCEPT !.prot = cfg.prot] # cfg
         /\ cfg' = [c EXCEPT !.prot = cfg.prot]
         /\ live' = [live EXCEPT !.inst = c.rules, !.nre = @ + 1]   \* BOTH engines rebuilt from c
    /\ UNCHANGED <<req, p, tab, bk>>
\* A reconfiguration that FAILS (a fault while the engines are rebuilt: a list
\* file that cannot be read) changes nothing: the rule sets installed before
\* stay installed, the verdicts stay those of the configuration in effect.
ReconfigureFails == p.stage = "ready" /\ UNCHANGED vars
\* The client registry is edited (other persistent clients, identified by
\* subnets around or inside the one under test, are added, updated = removed
\* and added again, removed) in a way that leaves Persistent(cfg, req) -- whose
\* request it is: the most specific identifier decides -- unchanged for every
\* request: nothing changes.
EditClients == p.stage = "ready" /\ UNCHANGED vars
\* Protection is switched through either of two entry points: the protection
\* API (on / off / off for a duration) and the DNS configuration API (the flag
\* only).  cfg.prot is the resulting state; whether filtering applies depends
\* only on whether protection is in effect NOW (EffProt).  The statement does
\* not say what setting the flag through the second API means while a pause
\* started through the first is still running, or clearing it after a pause
\* ran out: either state is admitted -- but it is ONE state, for names and
\* for answers alike.
ProtOps == {"prot_on", "prot_off", "prot_pause", "prot_pause_ran_out", "dns_on", "dns_off"}
NextProt(cur, op) ==
    CASE op = "prot_on"            -> {"on"}
      [] op = "prot_off"           -> {"off"}
      [] op = "prot_pause"         -> {"paused"}
      [] op = "prot_pause_ran_out" -> {"expired"}
      [] op = "dns_on"             -> IF cur = "paused" THEN {"on", "paused"} ELSE {"on"}
      [] OTHER                     -> CASE cur = "paused"  -> {"paused"}
                                        [] cur = "expired" -> {"off", "expired"}
                                        [] OTHER           -> {"off"}
ProtAPI ==
    /\ p.stage = "ready" /\ live.np + live.nre < 2 /\ live.n = 0   \* (bounds; before the questions)
    /\ \E op \in ProtOps : \E st \in NextProt(cfg.prot, op) : cfg' = [cfg EXCEPT !.prot = st]
    /\ live' = [live EXCEPT !.np = @ + 1]
    /\ UNCHANGED <<req, p, tab, bk>>
\* A pause for a duration runs out by itself, in two steps: PauseExpires -- the
\* deadline has passed, the first request that notices starts the write-back
\* of "protection on" (cfg.prot = "expired": expired, write-back in flight) --
\* and WriteBack, which completes it.  Protection is in effect from the first
\* of the two on (EffProt("expired")): every request in the intermediate state
\* is filtered, names and answers alike.
PauseExpires == /\ p.stage = "ready" /\ cfg.prot = "paused"
                /\ cfg' = [cfg EXCEPT !.prot = "expired"]
                /\ UNCHANGED <<req, p, tab, bk, live>>
WriteBack    == /\ p.stage = "ready" /\ cfg.prot = "expired"
                /\ cfg' = [cfg EXCEPT !.prot = "on"]
                /\ UNCHANGED <<req, p, tab, bk, live>>
NextHist == Boot \/ Ask \/ Repeat \/ Reconfigure \/ ReconfigureFails \/ EditClients
              \/ ProtAPI \/ PauseExpires \/ WriteBack
              \/ Finish
              \/ Before \/ Initial \/ FilterBefore \/ Upstream \/ FilterAfter \/ Log
SpecHist == Init /\ [][NextHist]_vars
\* DnsPipeline.mc.cfg checks both kinds of behaviours in one run: the
\* one-question behaviours over the larger universe (Pick01 / Pick02) and the
\* histories of one live server (Boot ...).
SpecAll == Init /\ [][NextMC \/ NextHist]_vars

\* The outcome of every request while protection is not in effect (the same
\* for all of them: C01ProtectionOffBlocksNothing, C02NotApplicable...); rep:
\* for a question asked before, with the cache on.
OffCfg(ch) == [BaseCfg({}, "default") EXCEPT !.prot = "off", !.cache = ch]
ProtOff(rep) == IF rep THEN VerdictRepeat(OffCfg(TRUE), Queries[1], Harmless)
                ELSE Verdict(OffCfg(FALSE), Queries[1], Harmless)

\* --- SpecGen01 / SpecGen02: one verdict table per configuration
Header01 == /\ p.stage = "idle"
            /\ p' = [p EXCEPT !.stage = "hdr"] /\ UNCHANGED <<cfg, req, tab, bk, live>>
            /\ PrintT(<<"@@V", ToJson([kind |-> "hdr01", queries |-> Queries,
                                       protoff |-> ProtOff(FALSE), protoffr |-> ProtOff(TRUE)])>>)
Bucket01 == /\ p.stage = "idle"
            /\ \E b \in Buckets01 : bk' = b
            /\ p' = [p EXCEPT !.stage = "bucket"] /\ UNCHANGED <<cfg, req, tab, live>>
Gen01 == /\ p.stage = "bucket"
         /\ \E c0 \in (IF bk[1] = "F" THEN StratumFB(bk[2]) ELSE StratumRB(bk)) :
              LET c == FixMode(c0) IN
              /\ cfg' = c /\ tab' = Table01(c) /\ p' = [p EXCEPT !.stage = "table01"]
              /\ UNCHANGED <<req, bk, live>>
              /\ PrintT(<<"@@V", ToJson([kind |-> "c01", cfg |-> c, tab |-> tab', tabr |-> Table01R(c)])>>)
NextGen01 == Header01 \/ Bucket01 \/ Gen01
SpecGen01 == Init /\ [][NextGen01]_vars

Header02 == /\ p.stage = "idle"
            /\ p' = [p EXCEPT !.stage = "hdr"] /\ UNCHANGED <<cfg, req, tab, bk, live>>
            /\ PrintT(<<"@@V", ToJson([kind |-> "hdr02", rrs |-> RRs, answers |-> AnsSeq,
                                       qname |-> QCOM,
                                       protoff |-> ProtOff(FALSE), protoffr |-> ProtOff(TRUE)])>>)
Bucket02 == /\ p.stage = "idle"
            /\ \E b \in Buckets02 : bk' = b
            /\ p' = [p EXCEPT !.stage = "bucket"] /\ UNCHANGED <<cfg, req, tab, live>>
Gen02 == /\ p.stage = "bucket"
         /\ \E c0 \in Stratum02B(bk) :
              LET c == FixMode(c0) IN
              /\ cfg' = c /\ tab' = Table02(c) /\ p' = [p EXCEPT !.stage = "table02"]
              /\ UNCHANGED <<req, bk, live>>
              /\ PrintT(<<"@@V", ToJson([kind |-> "c02", cfg |-> c, tab |-> tab'])>>)
NextGen02 == Header02 \/ Bucket02 \/ Gen02
SpecGen02 == Init /\ [][NextGen02]_vars

\* ------------------------------------------------------------- properties
Done == p.stage = "done"
Os   == {AsFetched(Outcome(p), p.hit)}     \* the statements count exchanges as if fetched
Is01 == tab = <<Harmless>>

\* stepwise (SpecMC): the statements on the final state of every behaviour
MC_C01 == (Done /\ Is01) => C01All(cfg, req, Os)
MC_C02 == (Done /\ ~Is01) => C02All(cfg, req, tab[1], Os)
\* nothing is sent upstream once a response exists
UpstreamOnlyWithoutResponse == [][Len(p'.upLog) > Len(p.upLog) => ~p.set]_vars
\* a blocked query never reaches the upstream, at any stage
NeverForwardedWhileBlocked == (p.why \in {"B", "S"}) => p.upLog = <<>>

\* histories (SpecHist): what is installed is the current configuration, and
\* the verdict of every question -- first or repeated, before or after any
\* reconfiguration -- is the verdict of the CURRENT configuration alone
HistInstalled == (p.stage # "idle") => live.inst = cfg.rules
HistDone == Done /\ live.n > 0          \* a finished question of a history (Boot ...)
HistVerdict == HistDone => Outcome(p) \in (IF p.hit THEN VerdictHit(cfg, req, tab[1]) ELSE Verdict(cfg, req, tab[1]))
HistStatements ==
    Done => IF Is01 THEN C01All(cfg, req, {AsFetched(Outcome(p), p.hit)})
            ELSE C02All(cfg, req, tab[1], {AsFetched(Outcome(p), p.hit)})
HistRepeat == HistDone => RepeatEqualsFirst(cfg, req, tab[1])

\* table form (SpecGen01/02): the statements on every entry of the table
Gen_C01 == (p.stage = "table01") =>
              \A i \in DOMAIN Queries : C01All(cfg, Queries[i], tab[i])
Gen_C02 == (p.stage = "table02") =>
              \A e \in tab :
                 /\ C02All(cfg, Req02N(e.name, e.qt), AnsOfP(AnsSeq[e.k], PatAt(e.k)), e.out)
                 \* the second answer equals the first
                 /\ (cfg.cache => {Answer(o) : o \in e.outr} = {Answer(o) : o \in e.out})
=============================================================================
