SPECIFICATION Spec
CONSTANT W = 4
INVARIANTS EachSettingOwnIffOptedOut OptedOutAndPausedBlocksNothing ForeignRequestGetsGlobal
