package home

// G10 conformance harness -- settings persistence (specs/Persist.tla).
//
// The subject is the whole server, so it is run as the whole server: the test
// binary re-executes ITSELF as a child process (TestZZVerifG10Child) which wires
// signals exactly as Main() does and calls the real run() on a working
// directory and a configuration file prepared by the parent.  Everything is
// then observed from OUTSIDE that process:
//
//   - requests go over TCP to the real web server started by web.start
//     (withMiddlewares(globalContext.mux, limitRequestBody) behind net/http);
//   - "reported" is what the GET endpoints answer;
//   - "file" is AdGuardHome.yaml parsed by the parent with yaml.v3 into a map
//     (no struct of package home is used for that);
//   - "running" is what DNS clients see: queries sent over UDP to the child's
//     DNS port, upstream side observed on mock upstreams owned by the parent;
//   - Restart is SIGTERM (the real signal handler: cleanup(), exit) + a new
//     process over the same directory; Crash is SIGKILL at a request boundary
//     or in the middle of a request.
//
// A process per boot is also what makes restarts sound here: dnsforward and
// home register their HTTP routes once per process (package flags), so an
// in-process second boot would keep serving /control/dns_config from the FIRST
// server object.
//
// The parent never boots anything itself; of package home it uses only the
// package-level default configuration (to write the initial AdGuardHome.yaml
// the way a fresh installation would) and run() in the child.

import (
	"bytes"
	"context"
	"encoding/json"
	"fmt"
	"io"
	"math/rand"
	"net"
	"net/http"
	"os"
	"os/exec"
	"os/signal"
	"path/filepath"
	"sort"
	"strconv"
	"strings"
	"sync"
	"syscall"
	"testing"
	"testing/fstest"
	"time"

	"github.com/AdguardTeam/golibs/log"
	"github.com/miekg/dns"
	yaml "gopkg.in/yaml.v3"
)

// ------------------------------------------------------------------- child

// TestZZVerifG10Child is the server process.  It does what Main() does after
// option parsing.
func TestZZVerifG10Child(t *testing.T) {
	if os.Getenv("VERIF_G10_CHILD") != "1" {
		t.Skip("not a child")
	}

	opts := options{
		workDir:       os.Getenv("VERIF_G10_WORK"),
		confFilename:  os.Getenv("VERIF_G10_CONF"),
		noEtcHosts:    true,
		disableUpdate: true,
		noPermCheck:   true,
	}

	done := make(chan struct{})
	signals := make(chan os.Signal, 1)
	signal.Notify(signals, syscall.SIGINT, syscall.SIGTERM, syscall.SIGHUP, syscall.SIGQUIT)

	ctx := context.Background()
	sigHdlr := newSignalHandler(signals, func(ctx context.Context) {
		cleanup(ctx)
		cleanupAlways()
		close(done)
	})

	go sigHdlr.handle(ctx)

	clientFS := fstest.MapFS{
		"build/static/index.html":   {Data: []byte("<html>dashboard</html>")},
		"build/static/login.html":   {Data: []byte("<html>login</html>")},
		"build/static/install.html": {Data: []byte("<html>install</html>")},
	}

	// The package's TestMain silences the log; a server process should say why
	// it dies.
	log.SetOutput(os.Stderr)

	run(opts, clientFS, done, sigHdlr)

	os.Exit(0)
}

// ------------------------------------------------------------ mock upstream

// zzG10Seen is what a mock upstream saw for one question name.
type zzG10Seen struct {
	n   int
	do  bool
	ecs string
}

// zzG10Mock is a DNS server owned by the parent.  It answers every A question
// with its own address mark, so that the answer tells which upstream was used.
type zzG10Mock struct {
	mark string // "1" -> 192.0.2.1 / 2001:db8::1
	pc   net.PacketConn
	srv  *dns.Server
	mu   sync.Mutex
	seen map[string]*zzG10Seen
}

func zzG10NewMock(port int, mark string) (m *zzG10Mock, err error) {
	pc, err := net.ListenPacket("udp", fmt.Sprintf("127.0.0.1:%d", port))
	if err != nil {
		return nil, err
	}

	m = &zzG10Mock{mark: mark, pc: pc, seen: map[string]*zzG10Seen{}}
	m.srv = &dns.Server{PacketConn: pc, Handler: dns.HandlerFunc(m.serve)}
	go func() { _ = m.srv.ActivateAndServe() }()

	return m, nil
}

func (m *zzG10Mock) serve(w dns.ResponseWriter, req *dns.Msg) {
	resp := &dns.Msg{}
	resp.SetReply(req)
	resp.RecursionAvailable = true
	if len(req.Question) == 1 {
		q := req.Question[0]
		name := strings.ToLower(q.Name)
		s := zzG10Seen{}
		if o := req.IsEdns0(); o != nil {
			s.do = o.Do()
			for _, e := range o.Option {
				if sub, ok := e.(*dns.EDNS0_SUBNET); ok {
					s.ecs = fmt.Sprintf("%s/%d", sub.Address, sub.SourceNetmask)
				}
			}
		}

		m.mu.Lock()
		if old := m.seen[name]; old != nil {
			s.n = old.n
		}
		s.n++
		m.seen[name] = &s
		if len(m.seen) > 20000 {
			m.seen = map[string]*zzG10Seen{name: &s}
		}
		m.mu.Unlock()

		hdr := dns.RR_Header{Name: q.Name, Rrtype: q.Qtype, Class: dns.ClassINET, Ttl: 300}
		switch q.Qtype {
		case dns.TypeA:
			resp.Answer = append(resp.Answer, &dns.A{Hdr: hdr, A: net.ParseIP("192.0.2." + m.mark)})
		case dns.TypeAAAA:
			resp.Answer = append(resp.Answer, &dns.AAAA{Hdr: hdr, AAAA: net.ParseIP("2001:db8::" + m.mark)})
		case dns.TypePTR:
			resp.Answer = append(resp.Answer, &dns.PTR{Hdr: hdr, Ptr: "ptr" + m.mark + ".g10.test."})
		}
	}

	_ = w.WriteMsg(resp)
}

func (m *zzG10Mock) saw(name string) (s zzG10Seen) {
	m.mu.Lock()
	defer m.mu.Unlock()

	if p := m.seen[strings.ToLower(dns.Fqdn(name))]; p != nil {
		return *p
	}

	return zzG10Seen{}
}

func (m *zzG10Mock) close() { _ = m.srv.Shutdown(); _ = m.pc.Close() }

// -------------------------------------------------------------------- arena

// zzG10Arena is one deployment: a working directory, fixed ports, the mock
// upstreams and the current server process.
type zzG10Arena struct {
	t       testing.TB
	id      int
	root    string
	work    string
	web     int
	dnsPort int
	pA, pB  int
	pL      int
	mA, mB  *zzG10Mock
	mL      *zzG10Mock
	cmd     *exec.Cmd
	exited  chan struct{}
	hc      *http.Client
	seq     int
	deploys int
	boots   int
	logPath string
	rng     *rand.Rand
}

const zzG10Host = "127.0.0.1"

func zzG10EnvInt(name string, dflt int) (n int) {
	n, err := strconv.Atoi(os.Getenv(name))
	if err != nil {
		return dflt
	}

	return n
}

// zzG10PickPort picks a loopback port below the ephemeral range that is free
// for TCP and UDP now.
func zzG10PickPort(rng *rand.Rand, taken map[int]bool) (p int) {
	for i := 0; i < 2000; i++ {
		p = 12000 + rng.Intn(18000)
		if taken[p] {
			continue
		}

		l, err := net.Listen("tcp", fmt.Sprintf("%s:%d", zzG10Host, p))
		if err != nil {
			continue
		}

		_ = l.Close()
		c, err := net.ListenPacket("udp", fmt.Sprintf("%s:%d", zzG10Host, p))
		if err != nil {
			continue
		}

		_ = c.Close()
		taken[p] = true

		return p
	}

	panic("no free port")
}

var zzG10PortMu sync.Mutex
var zzG10Taken = map[int]bool{}

func zzG10NewArena(t testing.TB, id int, seed int64) (a *zzG10Arena) {
	base := ""
	if st, err := os.Stat("/dev/shm"); err == nil && st.IsDir() {
		base = "/dev/shm"
	}

	root, err := os.MkdirTemp(base, "zzg10-")
	if err != nil {
		t.Fatalf("tempdir: %v", err)
	}

	a = &zzG10Arena{t: t, id: id, root: root, rng: rand.New(rand.NewSource(seed*1000 + int64(id)))}
	prng := rand.New(rand.NewSource(time.Now().UnixNano() + int64(id)*7919 + int64(os.Getpid())))

	zzG10PortMu.Lock()
	defer zzG10PortMu.Unlock()

	for {
		a.web = zzG10PickPort(prng, zzG10Taken)
		a.dnsPort = zzG10PickPort(prng, zzG10Taken)
		a.pA = zzG10PickPort(prng, zzG10Taken)
		a.pB = zzG10PickPort(prng, zzG10Taken)
		a.pL = zzG10PickPort(prng, zzG10Taken)
		var e1, e2, e3 error
		a.mA, e1 = zzG10NewMock(a.pA, "1")
		a.mB, e2 = zzG10NewMock(a.pB, "2")
		a.mL, e3 = zzG10NewMock(a.pL, "3")
		if e1 == nil && e2 == nil && e3 == nil {
			break
		}

		for _, m := range []*zzG10Mock{a.mA, a.mB, a.mL} {
			if m != nil {
				m.close()
			}
		}
	}

	return a
}

func (a *zzG10Arena) destroy() {
	a.kill()
	for _, m := range []*zzG10Mock{a.mA, a.mB, a.mL} {
		m.close()
	}

	_ = os.RemoveAll(a.root)
}

func (a *zzG10Arena) confPath() (p string) { return filepath.Join(a.work, "AdGuardHome.yaml") }
func (a *zzG10Arena) listPath(i string) (p string) {
	return filepath.Join(a.root, "lists", "l"+i+".txt")
}

// deploy gives the arena a new working directory holding the configuration
// file of a freshly set-up installation: the package defaults, bound to
// loopback, kept off the network (mock upstream, no remote filter lists, no
// runtime client sources, no hosts file).
func (a *zzG10Arena) deploy() {
	a.kill()
	a.deploys++
	a.work = filepath.Join(a.root, fmt.Sprintf("work%d", a.deploys))
	if err := os.MkdirAll(a.work, 0o755); err != nil {
		a.t.Fatalf("mkdir: %v", err)
	}

	_ = os.MkdirAll(filepath.Join(a.root, "lists"), 0o755)
	for i, host := range map[string]string{"0": "blk0.g10.test", "1": "l1.g10.test", "2": "l2.g10.test"} {
		_ = os.WriteFile(a.listPath(i), []byte("! G10 list "+i+"\n||"+host+"^\n"), 0o644)
	}

	// The background list L0 is already downloaded (its copy in the data
	// directory exists), as after any earlier run of the installation.
	fdir := filepath.Join(a.work, "data", "filters")
	_ = os.MkdirAll(fdir, 0o755)
	_ = os.WriteFile(filepath.Join(fdir, "100.txt"), []byte("! G10 list 0\n||blk0.g10.test^\n"), 0o644)

	b, err := yaml.Marshal(config)
	if err != nil {
		a.t.Fatalf("marshalling defaults: %v", err)
	}

	y := map[string]any{}
	if err = yaml.Unmarshal(b, &y); err != nil {
		a.t.Fatalf("defaults: %v", err)
	}

	sub := func(k string) (m map[string]any) {
		m, _ = y[k].(map[string]any)
		if m == nil {
			m = map[string]any{}
			y[k] = m
		}

		return m
	}

	sub("http")["address"] = fmt.Sprintf("%s:%d", zzG10Host, a.web)
	y["users"] = []any{}
	d := sub("dns")
	d["bind_hosts"] = []any{zzG10Host}
	d["port"] = a.dnsPort
	d["upstream_dns"] = []any{a.upstream("A")}
	d["bootstrap_dns"] = []any{"9.9.9.10"}
	d["fallback_dns"] = []any{}
	d["use_private_ptr_resolvers"] = false
	d["local_ptr_upstreams"] = []any{}
	d["hostsfile_enabled"] = false
	d["ratelimit_whitelist"] = []any{"127.0.0.1", "127.0.0.2", "127.0.0.3", "127.0.0.9"}
	cs := sub("clients")
	cs["runtime_sources"] = map[string]any{"whois": false, "arp": false, "rdns": false, "dhcp": false, "hosts": false}
	cs["persistent"] = []any{}
	y["filters"] = []any{map[string]any{"enabled": true, "url": a.listPath("0"), "name": "L0", "id": 100}}
	y["whitelist_filters"] = []any{}
	y["user_rules"] = []any{}
	f := sub("filtering")
	f["safe_fs_patterns"] = []any{filepath.Join(a.root, "lists", "*")}
	f["filters_update_interval"] = 24

	out, err := yaml.Marshal(y)
	if err != nil {
		a.t.Fatalf("initial yaml: %v", err)
	}

	if err = os.WriteFile(a.confPath(), out, 0o644); err != nil {
		a.t.Fatalf("initial yaml: %v", err)
	}
}

func (a *zzG10Arena) upstream(n string) (s string) {
	switch n {
	case "A":
		return fmt.Sprintf("%s:%d", zzG10Host, a.pA)
	case "B":
		return fmt.Sprintf("%s:%d", zzG10Host, a.pB)
	default:
		return fmt.Sprintf("%s:%d", zzG10Host, a.pL)
	}
}

// start runs a server process over the working directory and waits until it
// serves the API and DNS.
func (a *zzG10Arena) start() (err error) {
	a.boots++
	a.logPath = filepath.Join(a.root, fmt.Sprintf("child%d.log", a.boots))
	lf, err := os.Create(a.logPath)
	if err != nil {
		return err
	}

	cmd := exec.Command(os.Args[0], "-test.run", "^TestZZVerifG10Child$", "-test.timeout", "0")
	cmd.Env = append(os.Environ(), "VERIF_G10_CHILD=1", "VERIF_G10_WORK="+a.work, "VERIF_G10_CONF="+a.confPath())
	cmd.Stdout = lf
	cmd.Stderr = lf
	cmd.Dir = a.work
	if err = cmd.Start(); err != nil {
		_ = lf.Close()

		return err
	}

	_ = lf.Close()
	a.cmd = cmd
	a.exited = make(chan struct{})
	go func(c *exec.Cmd, ch chan struct{}) { _ = c.Wait(); close(ch) }(cmd, a.exited)
	a.hc = &http.Client{Timeout: 20 * time.Second, Transport: &http.Transport{MaxIdleConnsPerHost: 4}}

	deadline := time.Now().Add(time.Duration(zzG10EnvInt("VERIF_G10_BOOT_S", 60)) * time.Second)
	for time.Now().Before(deadline) {
		select {
		case <-a.exited:
			a.cmd = nil

			return fmt.Errorf("the server process ended during start: %s", a.logTail())
		default:
		}

		r := a.do(http.MethodGet, "/control/status", nil)
		if r.Code == 200 && bytes.Contains(r.Body, []byte(`"running":true`)) {
			if m, _ := a.query("ready.g10.test", dns.TypeA, "", 300*time.Millisecond); m != nil {
				return nil
			}
		}

		time.Sleep(15 * time.Millisecond)
	}

	a.kill()

	return fmt.Errorf("the server did not come up in time: %s", a.logTail())
}

func (a *zzG10Arena) logTail() (s string) {
	b, _ := os.ReadFile(a.logPath)
	if len(b) > 1500 {
		b = b[len(b)-1500:]
	}

	return string(b)
}

// stop is a graceful shutdown: SIGTERM, handled by the real signal handler.
func (a *zzG10Arena) stop() (err error) {
	if a.cmd == nil {
		return nil
	}

	_ = a.cmd.Process.Signal(syscall.SIGTERM)
	select {
	case <-a.exited:
		a.cmd = nil

		return nil
	case <-time.After(time.Duration(zzG10EnvInt("VERIF_G10_STOP_S", 30)) * time.Second):
		a.kill()

		return fmt.Errorf("the server did not exit after SIGTERM")
	}
}

// kill is a crash: SIGKILL.
func (a *zzG10Arena) kill() {
	if a.cmd == nil {
		return
	}

	_ = a.cmd.Process.Kill()
	<-a.exited
	a.cmd = nil
}

// ----------------------------------------------------------------- requests

type zzG10Resp struct {
	Code int
	Body []byte
	Err  string
}

func (a *zzG10Arena) do(method, path string, body []byte) (resp zzG10Resp) {
	var rd io.Reader
	if body != nil {
		rd = bytes.NewReader(body)
	}

	req, err := http.NewRequest(method, fmt.Sprintf("http://%s:%d%s", zzG10Host, a.web, path), rd)
	if err != nil {
		return zzG10Resp{Code: -1, Err: err.Error()}
	}

	if body != nil {
		req.Header.Set("Content-Type", "application/json")
	}

	r, err := a.hc.Do(req)
	if err != nil {
		return zzG10Resp{Code: -1, Err: err.Error()}
	}
	defer r.Body.Close()

	b, _ := io.ReadAll(r.Body)

	return zzG10Resp{Code: r.StatusCode, Body: b}
}

// query sends one question to the server under test from the given loopback
// source address ("" = 127.0.0.1).  m is nil when no answer came in time.
func (a *zzG10Arena) query(name string, qtype uint16, src string, timeout time.Duration) (m *dns.Msg, err error) {
	if src == "" {
		src = zzG10Host
	}

	c := &dns.Client{Net: "udp", Timeout: timeout, Dialer: &net.Dialer{
		LocalAddr: &net.UDPAddr{IP: net.ParseIP(src)},
		Timeout:   timeout,
	}}
	q := &dns.Msg{}
	q.SetQuestion(dns.Fqdn(name), qtype)
	q.RecursionDesired = true
	m, _, err = c.Exchange(q, fmt.Sprintf("%s:%d", zzG10Host, a.dnsPort))
	if err != nil {
		return nil, err
	}

	return m, nil
}

func (a *zzG10Arena) fresh(prefix string) (name string) {
	a.seq++

	return fmt.Sprintf("%s%d-%d-%d.fresh.g10.test", prefix, a.id, a.deploys, a.seq)
}

// sig is a short signature of an answer: "none" (no answer in time),
// "rc=<rcode>" or the answer records.
func zzG10Sig(m *dns.Msg) (s string) {
	if m == nil {
		return "none"
	}

	if m.Rcode != dns.RcodeSuccess {
		return "rc=" + dns.RcodeToString[m.Rcode]
	}

	var parts []string
	for _, rr := range m.Answer {
		switch v := rr.(type) {
		case *dns.A:
			parts = append(parts, "A="+v.A.String())
		case *dns.AAAA:
			parts = append(parts, "AAAA="+v.AAAA.String())
		case *dns.CNAME:
			parts = append(parts, "CNAME="+strings.ToLower(v.Target))
		case *dns.PTR:
			parts = append(parts, "PTR="+strings.ToLower(v.Ptr))
		default:
			parts = append(parts, "RR"+strconv.Itoa(int(rr.Header().Rrtype)))
		}
	}

	if len(parts) == 0 {
		return "empty"
	}

	sort.Strings(parts)

	return strings.Join(parts, ",")
}

// ask is query with one patient retry: an answer that does not come within the
// short limit is asked for again with a long one, so that only a server that
// really stays silent is reported as silent.
func (a *zzG10Arena) ask(name string, qtype uint16, src string) (m *dns.Msg) {
	m, _ = a.query(name, qtype, src, 150*time.Millisecond)
	if m == nil {
		m, _ = a.query(name, qtype, src, 1500*time.Millisecond)
	}

	return m
}

// ------------------------------------------------------------- exploration

// TestZZVerifG10Explore prints what a fresh deployment reports; a development
// aid (VERIF_G10_EXPLORE=1).
func TestZZVerifG10Explore(t *testing.T) {
	if os.Getenv("VERIF_G10_EXPLORE") == "" {
		t.Skip("no VERIF_G10_EXPLORE")
	}

	a := zzG10NewArena(t, 0, zzSeed())
	defer a.destroy()

	a.deploy()
	t0 := time.Now()
	if err := a.start(); err != nil {
		t.Fatalf("start: %v", err)
	}

	t.Logf("boot %v", time.Since(t0))
	for _, p := range strings.Split(os.Getenv("VERIF_G10_EXPLORE"), ",") {
		if p == "yaml" {
			b, _ := os.ReadFile(a.confPath())
			t.Logf("yaml:\n%s", b)

			continue
		}

		r := a.do(http.MethodGet, p, nil)
		t.Logf("GET %s -> %d %s %s", p, r.Code, r.Body, r.Err)
	}

	for i := 0; i < 100; i++ {
		if zzG10Sig(a.ask("blk0.g10.test", dns.TypeA, "")) != "A=192.0.2.1" {
			t.Logf("blk0 blocked after %d polls", i)

			break
		}

		time.Sleep(20 * time.Millisecond)
	}

	for _, n := range []string{"blk0.g10.test", "x.g10.test", "www.bing.com"} {
		t1 := time.Now()
		m := a.ask(n, dns.TypeA, "")
		t.Logf("A %s -> %s (%v)", n, zzG10Sig(m), time.Since(t1))
	}

	t0 = time.Now()
	err := a.stop()
	t.Logf("stop %v %v", time.Since(t0), err)
	t0 = time.Now()
	err = a.start()
	t.Logf("restart %v %v", time.Since(t0), err)
	a.kill()
	t0 = time.Now()
	err = a.start()
	t.Logf("boot after crash %v %v", time.Since(t0), err)
	t.Logf("log tail: %s", a.logTail())
}


// ------------------------------------------------------- concrete universe

// zzG10Lab is a label of specs/Persist.tla.
type zzG10Lab struct {
	Op string `json:"op"`
	X  string `json:"x"`
	C  string `json:"c"`
	V  string `json:"v"`
	W  string `json:"w"`
}

func (l zzG10Lab) String() (s string) {
	return strings.TrimRight(strings.Join([]string{l.Op, l.X, l.C, l.V, l.W}, ":"), ":")
}

var zzG10DefaultBlockedHosts = []string{"version.bind", "id.server", "hostname.bind"}

var zzG10Rules = map[string][]string{
	"none": {},
	"r1":   {"||u1.g10.test^"},
	"r12":  {"||u1.g10.test^", "||u2.g10.test^"},
	"r2":   {"||u2.g10.test^"},
}

var zzG10Rewrites = map[string][2]string{
	"r1": {"rw1.g10.test", "10.1.1.1"},
	"r2": {"rw2.g10.test", "10.1.1.2"},
	"r3": {"rw3.g10.test", "10.1.1.3"},
}

var zzG10Services = map[string][]string{
	"none": {}, "s1": {"4chan"}, "s12": {"4chan", "500px"}, "s2": {"500px"}, "s1p": {"4chan"},
}

var zzG10Num = map[string]int{
	"t10": 10, "t77": 77, "t3600": 3600,
	"4m": 4194304, "64k": 65536,
	"ivl7": 604800000, "ivl1": 86400000, "ivl30": 2592000000, "ivl90": 7776000000,
}

var zzG10ClientAddr = map[string]string{"c1": "127.0.0.2", "c2": "127.0.0.3"}

type zzG10M = map[string]any

func zzG10JSON(v any) (b []byte) {
	b, err := json.Marshal(v)
	if err != nil {
		panic(err)
	}

	return b
}

func zzG10Atoi(s string) (n int) {
	if v, ok := zzG10Num[s]; ok {
		return v
	}

	n, _ = strconv.Atoi(s)

	return n
}

func zzG10FullWeek() (m zzG10M) {
	m = zzG10M{"time_zone": "UTC"}
	for _, d := range []string{"sun", "mon", "tue", "wed", "thu", "fri", "sat"} {
		m[d] = zzG10M{"start": 0, "end": 86400000}
	}

	return m
}

func zzG10SafeSearch(v string) (m zzG10M) {
	m = zzG10M{"enabled": v == "all" || v == "nogoogle", "bing": true, "duckduckgo": true, "ecosia": true,
		"google": v != "nogoogle" && v != "offng", "pixabay": true, "yandex": true, "youtube": true}

	return m
}

func (a *zzG10Arena) accessBody(v string) (m zzG10M) {
	hosts := append([]string{}, zzG10DefaultBlockedHosts...)
	m = zzG10M{"allowed_clients": []string{}, "disallowed_clients": []string{}, "blocked_hosts": hosts}
	switch v {
	case "dis":
		m["disallowed_clients"] = []string{"127.0.0.9"}
	case "host":
		m["blocked_hosts"] = append(hosts, "acc.g10.test")
	case "allow":
		m["allowed_clients"] = []string{"127.0.0.1", "127.0.0.2", "127.0.0.3"}
	case "dup":
		m["disallowed_clients"] = []string{"127.0.0.9", "127.0.0.9"}
		m["blocked_hosts"] = append(hosts, "other.g10.test")
	case "both":
		m["allowed_clients"] = []string{"127.0.0.1", "127.0.0.9"}
		m["disallowed_clients"] = []string{"127.0.0.9"}
		m["blocked_hosts"] = append(hosts, "other.g10.test")
	}

	return m
}

func zzG10ClientBody(k, variant, addr string) (m zzG10M) {
	m = zzG10M{
		"name": "g10" + k, "ids": []string{addr}, "tags": []string{}, "upstreams": []string{},
		"use_global_settings": variant != "a", "filtering_enabled": false, "parental_enabled": false,
		"safebrowsing_enabled": false, "safesearch_enabled": false,
		"use_global_blocked_services": variant != "b", "blocked_services": []string{},
	}
	if variant == "b" {
		m["blocked_services"] = []string{"9gag"}
		m["filtering_enabled"] = true
	}

	return m
}

func (a *zzG10Arena) logConfBody(kind, v string) (m zzG10M) {
	ivl := 7776000000
	if kind == "stats" {
		ivl = 86400000
	}

	m = zzG10M{"enabled": true, "interval": ivl, "ignored": []string{}}
	if kind == "qlog" {
		m["anonymize_client_ip"] = false
	}

	switch v {
	case "off":
		m["enabled"] = false
	case "anon":
		m["anonymize_client_ip"] = true
	case "ign":
		m["ignored"] = []string{"ign.g10.test"}
	case "noenabled":
		delete(m, "enabled")
		m["interval"] = 604800000
		m["ignored"] = []string{"other.g10.test"}
	case "def":
	default:
		m["interval"] = zzG10Atoi(v)
	}

	return m
}

// dnsField is the part of a POST /control/dns_config body that asks for value
// v of component c.  Refused values come with a valid change of the rate limit
// that must not be applied either.
func (a *zzG10Arena) dnsField(c, v string) (m zzG10M) {
	companion := func(m zzG10M) zzG10M { m["ratelimit"] = 999; return m }
	switch c {
	case "ups":
		if v == "bad" {
			return zzG10M{"upstream_dns": []string{"!!bad upstream!!"}}
		}

		var l []string
		for _, ch := range v {
			l = append(l, a.upstream(string(ch)))
		}

		return zzG10M{"upstream_dns": l}
	case "boot":
		switch v {
		case "b0":
			return zzG10M{"bootstrap_dns": []string{"9.9.9.10"}}
		case "b1":
			return zzG10M{"bootstrap_dns": []string{"149.112.112.10", "2620:fe::10"}}
		default:
			return zzG10M{"bootstrap_dns": []string{"not an address"}}
		}
	case "blk":
		switch v {
		case "custom1":
			return zzG10M{"blocking_mode": "custom_ip", "blocking_ipv4": "10.9.8.7", "blocking_ipv6": "fd00::7"}
		case "custom2":
			return zzG10M{"blocking_mode": "custom_ip", "blocking_ipv4": "10.9.8.8", "blocking_ipv6": "fd00::8"}
		case "bogus":
			return companion(zzG10M{"blocking_mode": "bogus"})
		default:
			return zzG10M{"blocking_mode": v}
		}
	case "blkttl":
		return zzG10M{"blocked_response_ttl": zzG10Atoi(v)}
	case "prot":
		return zzG10M{"protection_enabled": v == "on"}
	case "rl":
		return zzG10M{"ratelimit": zzG10Atoi(v)}
	case "rl4":
		m = zzG10M{"ratelimit_subnet_len_ipv4": zzG10Atoi(v)}
		if v == "33" {
			return companion(m)
		}

		return m
	case "ecs":
		m = zzG10M{"edns_cs_enabled": v != "off", "edns_cs_use_custom": v == "custom"}
		if v == "custom" {
			m["edns_cs_custom_ip"] = "203.0.113.5"
		}

		return m
	case "dnssec":
		return zzG10M{"dnssec_enabled": v == "on"}
	case "noaaaa":
		return zzG10M{"disable_ipv6": v == "on"}
	case "csize":
		return zzG10M{"cache_size": zzG10Atoi(v)}
	case "cttl":
		p := strings.SplitN(v, "-", 2)

		return zzG10M{"cache_ttl_min": zzG10Atoi(p[0]), "cache_ttl_max": zzG10Atoi(p[1])}
	case "upmode":
		switch v {
		case "lb":
			return zzG10M{"upstream_mode": "load_balance"}
		case "fastest":
			return zzG10M{"upstream_mode": "fastest_addr"}
		case "bogus":
			return companion(zzG10M{"upstream_mode": "bogus"})
		default:
			return zzG10M{"upstream_mode": v}
		}
	case "lptr":
		if v == "L" {
			return zzG10M{"local_ptr_upstreams": []string{a.upstream("L")}}
		}

		return zzG10M{"local_ptr_upstreams": []string{}}
	case "useptr":
		return zzG10M{"use_private_ptr_resolvers": v == "on"}
	case "uto":
		m = zzG10M{"upstream_timeout": zzG10Atoi(v)}
		if v == "0" {
			return companion(m)
		}

		return m
	}

	return nil
}

var zzG10DNSComps = map[string]bool{"ups": true, "boot": true, "blk": true, "blkttl": true, "prot": true, "rl": true,
	"rl4": true, "ecs": true, "dnssec": true, "noaaaa": true, "csize": true, "cttl": true, "upmode": true,
	"lptr": true, "useptr": true, "uto": true}

var zzG10Malformed = map[string][2]string{
	"dns_config":       {http.MethodPost, "/control/dns_config"},
	"filtering_config": {http.MethodPost, "/control/filtering/config"},
	"set_rules":        {http.MethodPost, "/control/filtering/set_rules"},
	"add_url":          {http.MethodPost, "/control/filtering/add_url"},
	"set_url":          {http.MethodPost, "/control/filtering/set_url"},
	"safesearch":       {http.MethodPut, "/control/safesearch/settings"},
	"rewrite_add":      {http.MethodPost, "/control/rewrite/add"},
	"services":         {http.MethodPut, "/control/blocked_services/update"},
	"access":           {http.MethodPost, "/control/access/set"},
	"clients_add":      {http.MethodPost, "/control/clients/add"},
	"querylog":         {http.MethodPut, "/control/querylog/config/update"},
	"stats":            {http.MethodPut, "/control/stats/config/update"},
	"language":         {http.MethodPost, "/control/i18n/change_language"},
	"profile":          {http.MethodPut, "/control/profile/update"},
}

// request turns a label into the HTTP request that asks for it.
func (a *zzG10Arena) request(l zzG10Lab) (method, path string, body []byte, ok bool) {
	post := http.MethodPost
	rw := func(id string) zzG10M {
		r := zzG10Rewrites[id]

		return zzG10M{"domain": r[0], "answer": r[1]}
	}

	switch l.Op {
	case "set":
		if zzG10DNSComps[l.C] {
			return post, "/control/dns_config", zzG10JSON(a.dnsField(l.C, l.V)), true
		}

		switch l.C {
		case "fcfg":
			p := strings.SplitN(l.V, "-", 2)

			return post, "/control/filtering/config", zzG10JSON(zzG10M{"enabled": p[0] == "on", "interval": zzG10Atoi(p[1])}), true
		case "rules":
			return post, "/control/filtering/set_rules", zzG10JSON(zzG10M{"rules": zzG10Rules[l.V]}), true
		case "sb":
			return post, "/control/safebrowsing/" + map[string]string{"on": "enable", "off": "disable"}[l.V], nil, true
		case "par":
			return post, "/control/parental/" + map[string]string{"on": "enable", "off": "disable"}[l.V], nil, true
		case "ss":
			return http.MethodPut, "/control/safesearch/settings", zzG10JSON(zzG10SafeSearch(l.V)), true
		case "svc":
			m := zzG10M{"ids": zzG10Services[l.V], "schedule": zzG10M{"time_zone": "UTC"}}
			switch l.V {
			case "s1p":
				m["schedule"] = zzG10FullWeek()
			case "badsched":
				m["ids"] = []string{"500px"}
				m["schedule"] = zzG10M{"time_zone": "UTC", "mon": zzG10M{"start": 7200000, "end": 3600000}}
			}

			return http.MethodPut, "/control/blocked_services/update", zzG10JSON(m), true
		case "acc":
			return post, "/control/access/set", zzG10JSON(a.accessBody(l.V)), true
		case "qlog":
			return http.MethodPut, "/control/querylog/config/update", zzG10JSON(a.logConfBody("qlog", l.V)), true
		case "stats":
			return http.MethodPut, "/control/stats/config/update", zzG10JSON(a.logConfBody("stats", l.V)), true
		case "lang":
			return post, "/control/i18n/change_language", zzG10JSON(zzG10M{"language": l.V}), true
		}
	case "malformed":
		e, found := zzG10Malformed[l.C]

		return e[0], e[1], []byte(`{"enabled": tru`), found
	case "ls_add":
		return post, "/control/filtering/add_url", zzG10JSON(zzG10M{"name": l.V, "url": a.listPath(l.V[1:]), "whitelist": false}), true
	case "ls_rm":
		return post, "/control/filtering/remove_url", zzG10JSON(zzG10M{"url": a.listPath(l.V[1:]), "whitelist": false}), true
	case "ls_set":
		u := a.listPath(l.V[1:])

		return post, "/control/filtering/set_url", zzG10JSON(zzG10M{"url": u, "whitelist": false,
			"data": zzG10M{"name": l.V, "url": u, "enabled": l.W == "on"}}), true
	case "rw_add":
		return post, "/control/rewrite/add", zzG10JSON(rw(l.V)), true
	case "rw_del":
		return post, "/control/rewrite/delete", zzG10JSON(rw(l.V)), true
	case "rw_upd":
		return http.MethodPut, "/control/rewrite/update", zzG10JSON(zzG10M{"target": rw(l.V), "update": rw(l.W)}), true
	case "cl_add":
		return post, "/control/clients/add", zzG10JSON(zzG10ClientBody(l.V, l.W, zzG10ClientAddr[l.V])), true
	case "cl_upd":
		return post, "/control/clients/update", zzG10JSON(zzG10M{"name": "g10" + l.V,
			"data": zzG10ClientBody(l.V, l.W, zzG10ClientAddr[l.V])}), true
	case "cl_del":
		return post, "/control/clients/delete", zzG10JSON(zzG10M{"name": "g10" + l.V}), true
	case "cl_add_clash":
		return post, "/control/clients/add", zzG10JSON(zzG10ClientBody("c2", "b", zzG10ClientAddr["c1"])), true
	case "ss_enable":
		return post, "/control/safesearch/enable", nil, true
	case "ss_disable":
		return post, "/control/safesearch/disable", nil, true
	case "svc_legacy":
		return post, "/control/blocked_services/set", zzG10JSON(zzG10Services[l.V]), true
	case "profile":
		return http.MethodPut, "/control/profile/update", zzG10JSON(zzG10M{"name": "", "language": l.V, "theme": l.W}), true
	}

	return "", "", nil, false
}
