---------------------------- MODULE ClientsRefA ----------------------------
(***************************************************************************)
(* G12 correspondence, direction  Clients!Spec => ClientsInd!Spec  (the    *)
(* one the lifting needs: every behaviour of the module TLC checks is a    *)
(* behaviour of the module whose invariant is proved inductive).           *)
(*                                                                         *)
(* Root module = the ORIGINAL Clients.tla with one of its own universes    *)
(* (printing switched off); ClientsInd is instantiated with the sets that  *)
(* universe denotes, the variables are mapped identically.  TLC checks     *)
(*   IndSpec          every step of Clients is a step of ClientsInd        *)
(*   IndIndInv        the inductive invariant holds in every reachable     *)
(*                    state of the original (it is not too strong)         *)
(*   SameUniqueOwner  ClientsInd's Cardinality-free UniqueOwner agrees     *)
(*                    with Clients!UniqueOwner, IndInv implies it          *)
(*   IndSafety        ClientsInd!Safety in every reachable state           *)
(***************************************************************************)
EXTENDS Clients

Quiet(u) == [u EXCEPT !.emit = FALSE]
QSet   == Quiet(USet)
QCov   == Quiet(UCov)
QKinds == Quiet(UKinds)
QNet   == Quiet(UNet)
QZone  == Quiet(UZone)
QMisc  == Quiet(UMisc)

\* Clients!LoadConfig reads every file of exactly two clients.
MCConfigs == UNION {UNION {
    {<<Mk(n1, i1, f1), Mk(n2, i2, f2)>> : f1 \in U.flags[n1], f2 \in U.flags[n2]}
    : i1 \in IdSets, i2 \in IdSets} : n1 \in Names, n2 \in Names}

Ind == INSTANCE ClientsInd WITH
         Names <- Names, Ident <- Ident, IdSets <- IdSets, Flags <- U.flags,
         LeaseAddrs <- LeaseAddrs, LeaseMacs <- U.leasemacs, Configs <- MCConfigs

ASSUME Ind!ConstOK /\ Ind!ConfigsAreSequences

IndSpec   == Ind!Spec
IndIndInv == Ind!IndInv
IndSafety == Ind!Safety
SameUniqueOwner == (UniqueOwner <=> Ind!UniqueOwner) /\ (Ind!IndInv => Ind!UniqueOwner)
IndRejected == [][Ind!RejectedLeavesUnchanged]_vars
=============================================================================
