SPECIFICATION Spec
