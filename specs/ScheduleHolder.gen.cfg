SPECIFICATION Spec
INVARIANTS InEffectIsLastAccepted RejectedChangesNothing InEffectWellFormed EmptyCoversNothing UniverseDecided
PROPERTY Independence
