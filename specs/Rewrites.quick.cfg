\* Generation + statement invariants: every table (multiset; the harness
\* replays all orderings) of at most two entries over the big universe, plus
\* the cycle and ladder families.
CONSTANTS U = "big" MaxLen = 2 EmitFrom = 1 Shard = 0 Perms = FALSE Families = 1 Mode = "gen"
INIT Init
NEXT Next
INVARIANTS Unmatched WellFormed CnameBeatsAddress ExactShadowsWildcardCname ExactShadowsWildcard MostSpecificWildcard SelfAndTypeExceptionsPassThrough AddressesComeFromTableForFinalName MatchedButNoValue
