--------------------------- MODULE QLogFileProps ---------------------------
(***************************************************************************)
(* C20, abstract level, model-checking wrapper.                            *)
(*                                                                         *)
(*  * enumerates the finite universe (every log of at most MaxLines lines, *)
(*    every assignment of length classes, one file / reader over one file  *)
(*    / reader over two files split at every place incl. empty parts; plus *)
(*    the record-layout dimension, LayoutConfigs);                         *)
(*  * adds the history variable `hist` (what kind of seek was made last    *)
(*    and which lines were returned since) and states the sentences of the *)
(*    property over it, for ALL histories of SeekStart / ReadNext /        *)
(*    SeekTS(t) over that universe;                                        *)
(*  * emits, once per log, the labelled edge relation                      *)
(*        [src, act, arg, res, line, dst]                                  *)
(*    of the abstract reader (direction A: the Go harness puts the real    *)
(*    qLogFile / qLogReader into every src state, performs act(arg) and    *)
(*    the orchestrator looks the observed edge up in this relation).       *)
(*                                                                         *)
(* Line g of a log carries ts = 2g: even targets are stored timestamps,    *)
(* odd ones fall before the first / between neighbours / after the last    *)
(* line.  The harness maps them to real, irregularly spaced timestamps.    *)
(***************************************************************************)
EXTENDS QLogFile, Json

CONSTANTS MaxLines, LenClasses,
          LayoutSet     \* the layouts enumerated: all of Layouts for the emission, two for the
                        \* exhaustive run over all histories (no action reads `lay`)

VARIABLES hist, st
pvars == <<files, level, cur, out, hist, st>>

\* ------------------------------------------------------------ the universe
LinesOf(cs, from) == [i \in 1..Len(cs) |-> [ts |-> 2 * (from + i), len |-> cs[i], lay |-> AnyLayout]]

LenSeqs == UNION {[1..n -> LenClasses] : n \in 0..MaxLines}

\* All ways of storing the lines with classes cs: as one qLogFile, as a
\* reader over one file, as a reader over two files split after c lines.
Configs ==
    {[level |-> "file", files |-> <<LinesOf(cs, 0)>>] : cs \in LenSeqs}
    \cup {[level |-> "reader", files |-> <<LinesOf(cs, 0)>>] : cs \in LenSeqs}
    \cup UNION {{[level |-> "reader",
                  files |-> <<LinesOf(SubSeq(cs, 1, c), 0), LinesOf(SubSeq(cs, c + 1, Len(cs)), c)>>]
                 : c \in 0..Len(cs)} : cs \in LenSeqs}

\* The layout dimension: logs of three shortest-possible lines in which the
\* middle line, or every line, has layout y, for EVERY y in Layouts, as one
\* file and as rotated + current file -- a seek to the timestamp of every
\* stored entry must land on it whatever its serialisation (and the entries
\* around it must stay reachable).
LayLines(ys, from) == [i \in 1..Len(ys) |-> [ts |-> 2 * (from + i), len |-> "t", lay |-> ys[i]]]
LayoutConfigs ==
    UNION {{[level |-> "file",   files |-> <<LayLines(ys, 0)>>],
            [level |-> "reader", files |-> <<LayLines(<<ys[1]>>, 0), LayLines(<<ys[2], ys[3]>>, 1)>>],
            [level |-> "reader", files |-> <<LayLines(<<ys[1], ys[2]>>, 0), LayLines(<<ys[3]>>, 2)>>]}
           : ys \in {<<DefaultLayout, y, DefaultLayout>> : y \in LayoutSet} \cup {<<y, y, y>> : y \in LayoutSet}}

McLayouts == {DefaultLayout, [order |-> "long1100", addr |-> "v6z", tsf |-> "nsoff"]}

\* ------------------------------------------------------- emitted relation
\* Everything below is computed from the spec's own operators on a given log.
EdgesOf(fs, lvl) ==
    LET a == Flat(fs)
        n == Len(a)
        tg == 1..(2 * n + 1)
        srcs == (-1)..n
        starts == {[src |-> s, act |-> "start", arg |-> 0, res |-> "ok", line |-> 0, dst |-> n] : s \in srcs}
        reads  == {[src |-> s, act |-> "read", arg |-> 0,
                    res |-> IF s = 0 THEN "eof" ELSE "ok", line |-> s,
                    dst |-> IF s = 0 THEN 0 ELSE s - 1] : s \in 0..n}
        seeks  == UNION {{[src |-> s, act |-> "seek", arg |-> t, res |-> o.res, line |-> 0,
                           dst |-> IF o.cur = -2 THEN s ELSE o.cur]      \* -2: an error leaves the cursor
                          : o \in SeekOutcomes(fs, lvl, t)} : s \in srcs, t \in tg}
    IN starts \cup reads \cup seeks

Emit(c) == PrintT(<<"@@V", ToJson([level |-> c.level, files |-> c.files,
                                    n |-> Len(Flat(c.files)), edges |-> EdgesOf(c.files, c.level)])>>)

\* --------------------------------------------------------------- behaviour
NoHist == [kind |-> "none", t |-> 0, reads |-> <<>>]

Init == /\ st = "pick" /\ files = <<>> /\ level = "none" /\ InitReader /\ hist = NoHist

Pick == /\ st = "pick"
        /\ \E c \in Configs \cup LayoutConfigs : /\ files' = c.files /\ level' = c.level
                              /\ Emit(c)
        /\ st' = "run"
        /\ UNCHANGED <<cur, out, hist>>

\* The history variable: reset by every seek that SUCCEEDS, extended by every
\* read.  A seek that reports an error leaves it alone, so the sentences
\* below speak about read sequences with failed seeks interleaved anywhere:
\* that is "without mis-positioning subsequent reads".
HistNext ==
    hist' = CASE out'.op = "start" -> [kind |-> "start", t |-> 0, reads |-> <<>>]
              [] out'.op = "seek" /\ out'.res = "ok" /\ IsPresent(All, out'.arg)
                                  -> [kind |-> "found", t |-> out'.arg, reads |-> <<>>]
              [] out'.op = "seek" /\ out'.res = "ok"
                                  -> [kind |-> "fallback", t |-> out'.arg, reads |-> <<>>]
              [] out'.op = "read" /\ out'.res = "ok"
                                  -> [hist EXCEPT !.reads = Append(@, out'.line)]
              [] OTHER            -> hist

Run == st = "run" /\ Next /\ HistNext /\ UNCHANGED <<st, files, level>>

PNext == Pick \/ Run
Spec == Init /\ [][PNext]_pvars
\* Emission of the edge relations only (QLogFileProps.gen*.cfg).
GenSpec == Init /\ [][Pick]_pvars

\* --------------------------------------------- the sentences of the property
Running == st = "run"
R == hist.reads
\* eof has been reported (cur = 0 after at least one positioning).
AtEOF == cur = 0 /\ hist.kind # "none"

\* Whatever seek came last, reads since then are a contiguous descending run
\* (no line twice, none skipped, reverse order) ...
Contiguous == Running => \A j \in 1..Len(R) - 1 : R[j + 1] = R[j] - 1
\* ... that has reached the oldest line when eof is reported.
RunsToOldest == Running /\ AtEOF /\ R # <<>> => R[Len(R)] = 1

\* "Reading a query-log file backwards returns every line exactly once, in
\* reverse order": after SeekStart the j-th read is line N-j+1, and eof comes
\* exactly after N reads.
ReadBackwardsComplete ==
    Running /\ hist.kind = "start" =>
        /\ \A j \in 1..Len(R) : R[j] = N - j + 1
        /\ (AtEOF => Len(R) = N)

\* "Seeking to the timestamp of a stored entry positions the reader on that
\* entry": the first read after it returns the entry with that timestamp.
SeekLandsOnEntry ==
    Running /\ hist.kind = "found" /\ R # <<>> => All[R[1]].ts = hist.t

\* What callers rely on after any seek that returned without error (found or
\* the documented fallback): reading on to eof returns every line OLDER than
\* the target, each once, in order.
OkSeekKeepsOlder ==
    Running /\ hist.kind \in {"found", "fallback"} /\ AtEOF =>
        \A g \in 1..N : All[g].ts < hist.t => \E j \in 1..Len(R) : R[j] = g

\* "... without ever ... mis-positioning subsequent reads", as a property of
\* every step: a seek that reports an error does not move the cursor (action
\* property, checked on every transition).
FailedSeekKeepsPosition ==
    [][out'.op = "seek" /\ out'.res \in ErrClasses => cur' = cur]_pvars

\* "seeking to an absent timestamp reports not-found, too-early or too-late"
\* (or, reader level only, takes the documented fallback).
AbsentReports ==
    Running /\ out.op = "seek" /\ ~IsPresent(All, out.arg) =>
        \/ out.res \in ErrClasses
        \/ level = "reader" /\ out.res = "ok" /\ cur = N
\* A stored timestamp is never reported as an error.
PresentNeverError ==
    Running /\ out.op = "seek" /\ IsPresent(All, out.arg) => out.res = "ok"

\* File level: the error classes have their plain meaning.
FileClasses ==
    Running /\ level = "file" /\ N > 0 /\ out.op = "seek" /\ out.res # "ok" =>
        /\ (out.res = "tooEarly" <=> out.arg < All[1].ts)
        /\ (out.res = "tooLate"  <=> out.arg > All[N].ts)

TypeOK == Running => WellFormed /\ cur \in (-1)..N

\* Lemmas about the spec's own operators.
BelowAgrees == Running /\ cur = -1 /\ out.op = "none" => \A t \in 0..(2 * N + 2) : Below(All, t) = BelowDef(All, t)
AllClasses == {"tooEarly", "tooLate", "notFound"}
ComposesWith(E) == \A t \in Targets : ReaderByFallthrough(files, t, E) \subseteq ReaderSeekOutcomes(files, t)
FreshReader == Running /\ level = "reader" /\ cur = -1 /\ out.op = "none"   \* once per log
FallthroughAdmissible ==
    FreshReader /\ (\A i \in 1..Len(files) : files[i] # <<>>) => ComposesWith(AllClasses)
\* If a file without lines answers tooEarly, the composition is correct for
\* every log; if the CURRENT file is the empty one and the rotated one is
\* not, no other answer is.
EmptyAsTooEarlyComposes == FreshReader => ComposesWith({"tooEarly"})
OnlyTooEarlyForEmptyCurrent ==
    FreshReader /\ Len(files) = 2 /\ files[2] = <<>> /\ files[1] # <<>> =>
        ~ComposesWith({"tooLate"}) /\ ~ComposesWith({"notFound"})

\* hist is determined by the other variables only up to the read run; hiding
\* it would merge states that the invariants distinguish, so no VIEW here.
=============================================================================
