PROPERTY = "C18"
ENTRY = {
        "text": "placeholder",
        "design_ref": "DESIGN.md section 4 C18",
        "note": "placeholder",
        "technique": "TLA+ spec enumerated by TLC; verdict tables replayed into real code + TLC trace validation",
    }
