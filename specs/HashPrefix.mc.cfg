\* Exhaustive check of the statement's invariants / step properties.
SPECIFICATION Spec
CONSTANTS
  T = 2
  DbIds = {"com", "x.com", "w.y.com", "a.x.com", "F2", "io"}
  EmitOn = FALSE
  ImplOnly = FALSE
  ImplNegAgain = FALSE
VIEW GraphView
INVARIANTS TypeOK CacheTransparent RefAdmissible
PROPERTIES StepProps
