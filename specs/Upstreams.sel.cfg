SPECIFICATION Spec
CONSTANTS
  Up = {"u1", "u2", "u3", "u4"}
  UpLists <- SelUpT
  FbLists <- SelFbT
  BootVals <- OneBoot
  PtrLists <- OnePtr
  UseVals <- UseOff
  Shapes <- SelShapes
  Near <- NearSel
  Queries <- SelQueries
  Locs <- LocLocal
  FailSet <- Up
  SysVals <- SysNone
  TestReqs <- NoTests
INVARIANTS TypeOK StoredValid Decided
