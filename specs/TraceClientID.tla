--------------------------- MODULE TraceClientID ---------------------------
(***************************************************************************)
(* Direction B for C16: each line of the trace is one call of the real     *)
(* HandleBefore on a random input from a larger universe than the          *)
(* exhaustive one.  Label validity and lower-casing of the concrete label  *)
(* strings are logged by the harness's own classifier and bound to the     *)
(* spec's ValidLabels / Lower through the definitions below; everything    *)
(* else (Clean, FromPath, FromName, Extract) is ClientID.tla's own text.   *)
(***************************************************************************)
EXTENDS Sequences, Naturals, FiniteSets, TLC, Json, SequencesExt

Trace == ndJsonDeserialize("trace.ndjson")

AllLabs == UNION {ToSet(Trace[i].labels) : i \in DOMAIN Trace}
TValid  == {x.s : x \in {y \in AllLabs : y.valid}}
TLowerF == [s \in {x.s : x \in AllLabs} |-> (CHOOSE x \in AllLabs : x.s = s).lower]

VARIABLES l, bad

\* ClientID's vocabulary with the label-level operators bound to the trace.
CID == INSTANCE ClientIDCore WITH ValidLabels <- TValid, LowerMap <- TLowerF

Ok(i) == Trace[i].out \in CID!Extract(Trace[i].in)

Init == l = 1 /\ bad = {}
Next == /\ l <= Len(Trace)
        /\ bad' = IF Ok(l) THEN bad ELSE bad \cup {l}
        /\ l' = l + 1
        /\ (l' = Len(Trace) + 1 => PrintT(<<"@@V", ToJson([n |-> Len(Trace), bad |-> bad'])>>))
Spec == Init /\ [][Next]_<<l, bad>>
=============================================================================
