SPECIFICATION Spec
CONSTANTS
  U <- UCov
  W = 4
  SampleMod = 1
  SampleSeed = 0
VIEW view
INVARIANTS TypeOK UniqueOwner Precedence OwnSettingsOnlyWhenOptedOut ResolvesToOwnerOrNone LooseFollowsPrecedence
PROPERTY RejectedLeavesUnchanged
