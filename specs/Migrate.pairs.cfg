SPECIFICATION Spec
CONSTANTS
  Pairs = TRUE
INVARIANTS NoPanic SuccessStampsCurrent UnconcernedKeysPreserved PathIndependent Idempotent ValidUpgrades
