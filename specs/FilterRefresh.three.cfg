SPECIFICATION Spec
CONSTANTS BlockLists = {"b1", "b2"}
          AllowLists = {"a1"}
          AsIsC = FALSE
          CosmC = FALSE
          Configs <- ConfHTTP
          ForcedBeh <- BehTiny
          SchedBeh <- BehTiny
          FileBeh <- BehTiny
          SetURLBeh <- BehNone
          Toggle = FALSE
          SetURLAsIs = FALSE
INVARIANTS InvCoherent
