------------------------------- MODULE Install -------------------------------
(***************************************************************************)
(* G08 (A) -- the first-run installation wizard of the admin API.          *)
(*                                                                         *)
(*   GET  /control/install/get_addresses                                   *)
(*   POST /control/install/check_config                                    *)
(*   POST /control/install/configure                                       *)
(*                                                                         *)
(* Written from openapi/openapi.yaml (operations installGetAddresses,      *)
(* installCheckConfig, installConfigure and their response codes),         *)
(* AGHTechDoc.md ("First startup", "Installation wizard": "the first       *)
(* application startup is detected when there's no .yaml configuration     *)
(* file", "After Installation wizard steps are completed, we write         *)
(* configuration to a file and start normal operation", "Server checks the *)
(* parameters once again, restarts DNS server", "On error, server responds *)
(* with code 400 or 500.  In this case UI should show error message and    *)
(* reset to the beginning", "Server should check whether a port is         *)
(* available only in case it itself isn't already listening on that        *)
(* port"), openapi/CHANGELOG.md (422 for a weak password) and the comments *)
(* of control.go (preInstall: "lets the handler run only if firstRun is    *)
(* true"; postInstall: "otherwise, it redirects to /install.html").        *)
(*                                                                         *)
(* The whole system state is ONE record st; every API call / environment   *)
(* event is a LABEL, and Out(s, lab) is the SET of admissible outcomes     *)
(* [code, st] of that label in state s -- a set with several members       *)
(* wherever the documentation is silent:                                   *)
(*   - an empty user name may be refused (4xx, nothing changes) or taken;  *)
(*   - which of several violated checks determines the status code;        *)
(*   - what check_config says about a DNS port equal to the port the       *)
(*     wizard itself is served on.                                         *)
(* The requirement is written as invariants that quantify over the         *)
(* outgoing transitions of every reachable state (ReadOnly, FailedChanges- *)
(* Nothing, ClosedAfterInstall, OnlyConfigureInstalls, OnlyWipeReopens,    *)
(* RetryPossible, Consistent, CredentialsRequired).  TLC explores all      *)
(* histories over the request universe below; with DoEmit it prints, for   *)
(* every reachable state and every label, the admissible outcomes, which   *)
(* the harness walks on the real handlers (direction A).  TraceInstall     *)
(* reuses Out for recorded longer histories over a larger universe (B).    *)
(*                                                                         *)
(* Environment (fixed for the life of an arena): port "w0" is where the    *)
(* wizard is being served (held by the server itself), "pb" is taken by a  *)
(* foreign process on TCP and UDP, "pt" on TCP only; every other named     *)
(* port is free.  fault = the location of the configuration file is not    *)
(* writable (Break / Heal).                                                *)
(***************************************************************************)
EXTENDS Naturals, Sequences, FiniteSets, TLC, Json

CONSTANT DoEmit     \* TRUE in the vector-generating configuration

VARIABLE st
vars == <<st>>

\* ------------------------------------------------------------ vocabulary
Users    == {"", "u1", "u2"}
PwKinds  == {"good", "short", "empty"}      \* >= 8 runes / 1..7 runes / none
WebPorts == {"w0", "w1", "pb", "zero"}
DnsPorts == {"d1", "d2", "w0", "w1", "pb", "pt", "zero"}

BusyTCP == {"w0", "pb", "pt"}
BusyUDP == {"pb"}

NoFile == [exists |-> FALSE, users |-> {}, web |-> "none", dns |-> "none"]

\* A first run: nothing configured, the wizard served on w0, DNS settings at
\* their default, nothing started.
Init0 == [firstRun |-> TRUE, accounts |-> {}, file |-> NoFile,
          web |-> "w0", dns |-> "dflt", dnsUp |-> FALSE, fault |-> FALSE]

Malformed == [json |-> FALSE, user |-> "u1", pw |-> "good", web |-> "w0", dns |-> "d1"]
CfgReqs == [json : {TRUE}, user : Users, pw : PwKinds, web : WebPorts, dns : DnsPorts] \cup {Malformed}
ChkReqs == [json : {TRUE}, web : WebPorts, dns : DnsPorts] \cup {[json |-> FALSE, web |-> "w0", dns |-> "d1"]}

\* The request the documentation's happy path sends.
GoodReq == [json |-> TRUE, user |-> "u1", pw |-> "good", web |-> "w0", dns |-> "d1"]

\* ----------------------------------------------------- derived observables
\* What the probe route GET /control/status answers: before installation
\* everything but the wizard is redirected to it; afterwards the normal API
\* asks for the credentials of an existing account.
ProbeNone(s)  == IF s.firstRun THEN "install" ELSE IF s.accounts = {} THEN "ok" ELSE "denied"
ProbeAs(s, u) == IF s.firstRun THEN "install" ELSE IF s.accounts = {} \/ u \in s.accounts THEN "ok" ELSE "denied"
Wizard(s)     == IF s.firstRun THEN "open" ELSE "closed"

\* The projection the harness computes from the real system after every step.
\* webBindable: the web address in force can be bound by the web server (it is
\* its own current one, or free) -- TRUE in every state of the model.
Obs(s) == [firstRun |-> s.firstRun, accounts |-> s.accounts, file |-> s.file,
           web |-> s.web, dns |-> s.dns, dnsUp |-> s.dnsUp,
           probeNone |-> ProbeNone(s), probeU1 |-> ProbeAs(s, "u1"), probeU2 |-> ProbeAs(s, "u2"),
           wizard |-> Wizard(s), webBindable |-> TRUE]

\* ----------------------------------------------------------------- calls
\* configure: "Server checks the parameters once again".  The set of status
\* codes of the checks the request fails (openapi: 400 parse / cannot listen,
\* 422 password strength).
CfgViolations(s, r) ==
    IF ~r.json THEN {400}
    ELSE (IF r.web = "zero" \/ r.dns = "zero" THEN {400} ELSE {})
         \cup (IF r.pw # "good" THEN {422} ELSE {})
         \* the web port is looked at unless the server already listens on it
         \cup (IF r.web # s.web /\ r.web \in BusyTCP THEN {400} ELSE {})
         \cup (IF r.dns \in BusyTCP \cup BusyUDP THEN {400} ELSE {})
         \* one port cannot serve both (check_config: "duplicated values")
         \cup (IF r.web = r.dns /\ r.web # "zero" THEN {400} ELSE {})

Installed(s, r) ==
    [firstRun |-> FALSE, accounts |-> {r.user},
     file |-> [exists |-> TRUE, users |-> {r.user}, web |-> r.web, dns |-> r.dns],
     web |-> r.web, dns |-> r.dns, dnsUp |-> TRUE, fault |-> s.fault]

Configure(s, r) ==
    IF ~s.firstRun THEN {[code |-> 403, st |-> s]}
    ELSE LET v == CfgViolations(s, r) IN
         IF v # {} THEN {[code |-> c, st |-> s] : c \in v}
         ELSE (IF r.user = "" THEN {[code |-> c, st |-> s] : c \in {400, 422}} ELSE {})
              \cup (IF s.fault
                    THEN {[code |-> 500, st |-> s]}          \* "reset to the beginning"
                    ELSE {[code |-> 200, st |-> Installed(s, r)]})

\* check_config never changes anything; its verdicts (web / dns status empty
\* or not) are part of the reply.
CheckReplies(s, r) ==
    IF ~s.firstRun THEN {[code |-> 403, web |-> "na", dns |-> "na"]}
    ELSE IF ~r.json THEN {[code |-> 400, web |-> "na", dns |-> "na"]}
    ELSE LET webOK   == r.web = "zero" \/ r.web = s.web \/ r.web \notin BusyTCP
             dnsFree == r.dns \notin BusyTCP \cup BusyUDP
             dup     == r.web = r.dns /\ r.web # "zero"
             dnsOKs  == IF r.dns = "zero" THEN {TRUE}
                        ELSE IF r.dns = s.web THEN {TRUE, FALSE}   \* its own port: silent
                        ELSE IF dup THEN {FALSE}
                        ELSE {dnsFree}
         IN {[code |-> 200, web |-> IF webOK THEN "ok" ELSE "err", dns |-> IF d THEN "ok" ELSE "err"] : d \in dnsOKs}

\* A process restart: first run iff there is no configuration file.
Restarted(s) ==
    IF s.file.exists
    THEN [firstRun |-> FALSE, accounts |-> s.file.users, file |-> s.file,
          web |-> s.file.web, dns |-> s.file.dns, dnsUp |-> TRUE, fault |-> FALSE]
    ELSE Init0

\* ---------------------------------------------------------------- labels
Labels(s) ==
    {[act |-> "get_addresses"]}
    \cup {[act |-> "check_config", req |-> r] : r \in ChkReqs}
    \cup {[act |-> "configure", req |-> r] : r \in CfgReqs}
    \cup (IF ~s.fault THEN {[act |-> "restart"]} ELSE {})
    \cup {[act |-> "wipe"]}                                   \* factory reset
    \cup (IF s.firstRun /\ ~s.file.exists /\ ~s.fault THEN {[act |-> "break"]} ELSE {})
    \cup (IF s.fault THEN {[act |-> "heal"]} ELSE {})

\* Admissible outcomes of a label: [code, st] (+ the reply of check_config).
Out(s, lab) ==
    CASE lab.act = "get_addresses" -> {[code |-> IF s.firstRun THEN 200 ELSE 403, st |-> s]}
      [] lab.act = "check_config"  -> {[code |-> c.code, st |-> s, web |-> c.web, dns |-> c.dns] : c \in CheckReplies(s, lab.req)}
      [] lab.act = "configure"     -> Configure(s, lab.req)
      [] lab.act = "restart"       -> {[code |-> 0, st |-> Restarted(s)]}
      [] lab.act = "wipe"          -> {[code |-> 0, st |-> Init0]}
      [] lab.act = "break"         -> {[code |-> 0, st |-> [s EXCEPT !.fault = TRUE]]}
      [] lab.act = "heal"          -> {[code |-> 0, st |-> [s EXCEPT !.fault = FALSE]]}

\* ------------------------------------------------------------- behaviour
Init == st = Init0

Vector(s, lab) ==
    [m |-> "install", src |-> Obs(s), fault |-> s.fault, act |-> lab.act,
     args |-> IF lab.act \in {"check_config", "configure"} THEN lab.req ELSE [none |-> TRUE],
     outs |-> {[code |-> o.code, dst |-> Obs(o.st), dfault |-> o.st.fault,
                web |-> IF lab.act = "check_config" THEN o.web ELSE "na",
                dns |-> IF lab.act = "check_config" THEN o.dns ELSE "na"] : o \in Out(s, lab)}]

EmitAll == /\ \A lab \in Labels(st) : PrintT(<<"@@V", ToJson(Vector(st, lab))>>)
           /\ (st = Init0 => PrintT(<<"@@V", ToJson([m |-> "init", src |-> Obs(Init0), fault |-> FALSE])>>))
           /\ UNCHANGED vars

Step == \E lab \in Labels(st) : \E o \in Out(st, lab) : st' = o.st

Next == (DoEmit /\ EmitAll) \/ Step

Spec == Init /\ [][Next]_vars

\* ------------------------------------------------------------ invariants
TypeOK == /\ st.firstRun \in BOOLEAN /\ st.dnsUp \in BOOLEAN /\ st.fault \in BOOLEAN
          /\ st.accounts \subseteq Users /\ st.file.users \subseteq Users

\* The state itself: first run <=> no configuration file; an installed system
\* has exactly the accounts of its file, serves DNS, and its two addresses can
\* both be bound.
Consistent ==
    /\ st.firstRun <=> ~st.file.exists
    /\ st.firstRun => st.accounts = {} /\ ~st.dnsUp
    /\ ~st.firstRun => /\ st.accounts = st.file.users /\ st.accounts # {}
                       /\ st.dnsUp /\ st.web = st.file.web /\ st.dns = st.file.dns
                       /\ st.file.web # st.file.dns
    /\ st.fault => st.firstRun

\* "after success ... the normal API requires the new credentials"
CredentialsRequired ==
    ~st.firstRun => /\ ProbeNone(st) = "denied"
                    /\ \A u \in Users \ {""} : (ProbeAs(st, u) = "ok") <=> (u \in st.accounts)
\* "before configuration only the install endpoints ... are served"
RedirectedBefore == st.firstRun => ProbeNone(st) = "install" /\ Wizard(st) = "open"

OverOuts(P(_, _)) == \A lab \in Labels(st) : \A o \in Out(st, lab) : P(lab, o)

\* get_addresses and check_config report; they change nothing.
ReadOnly == OverOuts(LAMBDA lab, o : lab.act \in {"get_addresses", "check_config"} => o.st = st)
\* "a failing configure leaves firstRun set and nothing written"
FailedChangesNothing == OverOuts(LAMBDA lab, o : lab.act = "configure" /\ o.code # 200 => o.st = st)
\* The only way out of a first run is a successful configure, which creates
\* the administrator, writes the file and starts the services.
OnlyConfigureInstalls ==
    OverOuts(LAMBDA lab, o : st.firstRun /\ ~o.st.firstRun =>
                /\ lab.act = "configure" /\ o.code = 200
                /\ o.st.accounts = {lab.req.user} /\ o.st.file.exists /\ o.st.dnsUp)
\* "after success the install endpoints are closed (403)"
ClosedAfterInstall ==
    OverOuts(LAMBDA lab, o : ~st.firstRun /\ lab.act \in {"get_addresses", "check_config", "configure"} =>
                o.code = 403 /\ o.st = st)
OnlyWipeReopens == OverOuts(LAMBDA lab, o : ~st.firstRun /\ o.st.firstRun => lab.act = "wipe")
\* "reset to the beginning": whatever was attempted before, a well-formed
\* request installs as soon as the disk takes the file.
RetryPossible == st.firstRun /\ ~st.fault => Configure(st, GoodReq) = {[code |-> 200, st |-> Installed(st, GoodReq)]}
\* A restart changes nothing that was written.
RestartKeeps == ~st.fault => Restarted(st).file = st.file /\ Restarted(Restarted(st)) = Restarted(st)
=============================================================================
