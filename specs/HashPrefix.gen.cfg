\* The complete graph over <<db, cache>> (unbounded histories), edges printed.
\* Thorough tier.
SPECIFICATION Spec
CONSTANTS
  T = 2
  DbIds = {"com", "x.com", "w.y.com", "a.x.com", "io"}
  EmitOn = TRUE
  ImplOnly = TRUE
  ImplNegAgain = FALSE
VIEW GraphView
INVARIANTS TypeOK CacheTransparent ImplAdmissible
