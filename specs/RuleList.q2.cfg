SPECIFICATION Spec
CONSTANTS MaxLines = 3
          Shapes <- ShapesCore
INVARIANTS NormalFormIsFixedPoint NormalIsClean RulesAreInputLines HTMLFirstFails BinaryFails Deterministic
