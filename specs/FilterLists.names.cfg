SPECIFICATION SpecNamed
CONSTANTS Urls = {"u1", "u2"}
          Names = {"n1", "n2"}
          Sides = {"b"}
          Served = {"cA", "blank", "fail"}
          UserSets = {{}}
          Switch = FALSE
          Bad = TRUE
          Aimless = TRUE
          MaxId = 2
          BlankPolicies = {FALSE, TRUE}
          Forget = FALSE
INVARIANTS InvUniqueIds
