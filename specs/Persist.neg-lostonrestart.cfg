\* Negative configuration: the seeded fault "lostonrestart" of Persist.tla must violate RestartRestores.
SPECIFICATION Spec
CONSTANTS
    Deep = FALSE
    Bug = "lostonrestart"
    DoEmit = FALSE
PROPERTIES RestartRestores
VIEW View
