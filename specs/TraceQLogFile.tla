--------------------------- MODULE TraceQLogFile ---------------------------
(***************************************************************************)
(* C20: validation of op logs recorded from the real qLogFile / qLogReader *)
(* on real-size files against the ABSTRACT reader QLogFile.tla.            *)
(*                                                                         *)
(* trace.ndjson (assembled by checks/c20.py from its own plan and the Go   *)
(* harness's log; abstract timestamps are the small integers of the plan): *)
(*   {k:"file",  level, files:[[{ts,len},..],..]}   a new case begins      *)
(*   {k:"start", res, cur}                          SeekStart              *)
(*   {k:"seek",  t, res, cur}                       seekTS(t)              *)
(*   {k:"reads", n, eof, runs:[[hi,lo],..], cur}    n ReadNext calls; the  *)
(*        indices of the returned lines, run-length encoded (a run hi..lo  *)
(*        is hi, hi-1, .., lo); eof = the n-th call reported io.EOF        *)
(* `cur` is the cursor projected from the real object after the call(s).   *)
(*                                                                         *)
(* Every call is one step of QLogFile's own action; SeekOutcomes decides   *)
(* whether a logged seek is admissible.  A record the spec does not admit  *)
(* is added to `bad` and the rest of that case is skipped (the real object *)
(* and the spec have diverged).  The state holds only the index `fl` of    *)
(* the current file record: the file contents stay in the constant Trace.  *)
(***************************************************************************)
EXTENDS Integers, Sequences, FiniteSets, TLC, Json

Trace == ndJsonDeserialize("trace.ndjson")

VARIABLES fl, cur, out, l, j, bad, skip
tvars == <<fl, cur, out, l, j, bad, skip>>

Q == INSTANCE QLogFile WITH files <- Trace[fl].files, level <- Trace[fl].level

R == Trace[l]

\* The i-th line index of a run-length encoded sequence (0 if there is none).
RECURSIVE LineAt(_, _)
LineAt(runs, i) ==
    IF runs = <<>> THEN 0
    ELSE LET hi == runs[1][1]
             lo == runs[1][2]
             sz == hi - lo + 1
         IN IF sz < 1 THEN 0
            ELSE IF i <= sz THEN hi - i + 1
            ELSE LineAt(Tail(runs), i - sz)
RECURSIVE RunsLen(_)
RunsLen(runs) == IF runs = <<>> THEN 0 ELSE (runs[1][1] - runs[1][2] + 1) + RunsLen(Tail(runs))

\* Common endings of a step that consumes record l.
Finish == (l' = Len(Trace) + 1) => PrintT(<<"@@V", ToJson([n |-> Len(Trace), bad |-> bad'])>>)
Accept == l' = l + 1 /\ j' = 0 /\ bad' = bad /\ skip' = FALSE /\ Finish
Reject == l' = l + 1 /\ j' = 0 /\ bad' = bad \cup {l} /\ skip' = TRUE /\ Finish
Verdict(ok) == IF ok THEN Accept ELSE Reject

Init == fl = 1 /\ cur = -1 /\ out = Q!NoReply /\ l = 1 /\ j = 0 /\ bad = {} /\ skip = FALSE

InRange == l <= Len(Trace)

TFile == /\ InRange /\ R.k = "file"
         /\ fl' = l /\ cur' = -1 /\ out' = Q!NoReply
         /\ Accept

TSkip == /\ InRange /\ skip /\ R.k # "file"
         /\ l' = l + 1
         /\ UNCHANGED <<fl, cur, out, j, bad, skip>>
         /\ Finish

TStart == /\ InRange /\ ~skip /\ R.k = "start"
          /\ Q!SeekStart
          /\ Verdict(out'.res = R.res /\ cur' = R.cur)
          /\ UNCHANGED fl

\* Is the logged outcome of a seek one the abstract reader admits?
SeekAdmitted ==
    \E o \in Q!SeekOutcomes(Trace[fl].files, Trace[fl].level, R.t) :
        /\ o.res = R.res
        /\ \/ o.cur = R.cur
           \/ o.cur = -2 /\ R.cur = cur         \* an error leaves the cursor where it was

TSeek == /\ InRange /\ ~skip /\ R.k = "seek"
         /\ IF SeekAdmitted
              THEN Q!SeekTS(R.t) /\ out'.res = R.res /\ cur' = R.cur /\ Accept
              ELSE Reject /\ UNCHANGED <<cur, out>>
         /\ UNCHANGED fl

\* One ReadNext call of a "reads" record (the j+1-st).
TRead == /\ InRange /\ ~skip /\ R.k = "reads" /\ j < R.n
         /\ Q!ReadNext
         /\ LET i == j + 1
                isEof == R.eof /\ i = R.n
                okCall == IF isEof THEN out'.res = "eof"
                          ELSE out'.res = "ok" /\ out'.line = LineAt(R.runs, i)
                okAll == okCall /\ (i = R.n => cur' = R.cur /\ RunsLen(R.runs) = (IF R.eof THEN R.n - 1 ELSE R.n))
            IN IF ~okAll THEN Reject
               ELSE IF i = R.n THEN Accept
               ELSE j' = i /\ UNCHANGED <<l, bad, skip>>
         /\ UNCHANGED fl

Next == TFile \/ TSkip \/ TStart \/ TSeek \/ TRead
Spec == Init /\ [][Next]_tvars
=============================================================================
