----------------------------- MODULE SafeSearch -----------------------------
(***************************************************************************)
(* G03 -- safe search enforcement.  Three explorations of one vocabulary   *)
(* (SafeSearchCore.tla, rule table generated from the repository):         *)
(*                                                                         *)
(*  TableSpec  the pure decision: every settings value of a family (master *)
(*             switch x {no service, all, each single one, all but each    *)
(*             one}) x every name of the generated universe SSNameSeq      *)
(*             (every covered host in exact / upper / mixed case, its      *)
(*             subdomains, parent, sibling, prefix / suffix look-alikes,   *)
(*             the safe host itself, unrelated names) x every query type   *)
(*             of TQtypes.  One vector per (settings, name) with the       *)
(*             admissible verdicts per type.                               *)
(*  RespSpec   whose settings count and what the DNS server answers:       *)
(*             global settings x persistent client (none / using the       *)
(*             global settings / own settings) x protection x requester x  *)
(*             name x type -> the admissible responses.                    *)
(*  Spec       the state machine: ALL histories of the admin operations    *)
(*             (PUT settings, the deprecated enable / disable, client add  *)
(*             / update / delete, restart from the persisted               *)
(*             configuration), clock ticks and queries over a small        *)
(*             universe (two services, three names).  The verdict of a     *)
(*             query is a function of the CURRENT settings only; what an   *)
(*             engine may still remember is bounded by gc / cc.            *)
(*                                                                         *)
(* TLC prints one "@@V" line per vector / per labelled edge; the Go        *)
(* harnesses replay them into the real code (checks/g03.py).               *)
(***************************************************************************)
EXTENDS SafeSearchCore, TLC, Json

CONSTANTS TTL,         \* life time of a remembered result, in ticks (seconds)
          WithClient,  \* is the persistent client part of the state machine
          MCQtypes     \* query types of the state machine universe

VARIABLES g,    \* global settings (what GET /control/safesearch/status returns)
          cl,   \* the persistent client "kid" (or NoClient)
          gc,   \* what the global engine may remember
          cc,   \* what the client's own engine may remember
          st    \* phase of the table explorations ("mc" in the state machine)

vars == <<g, cl, gc, cc, st>>

TQtypes == {"A", "AAAA", "HTTPS", "TXT", "CNAME", "MX", "ANY", "SVCB"}

Emit(rec) == PrintT(<<"@@V", ToJson(rec)>>)

-----------------------------------------------------------------------------
(* TableSpec *)

SvFamily == {{}, SSServices} \cup {{s} : s \in SSServices} \cup {SSServices \ {s} : s \in SSServices}
ConfFamily == [en : BOOLEAN, sv : SvFamily]

TInit == g = OffConf /\ cl = NoClient /\ gc = {} /\ cc = {} /\ st = "conf"

TPickConf == /\ st = "conf"
             /\ g' \in ConfFamily
             /\ st' = "name"
             /\ UNCHANGED <<cl, gc, cc>>

\* As the engine sees it: Decide alone when the master switch is on.  What
\* the master switch means for a query is RespSpec's and Spec's business; here
\* en = FALSE stands for "an engine built from disabled settings": nothing
\* is rewritten.
TPickName == /\ st = "name"
             /\ \E i \in DOMAIN SSNameSeq :
                  LET nm == SSNameSeq[i] IN
                  Emit([t |-> "d", c |-> g, q |-> nm.q, lc |-> nm.lc,
                        o |-> [qt \in TQtypes |-> IF g.en THEN Decide(g.sv, nm.lc, qt) ELSE {Pass}]])
             /\ st' = "done"
             /\ UNCHANGED <<g, cl, gc, cc>>

TableSpec == TInit /\ [][TPickConf \/ TPickName]_vars

-----------------------------------------------------------------------------
(* RespSpec *)

SvR   == {{}, SSServices, SSRespSvcs, SSServices \ SSRespSvcs}
ConfR == [en : BOOLEAN, sv : SvR]
ClientsR == {NoClient, [known |-> TRUE, own |-> FALSE, conf |-> [en |-> TRUE, sv |-> SSServices]]}
              \cup [known : {TRUE}, own : {TRUE}, conf : ConfR]

RPickConf == /\ st = "conf"
             /\ g' \in ConfR
             /\ cl' \in ClientsR
             /\ st' = "name"
             /\ UNCHANGED <<gc, cc>>

RPickName == /\ st = "name"
             /\ \E i \in DOMAIN SSRespNameSeq, prot \in BOOLEAN, who \in {"client", "other"} :
                  LET nm == SSRespNameSeq[i] IN
                  Emit([t |-> "r", g |-> g, cl |-> cl, prot |-> prot, who |-> who, q |-> nm.q, lc |-> nm.lc,
                        v |-> [qt \in TQtypes |-> Answer(g, cl, who, prot, nm.lc, qt)],
                        o |-> [qt \in TQtypes |->
                                 {Response(v, nm.lc) : v \in Answer(g, cl, who, prot, nm.lc, qt)}]])
             /\ st' = "done"
             /\ UNCHANGED <<g, cl, gc, cc>>

RespSpec == TInit /\ [][RPickConf \/ RPickName]_vars

-----------------------------------------------------------------------------
(* Spec: the state machine *)

MCConfs   == Confs(MCSvcs)
MCClients == [known : {TRUE}, own : BOOLEAN, conf : MCConfs]
Whos      == IF WithClient THEN {"client", "other"} ELSE {"other"}

SRec  == [g |-> g,  cl |-> cl,  gc |-> gc,  cc |-> cc]
SRecP == [g |-> g', cl |-> cl', gc |-> gc', cc |-> cc']
Edge(act, args, out) == Emit([t |-> "e", s |-> SRec, a |-> act, x |-> args, d |-> SRecP, o |-> out])

\* A freshly installed server: safe search off, no persistent client.
Init == g = OffConf /\ cl = NoClient /\ gc = {} /\ cc = {} /\ st = "mc"

\* PUT /control/safesearch/settings: the whole object is replaced; nothing
\* remembered under the previous settings survives.
Put(c) == /\ g' = c /\ gc' = {}
          /\ UNCHANGED <<cl, cc, st>>
          /\ Edge("put", [c |-> c], {"ok"})

\* POST /control/safesearch/enable | disable (deprecated, still served):
\* only the master switch changes.  The services stay, so what was
\* remembered is still right and may be kept.
Legacy(b) == /\ g' = [g EXCEPT !.en = b]
             /\ UNCHANGED <<cl, gc, cc, st>>
             /\ Edge(IF b THEN "enable" ELSE "disable", [c |-> g'], {"ok"})

\* The server is stopped and started from its configuration file: settings
\* and clients are persisted, memories are not.
Restart == /\ gc' = {} /\ cc' = {}
           /\ UNCHANGED <<g, cl, st>>
           /\ Edge("restart", [c |-> g], {"ok"})

\* POST /control/clients/add | update: the client's record is replaced (and
\* with it its own engine).
ClientSet(x) == /\ WithClient
                /\ cl' = x /\ cc' = {}
                /\ UNCHANGED <<g, gc, st>>
                /\ Edge("clset", [cl |-> x], {"ok"})

ClientDel == /\ WithClient /\ cl.known
             /\ cl' = NoClient /\ cc' = {}
             /\ UNCHANGED <<g, gc, st>>
             /\ Edge("cldel", [cl |-> NoClient], {"ok"})

Tick == /\ gc' = Age(gc, TTL) /\ cc' = Age(cc, TTL)
        /\ UNCHANGED <<g, cl, st>>
        /\ Edge("tick", [c |-> g], {"ok"})

\* One DNS question.  Its verdict is Answer of the CURRENT settings; a
\* non-pass verdict may be remembered by the engine that produced it.
Query(who, prot, nm, qt) ==
    LET out == Answer(g, cl, who, prot, nm.lc, qt)
        rem == Applies(g, cl, who, prot) /\ Hit(out)
    IN /\ gc' = IF rem /\ ~UsesOwn(cl, who) THEN Touch(gc, nm.lc, qt) ELSE gc
       /\ cc' = IF rem /\ UsesOwn(cl, who) THEN Touch(cc, nm.lc, qt) ELSE cc
       /\ UNCHANGED <<g, cl, st>>
       /\ Edge("query", [who |-> who, prot |-> prot, q |-> nm.q, lc |-> nm.lc, qt |-> qt], out)

Next == \/ \E c \in MCConfs : Put(c)
        \/ \E b \in BOOLEAN : Legacy(b)
        \/ Restart
        \/ \E x \in MCClients : ClientSet(x)
        \/ ClientDel
        \/ Tick
        \/ \E who \in Whos, prot \in BOOLEAN, i \in DOMAIN MCNameSeq, qt \in MCQtypes :
             Query(who, prot, MCNameSeq[i], qt)

Spec == Init /\ [][Next]_vars

-----------------------------------------------------------------------------
(* The statement, clause by clause, as invariants of the state machine     *)
(* (quantified over every question of the universe in every reachable      *)
(* state) -- written against the rule table directly, not through Decide.  *)

Questions == {[who |-> w, prot |-> p, nm |-> MCNameSeq[i], qt |-> t] :
                w \in Whos, p \in BOOLEAN, i \in DOMAIN MCNameSeq, t \in MCQtypes}
Ans(x) == Answer(g, cl, x.who, x.prot, x.nm.lc, x.qt)
Eff(x) == Effective(g, cl, x.who)

TypeOK == /\ g \in MCConfs
          /\ cl \in MCClients \cup {NoClient}
          /\ \A e \in gc \cup cc : e.age \in 0..(TTL - 1)

\* A rewritten answer only for a listed host of an enabled service, with
\* safe search applying, for an address-like type, and with that line's target.
OnlyListedEnabled ==
    \A x \in Questions : \A v \in Ans(x) :
        v.k # "pass" =>
            /\ x.prot /\ Eff(x).en /\ x.qt \in {"A", "AAAA", "HTTPS"}
            /\ \E r \in SSRules :
                 /\ r.host = x.nm.lc /\ r.svc \in Eff(x).sv
                 /\ (v.k = "cname" => r.rr = "CNAME" /\ v.v = r.val)
                 /\ (v.k = "ip" => r.rr = x.qt /\ v.v = r.val)
                 /\ (v.k = "nodata" => r.rr # "CNAME" /\ r.rr # x.qt)

\* ... and always for such a question: never the unrestricted answer.
ListedEnabledAlways ==
    \A x \in Questions :
        (x.prot /\ Eff(x).en /\ x.qt \in {"A", "AAAA", "HTTPS"}
           /\ \E r \in SSRules : r.host = x.nm.lc /\ r.svc \in Eff(x).sv)
        => Pass \notin Ans(x)

\* The client's own settings exactly when it opts out of the global ones.
ClientPrecedence ==
    \A x \in Questions :
        Ans(x) = IF x.who = "client" /\ cl.known /\ cl.own
                 THEN Answer(cl.conf, NoClient, "other", x.prot, x.nm.lc, x.qt)
                 ELSE Answer(g, NoClient, "other", x.prot, x.nm.lc, x.qt)

\* Nothing remembered is older than TTL or contradicts the settings of the
\* engine that remembers it.
MemoryCurrent ==
    /\ \A e \in gc : Hit(Decide(g.sv, e.n, e.q))
    /\ \A e \in cc : cl.known /\ cl.own /\ cl.conf.en /\ Hit(Decide(cl.conf.sv, e.n, e.q))
=============================================================================
