\* Termination on the long-chain family: chains of up to 33 links into cycles
\* of length 1..3 and 33, and lead-ins of 0, 1, 2, 9 names into cycles of 7..33
\* names; liveness under weak fairness plus the variant.
CONSTANTS U = "chain" MaxLen = 0 EmitFrom = 1 Shard = 0 Perms = FALSE Families = 3 Mode = "live"
SPECIFICATION Spec
PROPERTIES Terminates VariantGrows
INVARIANTS VariantBounded MachineAgrees
