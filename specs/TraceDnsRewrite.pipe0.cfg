SPECIFICATION Spec
