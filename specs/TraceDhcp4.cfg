SPECIFICATION Spec
