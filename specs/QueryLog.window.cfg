SPECIFICATION Spec
VIEW View
CONSTANTS
  MaxRec = 4
  MemSizes = {2}
  FileModes = {TRUE}
  Palettes = {0}
  Kinds = {}
  RestartResizes = FALSE
  IgnoreModes = {FALSE}
  AnonModes = {FALSE}
  MaxFlight = 0
  Faults = TRUE
  AllowWindow = TRUE
  EmitEdges = FALSE
INVARIANTS NothingLostEvenInWindow
