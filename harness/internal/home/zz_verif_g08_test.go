package home

// G08 conformance harness (overlaid at build time, never part of /repo).
//
// Two admin state machines of package home are driven through the real mux
// (withMiddlewares(globalContext.mux, limitRequestBody), the handler web.start
// gives to http.Server) of a server that is booted on package home's globals
// the way run() boots it:
//
//   - arena I (Install.tla): a first run in an empty working directory, taken
//     through GET /control/install/get_addresses, POST .../check_config and
//     POST .../configure (the REAL handleInstallConfigure: addUser, startMods,
//     config.write, registerControlHandlers), with process restarts (teardown
//     as cleanup() does, then the boot sequence again over the same directory)
//     and a factory reset.
//
//   - arena T (TLSSettings.tla): a configured installation (an AdGuardHome.yaml
//     with one administrator is on disk before the first boot), driven through
//     GET /control/tls/status, POST /control/tls/validate and
//     POST /control/tls/configure with restarts.
//
// No web listener is started: web.start is never called, so
// web.tlsConfigChanged only records (enabled, certificate) in web.httpsServer,
// which the harness reads as "what the HTTPS server would serve", as home's own
// tls_internal_test.go does.  The plain DNS server is really started (on a
// picked loopback port) because handleInstallConfigure / handleTLSConfigure
// start it themselves.
//
// After EVERY step the harness projects: firstRun, the accounts in memory,
// the content of the configuration file (users, http/dns addresses, tls
// section), whether DNS runs, what the probe route /control/status answers
// without and with credentials, and -- arena T -- GET /control/tls/status.
// The specification decides (the walker only compares the projection with the
// destinations TLC emitted; direction B traces are decided by TLC itself).

import (
	"bufio"
	"bytes"
	"context"
	"crypto/ecdsa"
	"crypto/elliptic"
	crand "crypto/rand"
	"crypto/tls"
	"crypto/x509"
	"crypto/x509/pkix"
	"encoding/base64"
	"encoding/json"
	"encoding/pem"
	"fmt"
	"io"
	"math/big"
	"math/rand"
	"net"
	"net/http"
	"net/http/httptest"
	"net/netip"
	"os"
	"path/filepath"
	"sort"
	"strings"
	"testing"
	"testing/fstest"
	"time"

	"github.com/AdguardTeam/AdGuardHome/internal/filtering"
	"github.com/AdguardTeam/golibs/log"
	"github.com/AdguardTeam/golibs/logutil/slogutil"
	"golang.org/x/crypto/bcrypt"
	yaml "gopkg.in/yaml.v3"
)

// ------------------------------------------------------------------- world

// zzG08World is the environment of one arena: a working directory, the picked
// ports and the foreign listeners that keep some of them busy.
type zzG08World struct {
	t        testing.TB
	root     string // scratch root, removed at the end
	dir      string // working directory of the current deployment
	confDir  string // directory of the configuration file (given like -c)
	defaults []byte // YAML of the pristine package-level configuration
	ports    map[string]uint16
	closers  []io.Closer
	handler  http.Handler
	up       bool
	bootErr  string
	certs    map[string]*zzG08Cert
	keyOf    map[string]string // PEM of a private key -> id
	certDir  string
	boots    int
	// hung is set when a request was not answered in time: the goroutine that
	// serves it is still inside the handlers (possibly holding their locks),
	// so nothing more can be learnt from this process.
	hung bool
}

const (
	zzG08Host   = "127.0.0.1"
	zzG08Pass1  = "first password 1"
	zzG08Pass2  = "second password 2"
	zzG08TUser  = "admin"
	zzG08TPass  = "tls arena password"
	zzG08Name   = "agh.test"
	zzG08Other  = "other.test"
	zzG08NoSuch = "nosuch.pem"
)

func zzG08Scratch(t testing.TB) (dir string) {
	base := ""
	if st, err := os.Stat("/dev/shm"); err == nil && st.IsDir() {
		base = "/dev/shm"
	}

	dir, err := os.MkdirTemp(base, "zzg08-")
	if err != nil {
		t.Fatalf("tempdir: %v", err)
	}

	t.Cleanup(func() { _ = os.RemoveAll(dir) })

	return dir
}

// zzG08FreePort picks a loopback port that is free for TCP and UDP now.
func zzG08FreePort(t testing.TB, taken map[uint16]bool) (port uint16) {
	for i := 0; i < 200; i++ {
		c, err := net.ListenPacket("udp", zzG08Host+":0")
		if err != nil {
			t.Fatalf("picking port: %v", err)
		}

		p := uint16(c.LocalAddr().(*net.UDPAddr).Port)
		_ = c.Close()
		if taken[p] {
			continue
		}

		l, err := net.Listen("tcp", fmt.Sprintf("%s:%d", zzG08Host, p))
		if err != nil {
			continue
		}

		_ = l.Close()
		taken[p] = true

		return p
	}

	t.Fatal("no free port")

	return 0
}

// zzG08NewWorld picks the ports.  names are abstract port names; "w0" is held
// by a TCP listener standing for the running plain web server, "pb" is busy on
// TCP and UDP, "pt" on TCP only (all three for the whole life of the arena).
func zzG08NewWorld(t testing.TB, names []string) (w *zzG08World) {
	log.SetOutput(io.Discard)
	log.SetLevel(log.OFF)

	w = &zzG08World{t: t, root: zzG08Scratch(t), ports: map[string]uint16{}}
	var err error
	w.defaults, err = yaml.Marshal(config)
	if err != nil {
		t.Fatalf("marshalling defaults: %v", err)
	}

	taken := map[uint16]bool{}
	for _, n := range names {
		p := zzG08FreePort(t, taken)
		w.ports[n] = p
		addr := fmt.Sprintf("%s:%d", zzG08Host, p)
		if n == "w0" || n == "pb" || n == "pt" {
			l, lerr := net.Listen("tcp", addr)
			if lerr != nil {
				t.Fatalf("occupying %s: %v", addr, lerr)
			}

			w.closers = append(w.closers, l)
		}

		if n == "pb" {
			c, cerr := net.ListenPacket("udp", addr)
			if cerr != nil {
				t.Fatalf("occupying %s: %v", addr, cerr)
			}

			w.closers = append(w.closers, c)
		}
	}

	t.Cleanup(func() {
		if !w.hung {
			w.teardown()
		}

		for _, c := range w.closers {
			_ = c.Close()
		}
	})

	return w
}

// newDeployment gives the arena a new, empty working directory.
func (w *zzG08World) newDeployment() {
	w.teardown()
	w.boots++
	w.dir = filepath.Join(w.root, fmt.Sprintf("work%d", w.boots))
	w.confDir = filepath.Join(w.dir, "conf")
	if err := os.MkdirAll(w.confDir, 0o755); err != nil {
		w.t.Fatalf("mkdir: %v", err)
	}
}

func (w *zzG08World) confPath() (p string) { return filepath.Join(w.confDir, "AdGuardHome.yaml") }

// breakDisk makes the location of the configuration file unwritable (the
// directory is replaced by a regular file); healDisk undoes it.
func (w *zzG08World) breakDisk() {
	if err := os.Rename(w.confDir, w.confDir+".real"); err != nil {
		w.t.Fatalf("breakDisk: %v", err)
	}

	if err := os.WriteFile(w.confDir, []byte("not a directory"), 0o644); err != nil {
		w.t.Fatalf("breakDisk: %v", err)
	}
}

func (w *zzG08World) healDisk() {
	if _, err := os.Stat(w.confDir + ".real"); err != nil {
		return
	}

	_ = os.Remove(w.confDir)
	if err := os.Rename(w.confDir+".real", w.confDir); err != nil {
		w.t.Fatalf("healDisk: %v", err)
	}
}

func zzG08ClientFS() (fsys fstest.MapFS) {
	return fstest.MapFS{
		"build/static/index.html":    {Data: []byte("<html>dashboard</html>")},
		"build/static/login.html":    {Data: []byte("<html>login</html>")},
		"build/static/install.html":  {Data: []byte("<html>install</html>")},
		"build/static/assets/app.js": {Data: []byte("console.log(1)")},
	}
}

// guard runs f and reports whether it returned within the limit.  If it did
// not, the goroutine is abandoned and the process cannot be used any more.
func (w *zzG08World) guard(f func()) (ok bool) {
	if w.hung {
		return false
	}

	done := make(chan struct{})
	go func() {
		defer close(done)

		f()
	}()

	select {
	case <-done:
		return true
	case <-time.After(time.Duration(zzG08EnvInt("VERIF_G08_BOOT_S", 90)) * time.Second):
		w.hung = true

		return false
	}
}

// boot runs the part of run() between initWorkingDir and web.start on the
// working directory of the arena.  Where run() ends the process
// (fatalOnError) boot returns the error.
func (w *zzG08World) boot() (err error) {
	if !w.guard(func() { err = w.bootInner() }) {
		w.up = false
		w.bootErr = "the boot sequence did not return within the time limit"

		return fmt.Errorf("%s", w.bootErr)
	}

	return err
}

func (w *zzG08World) bootInner() (err error) {
	defer func() {
		if r := recover(); r != nil {
			err = fmt.Errorf("boot panics: %v", r)
		}

		w.up = err == nil
		w.bootErr = ""
		if err != nil {
			w.bootErr = err.Error()
		}
	}()

	ctx := context.Background()
	l := slogutil.NewDiscardLogger()

	// A new process starts from the package-level defaults.
	config = &configuration{}
	if err = yaml.Unmarshal(w.defaults, config); err != nil {
		return fmt.Errorf("restoring defaults: %w", err)
	}

	config.fileData = nil

	// Keep the server off the network and off the host's files: these
	// settings are not the subject of G08.
	up := fmt.Sprintf("%s:%d", zzG08Host, w.ports["up"])
	config.DNS.UpstreamDNS = []string{up}
	config.DNS.BootstrapDNS = []string{up}
	config.DNS.FallbackDNS = nil
	config.DNS.UsePrivateRDNS = false
	config.DNS.HostsFileEnabled = false
	config.Clients.Sources = &clientSourcesConfig{}
	config.Filters = nil
	config.Filtering.FiltersUpdateIntervalHours = 0

	opts := options{
		workDir:       w.dir,
		confFilename:  w.confPath(),
		bindAddr:      netip.AddrPortFrom(netip.MustParseAddr(zzG08Host), w.ports["w0"]),
		noEtcHosts:    true,
		disableUpdate: true,
		noPermCheck:   true,
	}

	globalContext = homeContext{}
	webHandlersRegistered = false
	GLMode = false
	globalContext.workDir = w.dir
	initConfigFilename(opts)

	// setupContext, without the privileged-port check of a first run.
	globalContext.firstRun = detectFirstRun()
	globalContext.mux = http.NewServeMux()
	if !globalContext.firstRun {
		if err = parseConfig(); err != nil {
			return fmt.Errorf("parsing configuration file: %w", err)
		}
	}

	filtering.InitModule()
	sigHdlr := newSignalHandler(make(chan os.Signal, 1), func(ctx context.Context) {})
	if err = initContextClients(ctx, l, sigHdlr); err != nil {
		return fmt.Errorf("initContextClients: %w", err)
	}

	tlsMgr, terr := newTLSManager(ctx, &tlsManagerConfig{
		logger:         l,
		configModified: onConfigModified,
		tlsSettings:    config.TLS,
		servePlainDNS:  config.DNS.ServePlainDNS,
	})
	if terr != nil {
		onConfigModified()
	}

	globalContext.tls = tlsMgr
	if err = setupDNSFilteringConf(ctx, l, config.Filtering, tlsMgr); err != nil {
		return fmt.Errorf("setupDNSFilteringConf: %w", err)
	}

	if globalContext.firstRun {
		// The wizard of a first run is served where the command line says;
		// a configured installation binds what its file says.
		if err = setupOpts(opts); err != nil {
			return fmt.Errorf("setupOpts: %w", err)
		}
	}

	upd, customURL := newUpdater(ctx, l, globalContext.workDir, configFilePath(), os.Args[0], config)
	if !globalContext.firstRun {
		if err = config.write(nil); err != nil {
			return fmt.Errorf("writing configuration at start: %w", err)
		}
	}

	if err = os.MkdirAll(globalContext.getDataDir(), 0o755); err != nil {
		return fmt.Errorf("creating data dir: %w", err)
	}

	globalContext.auth, err = initUsers()
	if err != nil {
		return fmt.Errorf("initUsers: %w", err)
	}

	web, err := initWeb(ctx, opts, zzG08ClientFS(), upd, l, tlsMgr, customURL)
	if err != nil {
		return fmt.Errorf("initWeb: %w", err)
	}

	globalContext.web = web
	tlsMgr.setWebAPI(web)

	statsDir, querylogDir, err := checkStatsAndQuerylogDirs(&globalContext, config)
	if err != nil {
		return fmt.Errorf("checkStatsAndQuerylogDirs: %w", err)
	}

	if !globalContext.firstRun {
		if err = initDNS(l, tlsMgr, statsDir, querylogDir); err != nil {
			return fmt.Errorf("initDNS: %w", err)
		}

		tlsMgr.start(ctx)
		if err = startDNSServer(); err != nil {
			closeDNSServer()

			return fmt.Errorf("startDNSServer: %w", err)
		}

		if globalContext.dhcpServer != nil {
			_ = globalContext.dhcpServer.Start()
		}
	}

	w.handler = withMiddlewares(globalContext.mux, limitRequestBody)

	return nil
}

// teardown is cleanup() of home.go.  Every stage runs even if an earlier one
// panics: a statistics database that stays open would block the next boot of
// this process for ever (a real process exit releases it).
func (w *zzG08World) teardown() {
	stage := func(f func()) {
		defer func() { _ = recover() }()

		f()
	}

	w.guard(func() {
		ctx := context.Background()
		stage(func() {
			if globalContext.web != nil {
				globalContext.web.close(ctx)
				globalContext.web = nil
			}
		})
		stage(func() {
			if globalContext.auth != nil {
				globalContext.auth.Close()
				globalContext.auth = nil
			}
		})
		stage(func() {
			if isRunning() {
				_ = stopDNSServer()
			}
		})
		// A DNS server that was prepared but does not run (or whose stop
		// failed half way) still holds its databases.
		stage(closeDNSServer)
		stage(func() {
			if globalContext.dhcpServer != nil {
				_ = globalContext.dhcpServer.Stop()
				globalContext.dhcpServer = nil
			}
		})
	})

	w.up = false
	w.handler = nil
}

// restart is a process restart over the same working directory.
func (w *zzG08World) restart() (err error) {
	w.teardown()

	return w.boot()
}

// ---------------------------------------------------------------- requests

type zzG08Resp struct {
	Status   int
	Location string
	Body     []byte
	Panic    string
}

// do serves one request through the real mux.  user == "" sends no
// credentials.
func (w *zzG08World) do(method, target string, body []byte, user, pass string) (resp zzG08Resp) {
	if w.handler == nil {
		return zzG08Resp{Status: -1, Panic: "server is not up: " + w.bootErr}
	}

	var rd io.Reader
	if body != nil {
		rd = bytes.NewReader(body)
	}

	r := httptest.NewRequest(method, target, rd)
	r.Host = fmt.Sprintf("%s:%d", zzG08Host, w.ports["w0"])
	if body != nil {
		r.Header.Set("Content-Type", "application/json")
	}

	if user != "" || pass != "" {
		r.SetBasicAuth(user, pass)
	}

	if w.hung {
		return zzG08Resp{Status: -5, Panic: "an earlier request was never answered"}
	}

	rec := httptest.NewRecorder()
	handler := w.handler
	done := make(chan string, 1)
	go func() {
		// net/http recovers a panicking handler and drops the connection.
		defer func() {
			if p := recover(); p != nil {
				done <- fmt.Sprint(p)

				return
			}

			done <- ""
		}()

		handler.ServeHTTP(rec, r)
	}()

	select {
	case resp.Panic = <-done:
	case <-time.After(time.Duration(zzG08EnvInt("VERIF_G08_HANG_S", 20)) * time.Second):
		w.hung = true

		return zzG08Resp{Status: -5, Panic: "the request was not answered within the time limit"}
	}

	resp.Status = rec.Code
	resp.Location = rec.Header().Get("Location")
	resp.Body = rec.Body.Bytes()
	if resp.Panic != "" {
		resp.Status = -2
	}

	return resp
}

// probeClass classifies the answer of the probe route GET /control/status.
func zzG08ProbeClass(r zzG08Resp) (cls string) {
	switch {
	case r.Status < 0:
		return "down"
	case r.Status == http.StatusFound && strings.HasSuffix(r.Location, "install.html"):
		return "install"
	case r.Status == http.StatusForbidden || r.Status == http.StatusUnauthorized ||
		(r.Status == http.StatusFound && strings.HasSuffix(r.Location, "login.html")):
		return "denied"
	case r.Status == http.StatusOK && bytes.Contains(r.Body, []byte(`"dns_port"`)):
		return "ok"
	case r.Status == http.StatusNotFound:
		return "notfound"
	default:
		return fmt.Sprintf("other%d", r.Status)
	}
}

// ------------------------------------------------------------ config file

type zzG08File struct {
	HTTP struct {
		Address string `yaml:"address"`
	} `yaml:"http"`
	Users []struct {
		Name     string `yaml:"name"`
		Password string `yaml:"password"`
	} `yaml:"users"`
	DNS struct {
		BindHosts     []string `yaml:"bind_hosts"`
		Port          uint16   `yaml:"port"`
		ServePlainDNS bool     `yaml:"serve_plain_dns"`
	} `yaml:"dns"`
	TLS struct {
		Enabled   bool   `yaml:"enabled"`
		Name      string `yaml:"server_name"`
		Force     bool   `yaml:"force_https"`
		HTTPS     uint16 `yaml:"port_https"`
		DoT       uint16 `yaml:"port_dns_over_tls"`
		DoQ       uint16 `yaml:"port_dns_over_quic"`
		Chain     string `yaml:"certificate_chain"`
		Key       string `yaml:"private_key"`
		ChainPath string `yaml:"certificate_path"`
		KeyPath   string `yaml:"private_key_path"`
	} `yaml:"tls"`
}

// readFile parses the configuration file; ok is false when there is none.
func (w *zzG08World) readFile() (f *zzG08File, ok bool, err error) {
	b, err := os.ReadFile(w.confPath())
	if err != nil {
		return nil, false, nil
	}

	f = &zzG08File{}
	if err = yaml.Unmarshal(b, f); err != nil {
		return nil, true, err
	}

	return f, true, nil
}

func (w *zzG08World) portName(p uint16) (n string) {
	if p == 0 {
		return "zero"
	}

	var names []string
	for k, v := range w.ports {
		if v == p {
			names = append(names, k)
		}
	}

	if len(names) == 0 {
		return fmt.Sprintf("?%d", p)
	}

	sort.Strings(names)

	return names[0]
}

// ------------------------------------------------------------ certificates

type zzG08Cert struct {
	id       string
	chainPEM []byte
	keyPEM   []byte
	chainB64 string
	keyB64   string
	certPath string
	keyPath  string
}

func zzG08Key(t testing.TB) (k *ecdsa.PrivateKey) {
	k, err := ecdsa.GenerateKey(elliptic.P256(), crand.Reader)
	if err != nil {
		t.Fatalf("ecdsa: %v", err)
	}

	return k
}

func zzG08PEM(typ string, der []byte) (b []byte) {
	return pem.EncodeToMemory(&pem.Block{Type: typ, Bytes: der})
}

// makeCerts generates the test PKI: a root CA (trusted through SSL_CERT_FILE),
// an intermediate CA, and the leaves
//
//	A  issued by the intermediate, valid now, names agh.test + 127.0.0.1
//	C  the same shape with another key (a second good chain)
//	B  self-signed (unknown authority), names agh.test + 127.0.0.1
//	X  issued by the intermediate, expired
//	Y  issued by the intermediate, not yet valid
//	N  issued by the intermediate, valid now, names other.test + 127.0.0.1
//
// The subject common name of a leaf is "zz-<id>".
func (w *zzG08World) makeCerts() {
	t := w.t
	w.certs = map[string]*zzG08Cert{}
	w.keyOf = map[string]string{}
	w.certDir = filepath.Join(w.root, "pki")
	if err := os.MkdirAll(filepath.Join(w.certDir, "empty"), 0o755); err != nil {
		t.Fatal(err)
	}

	now := time.Now()
	serial := int64(1000)
	mk := func(tmpl, parent *x509.Certificate, pub *ecdsa.PublicKey, signer *ecdsa.PrivateKey) (der []byte, c *x509.Certificate) {
		serial++
		tmpl.SerialNumber = big.NewInt(serial)
		der, err := x509.CreateCertificate(crand.Reader, tmpl, parent, pub, signer)
		if err != nil {
			t.Fatalf("creating certificate: %v", err)
		}

		c, err = x509.ParseCertificate(der)
		if err != nil {
			t.Fatalf("parsing certificate: %v", err)
		}

		return der, c
	}

	rootKey := zzG08Key(t)
	rootTmpl := &x509.Certificate{
		Subject:   pkix.Name{CommonName: "zz-root"},
		NotBefore: now.Add(-48 * time.Hour), NotAfter: now.Add(10 * 365 * 24 * time.Hour),
		IsCA: true, BasicConstraintsValid: true, KeyUsage: x509.KeyUsageCertSign | x509.KeyUsageDigitalSignature,
	}
	rootDER, root := mk(rootTmpl, rootTmpl, &rootKey.PublicKey, rootKey)

	intKey := zzG08Key(t)
	intTmpl := &x509.Certificate{
		Subject:   pkix.Name{CommonName: "zz-intermediate"},
		NotBefore: now.Add(-48 * time.Hour), NotAfter: now.Add(10 * 365 * 24 * time.Hour),
		IsCA: true, BasicConstraintsValid: true, KeyUsage: x509.KeyUsageCertSign | x509.KeyUsageDigitalSignature,
	}
	intDER, inter := mk(intTmpl, root, &intKey.PublicKey, rootKey)

	rootPath := filepath.Join(w.certDir, "root.pem")
	if err := os.WriteFile(rootPath, zzG08PEM("CERTIFICATE", rootDER), 0o644); err != nil {
		t.Fatal(err)
	}

	// crypto/x509 loads the system pool once, on first use.
	_ = os.Setenv("SSL_CERT_FILE", rootPath)
	_ = os.Setenv("SSL_CERT_DIR", filepath.Join(w.certDir, "empty"))

	leaf := func(id string, selfSigned bool, nb, na time.Time, name string) {
		k := zzG08Key(t)
		tmpl := &x509.Certificate{
			Subject:   pkix.Name{CommonName: "zz-" + id},
			NotBefore: nb, NotAfter: na,
			KeyUsage:    x509.KeyUsageDigitalSignature,
			ExtKeyUsage: []x509.ExtKeyUsage{x509.ExtKeyUsageServerAuth},
			DNSNames:    []string{name},
			IPAddresses: []net.IP{net.ParseIP(zzG08Host)},
		}

		var chain []byte
		if selfSigned {
			der, _ := mk(tmpl, tmpl, &k.PublicKey, k)
			chain = zzG08PEM("CERTIFICATE", der)
		} else {
			der, _ := mk(tmpl, inter, &k.PublicKey, intKey)
			chain = append(zzG08PEM("CERTIFICATE", der), zzG08PEM("CERTIFICATE", intDER)...)
		}

		kder, err := x509.MarshalPKCS8PrivateKey(k)
		if err != nil {
			t.Fatal(err)
		}

		c := &zzG08Cert{
			id: id, chainPEM: chain, keyPEM: zzG08PEM("PRIVATE KEY", kder),
			certPath: filepath.Join(w.certDir, id+".crt"), keyPath: filepath.Join(w.certDir, id+".key"),
		}
		c.chainB64 = base64.StdEncoding.EncodeToString(c.chainPEM)
		c.keyB64 = base64.StdEncoding.EncodeToString(c.keyPEM)
		if err = os.WriteFile(c.certPath, c.chainPEM, 0o600); err != nil {
			t.Fatal(err)
		}

		if err = os.WriteFile(c.keyPath, c.keyPEM, 0o600); err != nil {
			t.Fatal(err)
		}

		w.certs[id] = c
		w.keyOf[strings.TrimSpace(string(c.keyPEM))] = id
	}

	day := 24 * time.Hour
	leaf("A", false, now.Add(-day), now.Add(365*day), zzG08Name)
	leaf("C", false, now.Add(-day), now.Add(365*day), zzG08Name)
	leaf("B", true, now.Add(-day), now.Add(365*day), zzG08Name)
	leaf("X", false, now.Add(-30*day), now.Add(-day), zzG08Name)
	leaf("Y", false, now.Add(30*day), now.Add(365*day), zzG08Name)
	leaf("N", false, now.Add(-day), now.Add(365*day), zzG08Other)

	// Something that is no PEM at all, inline and as files.
	g := &zzG08Cert{
		id: "G", chainPEM: []byte("this is not a certificate\n"), keyPEM: []byte("this is not a key\n"),
		certPath: filepath.Join(w.certDir, "G.crt"), keyPath: filepath.Join(w.certDir, "G.key"),
	}
	g.chainB64 = base64.StdEncoding.EncodeToString(g.chainPEM)
	g.keyB64 = base64.StdEncoding.EncodeToString(g.keyPEM)
	_ = os.WriteFile(g.certPath, g.chainPEM, 0o600)
	_ = os.WriteFile(g.keyPath, g.keyPEM, 0o600)
	w.certs["G"] = g
}

// certID maps PEM data to the id of the leaf ("none" for empty data, "G" for
// anything that does not parse).
func (w *zzG08World) certID(pemData []byte) (id string) {
	if len(bytes.TrimSpace(pemData)) == 0 {
		return "none"
	}

	blk, _ := pem.Decode(pemData)
	if blk == nil {
		return "G"
	}

	c, err := x509.ParseCertificate(blk.Bytes)
	if err != nil {
		return "G"
	}

	return strings.TrimPrefix(c.Subject.CommonName, "zz-")
}

func (w *zzG08World) keyID(pemData []byte) (id string) {
	s := strings.TrimSpace(string(pemData))
	if s == "" {
		return "none"
	}

	if id = w.keyOf[s]; id != "" {
		return id
	}

	if _, _, err := parsePrivateKeyForID(pemData); err != nil {
		return "G"
	}

	return "?"
}

func parsePrivateKeyForID(pemData []byte) (k any, typ string, err error) {
	blk, _ := pem.Decode(pemData)
	if blk == nil {
		return nil, "", fmt.Errorf("no pem")
	}

	return parsePrivateKey(blk.Bytes)
}

func (w *zzG08World) pathID(p string) (id string) {
	if p == "" {
		return "none"
	}

	base := filepath.Base(p)
	if filepath.Dir(p) != w.certDir {
		return "?" + p
	}

	if base == zzG08NoSuch {
		return "M"
	}

	return strings.TrimSuffix(strings.TrimSuffix(base, ".crt"), ".key")
}

// ------------------------------------------------------------------ walker

// zzG08Out is one admissible outcome of a label, as emitted by TLC.
type zzG08Out struct {
	Code int    `json:"code"`
	DKey string `json:"dkey"` // canonical form of the destination state
	DID  int    `json:"did"`
	Web  string `json:"web,omitempty"`
	DNS  string `json:"dns,omitempty"`
}

// zzG08Vec is one (state, label) vector with its admissible outcomes.
type zzG08Vec struct {
	ID     int              `json:"id"`
	SID    int              `json:"sid"`
	SKey   string           `json:"skey"`
	Act    string           `json:"act"`
	Shape  string           `json:"shape,omitempty"`
	Args   map[string]any   `json:"args"`
	Outs   []zzG08Out       `json:"outs"`
	Fields map[string][]any `json:"fields,omitempty"`
	Saved  bool             `json:"saved,omitempty"`
	Want   bool             `json:"want"`
}

// zzG08Step is what one executed label produced.
type zzG08Step struct {
	Code   int            `json:"code"`
	Web    string         `json:"web,omitempty"`
	DNS    string         `json:"dns,omitempty"`
	Fields map[string]any `json:"fields,omitempty"`
	Body   string         `json:"body,omitempty"`
	Panic  string         `json:"panic,omitempty"`
}

// zzG08Arena is what the walker needs from an arena.
type zzG08Arena struct {
	name    string
	reset   func() (err error)                              // new deployment, booted, in the initial state
	exec    func(act string, args map[string]any) zzG08Step // perform one label
	observe func() (key string, obs map[string]any)         // project the real state
	// settle lets asynchronous parts of the state (the HTTPS server picking
	// up a certificate) arrive: it polls until the projection is one of
	// want or the budget is used up.
	settle func(want map[string]bool) (key string, obs map[string]any)
	// extra is arena state that is part of a trace line but not of the
	// projection (the disk fault of arena I).
	extra func() (m map[string]any)
	// quiesce waits for asynchronous effects without knowing what the
	// specification admits (scripts recorded for TLC).
	quiesce func(act string, st zzG08Step)
}

func zzG08Canon(v any) (s string) {
	b, err := json.Marshal(v)
	if err != nil {
		panic(err)
	}

	return string(b)
}

func zzG08LoadVecs(t testing.TB) (vecs []*zzG08Vec, initID int, initKey string) {
	initID = -1
	zzReadNDJSON(t, "VERIF_IN", func(line []byte) {
		hdr := struct {
			Init    *int   `json:"init"`
			InitKey string `json:"initkey"`
		}{}
		if json.Unmarshal(line, &hdr) == nil && hdr.Init != nil {
			initID, initKey = *hdr.Init, hdr.InitKey

			return
		}

		v := &zzG08Vec{}
		if err := json.Unmarshal(line, v); err != nil {
			t.Fatalf("bad vector line: %v", err)
		}

		vecs = append(vecs, v)
	})

	if initID < 0 {
		t.Fatal("no header line in VERIF_IN")
	}

	return vecs, initID, initKey
}

// zzG08Match finds the admissible outcomes the observation agrees with.
func zzG08Match(v *zzG08Vec, st zzG08Step, key string) (hit *zzG08Out) {
	for i := range v.Outs {
		o := &v.Outs[i]
		if o.Code != st.Code || o.DKey != key {
			continue
		}

		if v.Act == "check_config" && (o.Web != st.Web || o.DNS != st.DNS) {
			continue
		}

		return o
	}

	return nil
}

// zzG08FieldsBad lists the reply fields whose observed value the
// specification does not admit.
func zzG08FieldsBad(v *zzG08Vec, st zzG08Step) (bad []string) {
	if st.Code != http.StatusOK || len(v.Fields) == 0 || st.Fields == nil {
		return nil
	}

	for name, adm := range v.Fields {
		if name == "none" {
			continue
		}

		got, ok := st.Fields[name]
		if !ok {
			bad = append(bad, name+" (absent)")

			continue
		}

		found := false
		for _, a := range adm {
			if a == got {
				found = true
			}
		}

		if !found {
			bad = append(bad, name)
		}
	}

	if v.Act == "status" {
		if got, _ := st.Fields["saved"].(bool); got != v.Saved {
			bad = append(bad, "private_key_saved")
		}
	}

	sort.Strings(bad)

	return bad
}

// zzG08Walk covers the wanted vectors with tours on the real system.
func zzG08Walk(t testing.TB, a *zzG08Arena, out *zzWriter, vecs []*zzG08Vec, initID int, initKey string, rng *rand.Rand) {
	byState := map[int][]*zzG08Vec{}
	keyOf := map[int]string{initID: initKey}
	for _, v := range vecs {
		byState[v.SID] = append(byState[v.SID], v)
		keyOf[v.SID] = v.SKey
		for _, o := range v.Outs {
			keyOf[o.DID] = o.DKey
		}
	}

	for _, l := range byState {
		rng.Shuffle(len(l), func(i, j int) { l[i], l[j] = l[j], l[i] })
	}

	done := map[int]bool{}
	left := 0
	for _, v := range vecs {
		if v.Want {
			left++
		}
	}

	stats := map[string]int{}
	var path []int
	cur := -1
	dead := false
	resetArena := func() {
		t0 := time.Now()
		defer func() { stats["ms_reset"] += int(time.Since(t0).Milliseconds()) }()
		if err := a.reset(); err != nil {
			// a deployment that cannot be booted any more ends the walk
			out.put(map[string]any{"kind": "dead", "arena": a.name, "what": err.Error()})
			stats["hung"] = 1
			dead = true

			return
		}

		key, obs := a.observe()
		if key != initKey {
			out.put(map[string]any{"kind": "fatal", "arena": a.name, "what": "the initial projection is not the initial state of the specification",
				"obs": obs, "want": initKey})
			t.Fatalf("arena %s: initial state mismatch:\n got  %s\n want %s", a.name, key, initKey)
		}

		cur = initID
		path = nil
		stats["resets"]++
	}

	// next picks the vector to execute from the current state: an uncovered
	// wanted one here, else the first step of a shortest path (over all
	// admissible outcomes) to a state that has one.
	unreachable := map[int]int{}
	next := func() (v *zzG08Vec) {
		for _, c := range byState[cur] {
			if c.Want && !done[c.ID] {
				return c
			}
		}

		type node struct {
			sid   int
			first *zzG08Vec
		}
		seen := map[int]bool{cur: true}
		queue := []node{{sid: cur}}
		for len(queue) > 0 {
			n := queue[0]
			queue = queue[1:]
			for _, c := range byState[n.sid] {
				for _, o := range c.Outs {
					if seen[o.DID] {
						continue
					}

					seen[o.DID] = true
					first := n.first
					if first == nil {
						first = c
					}

					if unreachable[o.DID] < 3 {
						for _, d := range byState[o.DID] {
							if d.Want && !done[d.ID] {
								return first
							}
						}
					}

					queue = append(queue, node{sid: o.DID, first: first})
				}
			}
		}

		return nil
	}

	resetArena()
	budget := 40 * len(vecs)
	target := -1
	deadline := time.Now().Add(time.Duration(zzG08EnvInt("VERIF_G08_BUDGET_S", 600)) * time.Second)
	for left > 0 && budget > 0 && !dead {
		budget--
		if time.Now().After(deadline) {
			stats["out_of_time"] = 1

			break
		}

		v := next()
		if v == nil {
			if cur != initID {
				resetArena()

				continue
			}

			break
		}

		if !(v.Want && !done[v.ID]) {
			// A transit step towards an uncovered state.
			stats["transit"]++
			if target != v.ID {
				target = v.ID
			}
		}

		t0 := time.Now()
		st := a.exec(v.Act, v.Args)
		t1 := time.Now()
		key, obs := a.observe()
		t2 := time.Now()
		hit := zzG08Match(v, st, key)
		if hit == nil && a.settle != nil {
			want := map[string]bool{}
			for _, o := range v.Outs {
				if o.Code == st.Code {
					want[o.DKey] = true
				}
			}

			key, obs = a.settle(want)
			hit = zzG08Match(v, st, key)
		}

		stats["us_exec"] += int(t1.Sub(t0).Microseconds())
		stats["us_observe"] += int(t2.Sub(t1).Microseconds())
		stats["us_settle"] += int(time.Since(t2).Microseconds())
		path = append(path, v.ID)
		wasWanted := v.Want && !done[v.ID]
		if wasWanted {
			done[v.ID] = true
			left--
		}

		stats["steps"]++
		if hit == nil {
			stats["bad"]++
			out.put(map[string]any{"kind": "bad", "arena": a.name, "vec": v, "step": st, "obs": obs, "key": key,
				"path": append([]int(nil), path...)})
			if st.Code == -5 {
				// A request that is never answered: this process is done.
				stats["hung"] = 1

				break
			}

			if !wasWanted {
				// The way to some state is barred: do not try for ever.
				for _, o := range v.Outs {
					unreachable[o.DID]++
				}
			}

			if key == v.SKey && v.Act != "configure" && v.Act != "restart" {
				// A wrong reply of a read-only call that left the state
				// where it was: the behaviour goes on.
				continue
			}

			resetArena()

			continue
		}

		if fb := zzG08FieldsBad(v, st); len(fb) > 0 {
			stats["bad_fields"]++
			out.put(map[string]any{"kind": "badfields", "arena": a.name, "vec": v, "step": st, "fields": fb,
				"path": append([]int(nil), path...)})
		} else if stats["samples"] < 6 && (st.Code == 200 || st.Code == 500) && hit.DID != v.SID {
			stats["samples"]++
			out.put(map[string]any{"kind": "sample", "arena": a.name, "act": v.Act, "shape": v.Shape, "args": v.Args,
				"code": st.Code, "dst": hit.DKey})
		}

		if hit.DID != v.SID {
			stats["state_changes"]++
		}

		cur = hit.DID
	}

	var missed []int
	for _, v := range vecs {
		if v.Want && !done[v.ID] {
			missed = append(missed, v.ID)
		}
	}

	out.put(map[string]any{"kind": "summary", "arena": a.name, "stats": stats, "wanted_left": left,
		"missed": missed, "vectors": len(vecs)})
}

// zzG08ScriptStep is one step of a script: a label with the projections the
// orchestrator would accept after it (only used to let late parts arrive).
type zzG08ScriptStep struct {
	Act  string         `json:"act"`
	Args map[string]any `json:"args"`
	Want []string       `json:"want,omitempty"`
}

// zzG08RunScripts executes given label sequences, each from a fresh
// deployment, and reports every step: this is how a disagreement is run
// again in isolation (the orchestrator and TLC judge the result).
func zzG08RunScripts(t testing.TB, a *zzG08Arena, out *zzWriter, path string) {
	b, err := os.ReadFile(path)
	if err != nil {
		t.Fatalf("reading scripts: %v", err)
	}

	var scripts [][]zzG08ScriptStep
	if err = json.Unmarshal(b, &scripts); err != nil {
		t.Fatalf("parsing scripts: %v", err)
	}

	for si, sc := range scripts {
		if err = a.reset(); err != nil {
			t.Fatalf("reset: %v", err)
		}

		_, obs := a.observe()
		rec := map[string]any{"kind": "script", "script": si, "i": -1, "ev": "reset", "obs": obs}
		if a.extra != nil {
			for k, v := range a.extra() {
				rec[k] = v
			}
		}

		out.put(rec)
		for i, stp := range sc {
			st := a.exec(stp.Act, stp.Args)
			if a.quiesce != nil && len(stp.Want) == 0 {
				a.quiesce(stp.Act, st)
			}

			key, obs := a.observe()
			if a.settle != nil && len(stp.Want) > 0 {
				want := map[string]bool{}
				for _, k := range stp.Want {
					want[k] = true
				}

				if !want[key] {
					key, obs = a.settle(want)
				}
			}

			fields := st.Fields
			if fields == nil {
				fields = map[string]any{}
			}

			args := stp.Args
			if args == nil {
				args = map[string]any{}
			}

			rec = map[string]any{"kind": "script", "script": si, "i": i, "last": i == len(sc)-1, "ev": "step",
				"act": stp.Act, "req": args, "args": args, "step": st, "code": st.Code, "web": st.Web, "dns": st.DNS,
				"fields": fields, "obs": obs, "key": key, "body": st.Body}
			if a.extra != nil {
				for k, v := range a.extra() {
					rec[k] = v
				}
			}

			out.put(rec)
			if st.Code == -5 {
				return
			}

			if st.Code < 0 {
				break
			}
		}
	}
}

func zzG08EnvInt(name string, dflt int) (n int) {
	n = dflt
	if s := os.Getenv(name); s != "" {
		_, _ = fmt.Sscanf(s, "%d", &n)
	}

	return n
}

func zzG08Str(m map[string]any, k string) (s string) {
	s, _ = m[k].(string)

	return s
}

func zzG08Bool(m map[string]any, k string) (b bool) {
	b, _ = m[k].(bool)

	return b
}

// ------------------------------------------------------------ arena I

var zzG08Passwords = map[string]string{"": zzG08Pass1, "u1": zzG08Pass1, "u2": zzG08Pass2, "u3": "third password 3"}

type zzG08Install struct {
	w         *zzG08World
	fault     bool
	rng       *rand.Rand
	credKey   string
	credProbe [2]string
}

func zzG08NewInstall(t testing.TB) (ia *zzG08Install) {
	w := zzG08NewWorld(t, []string{"w0", "w1", "w2", "d1", "d2", "d3", "pb", "pt", "up"})

	return &zzG08Install{w: w, rng: rand.New(rand.NewSource(zzSeed()))}
}

func (ia *zzG08Install) reset() (err error) {
	// A picked port may have been taken by another process meanwhile: a
	// first run does not bind anything, so this only matters for symmetry
	// with arena T.
	for attempt := 0; attempt < 3; attempt++ {
		ia.w.newDeployment()
		ia.fault = false
		ia.credKey = ""
		if err = ia.w.boot(); err == nil || ia.w.hung {
			return err
		}
	}

	return err
}

func (ia *zzG08Install) port(name string) (p uint16) {
	if name == "zero" {
		return 0
	}

	p, ok := ia.w.ports[name]
	if !ok {
		ia.w.t.Fatalf("unknown port name %q", name)
	}

	return p
}

func (ia *zzG08Install) password(user, kind string) (pw string) {
	switch kind {
	case "good":
		return zzG08Passwords[user]
	case "short":
		// Seven runes; the second spelling is longer than seven BYTES.
		return []string{"1234567", "пароль7", "s h o r"}[ia.rng.Intn(3)]
	default:
		return ""
	}
}

func (ia *zzG08Install) exec(act string, args map[string]any) (st zzG08Step) {
	w := ia.w
	switch act {
	case "get_addresses":
		r := w.do(http.MethodGet, "/control/install/get_addresses", nil, "", "")
		st.Code, st.Panic = r.Status, r.Panic
		if r.Status == http.StatusOK {
			doc := struct {
				Interfaces map[string]any `json:"interfaces"`
				WebPort    int            `json:"web_port"`
				DNSPort    int            `json:"dns_port"`
			}{}
			if err := json.Unmarshal(r.Body, &doc); err != nil || len(doc.Interfaces) == 0 || doc.WebPort == 0 || doc.DNSPort == 0 {
				st.Code = -3
				st.Body = string(r.Body)
			}
		}
	case "check_config":
		var body []byte
		if zzG08Bool(args, "json") {
			body, _ = json.Marshal(map[string]any{
				"web":           map[string]any{"ip": zzG08Host, "port": ia.port(zzG08Str(args, "web")), "autofix": false},
				"dns":           map[string]any{"ip": zzG08Host, "port": ia.port(zzG08Str(args, "dns")), "autofix": false},
				"set_static_ip": false,
			})
		} else {
			body = []byte(`{"web":{"ip":"127.0.0.1","port":`)
		}

		r := w.do(http.MethodPost, "/control/install/check_config", body, "", "")
		st.Code, st.Panic = r.Status, r.Panic
		st.Web, st.DNS = "na", "na"
		if r.Status == http.StatusOK {
			doc := struct {
				Web struct {
					Status string `json:"status"`
				} `json:"web"`
				DNS struct {
					Status string `json:"status"`
				} `json:"dns"`
			}{}
			if err := json.Unmarshal(r.Body, &doc); err != nil {
				st.Code = -3
			}

			st.Web, st.DNS = "ok", "ok"
			if doc.Web.Status != "" {
				st.Web = "err"
			}

			if doc.DNS.Status != "" {
				st.DNS = "err"
			}
		}
	case "configure":
		var body []byte
		if zzG08Bool(args, "json") {
			user := zzG08Str(args, "user")
			body, _ = json.Marshal(map[string]any{
				"username": user, "password": ia.password(user, zzG08Str(args, "pw")),
				"web": map[string]any{"ip": zzG08Host, "port": ia.port(zzG08Str(args, "web"))},
				"dns": map[string]any{"ip": zzG08Host, "port": ia.port(zzG08Str(args, "dns"))},
			})
		} else {
			body = []byte(`{"username":"u1","password":`)
		}

		r := w.do(http.MethodPost, "/control/install/configure", body, "", "")
		st.Code, st.Panic = r.Status, r.Panic
		if r.Status != http.StatusOK {
			st.Body = strings.TrimSpace(string(r.Body))
			if len(st.Body) > 200 {
				st.Body = st.Body[:200]
			}
		}
	case "restart":
		if err := w.restart(); err != nil {
			st.Code = -4
			st.Body = err.Error()
		}
	case "wipe":
		if err := ia.reset(); err != nil {
			st.Code = -4
			st.Body = err.Error()
		}
	case "break":
		w.breakDisk()
		ia.fault = true
	case "heal":
		w.healDisk()
		ia.fault = false
	default:
		w.t.Fatalf("unknown install label %q", act)
	}

	return st
}

func zzG08SortedSet(in []string) (out []string) {
	m := map[string]bool{}
	for _, s := range in {
		m[s] = true
	}

	out = []string{}
	for s := range m {
		out = append(out, s)
	}

	sort.Strings(out)

	return out
}

func (ia *zzG08Install) observe() (key string, obs map[string]any) {
	w := ia.w
	if !w.up {
		obs = map[string]any{"boot": "failed", "error": w.bootErr}

		return zzG08Canon(obs), obs
	}

	var names []string
	credKey := fmt.Sprintf("%v|", globalContext.firstRun)
	if globalContext.auth != nil {
		for _, u := range globalContext.auth.usersList() {
			names = append(names, u.Name)
			credKey += u.Name + ":" + u.PasswordHash + "|"
		}
	}

	file := map[string]any{"exists": false, "users": []string{}, "web": "none", "dns": "none"}
	if !ia.fault {
		f, ok, err := w.readFile()
		switch {
		case ok && err != nil:
			file = map[string]any{"exists": true, "users": []string{"?unparsable"}, "web": "?", "dns": "?"}
		case ok:
			var fu []string
			for _, u := range f.Users {
				fu = append(fu, u.Name)
			}

			web := "?" + f.HTTP.Address
			if ap, perr := netip.ParseAddrPort(f.HTTP.Address); perr == nil && ap.Addr().String() == zzG08Host {
				web = w.portName(ap.Port())
			}

			dns := w.portName(f.DNS.Port)
			if len(f.DNS.BindHosts) != 1 || f.DNS.BindHosts[0] != zzG08Host {
				dns = fmt.Sprintf("?%v:%d", f.DNS.BindHosts, f.DNS.Port)
			}

			file = map[string]any{"exists": true, "users": zzG08SortedSet(fu), "web": web, "dns": dns}
		}
	}

	web := w.portName(config.HTTPConfig.Address.Port())
	dns := "dflt"
	if config.DNS.Port != defaultPortDNS {
		dns = w.portName(config.DNS.Port)
	}

	// The web server can take the address in force: it holds it already, or
	// it can be bound now.
	bindable := true
	if web != "w0" {
		l, err := net.Listen("tcp", config.HTTPConfig.Address.String())
		if err != nil {
			bindable = false
		} else {
			_ = l.Close()
		}
	}

	wizard := "closed"
	switch r := w.do(http.MethodGet, "/control/install/get_addresses", nil, "", ""); r.Status {
	case http.StatusOK:
		wizard = "open"
	case http.StatusForbidden:
	default:
		wizard = fmt.Sprintf("other%d", r.Status)
	}

	probeNone := zzG08ProbeClass(w.do(http.MethodGet, "/control/status", nil, "", ""))
	// The credential probes cost a bcrypt comparison each: they are repeated
	// whenever first-run mode, the account table (names and hashes) or the
	// anonymous probe changed, and reused otherwise.
	credKey += probeNone + "|" + wizard
	if credKey != ia.credKey {
		ia.credProbe[0] = zzG08ProbeClass(w.do(http.MethodGet, "/control/status", nil, "u1", zzG08Pass1))
		ia.credProbe[1] = zzG08ProbeClass(w.do(http.MethodGet, "/control/status", nil, "u2", zzG08Pass2))
		ia.credKey = credKey
	}

	obs = map[string]any{
		"firstRun": globalContext.firstRun, "accounts": zzG08SortedSet(names), "file": file,
		"web": web, "dns": dns, "dnsUp": isRunning(),
		"probeNone": probeNone, "probeU1": ia.credProbe[0], "probeU2": ia.credProbe[1],
		"wizard": wizard, "webBindable": bindable,
	}

	return fmt.Sprintf("%s|%v", zzG08Canon(obs), ia.fault), obs
}

func (ia *zzG08Install) arena() (a *zzG08Arena) {
	return &zzG08Arena{name: "install", reset: ia.reset, exec: ia.exec, observe: ia.observe,
		extra: func() map[string]any { return map[string]any{"fault": ia.fault} }}
}

// trace is direction B for arena I: a seeded random history over a larger
// universe (a third account, more ports), one NDJSON line per step.
func (ia *zzG08Install) trace(out *zzWriter, n int) {
	rng := ia.rng
	users := []string{"u1", "u2", "u3", "u1", "u2", ""}
	pws := []string{"good", "good", "good", "good", "short", "empty"}
	webs := []string{"w0", "w0", "w1", "w2", "w1", "pb", "zero"}
	dnss := []string{"d1", "d2", "d3", "d1", "d2", "w0", "w1", "w2", "pb", "pt", "zero"}
	pick := func(l []string) string { return l[rng.Intn(len(l))] }

	restart := func() {
		if err := ia.reset(); err != nil {
			ia.w.hung = true

			return
		}

		_, obs := ia.observe()
		out.put(map[string]any{"ev": "reset", "obs": obs, "fault": ia.fault})
	}

	restart()
	sinceReset := 0
	for i := 0; i < n && !ia.w.hung; i++ {
		sinceReset++
		var act string
		args := map[string]any{}
		x := rng.Intn(100)
		if !globalContext.firstRun {
			// An installed system answers the wizard's calls 403: do not
			// stay long.
			switch {
			case x < 30:
				x = 88 // wipe
			case x < 50:
				x = 80 // restart
			}
		}

		switch {
		case x < 8:
			act = "get_addresses"
		case x < 30:
			act = "check_config"
			args = map[string]any{"json": rng.Intn(20) != 0, "web": pick(webs), "dns": pick(dnss)}
		case x < 78:
			act = "configure"
			args = map[string]any{"json": rng.Intn(25) != 0, "user": pick(users), "pw": pick(pws), "web": pick(webs), "dns": pick(dnss)}
		case x < 86:
			act = "restart"
			if ia.fault {
				act = "heal"
			}
		case x < 92:
			act = "wipe"
		default:
			act = "break"
			if ia.fault {
				act = "heal"
			} else if !globalContext.firstRun {
				act = "get_addresses"
			}
		}

		st := ia.exec(act, args)
		_, obs := ia.observe()
		out.put(map[string]any{"ev": "step", "act": act, "req": args, "code": st.Code, "web": st.Web, "dns": st.DNS,
			"obs": obs, "fault": ia.fault, "body": st.Body})
		if ia.w.hung {
			// a request that was never answered ends the recording
			return
		}

		// A server error or a failed boot ends the behaviour (the rest of it
		// would only repeat the same divergence); so does a long stay.
		if st.Code >= 500 || st.Code < 0 || sinceReset > 40 {
			restart()
			sinceReset = 0
		}
	}
}

func TestZZVerifG08Install(t *testing.T) {
	out := zzNewWriter(t, "VERIF_OUT")
	defer out.close()

	ia := zzG08NewInstall(t)
	if p := os.Getenv("VERIF_G08_TRACE"); p != "" {
		tw := zzG08WriterOn(t, p)
		ia.trace(tw, zzG08EnvInt("VERIF_G08_TRACE_N", 300))
		tw.close()
		out.put(map[string]any{"kind": "trace", "arena": "install", "hung": ia.w.hung})
		if ia.w.hung {
			out.put(map[string]any{"kind": "summary", "arena": "install", "stats": map[string]int{"hung": 1, "steps": 0}, "missed": []int{}, "vectors": 0})

			return
		}
	}

	if p := os.Getenv("VERIF_G08_SCRIPTS"); p != "" {
		zzG08RunScripts(t, ia.arena(), out, p)

		return
	}

	if os.Getenv("VERIF_IN") == "" {
		return
	}

	vecs, initID, initKey := zzG08LoadVecs(t)
	zzG08Walk(t, ia.arena(), out, vecs, initID, initKey, rand.New(rand.NewSource(zzSeed())))
}

func zzG08WriterOn(t testing.TB, p string) (w *zzWriter) {
	fh, err := os.Create(p)
	if err != nil {
		t.Fatalf("creating %s: %v", p, err)
	}

	return &zzWriter{fh: fh, w: bufio.NewWriterSize(fh, 1<<20)}
}

// ------------------------------------------------------------ arena T

type zzG08TLS struct {
	w      *zzG08World
	rng    *rand.Rand
	waitMS int
}

func zzG08NewTLS(t testing.TB) (ta *zzG08TLS) {
	w := zzG08NewWorld(t, []string{"w0", "d1", "p1", "p2", "p3", "pb", "up"})
	w.makeCerts()

	return &zzG08TLS{w: w, rng: rand.New(rand.NewSource(zzSeed())), waitMS: zzG08EnvInt("VERIF_G08_WAIT_MS", 400)}
}

// reset deploys a configured installation: one administrator, the web
// interface on w0, plain DNS on d1, encryption off and without ports.
func (ta *zzG08TLS) reset() (err error) {
	w := ta.w
	w.newDeployment()
	h, err := bcrypt.GenerateFromPassword([]byte(zzG08TPass), bcrypt.MinCost)
	if err != nil {
		return err
	}

	y := fmt.Sprintf(`http:
  address: %s:%d
users:
  - name: %s
    password: %s
dns:
  bind_hosts:
    - %s
  port: %d
tls:
  enabled: false
  port_https: 0
  port_dns_over_tls: 0
  port_dns_over_quic: 0
schema_version: %d
`, zzG08Host, w.ports["w0"], zzG08TUser, string(h), zzG08Host, w.ports["d1"], config.SchemaVersion)
	for attempt := 0; attempt < 3; attempt++ {
		if attempt > 0 {
			// the DNS port may have been taken by another process for a moment
			time.Sleep(200 * time.Millisecond)
			w.newDeployment()
		}

		if err = os.WriteFile(w.confPath(), []byte(y), 0o644); err != nil {
			return err
		}

		if err = w.boot(); err == nil || w.hung {
			return err
		}
	}

	return err
}

func (ta *zzG08TLS) port(name string) (p uint16) {
	if name == "zero" {
		return 0
	}

	p, ok := ta.w.ports[name]
	if !ok {
		ta.w.t.Fatalf("unknown port name %q", name)
	}

	return p
}

var zzG08Names = map[string]string{"": "", "good": zzG08Name, "other": zzG08Other}

func zzG08NameClass(n string) (c string) {
	for k, v := range zzG08Names {
		if v == n {
			return k
		}
	}

	return "?" + n
}

// body renders an abstract request.
func (ta *zzG08TLS) body(args map[string]any) (b []byte) {
	if !zzG08Bool(args, "json") {
		return []byte(`{"enabled":true,"port_https":`)
	}

	w := ta.w
	m := map[string]any{
		"enabled":     zzG08Bool(args, "enabled"),
		"server_name": zzG08Names[zzG08Str(args, "name")],
		"force_https": false,
	}
	for f, k := range map[string]string{"port_https": "https", "port_dns_over_tls": "dot", "port_dns_over_quic": "doq"} {
		m[f] = ta.port(zzG08Str(args, k))
	}

	cert := zzG08Str(args, "cert")
	c := w.certs[cert]
	switch src := zzG08Str(args, "csrc"); src {
	case "inline", "both":
		m["certificate_chain"] = c.chainB64
		if src == "both" {
			m["certificate_path"] = c.certPath
		}
	case "path":
		if cert == "M" {
			m["certificate_path"] = filepath.Join(w.certDir, zzG08NoSuch)
		} else {
			m["certificate_path"] = c.certPath
		}
	case "badb64":
		m["certificate_chain"] = "!!! this is not base64 !!!"
	}

	k := w.certs[zzG08Str(args, "key")]
	switch src := zzG08Str(args, "ksrc"); src {
	case "inline", "both":
		m["private_key"] = k.keyB64
		if src == "both" {
			m["private_key_path"] = k.keyPath
		}
	case "path":
		m["private_key_path"] = k.keyPath
	case "badb64":
		m["private_key"] = "%%% this is not base64 %%%"
	case "saved":
		m["private_key_saved"] = true
	}

	switch zzG08Str(args, "plain") {
	case "true":
		m["serve_plain_dns"] = true
	case "false":
		m["serve_plain_dns"] = false
	}

	b, _ = json.Marshal(m)

	return b
}

// zzG08TLSDoc is the part of a TlsConfig reply the harness looks at.
type zzG08TLSDoc struct {
	Enabled    bool   `json:"enabled"`
	Name       string `json:"server_name"`
	HTTPS      uint16 `json:"port_https"`
	DoT        uint16 `json:"port_dns_over_tls"`
	DoQ        uint16 `json:"port_dns_over_quic"`
	Chain      string `json:"certificate_chain"`
	Key        string `json:"private_key"`
	ChainPath  string `json:"certificate_path"`
	KeyPath    string `json:"private_key_path"`
	Saved      bool   `json:"private_key_saved"`
	Plain      *bool  `json:"serve_plain_dns"`
	Subject    string `json:"subject"`
	Warning    string `json:"warning_validation"`
	ValidCert  bool   `json:"valid_cert"`
	ValidChain bool   `json:"valid_chain"`
	ValidKey   bool   `json:"valid_key"`
	ValidPair  bool   `json:"valid_pair"`
	KeyType    string `json:"key_type"`
}

// fields abstracts the status part of a reply.
func (ta *zzG08TLS) fields(body []byte) (f map[string]any, doc *zzG08TLSDoc) {
	doc = &zzG08TLSDoc{}
	if err := json.Unmarshal(body, doc); err != nil {
		return map[string]any{"unparsable": true}, doc
	}

	leaf := "none"
	if doc.Subject != "" {
		leaf = "?" + doc.Subject
		if i := strings.Index(doc.Subject, "CN=zz-"); i >= 0 {
			leaf = strings.SplitN(doc.Subject[i+6:], ",", 2)[0]
		}
	}

	// No reply may carry private key material, in the field made for it or
	// anywhere else.
	returned := doc.Key != ""
	for _, c := range ta.w.certs {
		if c.id == "G" {
			continue
		}

		// the whole key as the API encodes it, or the first line of its PEM body
		lines := strings.Split(string(c.keyPEM), "\n")
		if bytes.Contains(body, []byte(c.keyB64)) || (len(lines) > 1 && bytes.Contains(body, []byte(lines[1]))) {
			returned = true
		}
	}

	f = map[string]any{
		"valid_cert": doc.ValidCert, "valid_chain": doc.ValidChain, "valid_key": doc.ValidKey,
		"valid_pair": doc.ValidPair, "warning": doc.Warning != "", "leaf": leaf,
		"key_returned": returned, "saved": doc.Saved,
	}

	return f, doc
}

func (ta *zzG08TLS) exec(act string, args map[string]any) (st zzG08Step) {
	w := ta.w
	switch act {
	case "status":
		r := w.do(http.MethodGet, "/control/tls/status", nil, zzG08TUser, zzG08TPass)
		st.Code, st.Panic = r.Status, r.Panic
		if r.Status == http.StatusOK {
			st.Fields, _ = ta.fields(r.Body)
		}
	case "validate", "configure":
		r := w.do(http.MethodPost, "/control/tls/"+act, ta.body(args), zzG08TUser, zzG08TPass)
		st.Code, st.Panic = r.Status, r.Panic
		if r.Status == http.StatusOK {
			st.Fields, _ = ta.fields(r.Body)
		} else {
			st.Body = strings.TrimSpace(string(r.Body))
			if len(st.Body) > 200 {
				st.Body = st.Body[:200]
			}
		}
	case "restart":
		if err := w.restart(); err != nil {
			st.Code = -4
			st.Body = err.Error()
		}
	default:
		w.t.Fatalf("unknown tls label %q", act)
	}

	return st
}

func (ta *zzG08TLS) settings(enabled bool, name string, https, dot, doq uint16, chain, chainPath string, keyInline bool, keyPEM, keyPath string, plain bool) (m map[string]any) {
	w := ta.w
	csrc, cert := "none", "none"
	switch {
	case chain != "" && chainPath != "":
		csrc, cert = "both", w.certID([]byte(chain))
	case chain != "":
		csrc, cert = "inline", w.certID([]byte(chain))
	case chainPath != "":
		csrc, cert = "path", w.pathID(chainPath)
	}

	ksrc, key := "none", "none"
	switch {
	case keyInline && keyPath != "":
		ksrc, key = "both", w.keyID([]byte(keyPEM))
	case keyInline:
		ksrc, key = "inline", w.keyID([]byte(keyPEM))
	case keyPath != "":
		ksrc, key = "path", w.pathID(keyPath)
	}

	return map[string]any{
		"enabled": enabled, "name": zzG08NameClass(name),
		"https": w.portName(https), "dot": w.portName(dot), "doq": w.portName(doq),
		"csrc": csrc, "cert": cert, "ksrc": ksrc, "key": key, "plain": plain,
	}
}

func (ta *zzG08TLS) observe() (key string, obs map[string]any) {
	w := ta.w
	if !w.up {
		obs = map[string]any{"boot": "failed", "error": w.bootErr}

		return zzG08Canon(obs), obs
	}

	// In force: the public view (GET /control/tls/status); the id of a saved
	// key, which no reply shows, is read from the manager.
	var cur map[string]any
	r := w.do(http.MethodGet, "/control/tls/status", nil, zzG08TUser, zzG08TPass)
	if r.Status != http.StatusOK {
		cur = map[string]any{"status": r.Status}
	} else {
		_, doc := ta.fields(r.Body)
		chain := ""
		if doc.Chain != "" {
			b, err := base64.StdEncoding.DecodeString(doc.Chain)
			if err != nil {
				b = []byte("undecodable")
			}

			chain = string(b)
		}

		mem := globalContext.tls.config()
		plain := doc.Plain != nil && *doc.Plain
		cur = ta.settings(doc.Enabled, doc.Name, doc.HTTPS, doc.DoT, doc.DoQ, chain, doc.ChainPath,
			doc.Saved, mem.PrivateKey, doc.KeyPath, plain)
		if doc.Saved != (mem.PrivateKey != "") {
			cur["saved_flag_disagrees_with_manager"] = true
		}
	}

	disk := map[string]any{"exists": false}
	if f, ok, err := w.readFile(); ok && err == nil {
		disk = ta.settings(f.TLS.Enabled, f.TLS.Name, f.TLS.HTTPS, f.TLS.DoT, f.TLS.DoQ, f.TLS.Chain, f.TLS.ChainPath,
			f.TLS.Key != "", f.TLS.Key, f.TLS.KeyPath, f.DNS.ServePlainDNS)
		if len(f.Users) != 1 || f.Users[0].Name != zzG08TUser {
			disk["users_changed"] = true
		}
	}

	obs = map[string]any{"cur": cur, "disk": disk, "serving": ta.serving(), "running": isRunning()}

	return zzG08Canon(obs), obs
}

// serving reads what the HTTPS server would serve (web.start is not run:
// tlsConfigChanged only records it).
func (ta *zzG08TLS) serving() (m map[string]any) {
	web := globalContext.web
	web.httpsServer.condLock.Lock()
	defer web.httpsServer.condLock.Unlock()

	cert := "none"
	if c := web.httpsServer.cert.Certificate; len(c) > 0 {
		cert = ta.w.certID(zzG08PEM("CERTIFICATE", c[0]))
	}

	if !web.httpsServer.enabled {
		// A certificate that is not served is not an observable.
		cert = "none"
	}

	return map[string]any{"on": web.httpsServer.enabled, "cert": cert}
}

// settle waits for the HTTPS server to pick up what configure applied
// (handleTLSConfigure does that in a goroutine after it has answered).
func (ta *zzG08TLS) settle(want map[string]bool) (key string, obs map[string]any) {
	key, obs = ta.observe()
	// Only the serving part arrives late: when nothing admissible agrees with
	// the rest of the projection there is nothing to wait for.
	rest := func(k string) string {
		m := map[string]any{}
		_ = json.Unmarshal([]byte(k), &m)
		delete(m, "serving")

		return zzG08Canon(m)
	}

	mine := rest(key)
	possible := false
	for k := range want {
		if rest(k) == mine {
			possible = true
		}
	}

	if !possible {
		return key, obs
	}

	deadline := time.Now().Add(time.Duration(ta.waitMS) * time.Millisecond)
	for !want[key] && time.Now().Before(deadline) {
		time.Sleep(2 * time.Millisecond)
		key, obs = ta.observe()
	}

	return key, obs
}

// quiesce is the specification-free wait used where no admissible projections
// are at hand (direction B): after a configure that was answered 200 it waits
// until the HTTPS server has what the settings in force say (the same
// certificate, or nothing), or the budget is used up.
func (ta *zzG08TLS) quiesce(act string, st zzG08Step) {
	if act != "configure" || st.Code != http.StatusOK || !ta.w.up {
		return
	}

	deadline := time.Now().Add(time.Duration(ta.waitMS) * time.Millisecond)
	for {
		_, obs := ta.observe()
		cur, _ := obs["cur"].(map[string]any)
		sv, _ := obs["serving"].(map[string]any)
		if cur == nil || sv == nil {
			return
		}

		on := zzG08Bool(cur, "enabled") && cur["https"] != "zero" && cur["cert"] != "none" && cur["key"] != "none"
		if sv["on"] == on && (!on || sv["cert"] == cur["cert"]) {
			return
		}

		if !time.Now().Before(deadline) {
			return
		}

		time.Sleep(2 * time.Millisecond)
	}
}

func (ta *zzG08TLS) arena() (a *zzG08Arena) {
	return &zzG08Arena{name: "tls", reset: ta.reset, exec: ta.exec, observe: ta.observe, settle: ta.settle, quiesce: ta.quiesce}
}

// trace is direction B for arena T: a seeded random history; requests are
// drawn from the full product of the request dimensions (biased towards
// requests that differ from a good one in a few places).
func (ta *zzG08TLS) trace(out *zzWriter, n int) {
	rng := ta.rng
	pick := func(l ...string) string { return l[rng.Intn(len(l))] }
	restart := func() {
		if err := ta.reset(); err != nil {
			ta.w.hung = true

			return
		}

		_, obs := ta.observe()
		out.put(map[string]any{"ev": "reset", "obs": obs})
	}

	restart()
	since := 0
	for i := 0; i < n && !ta.w.hung; i++ {
		since++
		act := "configure"
		switch x := rng.Intn(100); {
		case x < 8:
			act = "status"
		case x < 16:
			act = "restart"
		case x < 40:
			act = "validate"
		}

		args := map[string]any{}
		if act == "validate" || act == "configure" {
			id := pick("A", "A", "C", "B", "X", "Y", "N")
			args = map[string]any{"json": true, "enabled": true, "name": "good", "https": "p1", "dot": "zero", "doq": "zero",
				"csrc": "inline", "cert": id, "ksrc": "inline", "key": id, "plain": "null"}
			for k := rng.Intn(4); k > 0; k-- {
				switch rng.Intn(12) {
				case 0:
					args["enabled"] = false
				case 1:
					args["name"] = pick("", "good", "other")
				case 2:
					args["https"] = pick("zero", "p1", "p2", "p3", "w0", "d1", "pb")
				case 3:
					args["dot"] = pick("zero", "p2", "p3", "p1", "d1", "pb")
				case 4:
					args["doq"] = pick("zero", "p3", "p2", "d1", "pb")
				case 5:
					args["csrc"] = pick("none", "inline", "path", "both", "badb64")
				case 6:
					args["cert"] = pick("A", "C", "B", "X", "Y", "N", "G")
				case 7:
					args["ksrc"] = pick("none", "inline", "path", "both", "badb64", "saved", "saved")
				case 8:
					args["key"] = pick("A", "C", "B", "X", "N", "G")
				case 9:
					args["plain"] = pick("null", "true", "false")
				case 10:
					args["json"] = rng.Intn(4) != 0
				case 11:
					args["csrc"], args["ksrc"] = "path", "path"
				}
			}

			// Normal forms the specification's vocabulary expects.
			if args["csrc"] == "none" {
				args["cert"] = "none"
			}

			if args["csrc"] == "path" && args["cert"] == "G" && rng.Intn(2) == 0 {
				args["cert"] = "M"
			}

			if k := args["ksrc"]; k == "none" || k == "saved" {
				args["key"] = "none"
			}

			if args["csrc"] == "badb64" {
				args["cert"] = "G"
			}

			if args["ksrc"] == "badb64" {
				args["key"] = "G"
			}

			// Plain DNS off together with enabled settings that have no DoT /
			// DoQ port is left out (the documentation does not say what it
			// means for the HTTPS-only case).
			if args["plain"] == "false" && zzG08Bool(args, "enabled") && args["dot"] == "zero" && args["doq"] == "zero" {
				args["dot"] = "p2"
				if args["https"] == "p2" {
					args["https"] = "p1"
				}
			}
		}

		st := ta.exec(act, args)
		ta.quiesce(act, st)
		_, obs := ta.observe()
		fields := st.Fields
		if fields == nil {
			fields = map[string]any{}
		}

		out.put(map[string]any{"ev": "step", "act": act, "req": args, "code": st.Code, "fields": fields, "obs": obs, "body": st.Body})
		if ta.w.hung {
			// a request that was never answered ends the recording
			return
		}

		if st.Code >= 500 || st.Code < 0 || since > 60 {
			restart()
			since = 0
		}
	}
}

func TestZZVerifG08TLS(t *testing.T) {
	out := zzNewWriter(t, "VERIF_OUT")
	defer out.close()

	ta := zzG08NewTLS(t)
	if p := os.Getenv("VERIF_G08_TRACE"); p != "" {
		tw := zzG08WriterOn(t, p)
		ta.trace(tw, zzG08EnvInt("VERIF_G08_TRACE_N", 300))
		tw.close()
		out.put(map[string]any{"kind": "trace", "arena": "tls", "hung": ta.w.hung})
		if ta.w.hung {
			out.put(map[string]any{"kind": "summary", "arena": "tls", "stats": map[string]int{"hung": 1, "steps": 0}, "missed": []int{}, "vectors": 0})

			return
		}
	}

	if p := os.Getenv("VERIF_G08_SCRIPTS"); p != "" {
		zzG08RunScripts(t, ta.arena(), out, p)

		return
	}

	if os.Getenv("VERIF_IN") == "" {
		return
	}

	vecs, initID, initKey := zzG08LoadVecs(t)
	zzG08Walk(t, ta.arena(), out, vecs, initID, initKey, rand.New(rand.NewSource(zzSeed())))
}

var _ = tls.X509KeyPair
