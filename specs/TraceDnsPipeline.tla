------------------------- MODULE TraceDnsPipeline -------------------------
(***************************************************************************)
(* Direction B for C01 and C02.  The trace is recorded from the real       *)
(* server by a seeded Go driver over a larger universe than the exhaustive *)
(* one (up to 12 rules, names up to 5 labels, random flags):               *)
(*                                                                         *)
(*   {"ev":"cfg","cfg":{...}}           the abstract configuration the     *)
(*                                      following requests were sent to    *)
(*                                      (a new server, or the SAME live    *)
(*                                      server reconfigured: the verdict   *)
(*                                      depends on the current one only)   *)
(*   {"ev":"q","req":{...},"ans":[...],"obs":{why,c,a,calls}}              *)
(*                                      one request, the (abstract) answer *)
(*                                      section the mock upstream would    *)
(*                                      give, and the projected outcome    *)
(*                                                                         *)
(* A request line is accepted iff its outcome is one of                    *)
(* DnsPipelineCore!Verdict(current cfg, req, ans) -- the module's own      *)
(* operators, nothing re-implemented here.  The numbers of the rejected    *)
(* lines are printed as one vector at the end.                             *)
(***************************************************************************)
EXTENDS Sequences, Naturals, FiniteSets, TLC, Json

Trace == ndJsonDeserialize("trace.ndjson")

SvcDom == {<<"4chan", "org">>, <<"4cdn", "org">>, <<"4channel", "org">>}
Svc2Dom == {<<"9gag", "com">>, <<"9cache", "com">>}
INSTANCE DnsPipelineCore WITH SvcDomains <- SvcDom, Svc2Domains <- Svc2Dom

VARIABLES l, cur, bad

\* JSON arrays arrive as sequences; the spec's rule sets and address sets are sets.
CfgOf(c) == [c EXCEPT !.rules = SeqRange(c.rules)]
ObsOf(o) == [why |-> o.why, c |-> o.c, a |-> SeqRange(o.a), calls |-> o.calls]

NoCfg == [rules |-> {}, mode |-> "default", prot |-> "on", filt |-> TRUE, svc |-> "none",
          client |-> [known |-> FALSE, useOwn |-> FALSE, filt |-> TRUE, svc |-> "inherit"],
          aaaaOff |-> FALSE, cache |-> FALSE, cust |-> 1]

\* "rep" marks a question this server was asked before (possibly under an
\* earlier configuration of the same trace section).
Ok(i) == ObsOf(Trace[i].obs) \in (IF Trace[i].rep THEN VerdictRepeat(cur, Trace[i].req, Trace[i].ans)
                                  ELSE Verdict(cur, Trace[i].req, Trace[i].ans))

Init == l = 1 /\ cur = NoCfg /\ bad = {}
Next == /\ l <= Len(Trace)
        /\ IF Trace[l].ev = "cfg"
           THEN cur' = CfgOf(Trace[l].cfg) /\ bad' = bad
           ELSE cur' = cur /\ bad' = (IF Ok(l) THEN bad ELSE bad \cup {l})
        /\ l' = l + 1
        /\ (l' = Len(Trace) + 1 => PrintT(<<"@@V", ToJson([n |-> Len(Trace), bad |-> bad'])>>))
Spec == Init /\ [][Next]_<<l, cur, bad>>
=============================================================================
