#!/bin/sh
# Offline setup: syntax-check every spec and warm the Go build cache for the
# packages the harnesses are overlaid into.  Nothing is fetched.
set -e
cd "$(dirname "$0")"
mkdir -p evidence .work
for f in specs/*.tla; do
  (cd specs && java -cp /opt/veriftools/tla/tla2tools.jar:/opt/veriftools/tla/CommunityModules-deps.jar tla2sany.SANY "$(basename "$f")" >/dev/null 2>&1) || { echo "SANY failed: $f"; exit 1; }
done
cd /repo
export GOFLAGS=-mod=mod GOPROXY=off
unset GOSUMDB
go test -vet=off -count=1 -run '^$' ./internal/... >/dev/null 2>&1 || true
echo setup done
