PROPERTY = "C17"
ENTRY = {
        "text": "SafePath.tla (with SafePathCore.tla: Clean, glob Match on segments, Denoted, May, written from the statement) is a state machine "
                "Add / SetURL / Inject(config file) / Refresh / Remove plus the environment step OwnerMutatesItsCopy (the caller overwrites the pattern slice it passed to New and the copy from WriteDiskConfig; the patterns in force stay those configured at start) whose complete state graph over a small location set is checked by TLC "
                "(all histories; invariants: only clean absolute paths matching a configured pattern may be opened, nothing without patterns, "
                "only the named file, no foreign scheme, spelling-independence). In 'gen' mode TLC prints one vector per (pattern list, location): "
                "24 pattern lists (exact, *, ?, [..], multi-star, pattern with '..', relative pattern) x ~6300 locations (absolute spellings up to 5 segments over "
                "names, '..', '.', empty segments; relative spellings; http/https/file/ftp URL-looking strings; siblings of the pattern directory whose names only begin like it; locations inside the server's own data directory) = ~151000 vectors with the sets of paths that "
                "add_url, set_url, loading from the configuration and a following refresh may open. Each vector is replayed into a real DNSFilter through the "
                "registered HTTP handlers (POST add_url, set_url, refresh; unvalidated list in Config.Filters) on a scratch tree of sentinel files; opens are observed "
                "with inotify IN_OPEN, by sentinel rules in the stored lists and by sentinel domains blocked by the rebuilt engine. Quick replays a seeded ~7% sample "
                "(one entry point each), thorough every vector through all three entry points. History dependence: SafePath.walk.cfg prints the 183024 edges of the "
                "state graph over (patterns, list table); they are covered by walks of up to 40 steps on one live instance each (quick: 12000 steps, thorough: all edges), "
                "compared after every step, a disagreement being reproduced by re-running the walk's prefix on a fresh instance. Direction B: a seeded driver (random trees, odd names, random globs, "
                "spellings, 25-step histories incl. restarts) is recorded and validated by TraceSafePath.tla on real path segments; a rejected line is reproduced "
                "by executing its epoch's logged history again up to that line.",
        "design_ref": "DESIGN.md section 4 C17",
        "note": "Trusted: TLC; conc()/abs() of zz_verif_c17_test.go (rendering of locations/globs, tree layout); inotify as the observer of open(2) "
                "(cross-checked against stored-list content on accepted requests). Symlink-free scratch tree, Linux path semantics. Opens above the scratch "
                "tree's root are not observed. Negated classes / ranges containing the separator are not generated. os.Stat before the pattern check is not an open.",
        "technique": "TLA+ state machine model-checked by TLC; TLC-generated vectors replayed into the real HTTP handlers; TLC trace validation of recorded histories",
    }
