\* Vector generation over real zone tables: tick = 1 s, sub-tick = 1 ns,
\* day 0 = 1970-01-01, a Thursday.
SPECIFICATION Spec
CONSTANTS
  TPD = 86400
  TPH = 3600
  TPM = 60
  SUB = 1000000000
  WD0 = 4
  Cases <- HostCases
  AllInstants = FALSE
  Emit = "rows"
INVARIANTS
  FullWeekCoversAll EmptyCoversNone FullDayExactlyItsDay EmptyDayExactlyNotItsDay
  HalfOpenOnWallClock RowsConsistent NonVacuousTable
  VerdictsSound RoundTripIdentity AllOrNothing
