PROPERTY = "C17"
ENTRY = {
        "text": "placeholder",
        "design_ref": "DESIGN.md section 4 C17",
        "note": "placeholder",
        "technique": "TLA+ spec enumerated by TLC; vector replay into real code + TLC trace validation",
    }
