--------------------------- MODULE TraceSchedule ---------------------------
(***************************************************************************)
(* Direction B of C18.  Each line of trace.ndjson is one observation of    *)
(* the real code on a random input from a larger universe than the one     *)
(* enumerated by Schedule.tla:                                             *)
(*                                                                         *)
(*  k = "eval"   Weekly.Contains(t) for a random (zone, instant, schedule);*)
(*               logged: unix second s and nanosecond n of the instant,    *)
(*               the zone's UTC offset at that instant, the wall-clock     *)
(*               weekday and second of the day the tz database gives, the  *)
(*               seven ranges (seconds, Sunday first), the answer got;     *)
(*  k = "build"  a random well-formed schedule that the decoders refused;  *)
(*  k = "ser"    a random serialised schedule (ms + ns): ser = <<accepted by *)
(*               UnmarshalJSON, accepted by UnmarshalYAML, all round trips *)
(*               returned the same schedule>>.                             *)
(*                                                                         *)
(* The verdicts are ScheduleCore's own operators applied to the logged     *)
(* integers.  For "eval" the zone is the one-entry table [base = logged    *)
(* offset]; the spec's wall clock (weekday, time of day) must first agree  *)
(* with the logged one -- if not, the line is a fault of the abstraction   *)
(* (counted in `mism`), not a verdict.                                     *)
(***************************************************************************)
EXTENDS Integers, Sequences, FiniteSets, TLC, Json

RS == INSTANCE ScheduleCore WITH TPD <- 86400, TPM <- 60, SUB <- 1000000000, WD0 <- 4
MS == INSTANCE ScheduleCore WITH TPD <- 86400000, TPM <- 60000, SUB <- 1000000, WD0 <- 4

Trace == ndJsonDeserialize("trace.ndjson")

VARIABLES l, bad, mism

\* w: seven [start, end] in ticks; wn: their sub-tick parts (zero except for
\* "ser" lines, where w is in ms and wn in ns below one ms, floor form).
Week(i) == [d \in 0 .. 6 |-> [s |-> Trace[i].w[d + 1][1], e |-> Trace[i].w[d + 1][2],
                              sn |-> Trace[i].wn[d + 1][1], en |-> Trace[i].wn[d + 1][2]]]
Zone(i) == [base |-> Trace[i].off, trans |-> <<>>]
Inst(i) == [s |-> Trace[i].s, n |-> Trace[i].n]

WallAgrees(i) == /\ RS!Weekday(Zone(i), Trace[i].s) = Trace[i].wd
                 /\ RS!TodTick(Zone(i), Trace[i].s) = Trace[i].tod

EvalOk(i) == RS!Contains(Week(i), Zone(i), Inst(i)) <=> (Trace[i].got = 1)

\* A refused schedule is a fault only if the statement says it is valid.
BuildOk(i) == "reject" \in RS!WeekVerdicts(Week(i))

\* ser[1] = 2: the JSON form was not exercised (a fraction that a binary
\* floating-point number of milliseconds cannot carry exactly).
SerOk(i) == LET v == MS!WeekVerdicts(Week(i))
                j == Trace[i].ser[1]
                accY == Trace[i].ser[2] = 1 IN
            /\ (j = 1 => "accept" \in v) /\ (j = 0 => "reject" \in v)
            /\ (accY => "accept" \in v) /\ (~accY => "reject" \in v)
            /\ Trace[i].ser[3] = 1          \* accepted: survived every round trip; rejected: receiver untouched

Ok(i) == CASE Trace[i].k = "eval"  -> EvalOk(i)
           [] Trace[i].k = "build" -> BuildOk(i)
           [] Trace[i].k = "ser"   -> SerOk(i)
           [] OTHER -> FALSE

Init == l = 1 /\ bad = {} /\ mism = {}
Next == /\ l <= Len(Trace)
        /\ IF Trace[l].k = "eval" /\ ~WallAgrees(l)
           THEN mism' = mism \cup {l} /\ bad' = bad
           ELSE mism' = mism /\ bad' = IF Ok(l) THEN bad ELSE bad \cup {l}
        /\ l' = l + 1
        /\ (l' = Len(Trace) + 1 =>
              PrintT(<<"@@V", ToJson([n |-> Len(Trace), bad |-> bad', mism |-> mism'])>>))
Spec == Init /\ [][Next]_<<l, bad, mism>>
=============================================================================
