SPECIFICATION Spec
CONSTANTS
  Up = {"u1", "u2", "u3", "u4"}
