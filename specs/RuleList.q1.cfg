SPECIFICATION Spec
CONSTANTS MaxLines = 2
          Shapes <- ShapesFull
          Endings <- EndingsAll
          Policies <- UniformPolicies
INVARIANTS Statement
