---------------------------- MODULE RewritesCore ----------------------------
(***************************************************************************)
(* C06 -- custom DNS rewrites: the documented precedence as a decision     *)
(* procedure.  Pure operators (no constants, no variables) so that the     *)
(* exhaustive model (Rewrites.tla) and trace validation (TraceRewrites.tla)*)
(* share one text.                                                         *)
(*                                                                         *)
(* Sources: the statement of C06; AGHTechDoc.md "Rewrites" (syntax of the  *)
(* table and its seven examples); the doc comments of findRewrites,        *)
(* matchesQType, Compare and processRewrites.                              *)
(*                                                                         *)
(* Vocabulary                                                              *)
(*   name     sequence of labels, e.g. <<"x","a","c">> ; <<>> = "no name"  *)
(*   entry    [w, n, k, ip, t]                                             *)
(*              w, n   the pattern: exact name n (w = FALSE) or the        *)
(*                     multi-level wildcard *.n (w = TRUE)                 *)
(*              k      "ip4" | "ip6"  an address (ip) of that family; the  *)
(*                     family is that of the text written: an IPv4-mapped  *)
(*                     IPv6 literal is "ip6"                               *)
(*                     "cname"        a canonical name (t)                 *)
(*                     "A" | "AAAA"   the exception keywords               *)
(*   table    SEQUENCE of entries (order is part of the input: duplicates  *)
(*            and equally specific entries are told apart by position)     *)
(*   qt       "A" | "AAAA" | anything else (written "TXT")                 *)
(*   outcome  [r, canon, ips, up]                                          *)
(*              r = "pass"  the table does not answer: the request is      *)
(*                          resolved as if there were no rewrites          *)
(*              r = "rw"    answered from the table: CNAME to canon (if    *)
(*                          canon # <<>>) followed by the addresses ips;   *)
(*                          up = TRUE: ips = {} and the records for canon  *)
(*                          are fetched upstream; up = FALSE and ips = {}: *)
(*                          the empty successful answer (NOERROR/NODATA)   *)
(*                                                                         *)
(* Outcomes(tab, h, qt) is the SET of admissible outcomes.  It is a        *)
(* singleton except where the statement is silent; every such place is     *)
(* marked SILENT below and listed in notes/C06.md (ties between CNAME       *)
(* entries, which wildcard entries compete, cycles).  The table is edited    *)
(* through TabAdd / TabDelete / TabUpdate (the three API calls); saving    *)
(* the configuration (TabSave) leaves it as it is.                         *)
(***************************************************************************)
EXTENDS Sequences, Naturals, FiniteSets

NoName == <<>>

IsProperSuffix(s, t) ==
    Len(s) < Len(t) /\ SubSeq(t, Len(t) - Len(s) + 1, Len(t)) = s

\* The pattern of an entry written as a name: "*.n" for a wildcard.
PatName(e) == IF e.w THEN <<"*">> \o e.n ELSE e.n

\* *.n matches every proper subdomain of n, at any depth, and not n itself.
Matches(e, h) == IF e.w THEN IsProperSuffix(e.n, h) ELSE e.n = h

IsCname(e) == e.k = "cname"
IsExc(e)   == e.k \in {"A", "AAAA"}

\* Address family asked for by a question type.
Fam(qt) == IF qt = "A" THEN "ip4" ELSE IF qt = "AAAA" THEN "ip6" ELSE "none"

\* The entry says something about type qt: an address of that family, or that
\* family's exception keyword.
HasValueFor(e, qt) == Fam(qt) # "none" /\ (e.k = Fam(qt) \/ e.k = qt)

\* Positions of the entries whose pattern matches h.
MatchIdx(tab, h) == {i \in DOMAIN tab : Matches(tab[i], h)}

(***************************************************************************)
(* "within one kind an exact-name entry shadows wildcard entries and among *)
(* wildcards the most specific wins": of a set S of positions that all     *)
(* match one host, the winners are the exact ones if there are any, else   *)
(* the wildcards with the longest pattern (all patterns are suffixes of    *)
(* the same host, so "longest" is "most labels").                          *)
(***************************************************************************)
BestOf(tab, S) ==
    LET ex == {i \in S : ~tab[i].w} IN
    IF ex # {} THEN ex
    ELSE {i \in S : \A j \in S : Len(tab[j].n) <= Len(tab[i].n)}

\* ------------------------------------------------------------------ CNAME
\* A name has one canonical name: the winners of the CNAME kind; if several
\* entries are equally good (duplicates of one pattern) any ONE of them is
\* followed -- SILENT (tie) --, so the caller quantifies over this set.
CnameWinners(tab, h) == BestOf(tab, {i \in MatchIdx(tab, h) : IsCname(tab[i])})

\* "name to itself": the answer is the host being resolved, or the answer is
\* the entry's own pattern text (sub.host.com -> sub.host.com,
\* *.sub.host.com -> *.sub.host.com).
IsSelf(e, h) == IsCname(e) /\ (e.t = h \/ e.t = PatName(e))

\* -------------------------------------------------------------- addresses
(***************************************************************************)
(* Known deviations.  Four behaviours of the implementation contradict the *)
(* statement and are listed as findings; so that a disagreement can be     *)
(* attributed to exactly one of them, every operator below takes a set L   *)
(* of deviations to ADMIT.  The specification proper is L = {} (Outcomes); *)
(* L # {} is used only to classify a disagreement that has already been    *)
(* established against L = {}.                                             *)
(*   "tie"    only ONE of several entries of the most specific wildcard    *)
(*            pattern is used (which one depends on the entry order)       *)
(*   "exact"  an exact address entry shadows only the wildcard entries     *)
(*            that have something to say about the requested type          *)
(*   "late"   an exception met on a canonical name lets the whole request  *)
(*            pass through, as if the CNAME entries followed did not exist *)
(* ("case", the letter case of canonical names, is a deviation too; it is  *)
(* a property of the way the table is written, see OutcomesAnyCase.)       *)
(***************************************************************************)
Deviations == {"tie", "exact", "late"}

(***************************************************************************)
(* Which address entries compete for a question of type qt?                *)
(*                                                                         *)
(* "Within one kind an exact-name entry shadows wildcard entries": the     *)
(* kinds are the two the statement has just named, CNAME and address       *)
(* (findRewrites: "if the host is matched exactly, wildcard entries aren't *)
(* returned").  So if ANY exact address entry -- either family, either     *)
(* keyword -- matches, the exact address entries are the candidates and    *)
(* the wildcard ones are out, also for a type the exact entries say        *)
(* nothing about (the answer is then empty).                               *)
(*                                                                         *)
(* Among wildcards "the most specific wins"; the documentation adds "for   *)
(* the question type" (findRewrites) and matchesQType includes the         *)
(* keyword of the other family.  Which wildcard entries compete is         *)
(* therefore SILENT (kind): all address entries ("kind"), those with       *)
(* something to say about qt ("family"), or those plus both keywords       *)
(* ("famexc").                                                             *)
(***************************************************************************)
Readings == {"kind", "family", "famexc"}

\* m is MatchIdx(tab, h), the positions matching the host being resolved.
AddrCands(tab, m, qt, r, L) ==
    LET addr == {i \in m : ~IsCname(tab[i])}
        ex   == {i \in addr : ~tab[i].w} IN
    IF Fam(qt) = "none" THEN {}
    ELSE IF ex # {} /\ "exact" \notin L THEN ex
    ELSE {i \in addr :
            \/ r = "kind"
            \/ HasValueFor(tab[i], qt)
            \/ r = "famexc" /\ IsExc(tab[i])}

(***************************************************************************)
(* The selected entries are ALL winners: host.com -> 1.2.3.4, host.com ->  *)
(* 1.2.3.5 answers both; host.com -> 1.2.3.4, host.com -> AAAA are both in *)
(* force; and the same for several entries of the most specific wildcard   *)
(* pattern -- the property is quantified over duplicates and any entry     *)
(* order, so the answer cannot depend on which of them comes first.        *)
(***************************************************************************)
AddrSelections(tab, m, qt, r, L) ==
    LET win == BestOf(tab, AddrCands(tab, m, qt, r, L)) IN
    IF win = {} THEN {{}}
    ELSE IF (\E i \in win : ~tab[i].w) \/ r = "kind" \/ "tie" \notin L THEN {win}
    ELSE (SUBSET win) \ {{}}

\* What a selection S says for qt: the family's exception keyword is an
\* exception whatever else is selected; otherwise the addresses of the family
\* (possibly none).
AddrResult(tab, S, qt) ==
    IF \E i \in S : tab[i].k = qt /\ IsExc(tab[i])
    THEN [exc |-> TRUE, ips |-> {}]
    ELSE [exc |-> FALSE, ips |-> {tab[i].ip : i \in {j \in S : tab[j].k = Fam(qt)}}]

AddrResults(tab, m, qt, L) ==
    {AddrResult(tab, S, qt) : S \in UNION {AddrSelections(tab, m, qt, r, L) : r \in Readings}}

\* ------------------------------------------------------------------ chase
Pass == [r |-> "pass", canon |-> NoName, ips |-> {}, up |-> TRUE]
Rw(canon, ips, up) == [r |-> "rw", canon |-> canon, ips |-> ips, up |-> up]

\* State of the chase: current host, names seen so far (incl. the queried
\* one), canonical name so far (<<>> while still at the queried name).
ChaseInit(h0) == [h |-> h0, visited |-> {h0}, canon |-> NoName]
NoChase == [h |-> NoName, visited |-> {}, canon |-> NoName]

Done(o)  == [done |-> TRUE,  out |-> o,    cs |-> NoChase]
Cont(cs) == [done |-> FALSE, out |-> Pass, cs |-> cs]

(***************************************************************************)
(* One step of the evaluation at host cs.h.  Result: a set of Done / Cont  *)
(* records (a set because of the SILENT places).                           *)
(*                                                                         *)
(* 1. CNAME entries take precedence over address entries: if any CNAME     *)
(*    entry matches, only CNAME entries are considered.                    *)
(*    a. a "name to itself" entry is the pass-through exception of THAT    *)
(*       name.  For the queried name itself the request passes through.    *)
(*       When the chase arrives at such a name through other rewrites the  *)
(*       CNAME entries followed so far stand ("a CNAME is followed ...     *)
(*       else resolved upstream with the original name restored"): the     *)
(*       canonical name is resolved upstream.                              *)
(*    b. the canonical name was seen before: a cycle.  The statement only  *)
(*       demands termination and no invented address -- SILENT (cycle):    *)
(*       pass-through, or a CNAME to one of the names on the way resolved  *)
(*       upstream.                                                         *)
(*    c. otherwise the CNAME is followed through further rewrites.         *)
(* 2. No CNAME entry matches.                                              *)
(*    a. nothing matches: the queried name is not in the table (pass), or  *)
(*       the canonical name is resolved upstream.                          *)
(*    b. the family's exception keyword is selected: as 1a.                *)
(*    c. otherwise the selected addresses; none = the name is in the table *)
(*       without a value for this type = empty successful answer, never    *)
(*       the upstream's.                                                   *)
(***************************************************************************)
StepResults(tab, h0, qt, cs, L) ==
    LET h     == cs.h
        first == cs.canon = NoName
        m     == MatchIdx(tab, h)
        cw    == BestOf(tab, {i \in m : IsCname(tab[i])})     \* = CnameWinners(tab, h)
        Exception == IF first THEN {Done(Pass)}
                     ELSE IF "late" \in L THEN {Done(Pass), Done(Rw(cs.canon, {}, TRUE))}
                     ELSE {Done(Rw(cs.canon, {}, TRUE))}
    IN
    IF cw # {}
    THEN UNION {
           LET e == tab[i] IN
           IF IsSelf(e, h) THEN Exception
           ELSE IF e.t \in cs.visited
                THEN {Done(Pass)} \cup {Done(Rw(n, {}, TRUE)) : n \in cs.visited \ {h0}}
           ELSE {Cont([h |-> e.t, visited |-> cs.visited \cup {e.t}, canon |-> e.t])}
         : i \in cw}
    ELSE IF m = {}
    THEN IF first THEN {Done(Pass)} ELSE {Done(Rw(cs.canon, {}, TRUE))}
    ELSE UNION {
           IF a.exc THEN Exception ELSE {Done(Rw(cs.canon, a.ips, FALSE))}
         : a \in AddrResults(tab, m, qt, L)}

\* All outcomes reachable from a chase state.  The recursion is well founded
\* because every Cont strictly enlarges visited by an answer of the table
\* (checked by TLC: Rewrites!VariantGrows, Rewrites!VariantBounded and the
\* liveness property Rewrites!Terminates).
RECURSIVE OutcomesFrom(_, _, _, _, _)
OutcomesFrom(tab, h0, qt, cs, L) ==
    UNION {IF s.done THEN {s.out} ELSE OutcomesFrom(tab, h0, qt, s.cs, L)
           : s \in StepResults(tab, h0, qt, cs, L)}

OutcomesL(tab, h0, qt, L) == OutcomesFrom(tab, h0, qt, ChaseInit(h0), L)
\* The specification.
Outcomes(tab, h0, qt) == OutcomesL(tab, h0, qt, {})

(***************************************************************************)
(* Letter case of the ANSWER of a CNAME entry.  DNS names do not have a    *)
(* letter case: a canonical name written "Host.Example" is host.example    *)
(* -- it continues at the entry for host.example, and "Pass.Host.Com ->    *)
(* Pass.Host.Com" is the documented "key" self exception.  The table of    *)
(* the specification is therefore the one with all names folded to lower   *)
(* case, whatever the spelling.  The deviation "case" (a finding) reads    *)
(* such an answer verbatim: a name of its own that no pattern matches and  *)
(* that equals no pattern text, so it is neither followed nor a "name to   *)
(* itself".  The harness only writes answers in which EVERY label differs  *)
(* in case from the lower-case form, so "verbatim" is exactly "a foreign   *)
(* name": Estrange appends a label no pattern ends in.  Names in outcomes  *)
(* are compared case-insensitively (Unmark).  Termination is demanded      *)
(* whatever the spelling.                                                  *)
(***************************************************************************)
Mark == "^"
Estrange(e) == IF IsCname(e) THEN [e EXCEPT !.t = @ \o <<Mark>>] ELSE e
Unmark(n) == IF n # <<>> /\ n[Len(n)] = Mark THEN SubSeq(n, 1, Len(n) - 1) ELSE n
UnmarkOut(o) == [o EXCEPT !.canon = Unmark(@)]
\* mixed(i): is the answer of entry i written in another case?  The outcomes
\* when those answers are read verbatim (deviation "case"), other deviations L.
OutcomesVerbatim(tab, mixed(_), h0, qt, L) ==
    {UnmarkOut(o) : o \in OutcomesL([i \in DOMAIN tab |-> IF mixed(i) THEN Estrange(tab[i]) ELSE tab[i]], h0, qt, L)}

(***************************************************************************)
(* The table changes through three API calls; the outcome of a query       *)
(* depends on the CURRENT table only (Outcomes has no other argument).     *)
(*   add     appends the entry;                                            *)
(*   delete  removes every entry equal to the given one (none: no change); *)
(*   update  replaces the first entry equal to old IN PLACE by new; if     *)
(*           there is none the call fails and nothing changes.             *)
(***************************************************************************)
\* Writing the configuration to disk is not an edit: the table, and with it
\* the outcome of every query, is what it was.
TabSave(tab) == tab
TabAdd(tab, e) == Append(tab, e)
TabDelete(tab, e) == SelectSeq(tab, LAMBDA x : x # e)
TabUpdate(tab, old, new) ==
    IF \E i \in DOMAIN tab : tab[i] = old
    THEN [ok |-> TRUE,
          tab |-> LET k == CHOOSE i \in DOMAIN tab : tab[i] = old /\ \A j \in DOMAIN tab : tab[j] = old => i <= j
                  IN [tab EXCEPT ![k] = new]]
    ELSE [ok |-> FALSE, tab |-> tab]

\* The name whose addresses an outcome carries.
FinalName(o, h0) == IF o.canon = NoName THEN h0 ELSE o.canon

(***************************************************************************)
(* What the client and the upstream see (the pipeline clauses).  The       *)
(* upstream is a function UpMode from a name to what it does when asked:   *)
(*   "answer"    records for the name, NOERROR                             *)
(*   "nodata"    no records, NOERROR                                       *)
(*   "nxdomain"  no records, NXDOMAIN                                      *)
(*   "servfail"  no records, SERVFAIL                                      *)
(*   "error"     no reply at all (unreachable, timeout)                    *)
(* The observation:                                                        *)
(*   ask     the questions put to the upstream: none or exactly one        *)
(*   cname   target of the CNAME record that leads the answer, or <<>>     *)
(*   ips     addresses answered from the table                             *)
(*   fromup  the name whose upstream records complete the answer, or <<>>  *)
(*   rcode   reply code: NOERROR when the table answers; the upstream's    *)
(*           when the request (pass) or the canonical name is resolved     *)
(*           upstream                                                      *)
(* The question section of the reply is ALWAYS the client's own question   *)
(* and the CNAME record of a followed rewrite is ALWAYS there, whatever    *)
(* the upstream says about the canonical name ("resolved upstream with     *)
(* the original name restored in the answer").                             *)
(***************************************************************************)
UpModes == {"answer", "nodata", "nxdomain", "servfail", "error"}
UpRcode(m) == IF m = "nxdomain" THEN "NXDOMAIN" ELSE IF m \in {"servfail", "error"} THEN "SERVFAIL" ELSE "NOERROR"

\* ("error": the upstream cannot be reached or times out.  The reply is a
\* server failure without an answer section -- whether it still carries the
\* CNAME record is SILENT (cnameopt) -- but, like every reply, for the client's
\* own question.)
Serve(o, h0, qt, UpMode(_)) ==
    IF o.r = "pass"
    THEN [ask |-> {<<h0, qt>>}, cname |-> NoName, ips |-> {},
          fromup |-> IF UpMode(h0) = "answer" THEN h0 ELSE NoName, rcode |-> UpRcode(UpMode(h0)),
          cnameopt |-> FALSE]
    ELSE IF o.up
    THEN [ask |-> {<<o.canon, qt>>}, cname |-> o.canon, ips |-> {},
          fromup |-> IF UpMode(o.canon) = "answer" THEN o.canon ELSE NoName,
          rcode |-> UpRcode(UpMode(o.canon)), cnameopt |-> UpMode(o.canon) = "error"]
    ELSE [ask |-> {}, cname |-> o.canon, ips |-> o.ips, fromup |-> NoName, rcode |-> "NOERROR",
          cnameopt |-> FALSE]

\* The deviation "fwd" (a finding): a canonical name that is in the table
\* without a value for the type is resolved upstream all the same.
Forwarded(outs) ==
    outs \cup {Rw(o.canon, {}, TRUE) : o \in {x \in outs : x.r = "rw" /\ x.canon # NoName /\ x.ips = {} /\ ~x.up}}
=============================================================================
