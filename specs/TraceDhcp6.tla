---------------------------- MODULE TraceDhcp6 ----------------------------
(***************************************************************************)
(* Direction B for G06 (A).  trace.ndjson holds a header line (the         *)
(* universe of the run) followed by one line per action executed on the    *)
(* real DHCPv6 server in long random histories over a universe larger than *)
(* the exhaustive one: the action and its arguments, the projected table   *)
(* before (src) and after (dst), the v6 part of leases.json before         *)
(* (srcdisk) and after (disk), the reply (out), and the disagreements      *)
(* between the server's own structures and answers found by the harness    *)
(* before (srcprob) and after (prob) the step.                             *)
(*                                                                         *)
(* A line is accepted iff (dst, out) is one of the outcomes that Dhcp6's   *)
(* own operator for that action admits in src, every lease is listed once, *)
(* the database satisfies Dhcp6's store rule for that outcome, and no new  *)
(* structural disagreement appeared.  After every line the specification   *)
(* state is re-synchronised to the observed one, so each rejected line is  *)
(* reported by itself.                                                     *)
(***************************************************************************)
EXTENDS Integers, Sequences, FiniteSets, TLC, Json

Trace == ndJsonDeserialize("trace.ndjson")
Hdr   == Trace[1]
SetOf(s) == {s[i] : i \in DOMAIN s}

VARIABLES ls, disk, l, bad

D == INSTANCE Dhcp6 WITH Macs <- SetOf(Hdr.macs), Pool <- SetOf(Hdr.pool), Outs <- SetOf(Hdr.outs),
                         GW <- 1000000, Far <- 1000001, ReqHosts <- {""}, BadHosts <- {},
                         StaticHosts <- SetOf(Hdr.stathosts), MaxStatic <- 1000000, LeaseT <- 1

\* <<mac, ip, -1 for a reservation else 1 = acknowledged and unexpired / 0,
\* host>> as the harness writes leases (Dhcp4's EncL with LeaseT = 1).
Dec(t)   == D!Lease(t[1], t[2], t[3] = -1, t[3] = 1, t[4])
DecS(s)  == {Dec(s[i]) : i \in DOMAIN s}
Once(s)  == Cardinality(DecS(s)) = Len(s) /\ \A i \in DOMAIN s : s[i][3] \in {-1, 0, 1}

Outcomes(S, Dk, a) ==
    CASE a.act = "Solicit"      -> D!Solicit6Out(S, a.m)
      [] a.act = "Request"      -> D!Request6Out(S, a.m, a.kind, a.a)
      [] a.act = "Decline"      -> D!Decline6Out(S, a.m, a.a)
      [] a.act = "Release"      -> D!Release6Out(S, a.m, a.a)
      [] a.act = "Expire"       -> D!ExpireOut(S, a.a)
      [] a.act = "AddStatic"    -> D!AddStatic6Out(S, a.m, a.a, a.h)
      [] a.act = "UpdateStatic" -> D!UpdateStatic6Out(S, a.m, a.a, a.h)
      [] a.act = "RemoveStatic" -> D!RemoveStatic6Out(S, a.m, a.a)
      [] a.act = "Restart"      -> D!Restart6Out(Dk)
      [] OTHER                  -> {}

\* The observed reply against the reply class of an outcome.
ReplyOK(o, obs, dst, m) ==
    CASE o.out.k \in {"offer", "ack"} -> obs.k = o.out.k /\ obs.ip = o.out.ip
      [] o.out.k = "refuse"           -> obs.k \in {"none", "nak"}
      [] o.out.k = "any"              -> obs.ip = 0 \/ \E x \in dst : x.mac = m /\ x.ip = obs.ip
      [] o.out.k \in {"ok", "err"}    -> obs.k = o.out.k
      [] OTHER                        -> obs.k = "-"

\* Why a line is rejected ("" = accepted).
Why(S, Dk, t) ==
    LET dst  == DecS(t.dst)
        dk   == DecS(t.disk)
        outs == Outcomes(S, Dk, t.act)
        rule(o) == IF t.act.act = "Restart" THEN 2 ELSE D!StoreRule(S, o)
        diskOK(o) == dk \in D!Disks(S, Dk, o, rule(o))
    IN  IF DecS(t.src) # S \/ DecS(t.srcdisk) # Dk THEN "src"
        ELSE IF ~Once(t.dst) THEN "state"
        ELSE IF \A o \in outs : o.dst # dst THEN "state"
        ELSE IF \A o \in outs : o.dst = dst => ~ReplyOK(o, t.out, dst, t.act.m) THEN "reply"
        ELSE IF ~Once(t.disk) THEN "disk"
        ELSE IF \A o \in outs : (o.dst = dst /\ ReplyOK(o, t.out, dst, t.act.m)) => ~diskOK(o) THEN "disk"
        ELSE IF ~(SetOf(t.prob) \subseteq SetOf(t.srcprob)) THEN "structures"
        ELSE ""
Want(S, Dk, t) == {<<o.dst = S, D!EncS(o.dst), o.out.k, o.out.ip,
                     IF t.act.act = "Restart" THEN 2 ELSE D!StoreRule(S, o)>> : o \in Outcomes(S, Dk, t.act)}

Init == ls = {} /\ disk = {} /\ l = 2 /\ bad = {}
Next == /\ l <= Len(Trace)
        /\ LET t  == Trace[l]
               S  == IF t.reset THEN {} ELSE ls
               Dk == IF t.reset THEN {} ELSE disk
               w  == Why(S, Dk, t)
           IN  /\ bad' = IF w = "" THEN bad ELSE bad \cup {[l |-> l, why |-> w, want |-> Want(S, Dk, t)]}
               /\ ls' = DecS(t.dst)
               /\ disk' = DecS(t.disk)
        /\ l' = l + 1
        /\ (l' = Len(Trace) + 1 => PrintT(<<"@@V", ToJson([n |-> Len(Trace), bad |-> bad'])>>))
Spec == Init /\ [][Next]_<<ls, disk, l, bad>>
=============================================================================
