package home

// G03 conformance harness, package home: the persistent client's own safe
// search through the REAL client life cycle.
//
// The scenario vectors of specs/SafeSearch.tla (RespSpec: global settings x
// persistent client x protection x requester x name -> per query type the
// admissible verdicts) are replayed into one long-lived installation:
//   - the clients container of package home (clientsContainer.Init, HTTP
//     handlers POST /control/clients/add | update | delete -> jsonToClient,
//     which builds the client's own engine);
//   - the filtering configuration prepared by home's own
//     setupDNSFilteringConf (which builds the global engine) and
//     filtering.New; global settings through PUT
//     /control/safesearch/settings;
//   - seeded restarts: what config.write would persist (WriteDiskConfig,
//     clientsContainer.forConfig) goes through YAML and a new installation is
//     started from it (clientObject.toPersistent builds the engines).
// Questions are asked the way dnsforward does (Settings +
// ApplyAdditionalFiltering + CheckHost).

import (
	"bytes"
	"context"
	"encoding/json"
	"fmt"
	"math/rand"
	"net/http"
	"net/http/httptest"
	"net/netip"
	"sort"
	"strings"
	"testing"

	"github.com/AdguardTeam/AdGuardHome/internal/client"
	"github.com/AdguardTeam/AdGuardHome/internal/filtering"
	"github.com/AdguardTeam/AdGuardHome/internal/schedule"
	"github.com/AdguardTeam/golibs/logutil/slogutil"
	"github.com/miekg/dns"
	"gopkg.in/yaml.v3"
)

type zzG03Conf struct {
	En bool     `json:"en"`
	Sv []string `json:"sv"`
}

type zzG03Client struct {
	Known bool      `json:"known"`
	Own   bool      `json:"own"`
	Conf  zzG03Conf `json:"conf"`
}

type zzG03Verdict struct {
	K string `json:"k"`
	V string `json:"v"`
}

type zzG03Vec struct {
	T    string                    `json:"t"`
	G    zzG03Conf                 `json:"g"`
	Cl   zzG03Client               `json:"cl"`
	Prot bool                      `json:"prot"`
	Who  string                    `json:"who"`
	Q    string                    `json:"q"`
	LC   string                    `json:"lc"`
	V    map[string][]zzG03Verdict `json:"v"`
}

var zzG03AllSvcs = []string{"bing", "duckduckgo", "ecosia", "google", "pixabay", "yandex", "youtube"}

var zzG03Qtypes = map[string]uint16{
	"A": dns.TypeA, "AAAA": dns.TypeAAAA, "HTTPS": dns.TypeHTTPS, "TXT": dns.TypeTXT,
	"CNAME": dns.TypeCNAME, "MX": dns.TypeMX, "ANY": dns.TypeANY, "SVCB": dns.TypeSVCB,
}

const (
	zzG03KidIP   = "192.0.2.5"
	zzG03OtherIP = "192.0.2.77"
)

func zzG03Field(c *filtering.SafeSearchConfig, svc string) (p *bool) {
	switch svc {
	case "bing":
		return &c.Bing
	case "duckduckgo":
		return &c.DuckDuckGo
	case "ecosia":
		return &c.Ecosia
	case "google":
		return &c.Google
	case "pixabay":
		return &c.Pixabay
	case "yandex":
		return &c.Yandex
	case "youtube":
		return &c.YouTube
	default:
		panic("zzG03: service unknown to the harness: " + svc)
	}
}

func zzG03Conc(c zzG03Conf) (fc filtering.SafeSearchConfig) {
	fc.Enabled = c.En
	for _, s := range c.Sv {
		*zzG03Field(&fc, s) = true
	}

	return fc
}

func zzG03Abs(fc filtering.SafeSearchConfig) (c zzG03Conf) {
	c.En = fc.Enabled
	c.Sv = []string{}
	for _, s := range zzG03AllSvcs {
		if *zzG03Field(&fc, s) {
			c.Sv = append(c.Sv, s)
		}
	}

	return c
}

func zzG03SameConf(a, b zzG03Conf) (ok bool) {
	x, y := append([]string{}, a.Sv...), append([]string{}, b.Sv...)
	sort.Strings(x)
	sort.Strings(y)

	return a.En == b.En && strings.Join(x, ",") == strings.Join(y, ",")
}

func zzG03AbsResult(res filtering.Result, err error) (v zzG03Verdict) {
	switch {
	case err != nil:
		return zzG03Verdict{K: "err", V: err.Error()}
	case !res.IsFiltered && res.Reason == filtering.NotFilteredNotFound && res.CanonName == "" && len(res.Rules) == 0 && len(res.IPList) == 0:
		return zzG03Verdict{K: "pass"}
	case res.IsFiltered && res.Reason == filtering.FilteredSafeSearch:
		switch {
		case res.CanonName != "" && len(res.Rules) == 0 && len(res.IPList) == 0:
			return zzG03Verdict{K: "cname", V: res.CanonName}
		case res.CanonName == "" && len(res.Rules) == 1 && res.Rules[0].IP.IsValid() && len(res.IPList) == 0:
			return zzG03Verdict{K: "ip", V: res.Rules[0].IP.String()}
		case res.CanonName == "" && len(res.Rules) == 0 && len(res.IPList) == 0:
			return zzG03Verdict{K: "nodata"}
		}
	}

	return zzG03Verdict{K: "other", V: fmt.Sprintf("filtered=%v reason=%s canon=%q rules=%d", res.IsFiltered, res.Reason, res.CanonName, len(res.Rules))}
}

func zzG03Admissible(got zzG03Verdict, want []zzG03Verdict) (ok bool) {
	for _, w := range want {
		if w.K == got.K && (w.V == got.V || w.K == "pass" || w.K == "nodata") {
			return true
		}
	}

	return false
}

// zzG03Inst is one running installation.
type zzG03Inst struct {
	clients  *clientsContainer
	flt      *filtering.DNSFilter
	handlers map[string]http.HandlerFunc
	g        zzG03Conf
	cl       zzG03Client
	reconf   int
	boots    int
	legacyJS int
}

// zzG03Boot starts an installation from what a configuration file holds.
func zzG03Boot(dir string, g filtering.SafeSearchConfig, objs []*clientObject) (in *zzG03Inst, err error) {
	ctx := context.Background()
	logger := slogutil.NewDiscardLogger()
	in = &zzG03Inst{handlers: map[string]http.HandlerFunc{}}
	globalContext.workDir = dir
	fc := &filtering.Config{
		SafeSearchConf:      g,
		SafeSearchCacheSize: 1 << 20,
		CacheTime:           30,
		ProtectionEnabled:   true,
		FilteringEnabled:    true,
		BlockingMode:        filtering.BlockingModeDefault,
		BlockedServices:     &filtering.BlockedServices{Schedule: schedule.EmptyWeekly()},
	}

	in.clients = &clientsContainer{testing: true}
	err = in.clients.Init(ctx, logger, objs, client.EmptyDHCP{}, nil, nil, fc, newSignalHandler(nil, nil))
	if err != nil {
		return nil, fmt.Errorf("clients init: %w", err)
	}

	// Home's own preparation of the filtering configuration: builds the
	// global safe search engine from fc.SafeSearchConf.
	err = setupDNSFilteringConf(ctx, logger, fc, &tlsManager{})
	if err != nil {
		return nil, fmt.Errorf("setupDNSFilteringConf: %w", err)
	}

	fc.ConfigModified = func() {}
	fc.HTTPRegister = func(_, path string, h http.HandlerFunc) { in.handlers[path] = h }
	fc.Filters, fc.WhitelistFilters, fc.UserRules = nil, nil, nil
	fc.EtcHosts = nil
	in.flt, err = filtering.New(fc, nil)
	if err != nil {
		return nil, fmt.Errorf("filtering.New: %w", err)
	}

	in.flt.SetEnabled(true)
	in.flt.RegisterFilteringHandlers()
	in.g = zzG03Abs(g)
	in.cl = zzG03Client{Conf: zzG03Conf{Sv: []string{}}}
	for _, o := range objs {
		if o.Name == "kid" {
			in.cl = zzG03Client{Known: true, Own: !o.UseGlobalSettings, Conf: zzG03Abs(o.SafeSearchConf)}
		}
	}

	return in, nil
}

func (in *zzG03Inst) close() { in.flt.Close() }

func zzG03Call(h http.HandlerFunc, method, path string, body any) (err error) {
	b, _ := json.Marshal(body)
	r := httptest.NewRequest(method, path, bytes.NewReader(b))
	r.Header.Set("Content-Type", "application/json")
	w := httptest.NewRecorder()
	if h == nil {
		return fmt.Errorf("no handler for %s", path)
	}

	h(w, r)
	if w.Code != http.StatusOK {
		return fmt.Errorf("%s: http %d: %s", path, w.Code, strings.TrimSpace(w.Body.String()))
	}

	return nil
}

// clientJSONFor renders the client as the web interface would post it; when
// the settings are expressible that way, a seeded half of the time in the
// deprecated form (safesearch_enabled, no safe_search object).
func (in *zzG03Inst) clientJSONFor(cl zzG03Client, rng *rand.Rand) (m map[string]any) {
	m = map[string]any{
		"name": "kid", "ids": []string{zzG03KidIP},
		"use_global_settings": !cl.Own, "filtering_enabled": rng.Intn(2) == 0,
		"use_global_blocked_services": true,
	}
	deprecated := (cl.Conf.En && len(cl.Conf.Sv) == len(zzG03AllSvcs)) || (!cl.Conf.En && len(cl.Conf.Sv) == 0)
	if deprecated && rng.Intn(2) == 0 {
		m["safesearch_enabled"] = cl.Conf.En
		in.legacyJS++
	} else {
		m["safe_search"] = zzG03Conc(cl.Conf)
	}

	return m
}

func (in *zzG03Inst) reconfigure(g zzG03Conf, cl zzG03Client, rng *rand.Rand) (err error) {
	if !zzG03SameConf(in.g, g) {
		path := "/control/safesearch/settings"
		if err = zzG03Call(in.handlers[path], http.MethodPut, path, zzG03Conc(g)); err != nil {
			return err
		}

		in.g = g
		in.reconf++
	}

	if in.cl.Known != cl.Known || in.cl.Own != cl.Own || !zzG03SameConf(in.cl.Conf, cl.Conf) {
		switch {
		case !cl.Known:
			err = zzG03Call(in.clients.handleDelClient, http.MethodPost, "/control/clients/delete", map[string]any{"name": "kid"})
		case in.cl.Known:
			err = zzG03Call(in.clients.handleUpdateClient, http.MethodPost, "/control/clients/update",
				map[string]any{"name": "kid", "data": in.clientJSONFor(cl, rng)})
		default:
			err = zzG03Call(in.clients.handleAddClient, http.MethodPost, "/control/clients/add", in.clientJSONFor(cl, rng))
		}
		if err != nil {
			return err
		}

		in.cl = cl
		in.reconf++
	}

	return nil
}

// restart persists the configuration (through YAML) and starts a new
// installation from it.
func (in *zzG03Inst) restart(dir string) (n *zzG03Inst, err error) {
	disk := filtering.Config{}
	in.flt.WriteDiskConfig(&disk)
	gy, err := yaml.Marshal(disk.SafeSearchConf)
	if err != nil {
		return nil, err
	}

	cy, err := yaml.Marshal(in.clients.forConfig())
	if err != nil {
		return nil, err
	}

	var g filtering.SafeSearchConfig
	var objs []*clientObject
	if err = yaml.Unmarshal(gy, &g); err != nil {
		return nil, err
	}

	if err = yaml.Unmarshal(cy, &objs); err != nil {
		return nil, err
	}

	in.close()
	n, err = zzG03Boot(dir, g, objs)
	if n != nil {
		n.reconf, n.boots, n.legacyJS = in.reconf, in.boots+1, in.legacyJS
	}

	return n, err
}

func (in *zzG03Inst) query(who string, prot bool, name, qt string) (v zzG03Verdict) {
	ip := zzG03OtherIP
	if who == "client" {
		ip = zzG03KidIP
	}

	setts := in.flt.Settings()
	setts.ProtectionEnabled = prot
	in.flt.ApplyAdditionalFiltering(netip.MustParseAddr(ip), "", setts)

	return zzG03AbsResult(in.flt.CheckHost(name, zzG03Qtypes[qt], setts))
}

// projection: what the installation itself reports.
func (in *zzG03Inst) projection() (g zzG03Conf, cl zzG03Client) {
	disk := filtering.Config{}
	in.flt.WriteDiskConfig(&disk)
	g = zzG03Abs(disk.SafeSearchConf)
	cl = zzG03Client{Conf: zzG03Conf{Sv: []string{}}}
	if p, ok := in.clients.storage.FindByName("kid"); ok {
		cl = zzG03Client{Known: true, Own: p.UseOwnSettings, Conf: zzG03Abs(p.SafeSearchConf)}
	}

	return g, cl
}

// TestZZVerifG03Home replays the scenario vectors at verdict level.
func TestZZVerifG03Home(t *testing.T) {
	w := zzNewWriter(t, "VERIF_OUT")
	defer w.close()

	rng := rand.New(rand.NewSource(zzSeed()))
	groups := map[string][]*zzG03Vec{}
	var keys []string
	zzReadNDJSON(t, "VERIF_IN", func(line []byte) {
		v := &zzG03Vec{}
		if err := json.Unmarshal(line, v); err != nil {
			t.Fatalf("bad vector: %v", err)
		}

		k, _ := json.Marshal([]any{v.G, v.Cl})
		if _, ok := groups[string(k)]; !ok {
			keys = append(keys, string(k))
		}

		groups[string(k)] = append(groups[string(k)], v)
	})
	if len(keys) == 0 {
		t.Fatalf("no vectors")
	}

	dir := t.TempDir()
	live, err := zzG03Boot(dir, filtering.SafeSearchConfig{}, nil)
	if err != nil {
		t.Fatalf("boot: %v", err)
	}
	defer func() { live.close() }()

	n, evals, bad, flaky := 0, 0, 0, 0
	var qts []string
	rng.Shuffle(len(keys), func(i, j int) { keys[i], keys[j] = keys[j], keys[i] })
	for gi, k := range keys {
		vs := groups[k]
		if err = live.reconfigure(vs[0].G, vs[0].Cl, rng); err != nil {
			t.Fatalf("reconfiguring: %v", err)
		}

		if gi%7 == 3 {
			if live, err = live.restart(dir); err != nil {
				t.Fatalf("restart: %v", err)
			}
		}

		if pg, pcl := live.projection(); !zzG03SameConf(pg, vs[0].G) || pcl.Known != vs[0].Cl.Known ||
			(pcl.Known && (pcl.Own != vs[0].Cl.Own || !zzG03SameConf(pcl.Conf, vs[0].Cl.Conf))) {
			bad++
			w.put(map[string]any{"kind": "bad", "leg": "home", "g": vs[0].G, "cl": vs[0].Cl, "want": []any{vs[0].G, vs[0].Cl}, "got": []any{pg, pcl},
				"concrete": "configuration read back after add/update/restart", "how": fmt.Sprintf("after %d reconfigurations and %d restarts", live.reconf, live.boots)})

			continue
		}

		rng.Shuffle(len(vs), func(i, j int) { vs[i], vs[j] = vs[j], vs[i] })
		for _, v := range vs {
			n++
			if qts == nil {
				for qt := range v.V {
					qts = append(qts, qt)
				}
				sort.Strings(qts)
			}

			for _, qt := range qts {
				evals++
				want := v.V[qt]
				got := live.query(v.Who, v.Prot, v.Q, qt)
				if zzG03Admissible(got, want) {
					continue
				}

				// Reproduce: again, and alone on an installation started from
				// a configuration file that says (g, cl).
				got2 := live.query(v.Who, v.Prot, v.Q, qt)
				var objs []*clientObject
				if v.Cl.Known {
					objs = []*clientObject{{
						Name: "kid", IDs: []string{zzG03KidIP}, UseGlobalSettings: !v.Cl.Own, UseGlobalBlockedServices: true,
						SafeSearchConf: zzG03Conc(v.Cl.Conf),
					}}
				}

				alone, aerr := zzG03Boot(t.TempDir(), zzG03Conc(v.G), objs)
				if aerr != nil {
					t.Fatalf("boot: %v", aerr)
				}

				got3 := alone.query(v.Who, v.Prot, v.Q, qt)
				alone.close()
				globalContext.workDir = dir
				rec := map[string]any{"leg": "home", "g": v.G, "cl": v.Cl, "prot": v.Prot, "who": v.Who, "q": v.Q, "lc": v.LC, "qt": qt, "want": want,
					"concrete": fmt.Sprintf("%s %s from %s prot=%v", v.Q, qt, v.Who, v.Prot)}
				switch {
				case !zzG03Admissible(got3, want):
					bad++
					rec["kind"], rec["got"], rec["how"] = "bad", got3, "alone on an installation started from this configuration"
				case !zzG03Admissible(got2, want):
					bad++
					rec["kind"], rec["got"] = "bad", got2
					rec["how"] = fmt.Sprintf("history-dependent: after %d reconfigurations through the HTTP API and %d restarts; admissible alone", live.reconf, live.boots)
				default:
					flaky++
					rec["kind"], rec["got"] = "flaky", got
				}
				w.put(rec)
			}
		}
	}

	w.put(map[string]any{"kind": "summary", "leg": "home", "n": n, "evaluations": evals, "bad": bad, "flaky": flaky,
		"reconfigurations": live.reconf, "restarts": live.boots, "deprecated_client_form": live.legacyJS})
}
