SPECIFICATION Spec
CONSTANTS
  Universe = "mc"
  MaxSet = 2
  MaxReq = 2
  Emitting = FALSE
INVARIANTS LastPostedRules LoadedDefaults ExcludedNeverServed BlockedNameNeverServed SilentOnDatagram OthersServed ExceptedNameIsServed HostSpellingIrrelevant PresentationIrrelevant TypeIrrelevantForPlainPatterns AllowModeIgnoresDisallowed OnlyIdsAllowedExcludesAnonymous BlockModeOneMatchSuffices EmptyListsExcludeNobody EntrySpellingIrrelevant InvalidIdNeverServed
PROPERTIES DeniedMovesNothing ServedIsObserved SetListsMovesNothing
VIEW NoHistory
