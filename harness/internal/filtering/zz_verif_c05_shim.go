package filtering

import "time"

// ZZVerifRefreshStep runs one step of the periodic filter-refresh worker, as
// updatesLoop does when its timer fires.  Overlaid at build time by the C05
// check (never part of the repository): the worker's real timer fires after
// 5 s and then hourly, too rarely for a stress run.  Time passing is part of
// the environment: every list is first made two hours older, so that the
// worker finds lists that are due and really downloads them (otherwise a
// step within an hour of the last one would select nothing).
func (d *DNSFilter) ZZVerifRefreshStep() {
	func() {
		d.conf.filtersMu.Lock()
		defer d.conf.filtersMu.Unlock()

		for i := range d.conf.Filters {
			d.conf.Filters[i].LastUpdated = d.conf.Filters[i].LastUpdated.Add(-2 * time.Hour)
		}

		for i := range d.conf.WhitelistFilters {
			d.conf.WhitelistFilters[i].LastUpdated = d.conf.WhitelistFilters[i].LastUpdated.Add(-2 * time.Hour)
		}
	}()

	d.periodicallyRefreshFilters(time.Second)
}
