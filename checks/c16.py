"""C16 -- ClientIDs only from a well-formed DoH path or server-name label."""
import json
import os
import random
import vlib

PKG = "internal/dnsforward"
FILES = ["zz_verif_common_test.go", "zz_verif_c16_test.go"]


def classify(rec):
    """Narrow keys of the genuine defects found for C16 (all fixed in /repo, so they suppress nothing)."""
    want = rec.get("want") or []
    i = rec.get("in") or {}
    h, c = i.get("host") or [], i.get("cli") or []
    if h and len(c) >= len(h) and not str(rec.get("how", "")).startswith("history-dependent"):
        tail = c[len(c) - len(h):]
        if tail != h and [x.lower() for x in tail] == [x.lower() for x in h]:
            if "(refused in the handshake)" in str(rec.get("concrete", "")):
                return "strict-handshake-refuses-server-name-in-other-letter-case"
            return "server-name-differs-in-letter-case"
    if (str(rec.get("how", "")).startswith("history-dependent") and (rec.get("got") or {}).get("k") == "id"
            and want and all(o.get("k") in ("none", "err") for o in want)):
        # A history with late requests of the previous proxy instance is the second, separate defect.
        return "stale-clientid-via-late-request-of-previous-proxy" if rec.get("late_requests") else "stale-clientid-after-reconfiguration"
    return None


def replay_vectors(ctx, vectors):
    vin, vout = ctx.path("c16_in.ndjson"), ctx.path("c16_out.ndjson")
    vlib.write_ndjson(vin, vectors)
    rc, out = ctx.go_test(PKG, FILES, "^TestZZVerifC16Replay$", env={
        "VERIF_IN": vin, "VERIF_OUT": vout, "VERIF_C16_PASSES": "2" if ctx.quick else "5"})
    rows = vlib.read_ndjson(vout)
    summ = [r for r in rows if r.get("kind") == "summary"]
    if rc != 0 or not summ:
        raise vlib.Inconclusive("C16 replay harness did not complete:\n" + out[-3000:])
    return rows, summ[0]


def trace_validate(ctx):
    tout = ctx.path("c16_trace.ndjson")
    rc, out = ctx.go_test(PKG, FILES, "^TestZZVerifC16Trace$", env={"VERIF_OUT": tout})
    rows = vlib.read_ndjson(tout)
    if rc != 0 or not rows:
        raise vlib.Inconclusive("C16 trace driver did not complete:\n" + out[-3000:])
    r = ctx.tlc("TraceClientID", "TraceClientID.cfg", workers=1, extra_files=[(tout, "trace.ndjson")], timeout=900)
    if not r["vectors"]:
        raise vlib.Inconclusive("trace spec produced no verdict")
    verdict = r["vectors"][-1]
    if verdict["n"] != len(rows):
        raise vlib.Inconclusive("trace spec consumed %s of %d lines" % (verdict["n"], len(rows)))
    return rows, verdict["bad"]


def run(ctx):
    gen = ctx.tlc("ClientID", "ClientID.gen.cfg", workers=8, timeout=600)
    vectors = gen["vectors"]
    if len(vectors) < 1000:
        raise vlib.Inconclusive("too few vectors: %d" % len(vectors))
    # Non-trivial: an id or an error is among the admissible outcomes.
    def nontrivial(v):
        return any(o["k"] != "none" for o in v["out"])
    rng = random.Random(ctx.seed)
    sel = vectors  # the replay costs a few seconds: both tiers replay every vector
    rows, summ = replay_vectors(ctx, sel)
    for r in rows:
        if r.get("kind") == "bad":
            ctx.disagreement(classify(r), r, "ClientID outcome %s not admitted by spec %s for %s%s" % (
                json.dumps(r["got"]), json.dumps(r["want"]), r["concrete"],
                (" [" + r["how"] + "]") if str(r.get("how", "")).startswith("history-dependent") else ""))
    flaky = sum(1 for r in rows if r.get("kind") == "flaky")
    skipped = sum(1 for r in rows if r.get("kind") == "skip")
    # Direction B.
    trows, bad = trace_validate(ctx)
    for i in bad:
        rec = trows[i - 1]
        ctx.disagreement(classify(rec), rec, "trace line %d rejected by TraceClientID: outcome %s for %s" % (
            i, json.dumps(rec["out"]), rec["concrete"]))
    nt_count = len({json.dumps(v["in"], sort_keys=True) for v in sel if nontrivial(v)})
    samples = [sel[0], sel[len(sel) // 2], sel[-1], {"trace_line": trows[0]}]
    cov = {
        "traces_validated_against_impl": summ["n"] + len(trows),
        "vectors_generated": len(vectors), "vectors_replayed": summ["n"],
        "evaluations": summ["n"] + len(trows), "distinct_nontrivial": nt_count,
        "rule": "one vector per reachable state of ClientID.tla (every input of the finite universe); "
                "non-trivial = the spec admits an id or an error for it; trace lines are random inputs "
                "from a larger universe validated by TraceClientID.tla",
        "trace_lines": len(trows), "trace_lines_rejected": len(bad),
        "flaky": flaky, "skipped": skipped, "live_server_passes": summ.get("passes"),
        "reconfigurations": summ.get("reconfigurations"),
        "same_config_reconfigurations": summ.get("same_config_reconfigurations"),
        "exhaustive": True, "samples": samples,
    }
    if skipped > summ["n"] // 10:
        raise vlib.Inconclusive("too many skipped vectors: %d" % skipped)
    return ctx.finish("model_checking", cov, assumptions=[
        "TLC; the conc()/abs() functions of zz_verif_c16_test.go; label classifier of the harness",
        "HandleBefore + processInitial are driven on one live, repeatedly reconfigured server with fake TLS/QUIC connection states (handler level, no sockets)"])


def replay(ctx, path):
    rec = json.load(open(path))["record"]
    vec = {"in": rec["in"], "out": rec.get("want") or [rec.get("out")]}
    if rec.get("history"):
        # A history-dependent record: replay the stored history on a fresh server.
        hp = ctx.path("c16_history.json")
        json.dump({"history": rec["history"], "want": vec["out"]}, open(hp, "w"))
        vin, vout = ctx.path("c16_in.ndjson"), ctx.path("c16_out.ndjson")
        vlib.write_ndjson(vin, [vec])
        rc, out = ctx.go_test(PKG, FILES, "^TestZZVerifC16Replay$", env={"VERIF_IN": vin, "VERIF_OUT": vout, "VERIF_C16_HISTORY": hp})
        rows = vlib.read_ndjson(vout)
        if rc != 0 or not rows:
            raise vlib.Inconclusive("C16 history replay did not complete:\n" + out[-3000:])
        bad = [r for r in rows if r.get("kind") == "bad"]
        print(json.dumps({"expected": vec["out"], "history_steps": len(rec["history"]),
                          "observed": [b["got"] for b in bad] or "admissible"}, indent=1))
        return 1 if bad else 0
    rows, summ = replay_vectors(ctx, [vec])
    bad = [r for r in rows if r.get("kind") == "bad"]
    print(json.dumps({"expected": vec["out"], "observed": [b["got"] for b in bad] or "admissible"}, indent=1))
    return 1 if bad else 0
