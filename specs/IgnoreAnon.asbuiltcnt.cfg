CONSTANT Design = "asbuilt"
SPECIFICATION Spec
INVARIANTS NoIgnoredCounted
