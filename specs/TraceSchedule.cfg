SPECIFICATION Spec
