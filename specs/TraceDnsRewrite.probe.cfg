SPECIFICATION Spec
