SPECIFICATION SpecNamed
CONSTANTS Urls = {"u1", "u2"}
          Names = {"n1"}
          Sides = {"b", "a"}
          Served = {"cB"}
          UserSets = {{}, {"R1"}, {"@@R2"}}
          Switch = TRUE
          Bad = FALSE
          Aimless = TRUE
          MaxId = 2
          BlankPolicies = {FALSE}
          Forget = FALSE
INVARIANTS InvUniqueIds
