SPECIFICATION Spec
CONSTANT DoEmit = TRUE
INVARIANTS TypeOK
