----------------------------- MODULE Dhcp4RefB -----------------------------
(***************************************************************************)
(* G12 correspondence, direction  Dhcp4Ind!Spec => Dhcp4!Spec,  root =     *)
(* Dhcp4Ind with the constants of a small universe and GenNameOf = the     *)
(* derived names of Dhcp4 ("g" / "u" \o ToString(a)).  checks/g12.py compares    *)
(* the number of reachable states with Dhcp4RefA.small.cfg.                *)
(***************************************************************************)
EXTENDS Dhcp4Ind, TLC

MCGenNameOf == [a \in StatAddrs |-> "g" \o ToString(a)]
MCAltNameOf == [a \in StatAddrs |-> "u" \o ToString(a)]

Orig == INSTANCE Dhcp4

ASSUME ConstOK

OrigSpec == Orig!Spec
OrigInvs ==
    /\ Orig!OneHolderPerAddress /\ Orig!KeyedByAddress /\ Orig!OneLeasePerClient
    /\ Orig!DynamicInsidePool /\ Orig!ReservedClientGetsReservation /\ Orig!OfferWhenFree
    /\ Orig!DiskEqualsMemoryEachOnce /\ Orig!RestartRestoresSameTable /\ Orig!HostsUnique
    /\ Orig!RemBounded /\ Orig!NoReuseBeforeAnnouncedExpiry /\ Orig!BoundedStatics
    /\ Orig!RemoveKeepsHeldDynamic
StaticsStableP == [][ProtocolNext => StaticsStable]_vars
=============================================================================
