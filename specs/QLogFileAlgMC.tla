--------------------------- MODULE QLogFileAlgMC ---------------------------
(***************************************************************************)
(* C20, algorithm level, model-checking wrapper: enumerates every file of  *)
(* at most MaxLines lines (0 lines = the empty file included) with content lengths MinLen..MaxLen (one more    *)
(* byte each for the newline), runs every history of SeekStart / ReadNext  *)
(* / seekTS(t) of QLogFileAlg on it for every target t (line i has         *)
(* timestamp 2i, so odd targets are absent: before the first, between      *)
(* neighbours, after the last), and checks                                 *)
(*                                                                         *)
(*     Refines:  every step is a step (or a stuttering step) of the        *)
(*               abstract reader QLogFile at level "file"                  *)
(*                                                                         *)
(* plus the algorithm-level invariants.  With MaxEntry = 4, BufSize = 12   *)
(* and lengths 1..3 (< MaxEntry, the premise of the statement) files reach *)
(* 2 x BufSize bytes, so buffer boundaries and probe windows fall at every *)
(* position relative to the lines.                                         *)
(*                                                                         *)
(* Pick also emits each file's layout once, with the alignment classes     *)
(* (QLogFileAlg!ReadClasses, !ProbeClasses) its reads and probes fall      *)
(* into; the orchestrator turns a                                          *)
(* seeded selection (quick) or all of them (thorough) into real files, the *)
(* lengths being read as FRACTIONS of the real limits (direction A/B).     *)
(***************************************************************************)
EXTENDS QLogFileAlg, Json

CONSTANTS MaxLines, MinLen, MaxLen,
          EmitProbes    \* emit the probe classes too (they saturate at 6 lines; the read classes need 8)

VARIABLE st
mvars == <<avars, st>>

LenSeqs == UNION {[1..n -> MinLen..MaxLen] : n \in 0..MaxLines}    \* the file of 0 bytes included

RECURSIVE EndsOf(_)
EndsOf(ls) == IF ls = <<>> THEN <<>>
              ELSE LET pre == EndsOf(SubSeq(ls, 1, Len(ls) - 1))
                       base == IF pre = <<>> THEN 0 ELSE pre[Len(pre)] + 1
                   IN Append(pre, base + ls[Len(ls)])

Init == /\ st = "pick" /\ ends = <<>> /\ tss = <<>> /\ Opened

Pick == /\ st = "pick"
        /\ \E ls \in LenSeqs :
             /\ ends' = EndsOf(ls)
             /\ tss' = [i \in 1..Len(ls) |-> 2 * i]
        /\ st' = "classify"
        /\ UNCHANGED <<position, bufferStart, bufNil, pc, searchVars, seeked, out>>

\* Emission of the layout (content lengths) with its alignment classes.
Lens == [i \in 1..NLines |-> ends[i] - LineStart(i)]
Classify == /\ st = "classify"
            /\ PrintT(<<"@@V", ToJson([lens |-> Lens, rc |-> ReadClasses, pc |-> IF EmitProbes THEN ProbeClasses ELSE {}])>>)
            /\ st' = "run"
            /\ UNCHANGED avars

Run == st = "run" /\ Next /\ UNCHANGED <<st, ends, tss>>

MNext == Pick \/ Classify \/ Run
Spec == Init /\ [][MNext]_mvars
\* Layout emission only (QLogFileAlgMC.gen.cfg).
GenSpec == Init /\ [][Pick \/ Classify]_mvars
\* For the termination property only.
FairSpec == Spec /\ WF_mvars(Run /\ Probe)

\* The refinement: Pick is the abstract "files are given"; afterwards every
\* step must be allowed by QLogFile!Next or leave the abstract state alone.
\*
\* AbsNext is QLogFile!Next with the existential over the target resolved:
\* every disjunct SeekTS(t) of QLogFile!Next contains out' = Reply("seek", t,
\* ..), so only t = out'.arg can hold; trying the other targets is wasted
\* work (it made this check 13 times slower).  AbsNext => Abs!Next always, and
\* AbsNext <=> Abs!Next wherever out'.arg \in Abs!Targets (TargetInRange).
\* The cheap stuttering test comes first for the same reason.
AbsNext == Abs!SeekStart \/ Abs!ReadNext \/ Abs!SeekTS(out'.arg)
Refines == [][\/ st \in {"pick", "classify"}
              \/ (AbsCur' = AbsCur /\ out' = out)
              \/ AbsNext]_<<AbsLines, AbsCur, out>>
TargetInRange == out.op = "seek" => out.arg \in Abs!Targets

\* "without ever looping"
Terminates == (pc = "probe") ~> (pc = "idle")

Premise == st # "pick" => LinesWithinLimit

\* Output-only / history-free view: `out` is not read by any action.
View == <<ends, position, bufferStart, bufNil, pc, sTarget, sStart, sEnd, sProbe, sLast, sDepth, seeked, st>>
=============================================================================
