SPECIFICATION Spec
CONSTANTS
  Universe = "hosts"
  MaxSet = 1
  MaxReq = 0
  Emitting = TRUE
INVARIANTS LastPostedRules LoadedDefaults ExcludedNeverServed BlockedNameNeverServed SilentOnDatagram OthersServed ExceptedNameIsServed HostSpellingIrrelevant PresentationIrrelevant TypeIrrelevantForPlainPatterns AllowModeIgnoresDisallowed OnlyIdsAllowedExcludesAnonymous BlockModeOneMatchSuffices EmptyListsExcludeNobody EntrySpellingIrrelevant InvalidIdNeverServed
PROPERTIES DeniedMovesNothing ServedIsObserved SetListsMovesNothing
