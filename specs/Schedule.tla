------------------------------ MODULE Schedule ------------------------------
(***************************************************************************)
(* C18 -- enumeration of the schedule property over CLASSES of             *)
(* (zone, day, schedule shape, instant), and the properties of the         *)
(* statement checked on the specification itself.                          *)
(*                                                                         *)
(* The arithmetic (zones, wall clock, Contains, validation) is             *)
(* ScheduleCore.tla.  This module adds                                     *)
(*                                                                         *)
(*  * a CASE: a zone table restricted to a window of +-36 h around a focus *)
(*    instant -- an arbitrary instant of an ordinary day, or the instant   *)
(*    of a UTC-offset transition (spring-forward, fall-back, a transition  *)
(*    at local midnight, a half-hour DST step, a skipped civil day);       *)
(*  * schedule SHAPES placed relative to the wall-clock reading at the     *)
(*    focus: full week, empty week, only that day full, only that day      *)
(*    empty, a range spanning / after / before the transition, ranges      *)
(*    touching 24:00 and 00:00, and seeded random whole-minute ranges;     *)
(*  * the INSTANTS examined: every instant of the window (exhaustive       *)
(*    model on a scaled calendar: 24 hours of 12 `minutes', tick = one     *)
(*    `minute', two sub-ticks) or probe instants (real tables, tick = 1 s, *)
(*    sub-tick = 1 ns): a half-hour grid plus, around every wall-clock     *)
(*    range edge, every local midnight and every transition, the instants  *)
(*    edge - 1 sub-tick, edge, edge + 1 sub-tick -- all occurrences of a   *)
(*    repeated wall-clock time included.                                   *)
(*                                                                         *)
(* One state = one (case, shape) with the whole verdict table `out`; the   *)
(* invariants quantify over the table.  Configurations:                    *)
(*   Schedule.mc.cfg       Cases <- MCCases (abstract classes below),      *)
(*                         AllInstants, checked exhaustively;              *)
(*   ScheduleHost.gen.cfg  Cases read from the host's tz database          *)
(*                         (ScheduleHost.tla), probes, vectors emitted.    *)
(* The serialisation vectors (validation verdicts, in milliseconds) are     *)
(* produced by both; the orchestrator takes them from the mc run.          *)
(*                                                                         *)
(* Nothing here looks at schedule.go: the expected verdict of every row is  *)
(* ScheduleCore!InEffect applied to ScheduleCore!WallClock.                 *)
(***************************************************************************)
EXTENDS Integers, Sequences, FiniteSets, TLC, Json

CONSTANTS TPD, TPM, SUB, WD0,   \* units, see ScheduleCore
          TPH,                  \* ticks per hour (only used to place cases and shapes)
          Cases,                \* sequence of case records (see MkCase)
          AllInstants,          \* TRUE: every instant of the window
          Emit                  \* "rows": print the table, "count": sizes only

INSTANCE ScheduleCore
SX == INSTANCE SequencesExt          \* SetToSeq only (named: its Contains/Min/Max clash)

VARIABLES st,    \* "start" | "case" | "done" | "ser"
          cs,    \* the chosen case
          sh,    \* the chosen shape id
          out,   \* verdict table: sequence of <<s, n, off, weekday, tod tick, 0/1, day>>
          ser    \* the chosen serialised range and its admissible verdicts
vars == <<st, cs, sh, out, ser>>

\* --------------------------------------------------------------------- cases
Hour == TPH
Mins(x) == (((x * TPH) \div 60) \div TPM) * TPM   \* x minutes of an hour, in whole `minutes' of the model

\* z: zone table; focus: the instant the case is about; g0/gn: origin and
\* sub-tick of the probe grid (seeded by the orchestrator); dlen: the number
\* of ticks the focus instant's local day is *stated* to have (-1: not
\* stated); rnd: seeded schedules, each a sequence of seven ranges (Sunday
\* first).
MkCase(id, zcls, dcls, base, trans, focus, dlen) ==
    [id |-> id, zone |-> id, zcls |-> zcls, dcls |-> dcls,
     z |-> [base |-> base, trans |-> trans],
     lo |-> focus - 36 * Hour, hi |-> focus + 36 * Hour,
     focus |-> focus, g0 |-> focus, gn |-> 0, dlen |-> dlen,
     rnd |-> << << [s |-> 0, e |-> 0], [s |-> 7 * Hour, e |-> TPD - TPM],
                   [s |-> 0, e |-> TPM], [s |-> 0, e |-> 0], [s |-> 0, e |-> 0],
                   [s |-> 0, e |-> 0], [s |-> 23 * Hour, e |-> TPD] >> >>]

\* The abstract classes.  D0 is a Sunday when WD0 = 4 (day 0 a Thursday).
\* A transition that happens when the wall clock (before it) reads L on local
\* day D0, in a zone whose offset before is b, is at tick D0*TPD + L - b.
D0 == 10
At(L, b) == D0 * TPD + L - b
Tr(L, b, nb) == << [at |-> At(L, b), off |-> nb] >>
H(x) == x * Hour
Q(x) == x * (TPH \div 4)      \* quarters of an hour

MCCases == <<
    \* ---- ordinary days: UTC, whole-hour, +hh:30, +hh:45, -hh:30
    MkCase("utc",        "utc",     "ordinary", 0,      <<>>, At(H(12), 0), TPD),
    MkCase("plus3",      "hour",    "ordinary", H(3),   <<>>, At(H(12), 0), TPD),
    MkCase("plus0530",   "half",    "ordinary", Q(22),  <<>>, At(H(12), 0), TPD),
    MkCase("plus0545",   "quarter", "ordinary", Q(23),  <<>>, At(H(12), 0), TPD),
    MkCase("minus0930",  "half",    "ordinary", -Q(38), <<>>, At(H(12), 0), TPD),
    \* ---- northern DST (02:00 -> 03:00 and 03:00 -> 02:00, offsets +1/+2)
    MkCase("north-fwd",  "dst-north", "forward", H(1), Tr(H(2), H(1), H(2)), At(H(2), H(1)), H(23)),
    MkCase("north-back", "dst-north", "back",    H(2), Tr(H(3), H(2), H(1)), At(H(3), H(2)), H(25)),
    \* ---- southern DST (offsets +10/+11) and a negative half-hour zone
    MkCase("south-fwd",  "dst-south", "forward", H(10), Tr(H(2), H(10), H(11)), At(H(2), H(10)), H(23)),
    MkCase("south-back", "dst-south", "back",    H(11), Tr(H(3), H(11), H(10)), At(H(3), H(11)), H(25)),
    MkCase("neghalf-fwd", "half",     "forward", -Q(14), Tr(H(2), -Q(14), -Q(10)), At(H(2), -Q(14)), H(23)),
    \* ---- half-hour DST step (Lord Howe: +10:30 <-> +11:00 at 02:00)
    MkCase("step30-fwd",  "half", "forward", Q(42), Tr(H(2), Q(42), Q(44)), At(H(2), Q(42)), H(23) + Q(2)),
    MkCase("step30-back", "half", "back",    Q(44), Tr(H(2), Q(44), Q(42)), At(H(2), Q(44)), H(24) + Q(2)),
    \* ---- transitions at local midnight
    \* 24:00 -> 01:00: the new day starts at 01:00 and has 23 hours
    MkCase("mid-fwd",     "dst-south", "midnight", -H(4), Tr(0, -H(4), -H(3)), At(0, -H(4)), H(23)),
    \* 24:00 -> 23:00: the old day repeats 23:00-24:00 and has 25 hours
    MkCase("mid-back24",  "dst-south", "midnight", -H(3), Tr(0, -H(3), -H(4)), At(0, -H(3)), H(25)),
    \* 01:00 -> 00:00: the day starts twice at 00:00 and has 25 hours
    MkCase("mid-back01",  "dst-north", "midnight", -H(4), Tr(H(1), -H(4), -H(5)), At(H(1), -H(4)), H(25)),
    \* ---- a skipped civil day (date-line change, +24 h at 24:00)
    MkCase("dayskip",     "hour", "midnight", -H(10), Tr(0, -H(10), H(14)), At(0, -H(10)), TPD)
>>

\* -------------------------------------------------------------------- shapes
Min(a, b) == IF a < b THEN a ELSE b
Max(a, b) == IF a < b THEN b ELSE a
Floor(x)  == (x \div TPM) * TPM                     \* down to whole minutes
Clip(x)   == IF x < 0 THEN 0 ELSE IF x > TPD THEN TPD ELSE x
Rng(a, b) == [s |-> Clip(a), e |-> Clip(b)]

FocusDay(c) == WallDay(c.z, c.focus)
FocusWd(c)  == Weekday(c.z, c.focus)
WdOfDay(D)  == (D + WD0) % 7

\* Wall-clock readings immediately before and at the focus instant (they
\* differ by the step of the transition), as whole minutes.
Lb(c) == Floor(TodTick(c.z, c.focus - 1) + 1)       \* TPD stands for 24:00
La(c) == Floor(TodTick(c.z, c.focus))
LoEdge(c) == Min(Lb(c), La(c))
HiEdge(c) == Max(Lb(c), La(c))

OnDay(c, r) == [d \in Weekdays |-> IF d = FocusWd(c) THEN r ELSE EmptyDay]

FixedKinds == {"full", "empty", "fullD", "fullOthers", "span", "after", "before", "late", "odd"}
ShapeIds(c) == {[kind |-> k, i |-> 0] : k \in FixedKinds}
                 \cup {[kind |-> "rnd", i |-> i] : i \in DOMAIN c.rnd}

Shape(c, id) ==
    LET wd == FocusWd(c) IN
    CASE id.kind = "full"       -> [d \in Weekdays |-> FullDay]
      [] id.kind = "empty"      -> [d \in Weekdays |-> EmptyDay]
      [] id.kind = "fullD"      -> OnDay(c, FullDay)
      [] id.kind = "fullOthers" -> [d \in Weekdays |-> IF d = wd THEN EmptyDay ELSE FullDay]
      \* a range that spans the wall-clock jump
      [] id.kind = "span"       -> OnDay(c, Rng(LoEdge(c) - Mins(30), HiEdge(c) + Mins(30)))
      \* a range wholly after / wholly before it
      [] id.kind = "after"      -> OnDay(c, Rng(HiEdge(c) + Mins(30), HiEdge(c) + Mins(90)))
      [] id.kind = "before"     -> OnDay(c, Rng(LoEdge(c) - Mins(90), LoEdge(c) - Mins(30)))
      \* ranges touching 24:00 and 00:00 on the day, the day before, the day after
      [] id.kind = "late"       -> [d \in Weekdays |->
                                       IF d = wd THEN [s |-> TPD - Hour, e |-> TPD]
                                       ELSE IF d = (wd + 1) % 7 THEN [s |-> 0, e |-> Hour]
                                       ELSE IF d = (wd + 6) % 7 THEN [s |-> TPD - Mins(90), e |-> TPD]
                                       ELSE EmptyDay]
      \* odd minutes, different on the neighbouring days
      [] id.kind = "odd"        -> [d \in Weekdays |->
                                       IF d = wd THEN Rng(LoEdge(c) - Mins(17), HiEdge(c) + Mins(43))
                                       ELSE IF d = (wd + 1) % 7 THEN Rng(TPM, LoEdge(c) + Mins(7))
                                       ELSE IF d = (wd + 6) % 7 THEN Rng(HiEdge(c) + Mins(11), TPD - TPM)
                                       ELSE EmptyDay]
      [] id.kind = "rnd"        -> [d \in Weekdays |-> c.rnd[id.i][d + 1]]

\* Only schedules the statement certainly accepts are evaluated (clipping can
\* produce start = end # 0).
Usable(w) == \A d \in Weekdays : WellFormed(w[d])

\* ------------------------------------------------------------------ instants
InWin(c, s) == c.lo <= s /\ s <= c.hi

AllOf(c) == {[s |-> x, n |-> k] : x \in c.lo .. c.hi, k \in {0, SUB - 1}}

GridStep == TPH \div 2
Grid(c)  == {g \in {c.g0 + k * GridStep : k \in -80 .. 80} : InWin(c, g)}

\* Ticks at which the wall clock shows a range edge or 00:00, on the focus
\* day and its neighbours -- every occurrence.
EdgeTicks(c, w) ==
    UNION {UNION {TicksAtWall(c.z, c.lo, c.hi, D, x) :
                     x \in {w[WdOfDay(D)].s, w[WdOfDay(D)].e, 0}} :
              D \in {FocusDay(c) - 1, FocusDay(c), FocusDay(c) + 1}}

TransTicks(c) == {c.z.trans[i].at : i \in DOMAIN c.z.trans}

\* edge - 1 sub-tick, edge, edge + 1 sub-tick
Around(m) == {[s |-> m - 1, n |-> SUB - 1], [s |-> m, n |-> 0], [s |-> m, n |-> 1]}

Probes(c, w) ==
    {t \in {[s |-> g, n |-> c.gn] : g \in Grid(c)}
             \cup UNION {Around(m) : m \in EdgeTicks(c, w) \cup TransTicks(c) \cup {c.focus}} :
        InWin(c, t.s)}

Instants(c, w) == IF AllInstants THEN AllOf(c) ELSE Probes(c, w)

Bit(b) == IF b THEN 1 ELSE 0
\* One row: the instant, its wall-clock reading, the verdict, the civil day.
Row(c, w, t) == LET wc == WallClock(c.z, t) IN
                <<t.s, t.n, wc.off, wc.wd, wc.tod[1], Bit(InEffect(w, wc)), wc.day>>
Table(c, w) == LET q == SX!SetToSeq(Instants(c, w)) IN [i \in DOMAIN q |-> Row(c, w, q[i])]

WeekSeq(w) == [i \in 1 .. 7 |-> <<w[i - 1].s, w[i - 1].e>>]

\* ------------------------------------------------------------- serialisation
\* Validation is exercised in milliseconds (the unit of the JSON form).
MS == INSTANCE ScheduleCore WITH TPD <- 86400000, TPM <- 60000, SUB <- 1000000, WD0 <- 4

\* Bounds in milliseconds, and -- around the critical values -- with a
\* sub-millisecond part in nanoseconds (1 ns, 1/64 ms, 1/2 ms, 1 ms - 1 ns):
\* "not whole minutes" has to hold down to the resolution of the decoded value.
SerVals == {-3600000, -60000, -1, 0, 1, 30000, 59999, 60000, 90000, 120000,
            43200000, 86340000, 86399999, 86400000, 86400001, 86460000,
            90000000, 172800000}
MSUB == 1000000
SerBounds == {[t |-> v, n |-> 0] : v \in SerVals}
               \cup {[t |-> v, n |-> k] : v \in {-1, 0, 60000, 43200000, 86400000},
                                          k \in {1, 15625, 500000, MSUB - 1}}
Fillers == {"empty", "full", "work"}
R4(a, b, an, bn) == [s |-> a, e |-> b, sn |-> an, en |-> bn]
Empty4 == R4(0, 0, 0, 0)
Filler(f) == CASE f = "empty" -> Empty4
               [] f = "full"  -> R4(0, 86400000, 0, 0)
               [] f = "work"  -> R4(9 * 3600000, 17 * 3600000 + 30 * 60000, 0, 0)
SerWeek(d, r, f) == [x \in Weekdays |-> IF x = d THEN r ELSE Filler(f)]

\* The JSON form leaves out (null) the days whose range is empty; YAML writes
\* all seven.  Reading puts the empty range back.
Absent == R4(-1, -1, 0, 0)
ToJSON(w)   == [x \in Weekdays |-> IF w[x] = Empty4 THEN Absent ELSE w[x]]
FromJSON(j) == [x \in Weekdays |-> IF j[x] = Absent THEN Empty4 ELSE j[x]]
ToYAML(w)   == w
FromYAML(y) == y
\* Decoding is a function of the document and the verdict alone: an accepted
\* document replaces whatever schedule the receiving object held before (a
\* zero value, defaults, the previous configuration) completely, a rejected
\* one leaves it completely alone (MS!DecodeOutcomes).  The harness decodes
\* every vector into a fresh and into an already populated receiver.
DecodeJSONInto(prev, j) == FromJSON(j)
DecodeYAMLInto(prev, y) == FromYAML(y)
Receivers == {[x \in Weekdays |-> Empty4], [x \in Weekdays |-> R4(3600000, 7620000, 0, 0)]}

\* ------------------------------------------------------------------ behaviour
NoCase == [id |-> "none"]
NoShape == [kind |-> "none", i |-> 0]
NoSer == [d |-> 0, r |-> Absent, fill |-> "none", verdicts |-> {}]

Init == st = "start" /\ cs = NoCase /\ sh = NoShape /\ out = <<>> /\ ser = NoSer

PickCase == /\ st = "start"
            /\ \E i \in DOMAIN Cases : cs' = Cases[i]
            /\ st' = "case"
            /\ UNCHANGED <<sh, out, ser>>

True(tab) == Cardinality({i \in DOMAIN tab : tab[i][6] = 1})

Eval == /\ st = "case"
        /\ \E id \in ShapeIds(cs) :
             LET w == Shape(cs, id) IN
             /\ Usable(w)
             /\ sh' = id
             /\ out' = Table(cs, w)
             /\ CASE Emit = "rows" ->
                      PrintT(<<"@@V", ToJson([k |-> "eval", c |-> cs.id, zone |-> cs.zone,
                                              shape |-> id.kind, w |-> WeekSeq(w), pts |-> out'])>>)
                  [] Emit = "count" ->
                      PrintT(<<"@@V", ToJson([k |-> "count", c |-> cs.id, shape |-> id.kind,
                                              rows |-> Len(out'), true |-> True(out')])>>)
                  [] OTHER -> TRUE
        /\ st' = "done"
        /\ UNCHANGED <<cs, ser>>

PickSer == /\ st = "start"
           /\ \E d \in Weekdays, a \in SerBounds, b \in SerBounds, f \in Fillers :
                LET r == R4(a.t, b.t, a.n, b.n) IN
                /\ ser' = [d |-> d, r |-> r, fill |-> f, verdicts |-> MS!WeekVerdicts(SerWeek(d, r, f))]
                /\ (Emit # "none" =>
                      PrintT(<<"@@V", ToJson([k |-> "ser", d |-> d, s |-> a.t, sn |-> a.n, e |-> b.t,
                                              en |-> b.n, fill |-> f,
                                              verdicts |-> SX!SetToSeq(ser'.verdicts)])>>))
           /\ st' = "ser"
           /\ UNCHANGED <<cs, sh, out>>

Next == PickCase \/ Eval \/ PickSer
Spec == Init /\ [][Next]_vars

\* -------------------------------------------- properties of the statement
Done == st = "done"
Rows == DOMAIN out

\* "a full-day range covers every instant of that local day ..."
FullWeekCoversAll   == Done /\ sh.kind = "full"  => \A i \in Rows : out[i][6] = 1
\* "... and an empty range none"
EmptyCoversNone     == Done /\ sh.kind = "empty" => \A i \in Rows : out[i][6] = 0
\* only that day full: in effect exactly at the instants of that local day
\* (the window is shorter than a week, so weekday = day here)
FullDayExactlyItsDay ==
    Done /\ sh.kind = "fullD" =>
        LET fd == FocusDay(cs) IN \A i \in Rows : (out[i][6] = 1) <=> (out[i][7] = fd)
EmptyDayExactlyNotItsDay ==
    Done /\ sh.kind = "fullOthers" =>
        LET fd == FocusDay(cs) IN \A i \in Rows : (out[i][6] = 0) <=> (out[i][7] = fd)

\* "days with daylight-saving transitions included": the local day really has
\* the stated 23 / 25 / 23.5 / 24.5 / 24 hours and the full-day range holds
\* all of them (two sub-ticks per tick are enumerated).
DayLengthCovered ==
    Done /\ AllInstants /\ sh.kind = "fullD" /\ cs.dlen >= 0 =>
        Cardinality({i \in Rows : out[i][6] = 1}) = 2 * cs.dlen

\* Range edges are whole ticks, so the verdict is a function of the weekday
\* and the time-of-day tick alone, and it is the half-open interval test.
HalfOpenOnWallClock ==
    Done => LET w == Shape(cs, sh) IN
            \A i \in Rows : (out[i][6] = 1) <=> (w[out[i][4]].s <= out[i][5] /\ out[i][5] < w[out[i][4]].e)

\* Each table row restates the wall clock of its instant consistently.
RowsConsistent ==
    Done => LET offs == Offsets(cs.z) IN
            \A i \in Rows :
        /\ out[i][4] \in Weekdays /\ 0 <= out[i][5] /\ out[i][5] < TPD
        /\ out[i][1] + out[i][3] = out[i][7] * TPD + out[i][5]
        /\ out[i][4] = (out[i][7] + WD0) % 7
        /\ out[i][3] \in offs

NonVacuousTable == Done => Len(out) > 0

\* Validation: never both "must reject" and "well formed"; the listed defects
\* are rejected; accepted schedules survive both serialised forms unchanged.
SerDone == st = "ser"
VerdictsSound ==
    SerDone => /\ ser.verdicts # {}
               /\ ~(MS!MustReject(ser.r) /\ MS!WellFormed(ser.r))
               /\ (MS!Negative(ser.r) \/ MS!Inverted(ser.r) \/ MS!TooLong(ser.r) \/ MS!Ragged(ser.r)
                     => ser.verdicts = {"reject"})
               \* a bound after 24:00 is not a time of that day, however short the range
               /\ (ser.r.e > 86400000 \/ (ser.r.e = 86400000 /\ ser.r.en > 0) => ser.verdicts = {"reject"})
               \* the only undecided ranges: start = end at a whole minute in (00:00, 24:00]
               /\ (ser.verdicts = {"accept", "reject"} /\ ser.fill = "empty"
                     => ser.r.s = ser.r.e /\ ser.r.s > 0 /\ ser.r.s <= 86400000 /\ ser.r.sn = 0 /\ ser.r.en = 0)
               \* any sub-millisecond excess is "not whole minutes"
               /\ (ser.r.sn # 0 \/ ser.r.en # 0 => ser.verdicts = {"reject"})
               /\ (ser.verdicts = {"accept"} => ser.r.e - ser.r.s <= 86400000 /\ ser.r.s >= 0)
RoundTripIdentity ==
    SerDone /\ "accept" \in ser.verdicts =>
        LET w == SerWeek(ser.d, ser.r, ser.fill) IN
        /\ FromJSON(ToJSON(w)) = w
        /\ FromYAML(ToYAML(w)) = w
        /\ FromYAML(ToYAML(FromJSON(ToJSON(w)))) = w
        /\ \A prev \in Receivers : /\ DecodeJSONInto(prev, ToJSON(w)) = w
                                   /\ DecodeYAMLInto(prev, ToYAML(w)) = w
\* All or nothing, whatever the verdict.
AllOrNothing ==
    SerDone =>
        LET doc == [w |-> SerWeek(ser.d, ser.r, ser.fill)] IN
        \A prev \in Receivers :
            \A o \in MS!DecodeOutcomes([w |-> prev], doc) :
                /\ (o.ok => o.val = doc /\ "accept" \in ser.verdicts)
                /\ (~o.ok => o.val.w = prev /\ "reject" \in ser.verdicts)
=============================================================================
