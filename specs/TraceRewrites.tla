--------------------------- MODULE TraceRewrites ---------------------------
(***************************************************************************)
(* Direction B for C06.  Every line of the trace is one random rewrite     *)
(* table of 10-20 entries (multi-level wildcards, chains, cycles,          *)
(* duplicates, keywords) over a larger universe of names than the          *)
(* exhaustive one, with the queries that were put to the real code and     *)
(* what it did:                                                            *)
(*   lvl = "filt"  the result of filtering.CheckHost: rewritten or not,    *)
(*                 canonical name, address list;                           *)
(*   lvl = "pipe"  what a DNS client and the upstream saw when the query   *)
(*                 went through the real dnsforward.Server.                *)
(* The oracle is RewritesCore's own Outcomes / Serve: an observation is    *)
(* accepted iff it is the projection of an admissible outcome.  Rejected   *)
(* observations are reported as [line, query number, what was admissible].                    *)
(***************************************************************************)
EXTENDS RewritesCore, TLC, Json

Trace == ndJsonDeserialize("trace.ndjson")

VARIABLES l, bad

ToSet(s) == {s[i] : i \in DOMAIN s}

\* filtering level: [h, qt, r, canon, ips]
FiltOK(tab, x) ==
    \E o \in Outcomes(tab, x.h, x.qt) :
        /\ o.r = x.r
        /\ o.canon = x.canon
        /\ o.ips = ToSet(x.ips)

\* pipeline level: [h, qt, ask, rcode, qok, cname, ips, fromup, odd, answered]
PipeOK(tab, x) ==
    /\ x.answered /\ x.qok /\ x.rcode = "NOERROR" /\ x.odd = ""
    /\ \E o \in Outcomes(tab, x.h, x.qt) :
         LET e == Serve(o, x.h, x.qt) IN
         /\ e.ask = {<<a[1], a[2]>> : a \in ToSet(x.ask)}
         /\ Len(x.ask) = Cardinality(e.ask)
         /\ e.cname = x.cname
         /\ e.ips = ToSet(x.ips)
         /\ e.fromup = x.fromup

\* What the specification admits for a query, in the vocabulary of the trace
\* (reported with every rejected observation so that the orchestrator can
\* classify it).
Expected(ln, x) ==
    IF ln.lvl = "pipe" THEN {Serve(o, x.h, x.qt) : o \in Outcomes(ln.tab, x.h, x.qt)}
    ELSE {[r |-> o.r, canon |-> o.canon, ips |-> o.ips] : o \in Outcomes(ln.tab, x.h, x.qt)}

RECURSIVE BadFrom(_, _)
BadFrom(i, j) ==
    LET ln == Trace[i] IN
    IF j > Len(ln.qs) THEN <<>>
    ELSE LET x == ln.qs[j]
             ok == IF ln.lvl = "pipe" THEN PipeOK(ln.tab, x) ELSE FiltOK(ln.tab, x) IN
         (IF ok THEN <<>> ELSE <<[l |-> i, q |-> j, exp |-> Expected(ln, x)]>>) \o BadFrom(i, j + 1)

Init == l = 1 /\ bad = <<>>
Next == /\ l <= Len(Trace)
        /\ bad' = bad \o BadFrom(l, 1)
        /\ l' = l + 1
        /\ (l' = Len(Trace) + 1 => PrintT(<<"@@V", ToJson([n |-> Len(Trace), bad |-> bad'])>>))
Spec == Init /\ [][Next]_<<l, bad>>
=============================================================================
