------------------------------ MODULE QueryLog ------------------------------
(***************************************************************************)
(* C07 -- the query log returns every recorded query exactly once, newest  *)
(* first, with paging.                                                     *)
(*                                                                         *)
(* The module describes the query log of AdGuard Home                      *)
(* (internal/querylog) as a state machine over three stores                *)
(*                                                                         *)
(*    mem   the in-memory ring buffer (queryLog.buffer), oldest first,     *)
(*    cur   the lines of querylog.json,    oldest first,                   *)
(*    rot   the lines of querylog.json.1,  oldest first,                   *)
(*                                                                         *)
(* plus the batch that a flush has already taken out of the ring but not   *)
(* yet appended to the file (`batch'), and the request for an automatic    *)
(* flush that Add has issued but no goroutine has served yet               *)
(* (`flushPending').  One action per API call / critical section of the    *)
(* code:                                                                   *)
(*                                                                         *)
(*    Record        queryLog.Add                                           *)
(*    Enc / App     the two halves of flushLogBuffer: encodeEntries        *)
(*                  (encode and clear the ring, under bufferLock) and      *)
(*                  flushToFile (append to the file)                       *)
(*    AutoEnc       the first half when run by the goroutine Add spawned   *)
(*    AutoFlush     both halves of that goroutine at once (used when the   *)
(*                  exclusion window is not explored, see AllowWindow)     *)
(*    Rotate        queryLog.rotate                                        *)
(*    Clear         POST /control/querylog_clear                           *)
(*    SetConf       PUT /control/querylog/config/update                    *)
(*    Restart       Shutdown followed by New on the same directory         *)
(*    Search        GET /control/querylog                                  *)
(*                                                                         *)
(* The ghost variable `recorded' is the oracle of the statement: every     *)
(* entry recorded while logging was enabled and not *legitimately*         *)
(* removed.  Legitimate removals are the two the statement names (explicit *)
(* clear; rotation ageing out the rotated file) and the two that follow    *)
(* from running without a file (FileEnabled = false: the ring is the only  *)
(* store, so ring eviction and a restart drop entries by configuration --  *)
(* the statement is silent on them and they are not counted as losses).    *)
(*                                                                         *)
(* The statement excludes "records submitted while a memory-to-disk flush  *)
(* is pending".  That window is [Record that sets flushPending, AutoEnc):  *)
(* the ring is full and every further push overwrites its oldest element.  *)
(* With AllowWindow = TRUE the spec explores such records and marks the    *)
(* behaviour out of scope (inScope = FALSE) from then on until a Clear;    *)
(* all properties are conditioned on inScope.  The configuration           *)
(* QueryLog.window.cfg shows that the exclusion is not vacuous: without    *)
(* the condition NothingLost is violated.                                  *)
(*                                                                         *)
(* What an entry is.  The property speaks about order, multiplicity,       *)
(* paging and selection; for those an entry is its timestamp plus the      *)
(* attributes search can select on: the question name, the client and the  *)
(* filtering reason.  Everything else of the payload (answer, upstream,    *)
(* rule list, rewrite data, protocol, flags) is opaque here and is kept    *)
(* with the entry as a whole: the stores move whole entries, so            *)
(* PayloadPreserved is `the stored entry is the recorded entry'.  That the *)
(* real JSON served for an entry is the same in memory, in the file and    *)
(* in the rotated file for every payload *shape* is checked                *)
(* differentially by the Go harness (DESIGN.md section 9).                 *)
(*                                                                         *)
(* Timestamps.  The n-th Record gets ts = 2n.  Odd numbers are the         *)
(* instants between two entries (ts +- 1 ns in the real log), so that      *)
(* older_than can take "every stored ts +- 1".  0 means "parameter         *)
(* absent"; negative numbers are out-of-range values (see OlderOK).        *)
(***************************************************************************)
EXTENDS Integers, Sequences, FiniteSets, TLC, Json, SequencesExt

CONSTANTS
    MaxRec,       \* bound on the number of Record actions of a behaviour
    MemSizes,     \* memory sizes (conf.MemSize) a behaviour may start/restart with
    FileModes,    \* subset of BOOLEAN: values of conf.FileEnabled
    Palettes,     \* {} = Record picks any kind of Kinds; else kind is a function of (palette, n)
    Kinds,        \* kinds Record may pick when Palettes = {}
    RestartResizes, \* TRUE: Restart may come up with any size of MemSizes; FALSE: same size
    IgnoreModes,  \* subset of BOOLEAN: values SetConf may give `ign'
    AnonModes,    \* subset of BOOLEAN: values SetConf may give conf.AnonymizeClientIP
    MaxFlight,    \* how many Adds may be between taking the time and pushing (0: Add is one step)
    Faults,       \* explore write faults during a flush (AppFails, AutoFlushFails)
    AllowWindow,  \* explore records inside the excluded flush-pending window
    EmitEdges     \* print labelled edges and per-state observation tables (direction A)

VARIABLES
    mem, cur, rot,   \* the three stores, sequences of entries, oldest first
    batch,           \* entries encoded and removed from the ring, not yet appended to cur
    flushPending,    \* Add requested an automatic flush that has not run encodeEntries yet
    memSize,         \* conf.MemSize of the running instance
    fileEnabled,     \* conf.FileEnabled (fixed for a behaviour)
    enabled, anon,   \* conf.Enabled, conf.AnonymizeClientIP (changed by SetConf)
    ign,             \* conf.Ignored contains IgnName (changed by SetConf)
    clock,           \* number of Record calls so far
    flight,          \* Adds that have taken their timestamp and not yet pushed their entry
    pal,             \* palette of the behaviour (only meaningful when Palettes # {})
    recorded,        \* ghost: the statement's "recorded and not legitimately removed"
    inScope,         \* ghost: no record was submitted inside the excluded window
    lastReply        \* output of the last Search (hidden by VIEW)

vars  == <<mem, cur, rot, batch, flushPending, memSize, fileEnabled, enabled, anon, ign, clock, pal, flight,
           recorded, inScope, lastReply>>
\* lastReply is output only: hide it so that Search does not multiply states.
View  == <<mem, cur, rot, batch, flushPending, memSize, fileEnabled, enabled, anon, ign, clock, pal, flight,
           recorded, inScope>>

-----------------------------------------------------------------------------
(* Vocabulary of entries and of search parameters.                          *)

Names   == {"org", "sub", "com", "idn", "amp", "quo"}
   \* example.org, test.example.org, example.com, xn--e1afmkfd.xn--p1ai,
   \* r&d.example.org and x\"y.example.org (a label with a double quote, in
   \* presentation format): query names are arbitrary octets on the wire, and
   \* these two contain characters that a JSON encoder writes as escapes.
EscapedNames == {"amp", "quo"}
Clients == {"plain", "cid", "cid2", "named", "v6", "roam", "roam2"}
   \* plain: 192.168.10.5, nothing else known
   \* cid  : 192.168.10.6 with ClientID kitchen-tv, persistent client "Kitchen TV"
   \* cid2 : the same address 192.168.10.6 (two DoH devices behind one NAT) with
   \*        ClientID study-pc, persistent client "Study PC"
   \* named: 10.20.30.40, persistent client "Dads-Samsung-Kindle" found by address
   \* v6   : 2001:db8::17
   \* roam : ClientID guest-phone, which is NO persistent client's identifier, seen from
   \*        10.20.30.40: the persistent client is found by the address ("Dads-Samsung-Kindle")
   \* roam2: the same ClientID guest-phone seen from 192.168.10.5, where nothing is known:
   \*        one ClientID, two addresses, two different answers of the client lookup
   \*        (a lookup memo keyed by less than the pair confuses them; seeded change C07-17)
Reasons == {"notfound", "allow", "block", "sb", "parental", "safesearch", "service",
            "rewrite", "rewritehosts", "rewriterule"}

(* Kinds of entries used by the exhaustive universe: every name, client and *)
(* reason occurs at least once, and the first six (the ones the edge        *)
(* generation uses) contain every name and every client, with the two       *)
(* clients that share an address next to each other.                        *)
KindTable == <<
    [name |-> "org", cli |-> "plain", reason |-> "notfound"],
    [name |-> "sub", cli |-> "cid",   reason |-> "block"],
    [name |-> "com", cli |-> "cid2",  reason |-> "rewrite"],
    [name |-> "idn", cli |-> "v6",    reason |-> "allow"],
    [name |-> "amp", cli |-> "cid",   reason |-> "service"],
    [name |-> "quo", cli |-> "named", reason |-> "sb"],
    [name |-> "com", cli |-> "v6",    reason |-> "safesearch"],
    [name |-> "idn", cli |-> "named", reason |-> "rewriterule"],
    [name |-> "org", cli |-> "cid2",  reason |-> "parental"],
    [name |-> "amp", cli |-> "plain", reason |-> "rewritehosts"],
    [name |-> "org", cli |-> "roam",  reason |-> "block"],
    [name |-> "sub", cli |-> "roam2", reason |-> "notfound"] >>
NKinds == Len(KindTable)
KindOf(p, n) == ((n - 1 + p) % NKinds) + 1

(* Search terms.  A term selects an entry when it matches the question     *)
(* name, the client address, the ClientID or the name of the persistent    *)
(* client (substring, or the whole value when quoted; case-insensitive;    *)
(* an IDN term in Unicode matches the Punycode name).  TLC cannot take     *)
(* strings apart, so a term is given by the set of names and the set of    *)
(* clients it matches; the harness holds the concrete strings and checks   *)
(* this table against them with its own matcher before anything else.      *)
TermTable == [
    none        |-> [n |-> Names,                 c |-> Clients],           \* parameter absent
    sub_example |-> [n |-> {"org", "sub", "com", "amp", "quo"}, c |-> {}],  \* example
    sub_orgcase |-> [n |-> {"org", "sub", "amp", "quo"}, c |-> {}],         \* Example.ORG
    exact_org   |-> [n |-> {"org"},               c |-> {}],                \* "example.org"
    exact_sub   |-> [n |-> {"sub"},               c |-> {}],                \* "TEST.Example.Org"
    idn_uni     |-> [n |-> {"idn"},               c |-> {}],                \* (Cyrillic) primer.rf
    idn_exact   |-> [n |-> {"idn"},               c |-> {}],                \* "(Cyrillic, upper case) PRIMER.rf"
    idn_puny    |-> [n |-> {"idn"},               c |-> {}],                \* xn--e1afmkfd
    ip_exact    |-> [n |-> {},                    c |-> {"plain", "roam2"}],         \* "192.168.10.5"
    amp_sub     |-> [n |-> {"amp"},               c |-> {}],                \* r&d
    amp_exact   |-> [n |-> {"amp"},               c |-> {}],                \* "R&D.example.org"
    quo_sub     |-> [n |-> {"quo"},               c |-> {}],                \* x\"y
    ip_sub      |-> [n |-> {},                    c |-> {"plain", "cid", "cid2", "roam2"}],  \* 192.168.10.
    ip_shared   |-> [n |-> {},                    c |-> {"cid", "cid2"}],   \* "192.168.10.6"
    cid2_sub    |-> [n |-> {},                    c |-> {"cid2"}],          \* study
    cname2_exact |-> [n |-> {},                   c |-> {"cid2"}],          \* "study pc"
    ip_v6       |-> [n |-> {},                    c |-> {"v6"}],            \* 2001:db8
    cid_sub     |-> [n |-> {},                    c |-> {"cid"}],           \* kitchen
    cid_exact   |-> [n |-> {},                    c |-> {"cid"}],           \* "KITCHEN-tv"
    cname_sub   |-> [n |-> {},                    c |-> {"named", "roam"}],         \* amsung
    cname_exact |-> [n |-> {},                    c |-> {"named", "roam"}],         \* "dads-samsung-kindle"
    \* lower-case terms whose first letter has a third case variant (long s,
    \* Kelvin sign), against capitals inside the client name:
    cname_s     |-> [n |-> {},                    c |-> {"named", "roam"}],         \* samsung
    cname_k     |-> [n |-> {},                    c |-> {"named", "roam"}],         \* kindle
    nomatch     |-> [n |-> {},                    c |-> {}],                \* zzz-nothing
    \* Degenerate terms.  Read as substrings where they are not a quoted value:
    q_one       |-> [n |-> {"quo"},               c |-> {}],                \* "     (one double quote)
    q_lead      |-> [n |-> {"quo"},               c |-> {}],                \* "y    (quote only in front)
    q_trail     |-> [n |-> {"quo"},               c |-> {}],                \* x\"   (quote only at the end)
    ws          |-> [n |-> {},                    c |-> {"cid", "cid2"}],   \* one space (the client names have one)
    \* A quoted empty value and a quoted quote: the statement does not say what
    \* they select (LooseTerms): only "no crash" is required; the sets below are
    \* the universe a reply may draw from.
    q_empty     |-> [n |-> Names,                 c |-> Clients],           \* ""
    q_triple    |-> [n |-> Names,                 c |-> Clients] ]          \* """
LooseTerms == {"q_empty", "q_triple"}
Terms == DOMAIN TermTable
TermMatches(t, e) == e.name \in TermTable[t].n \/ e.cli \in TermTable[t].c

(* response_status values.  The table is the one documented next to the    *)
(* constants in searchcriterion.go / openapi.yaml: filtered = all kinds of *)
(* filtering; blocked = blocked or blocked services; processed = not       *)
(* blocked, not white-listed.  Two cells are not decided by that text      *)
(* (whether `filtered' includes allow-listed and rewritten answers, and    *)
(* whether `processed' includes the safe-browsing / parental / safe-search *)
(* verdicts); they are filled in as the unchanged tree behaves and are     *)
(* listed in notes/C07.md.                                                 *)
Blocking == {"block", "sb", "parental", "safesearch", "service"}
Rewrites == {"rewrite", "rewritehosts", "rewriterule"}
StatusTable == [
    none                 |-> Reasons,           \* parameter absent
    all                  |-> Reasons,
    filtered             |-> Blocking \cup {"allow"} \cup Rewrites,
    blocked              |-> {"block", "service"},
    blocked_services     |-> {"service"},
    blocked_safebrowsing |-> {"sb"},
    blocked_parental     |-> {"parental"},
    whitelisted          |-> {"allow"},
    rewritten            |-> Rewrites,
    safe_search          |-> {"safesearch"},
    processed            |-> Reasons \ {"block", "service", "allow"},
    \* Values outside the enumeration (LooseStatuses): only "no crash".
    bad_quote            |-> Reasons,           \* "   (one double quote)
    bad_word             |-> Reasons,           \* bogus
    bad_quoted           |-> Reasons ]          \* "all" (a valid value in quotes)
LooseStatuses == {"bad_quote", "bad_word", "bad_quoted"}
Statuses == DOMAIN StatusTable
StatusMatches(s, e) == e.reason \in StatusTable[s]

Huge == 1000000      \* stands for the largest value the parameter type admits (2^63 - 1)

(* A search request is a record [older, limit, offset, term, status].       *)
(* older: 0 = parameter absent; term/status "none" = parameter absent;      *)
(* limit = DefaultLimit is what the server assumes when limit is not sent   *)
(* (the harness then omits the parameter).                                  *)
DefaultLimit == 500
(* scan: how many on-disk records one request examines at most before it    *)
(* answers (searchParams.maxFileScanEntries).  The HTTP API fixes it: 50000 *)
(* for a request without `offset', unlimited (0) with one.  The harness can *)
(* reach the same code with a small value (it calls what the handler calls  *)
(* and overrides the field), which is how the exhaustive universe sees scan *)
(* windows; the thorough tier also builds a log beyond 50000 records.       *)
DefaultScan == 50000
Min2(a, b) == IF a < b THEN a ELSE b

-----------------------------------------------------------------------------
(* The log as the API should present it.                                    *)

(* Several requests are recorded at the same time (one goroutine each), so  *)
(* the entries need not be stored in the order of their timestamps (see     *)
(* Stamp / Push).  What the statement fixes is the order of the *replies*:  *)
(* newest first by the timestamps the entries carry.  Log is therefore the  *)
(* stored entries in timestamp order; RawLog is the order of storage.       *)
RawLog    == rot \o cur \o mem
TsSorted(s) == \A i \in 1..(Len(s) - 1) : s[i].ts < s[i + 1].ts
Log       == IF MaxFlight = 0 THEN RawLog
             ELSE LET r == RawLog IN IF TsSorted(r) THEN r ELSE SortSeq(r, LAMBDA a, b : a.ts < b.ts)
Ids(s)    == [i \in DOMAIN s |-> s[i].ts]
Quiescent == batch = <<>> /\ ~flushPending /\ flight = <<>>

(* The list of ignored host names (conf.Ignored) can be changed at run time. *)
(* Entries of a name that is ignored *now* are hidden from every reply,     *)
(* wherever they are stored -- that is how the code behaves and what the    *)
(* neighbouring property about ignored names demands, while this statement, *)
(* read literally, wants every recorded entry returned.  The two conflict,  *)
(* so a reply that shows them is admitted as well (Shown...).  Hidden       *)
(* entries stay stored, and the on-disk ones still count as records a scan  *)
(* examines.  The universe has one name that can be ignored.                *)
IgnName   == "com"
Hidden(e) == ign /\ e.name = IgnName

MatchesShown(p, e) == TermMatches(p.term, e) /\ StatusMatches(p.status, e)
Matches(p, e)      == MatchesShown(p, e) /\ ~Hidden(e)

(* Out-of-range cursors: -1 = a valid instant before every entry (1970);    *)
(* -2 = an instant whose nanosecond count does not fit 64 bits (year 1600);*)
(* -3 = not a timestamp at all.  For -2 and -3 nothing is said about which *)
(* entries are older.                                                      *)
OlderOK(c, e) == c = 0 \/ c <= -2 \/ e.ts < c

(* Sel(p, s): the entries of store contents s (oldest first) that request  *)
(* p selects, newest first, before paging.                                 *)
Sel(p, s) == SelectSeq(Reverse(s), LAMBDA e : Matches(p, e) /\ OlderOK(p.older, e))

Cut(s, off, lim) == IF off >= Len(s) THEN <<>> ELSE SubSeq(s, off + 1, Min2(Len(s), off + lim))

SelShown(p, s)   == SelectSeq(Reverse(s), LAMBDA e : MatchesShown(p, e) /\ OlderOK(p.older, e))
ReplyShown(p, s) ==
    LET pg == Cut(SelShown(p, s), p.offset, p.limit)
    IN [st |-> "ok", data |-> Ids(pg), oldest |-> IF pg = <<>> THEN 0 ELSE pg[Len(pg)].ts]

(* A request is well formed when the statement says what it returns: a     *)
(* positive limit, a non-negative offset and a cursor that is absent or    *)
(* the timestamp of a stored entry (the only cursors the API hands out).   *)
WellFormed(p, s) ==
    /\ p.limit >= 1 /\ p.offset >= 0
    /\ p.term \notin LooseTerms /\ p.status \notin LooseStatuses
    /\ (p.older = 0 \/ \E i \in DOMAIN s : s[i].ts = p.older)

(* The on-disk records a request has to go through, newest first.           *)
DiskOlder(p, d) == SelectSeq(Reverse(d), LAMBDA e : OlderOK(p.older, e))
(* The answer of a well-formed request is fixed completely when its scan    *)
(* cannot end before the end of the files.                                  *)
Unwindowed(p, d) == p.scan = 0 \/ Len(DiskOlder(p, d)) < p.scan

Page(p, s)  == Cut(Sel(p, s), p.offset, p.limit)
OkReply(pg) == [st |-> "ok", data |-> Ids(pg), oldest |-> IF pg = <<>> THEN 0 ELSE pg[Len(pg)].ts]

(* The reply the statement fixes for a well-formed request.                *)
Reply(p, s) == OkReply(Page(p, s))

IsSubseq(a, b) ==    \* a is a (not necessarily contiguous) subsequence of b
    LET F[i \in 0..Len(a), j \in 0..Len(b)] ==
            IF i = 0 THEN TRUE
            ELSE IF j = 0 THEN FALSE
            ELSE IF a[i] = b[j] THEN F[i - 1, j - 1] ELSE F[i, j - 1]
    IN F[Len(a), Len(b)]

(* A request whose scan may end early ("searchFiles does not scan more than  *)
(* maxFileScanEntries so callers may need to call it several times") need    *)
(* not return a full page.  What the statement requires of it is what makes  *)
(* "paging with the returned cursor partitions the sequence without gaps or  *)
(* duplicates" true: the page is a prefix of the selected entries older than *)
(* the cursor; a non-empty page hands out its last entry as cursor; an empty *)
(* page either says "end" -- only if nothing is left -- or hands out the     *)
(* timestamp of a stored entry that is older than the request's cursor       *)
(* (progress) and newer than every selected entry still to come (no gap).    *)
(* How many records a window holds is not fixed here.                        *)
WindowRule(p, s, U, r) ==
    /\ r.st = "ok"
    /\ LET n == Len(r.data)
       IN /\ n <= Min2(p.limit, Len(U)) /\ r.data = SubSeq(U, 1, n)
          /\ n > 0 => r.oldest = U[n]
          /\ n = 0 =>
                \/ U = <<>> /\ r.oldest = 0
                \/ /\ \E i \in DOMAIN s : s[i].ts = r.oldest
                   /\ p.older = 0 \/ r.oldest < p.older
                   /\ U # <<>> => r.oldest > U[1]
AdmissibleWindow(p, s, r) ==
    \/ WindowRule(p, s, Ids(Sel(p, s)), r)
    \/ ign /\ WindowRule(p, s, Ids(SelShown(p, s)), r)      \* hidden entries shown, see Hidden

(* Admissible replies.  For a well-formed request whose scan cannot end     *)
(* early exactly one; with scan windows see above.  For any other parameter *)
(* value the statement only demands that the request does not crash: a 400  *)
(* is fine, and so is a 200 that invents nothing (its entries are selected  *)
(* entries older than the cursor, each at most once, newest first).         *)
Admissible(p, s, d, r) ==
    IF WellFormed(p, s)
    THEN IF Unwindowed(p, d)
         THEN r = Reply(p, s) \/ (ign /\ r = ReplyShown(p, s))
         ELSE AdmissibleWindow(p, s, r)
    ELSE \/ r.st = "bad_request"
         \/ r.st = "ok" /\ IsSubseq(r.data, Ids(SelShown(p, s)))

(* Signature of known finding C07:cursor-beyond-disk-skips-newest-disk-entry: the reply   *)
(* computed as if the newest entry on disk did not exist, for a cursor     *)
(* newer than everything on disk.  Used only to *classify* a disagreement. *)
Disk == rot \o cur
SkipSigApplies(p) == Disk # <<>> /\ p.older > Disk[Len(Disk)].ts
SkipSigReply(p)   == Reply(p, SubSeq(Disk, 1, Len(Disk) - 1) \o mem)

(* Signature of known finding C07:term-search-misses-json-escaped-host-on-disk. *)
(* On disk the quick pre-match reads the name from the raw JSON text of the *)
(* line up to the next double quote: "r&d.example.org" is stored there as   *)
(* r\u0026d.example.org, and x\"y.example.org is cut off after x\\\.  Terms  *)
(* that need the escaped part of the name therefore do not select the entry *)
(* once it is on disk, unless they select it through its client.            *)
(* RawMissNames(t): the names term t selects in memory but not from that    *)
(* raw text (the harness checks this table against its strings as well).    *)
(* The signature is the reply computed without the on-disk entries missed   *)
(* in this way.  Used only to classify.                                     *)
RawMissNames(t) ==
    IF t = "none" \/ t \in LooseTerms THEN {}
    ELSE (TermTable[t].n \cap {"quo"}) \cup (IF t \in {"amp_sub", "amp_exact"} THEN {"amp"} ELSE {})
EscMissed(p, e)  == e.name \in RawMissNames(p.term) /\ e.cli \notin TermTable[p.term].c
EscSigApplies(p) == \E i \in DOMAIN Disk : EscMissed(p, Disk[i])
EscLog(p)        == SelectSeq(Disk, LAMBDA e : ~EscMissed(p, e)) \o mem
EscSigReply(p)   == Reply(p, EscLog(p))

(* Signature of known finding C07:substring-term-misses-capital-s-k-inside-client-name: *)
(* a lower-case term that begins with s or k does not select an entry       *)
(* through a client name in which that letter is a capital and not the      *)
(* first character (memory and disk alike).  FoldMissTerms are the terms of *)
(* the vocabulary of that kind; they select through the client name only.   *)
FoldMissTerms == {"cname_s", "cname_k"}
FoldMissed(p, e)  == p.term \in FoldMissTerms /\ e.cli \in TermTable[p.term].c /\ e.name \notin TermTable[p.term].n
FoldSigApplies(p) == \E i \in DOMAIN Log : FoldMissed(p, Log[i])
FoldLog(p)        == SelectSeq(Log, LAMBDA e : ~FoldMissed(p, e))
FoldSigReply(p)   == Reply(p, FoldLog(p))

(* Signatures of known finding C07:concurrent-add-inverts-timestamp-order.   *)
(* They apply only when the entries are stored out of timestamp order.       *)
(* "inv": the reply of the code's merge, which takes the stored order for the *)
(* time order -- matching entries in reverse order of storage, cut to        *)
(* offset+limit, *then* sorted by time, then the offset dropped.  "invdisk": *)
(* a cursor request when the disorder is on disk, where the binary search    *)
(* for the cursor may go either way; the signature is the selected sequence  *)
(* (any reply that draws from it, typically an empty page saying "end").     *)
RawSel(p) == SelectSeq(Reverse(RawLog), LAMBDA e : Matches(p, e) /\ OlderOK(p.older, e))
InvMechReply(p) ==
    LET cut == Cut(RawSel(p), 0, p.offset + p.limit)
        srt == Reverse(SortSeq(cut, LAMBDA a, b : a.ts < b.ts))
        pg  == IF p.offset >= Len(srt) THEN <<>> ELSE SubSeq(srt, p.offset + 1, Len(srt))
    IN OkReply(pg)
InvSigs(p) ==
    IF MaxFlight = 0 \/ TsSorted(RawLog) THEN <<>>
    ELSE << <<"inv", InvMechReply(p).data, InvMechReply(p).oldest>> >>
         \o (IF p.older # 0 /\ ~TsSorted(Disk) THEN << <<"invdisk", Ids(Sel(p, Log)), 0>> >> ELSE <<>>)

(* Signature of known finding C07:scan-window-ending-on-hidden-record-ends-paging: *)
(* a request whose scan window ends on a hidden on-disk record answers      *)
(* "end" although selected entries are still to come.  The signature names  *)
(* the hidden on-disk records (newest first); the classifier requires an    *)
(* empty page saying "end", entries still to come, and one of these records *)
(* between the cursor and the next of them.                                 *)
HiddenOnDisk == Ids(SelectSeq(Reverse(Disk), LAMBDA e : Hidden(e)))

(* The scan as the code performs it (a model of the mechanism, used by TLC  *)
(* to check that scan windows and the statement fit together, and as the    *)
(* spec's own Search transition): all matching ring entries, then the       *)
(* matching ones among the first p.scan on-disk records older than the      *)
(* cursor; the cursor of an empty page is the last record examined, unless  *)
(* the files ended.                                                         *)
MechReply(p) ==
    LET dk   == DiskOlder(p, Disk)
        w    == SubSeq(dk, 1, Min2(Len(dk), p.scan))
        all  == Sel(p, mem) \o SelectSeq(w, LAMBDA e : Matches(p, e))
        data == Cut(all, 0, p.limit)
    IN [st |-> "ok", data |-> Ids(data),
        oldest |-> IF data # <<>> THEN data[Len(data)].ts
                   ELSE IF Len(dk) >= p.scan THEN w[Len(w)].ts ELSE 0]

-----------------------------------------------------------------------------
(* Actions.                                                                 *)

Cap == IF memSize = 0 THEN 1 ELSE memSize     \* newQueryLog: a ring of at least one element

Init ==
    /\ mem = <<>> /\ cur = <<>> /\ rot = <<>> /\ batch = <<>> /\ flushPending = FALSE
    /\ memSize \in MemSizes /\ fileEnabled \in FileModes
    /\ (memSize = 0 => fileEnabled)    \* MemSize 0 without a file stores nothing at all
    /\ enabled = TRUE /\ anon = FALSE /\ ign = FALSE /\ clock = 0
    /\ pal \in (IF Palettes = {} THEN {0} ELSE Palettes)
    /\ recorded = <<>> /\ inScope = TRUE /\ flight = <<>>
    /\ lastReply = [st |-> "none"]
    \* Direction A: hand the vocabulary tables to the harness, which binds
    \* them to its concrete strings before it runs anything.
    /\ EmitEdges => PrintT(<<"@@V", ToJson([k |-> "t", kinds |-> KindTable, terms |-> TermTable, loose |-> LooseTerms,
                                              rawmiss |-> [t \in Terms |-> RawMissNames(t)]])>>)

(* Push e into the ring: the oldest element is overwritten when it is full. *)
Pushed(e) == IF Len(mem) < Cap THEN Append(mem, e) ELSE Append(Tail(mem), e)

RecordE(name, cli, reason) ==
    /\ clock < MaxRec /\ flight = <<>>
    /\ AllowWindow \/ ~flushPending
    /\ clock' = clock + 1
    /\ IF ~enabled
         THEN UNCHANGED <<mem, flushPending, recorded, inScope>>
         ELSE LET e == [ts |-> 2 * (clock + 1), name |-> name, cli |-> cli, reason |-> reason]
              IN /\ mem' = Pushed(e)
                 /\ flushPending' = (flushPending \/ (fileEnabled /\ Len(mem') >= memSize))
                 \* Inside the window the statement promises nothing any more.
                 /\ inScope' = (inScope /\ ~flushPending)
                 /\ recorded' =
                       IF fileEnabled \/ Len(mem) < Cap THEN Append(recorded, e)
                       \* No file: the ring is the whole log and evicts by design.
                       ELSE Append(SelectSeq(recorded, LAMBDA x : x.ts # mem[1].ts), e)
    /\ UNCHANGED <<cur, rot, batch, memSize, fileEnabled, enabled, anon, ign, pal, flight, lastReply>>

(* Recording by concurrent requests.  Add takes the time of the entry, packs *)
(* the answers, and then takes the buffer lock and pushes the entry; another *)
(* request can do all of that in between.  Stamp is the first part, Push the *)
(* second, and up to MaxFlight Adds are between the two.  Every Stamp and    *)
(* every Push is a tick of the clock.  Which tick the stored entry carries   *)
(* is left open: the one of its Stamp (the time is read first, as the code   *)
(* does) or the one of its Push (the time is read under the lock) -- the     *)
(* statement only speaks about the timestamps the entries end up with.  The  *)
(* configuration is read at the Stamp (a disabled log records nothing); the  *)
(* flush is requested at the Push.  While Adds are in flight nothing else    *)
(* happens: the histories explored are bursts of overlapping Adds between    *)
(* quiescent points.                                                         *)
Stamp(name, cli, reason) ==
    /\ clock < MaxRec /\ Len(flight) < MaxFlight /\ ~flushPending /\ batch = <<>>
    /\ clock' = clock + 1
    /\ flight' = IF enabled
                 THEN Append(flight, [tick |-> clock + 1, name |-> name, cli |-> cli, reason |-> reason])
                 ELSE flight
    /\ UNCHANGED <<mem, cur, rot, batch, flushPending, memSize, fileEnabled, enabled, anon, ign, pal,
                   recorded, inScope, lastReply>>

Push(i) ==
    /\ i \in DOMAIN flight /\ clock < MaxRec /\ ~flushPending
    /\ clock' = clock + 1
    /\ flight' = [j \in 1..(Len(flight) - 1) |-> IF j < i THEN flight[j] ELSE flight[j + 1]]
    /\ \E t \in {flight[i].tick, clock + 1} :
          LET e == [ts |-> 2 * t, name |-> flight[i].name, cli |-> flight[i].cli, reason |-> flight[i].reason]
          IN /\ mem' = Pushed(e)
             /\ flushPending' = (fileEnabled /\ Len(mem') >= memSize)
             /\ recorded' =
                   IF fileEnabled \/ Len(mem) < Cap THEN Append(recorded, e)
                   ELSE Append(SelectSeq(recorded, LAMBDA x : x.ts # mem[1].ts), e)
    /\ UNCHANGED <<cur, rot, batch, memSize, fileEnabled, enabled, anon, ign, pal, inScope, lastReply>>

(* A burst of n overlapping Adds of the same kind, seen after the fact: the  *)
(* entries in the order they were pushed, tss their timestamps (the ticks of *)
(* the burst in any order).  Used by the trace spec for free-running         *)
(* concurrent recording.                                                     *)
Burst(tss, name, cli, reason) ==
    LET n == Len(tss)
    IN /\ enabled /\ fileEnabled /\ ~flushPending /\ n >= 1 /\ flight = <<>>
       /\ Len(mem) + n < memSize /\ clock + n <= MaxRec
       /\ {tss[i] : i \in 1..n} = {2 * (clock + i) : i \in 1..n}
       /\ LET new == [i \in 1..n |-> [ts |-> tss[i], name |-> name, cli |-> cli, reason |-> reason]]
          IN mem' = mem \o new /\ recorded' = recorded \o new
       /\ clock' = clock + n
       /\ UNCHANGED <<cur, rot, batch, flushPending, memSize, fileEnabled, enabled, anon, ign, pal, flight,
                      inScope, lastReply>>

(* n Adds of the same kind in a row that do not fill the ring (so none of   *)
(* them requests a flush): shorthand for the trace spec, which would        *)
(* otherwise need 50 000 lines to grow a log beyond the scan limit.         *)
RecordMany(n, name, cli, reason) ==
    /\ enabled /\ fileEnabled /\ ~flushPending /\ n >= 1
    /\ Len(mem) + n < memSize /\ clock + n <= MaxRec
    /\ LET new == [i \in 1..n |-> [ts |-> 2 * (clock + i), name |-> name, cli |-> cli, reason |-> reason]]
       IN mem' = mem \o new /\ recorded' = recorded \o new
    /\ clock' = clock + n
    /\ UNCHANGED <<cur, rot, batch, flushPending, memSize, fileEnabled, enabled, anon, ign, pal, flight, inScope, lastReply>>

KindChoices == IF Palettes = {} THEN Kinds ELSE {KindOf(pal, clock + 1)}

(* Enc: first half of an explicit flushLogBuffer (Shutdown, or the tests'   *)
(* direct call).  With an empty ring the code reports "nothing to write"    *)
(* and changes nothing.                                                     *)
Enc ==
    /\ fileEnabled /\ batch = <<>> /\ ~flushPending
    /\ batch' = mem /\ mem' = <<>>
    /\ UNCHANGED <<cur, rot, flushPending, memSize, fileEnabled, enabled, anon, ign, clock, pal, flight, recorded, inScope, lastReply>>

AutoEnc ==
    /\ AllowWindow /\ flushPending /\ batch = <<>>
    /\ batch' = mem /\ mem' = <<>> /\ flushPending' = FALSE
    /\ UNCHANGED <<cur, rot, memSize, fileEnabled, enabled, anon, ign, clock, pal, flight, recorded, inScope, lastReply>>

App ==
    /\ batch # <<>>
    /\ cur' = cur \o batch /\ batch' = <<>>
    /\ UNCHANGED <<mem, rot, flushPending, memSize, fileEnabled, enabled, anon, ign, clock, pal, flight, recorded, inScope, lastReply>>

(* I/O fault: the file cannot be written when the second half of a flush    *)
(* runs (flushToFile returns an error; nothing reaches the file).  The      *)
(* statement does not say what becomes of the entries of *that* batch.  The *)
(* code drops them (they were taken out of the ring before the write), and  *)
(* that is what is modelled: they leave `recorded' -- a fault, not a loss   *)
(* the property speaks about.  (Putting them back into a ring that is full  *)
(* would only move the loss to the next Add; an implementation that keeps   *)
(* them somewhere else needs the spec extended.)                            *)
(* What the statement does require is everything                            *)
(* *after* the fault: the flush is over (no batch, no pending request), so  *)
(* recording and flushing go on and every later record is returned exactly  *)
(* once -- which the ordinary invariants then check in the states that      *)
(* follow.                                                                  *)
Without(seq, gone) == SelectSeq(seq, LAMBDA x : \A i \in DOMAIN gone : gone[i].ts # x.ts)
AppFails ==
    /\ batch # <<>> /\ batch' = <<>>
    /\ recorded' = Without(recorded, batch)
    /\ UNCHANGED <<mem, cur, rot, flushPending, memSize, fileEnabled, enabled, anon, ign, clock, pal, flight, inScope, lastReply>>

(* The same fault in the flush that Add requested (both halves at once, as  *)
(* AutoFlush).                                                              *)
AutoFlushFails ==
    /\ ~AllowWindow /\ flushPending /\ batch = <<>> /\ mem # <<>>
    /\ flushPending' = FALSE
    /\ mem' = <<>> /\ recorded' = Without(recorded, mem)
    /\ UNCHANGED <<cur, rot, batch, memSize, fileEnabled, enabled, anon, ign, clock, pal, flight, inScope, lastReply>>

(* A failed explicit flush with nothing in between; used by the trace spec. *)
FlushFails ==
    /\ fileEnabled /\ batch = <<>> /\ ~flushPending /\ mem # <<>>
    /\ mem' = <<>> /\ recorded' = Without(recorded, mem)
    /\ UNCHANGED <<cur, rot, batch, flushPending, memSize, fileEnabled, enabled, anon, ign, clock, pal, flight, inScope, lastReply>>

(* Both halves of an explicit flush with nothing in between (what a caller   *)
(* of flushLogBuffer sees); used by the trace spec.                         *)
Flush ==
    /\ fileEnabled /\ batch = <<>> /\ ~flushPending
    /\ cur' = cur \o mem /\ mem' = <<>>
    /\ UNCHANGED <<rot, batch, flushPending, memSize, fileEnabled, enabled, anon, ign, clock, pal, flight, recorded, inScope, lastReply>>

AutoFlush ==
    /\ ~AllowWindow /\ flushPending /\ batch = <<>>
    /\ cur' = cur \o mem /\ mem' = <<>> /\ flushPending' = FALSE
    /\ UNCHANGED <<rot, batch, memSize, fileEnabled, enabled, anon, ign, clock, pal, flight, recorded, inScope, lastReply>>

(* Rotate renames querylog.json to querylog.json.1; the previous rotated    *)
(* file is aged out by being replaced.  "Rotation ageing out its file" is   *)
(* the only way the statement lets a rotated entry go, and a file is aged   *)
(* out by the *next* file taking its place: when there is no current file   *)
(* there is nothing to rotate and nothing is aged out -- Rotate is enabled   *)
(* then, and changes nothing.                                               *)
Rotate ==
    /\ \/ cur # <<>> /\ rot' = cur /\ cur' = <<>>
       \/ cur = <<>> /\ UNCHANGED <<rot, cur>>
    /\ recorded' = IF rot' = rot THEN recorded
                   ELSE SelectSeq(recorded, LAMBDA x : \A i \in DOMAIN rot : rot[i].ts # x.ts)
    /\ UNCHANGED <<mem, batch, flushPending, memSize, fileEnabled, enabled, anon, ign, clock, pal, flight, inScope, lastReply>>

(* RotateCheck: the periodic check (checkAndRotate: at start, then hourly)   *)
(* rotates only when the oldest entry of the current file is older than the *)
(* rotation interval.  No behaviour of this universe lasts that long (the   *)
(* interval is at least an hour), so the check never has anything to do, in *)
(* whatever state it finds the files -- in particular with a rotated file   *)
(* and no current one.  Restart includes it (the check at start).           *)
RotateCheck == UNCHANGED vars

(* Clear takes the flush lock, so it cannot fall between Enc and App.       *)
Clear ==
    /\ batch = <<>>
    /\ mem' = <<>> /\ cur' = <<>> /\ rot' = <<>> /\ flushPending' = FALSE
    /\ recorded' = <<>> /\ inScope' = TRUE
    /\ UNCHANGED <<batch, memSize, fileEnabled, enabled, anon, ign, clock, pal, flight, lastReply>>

SetConf(en, an, ig) ==
    /\ enabled' = en /\ anon' = an /\ ign' = ig
    /\ UNCHANGED <<mem, cur, rot, batch, flushPending, memSize, fileEnabled, clock, pal, flight, recorded, inScope, lastReply>>

(* Restart: Shutdown flushes the ring if a file is configured; the new      *)
(* instance starts with an empty ring of the (possibly new) size.  Without  *)
(* a file the ring's content is gone by configuration.                      *)
Restart(m) ==
    /\ batch = <<>>
    /\ (m = 0 => fileEnabled)
    /\ memSize' = m /\ mem' = <<>> /\ flushPending' = FALSE
    /\ cur' = IF fileEnabled THEN cur \o mem ELSE cur
    /\ recorded' = IF fileEnabled THEN recorded
                   ELSE SelectSeq(recorded, LAMBDA x : \A i \in DOMAIN mem : mem[i].ts # x.ts)
    /\ UNCHANGED <<rot, batch, fileEnabled, enabled, anon, ign, clock, pal, flight, inScope, lastReply>>

(* Search never changes the log.  A reply is any admissible one; for a      *)
(* well-formed request that is a single value.                              *)
SearchP(p) ==
    /\ lastReply' = IF WellFormed(p, Log)
                    THEN IF Unwindowed(p, Disk) THEN Reply(p, Log) ELSE MechReply(p)
                    ELSE [st |-> "ok", data |-> Ids(Sel(p, Log)), oldest |-> 0]
    /\ UNCHANGED View

-----------------------------------------------------------------------------
(* Parameter sets of the exhaustive universe.                               *)

Limits  == {-5, -1, 0, 1, 2, 3, Huge}
Offsets == {-3, -1, 0, 1, 2, 4, Huge}
Cursors == (-3 .. 2 * clock + 3)       \* every stored ts +- 1, absent, out of range
PageSizes == {1, 2, 3}

P(older, limit, offset, term, status) ==
    [older |-> older, limit |-> limit, offset |-> offset, term |-> term, status |-> status,
     scan |-> IF offset = 0 THEN DefaultScan ELSE 0]
PS(older, limit, term, status, scan) ==
    [older |-> older, limit |-> limit, offset |-> 0, term |-> term, status |-> status, scan |-> scan]
Plain(older, limit, offset) == P(older, limit, offset, "none", "none")

(* The requests TLC tries as Search actions in every state (a transition    *)
(* relation needs a finite set; the invariants below quantify more widely). *)
SearchParams ==
    {Plain(c, 2, 0) : c \in {0, 1, 2 * clock - 1, 2 * clock, 2 * clock + 1}}
    \cup {Plain(0, l, o) : l \in {-1, 0, 2, Huge}, o \in {-1, 0, 1}}
    \cup {PS(c, 1, "sub_example", "none", 1) : c \in {0, 2 * clock}}

-----------------------------------------------------------------------------
(* Edge and observation emission for direction A.                           *)

St(m, c, r, b, fp, ms, fe, en, an, ig, ck, pl, fl) ==
    [mem |-> Ids(m), cur |-> Ids(c), rot |-> Ids(r), batch |-> Ids(b), fp |-> fp, ms |-> ms,
     fe |-> fe, en |-> en, an |-> an, ig |-> ig, ck |-> ck, pal |-> pl,
     fl |-> [i \in DOMAIN fl |-> fl[i].tick],
     \* what the stored entries are (an entry that carries the tick of its Push
     \* is not the entry a whole Add at that tick would have recorded)
     attr |-> LET all == r \o c \o b \o m IN [i \in DOMAIN all |-> <<all[i].name, all[i].cli, all[i].reason>>]]
Here  == St(mem, cur, rot, batch, flushPending, memSize, fileEnabled, enabled, anon, ign, clock, pal, flight)
There == St(mem', cur', rot', batch', flushPending', memSize', fileEnabled', enabled', anon', ign', clock', pal',
            flight')

Edge(act, args) ==
    EmitEdges => PrintT(<<"@@V", ToJson([k |-> "e", src |-> Here, act |-> act, args |-> args, dst |-> There])>>)

(* One query of the observation table: the request, whether its answer is   *)
(* fixed ("exact"), bounded by the window rule ("window": `data' is the     *)
(* sequence of selected entries older than the cursor, see                  *)
(* AdmissibleWindow) or only bounded ("sub": 400, or 200 with a subsequence *)
(* of `data'), and the defect signatures that apply, each <<name, data,     *)
(* oldest>>.  Written as a tuple <<older, limit, offset, term, status,      *)
(* class, data, oldest, sigs, scan>> to keep TLC's output small.            *)
Sigs(p) ==
    (IF SkipSigApplies(p) THEN << <<"skip", SkipSigReply(p).data, SkipSigReply(p).oldest>> >> ELSE <<>>)
    \o (IF EscSigApplies(p) THEN << <<"esc", EscSigReply(p).data, EscSigReply(p).oldest>> >> ELSE <<>>)
    \o (IF FoldSigApplies(p) THEN << <<"fold", FoldSigReply(p).data, FoldSigReply(p).oldest>> >> ELSE <<>>)
    \o InvSigs(p)
WindowSigs(p) ==
    (IF EscSigApplies(p) THEN << <<"esc", Ids(Sel(p, EscLog(p))), 0>> >> ELSE <<>>)
    \o (IF FoldSigApplies(p) THEN << <<"fold", Ids(Sel(p, FoldLog(p))), 0>> >> ELSE <<>>)
    \o (IF HiddenOnDisk # <<>> THEN << <<"hid", HiddenOnDisk, 0>> >> ELSE <<>>)
    \* stores out of timestamp order: the scan follows the order of storage
    \* (any reply that draws from the selected sequence)
    \o (IF MaxFlight # 0 /\ ~TsSorted(RawLog) THEN << <<"invwin", Ids(Sel(p, Log)), 0>> >> ELSE <<>>)
(* alts: the other admissible answers (entries of an ignored name shown).   *)
Q(p) ==
    IF WellFormed(p, Log)
    THEN IF Unwindowed(p, Disk)
         THEN <<p.older, p.limit, p.offset, p.term, p.status, "exact", Reply(p, Log).data, Reply(p, Log).oldest,
                Sigs(p), p.scan,
                IF ign /\ ReplyShown(p, Log) # Reply(p, Log)
                THEN << <<ReplyShown(p, Log).data, ReplyShown(p, Log).oldest>> >> ELSE <<>> >>
         ELSE <<p.older, p.limit, p.offset, p.term, p.status, "window", Ids(Sel(p, Log)), 0,
                WindowSigs(p), p.scan,
                IF ign THEN << <<Ids(SelShown(p, Log)), 0>> >> ELSE <<>> >>
    ELSE <<p.older, p.limit, p.offset, p.term, p.status, "sub", Ids(SelShown(p, Log)), 0, <<>>, p.scan, <<>> >>

(* Row for a chain of scan windows: always the selected sequence, judged by  *)
(* the window rule at every cursor the real code hands out (the rule also   *)
(* admits the fixed reply of a request whose scan does not end early).      *)
QW(p) ==
    <<p.older, p.limit, p.offset, p.term, p.status, "window", Ids(Sel(p, Log)), 0,
      WindowSigs(p), p.scan, IF ign THEN << <<Ids(SelShown(p, Log)), 0>> >> ELSE <<>> >>

(* Cursor chain: pages of size l following reply.oldest until an empty page *)
(* (which is part of the chain: the client only stops when it sees it).     *)
RECURSIVE Chain(_, _, _, _)
Chain(c, l, t, s) ==
    LET p == P(c, l, 0, t, s)
        r == Reply(p, Log)
    IN IF r.data = <<>> THEN <<Q(p)>> ELSE <<Q(p)>> \o Chain(r.oldest, l, t, s)

RECURSIVE OffChain(_, _, _, _)
OffChain(o, l, t, s) ==
    LET p == P(0, l, o, t, s)
        r == Reply(p, Log)
    IN IF r.data = <<>> THEN <<Q(p)>> ELSE <<Q(p)>> \o OffChain(o + l, l, t, s)

FlatSeq(ss) == FlattenSeq(ss)

(* Filters whose selections are compared in every state.                    *)
FilterFamily ==
    {<<t, "none">> : t \in Terms \ {"none"}} \cup {<<"none", s>> : s \in Statuses \ {"none"}}
    \cup {<<"sub_example", "filtered">>, <<"ip_sub", "processed">>, <<"cname_sub", "rewritten">>}
(* Filters under which paging is checked by TLC (PagingPartitions).         *)
PagedFilters == {<<"none", "none">>, <<"sub_example", "none">>, <<"none", "filtered">>, <<"ip_sub", "processed">>}
(* <<page size, filter>> combinations replayed into the real code in every  *)
(* state: every page size on the unfiltered log, one size per filter.       *)
ReplayedPagings ==
    {<<l, <<"none", "none">> >> : l \in PageSizes}
    \cup {<<2, <<"sub_example", "none">> >>, <<1, <<"none", "filtered">> >>, <<3, <<"ip_sub", "processed">> >>}
(* Scan windows: <<scan, page size, filter>>.  The harness follows the       *)
(* cursors the real code hands out from `older_than absent' until the end   *)
(* and judges every reply by the window rule; the row gives it the selected *)
(* sequence.                                                                *)
(* The smallest scan limit replayed is 2: the code counts the record the     *)
(* cursor points at (when it is on disk) as examined, so a limit of 1 can   *)
(* be used up by it -- an artefact of the scaling, the real limit is 50000. *)
ReplayedWindows ==
    {<<2, 2, <<"none", "none">> >>, <<2, 1, <<"sub_example", "none">> >>, <<2, 1, <<"nomatch", "none">> >>,
     <<3, 1, <<"none", "filtered">> >>, <<3, 3, <<"ip_sub", "processed">> >>, <<2, 2, <<"cname2_exact", "none">> >>}
OddPairs ==
    {<<l, 0>> : l \in Limits \ PageSizes} \cup {<<2, o>> : o \in Offsets \ {0}}
    \cup {<<-1, -1>>, <<Huge, 1>>, <<Huge, Huge>>, <<-5, 4>>, <<0, 1>>, <<1, Huge>>, <<3, -3>>}

Observation ==
    [ full   |-> SetToSeq({Q(P(0, Huge, 0, f[1], f[2])) : f \in FilterFamily \cup {<<"none", "none">>}}),
      deflt  |-> <<Q(Plain(0, DefaultLimit, 0))>>,
      chains |-> FlatSeq(SetToSeq({Chain(0, x[1], x[2][1], x[2][2]) : x \in ReplayedPagings})),
      offs   |-> FlatSeq(SetToSeq({OffChain(0, x[1], x[2][1], x[2][2]) : x \in ReplayedPagings})),
      curs   |-> SetToSeq({Q(Plain(c, 2, 0)) : c \in Cursors \ {0}})
                 \o SetToSeq({Q(P(c, 1, 1, "sub_example", "none")) : c \in {x \in Cursors : x % 2 # 0}}),
      odd    |-> SetToSeq({Q(Plain(0, x[1], x[2])) : x \in OddPairs}),
      win    |-> SetToSeq({QW(PS(0, x[2], x[3][1], x[3][2], x[1])) : x \in ReplayedWindows}) ]

Observe ==
    /\ EmitEdges /\ batch = <<>> /\ ~flushPending /\ flight = <<>>
    /\ PrintT(<<"@@V", ToJson([k |-> "o", st |-> Here, obs |-> Observation])>>)
    /\ UNCHANGED vars

-----------------------------------------------------------------------------
(* The next-state relation.  Every disjunct is a named operator so that     *)
(* TLC's coverage output names it (the check refuses to pass when one of    *)
(* them was never taken).  While an automatic flush is pending, calls other *)
(* than the flush itself are only explored when the exclusion window is     *)
(* (AllowWindow).                                                           *)
Calm == (AllowWindow \/ ~flushPending) /\ flight = <<>>

DoRec ==
    \E k \in KindChoices :
        /\ RecordE(KindTable[k].name, KindTable[k].cli, KindTable[k].reason)
        /\ Edge("rec", [kind |-> k])
DoStamp ==
    \E k \in KindChoices :
        /\ Stamp(KindTable[k].name, KindTable[k].cli, KindTable[k].reason)
        /\ Edge("stamp", [kind |-> k])
DoPush      == \E i \in DOMAIN flight : Push(i) /\ Edge("push", [i |-> i])
DoEnc       == flight = <<>> /\ Enc /\ Edge("enc", [x |-> 0])
DoApp       == flight = <<>> /\ App /\ Edge("app", [x |-> 0])
DoAutoFlush == AutoFlush /\ Edge("autoflush", [x |-> 0])
DoAppFails  == Faults /\ AppFails /\ Edge("appfail", [x |-> 0])
DoAutoFlushFails == Faults /\ AutoFlushFails /\ Edge("autoflushfail", [x |-> 0])
DoRotate    == Calm /\ Rotate /\ Edge("rotate", [x |-> 0])
DoRotCheck  == Calm /\ batch = <<>> /\ RotateCheck /\ Edge("rotcheck", [x |-> 0])
DoClear     == Calm /\ Clear /\ Edge("clear", [x |-> 0])
DoConf ==
    /\ Calm
    /\ \E en \in BOOLEAN, an \in AnonModes, ig \in IgnoreModes :
          /\ en # enabled \/ an # anon \/ ig # ign
          /\ SetConf(en, an, ig) /\ Edge("conf", [en |-> en, an |-> an, ig |-> ig])
DoRestart ==
    /\ Calm
    /\ \E m \in (IF RestartResizes THEN MemSizes ELSE {memSize}) :
          Restart(m) /\ Edge("restart", [ms |-> m])
DoSearch == Quiescent /\ ~EmitEdges /\ (\E p \in SearchParams : SearchP(p))

Next ==
    \/ DoRec \/ DoStamp \/ DoPush \/ DoEnc \/ AutoEnc \/ DoApp \/ DoAutoFlush \/ DoAppFails \/ DoAutoFlushFails
    \/ DoRotate \/ DoRotCheck \/ DoClear \/ DoConf \/ DoRestart
    \/ DoSearch \/ Observe

Spec == Init /\ [][Next]_vars

-----------------------------------------------------------------------------
(* Properties.  All are state invariants: the Search parameters are         *)
(* quantified inside them, so they cover every request in every reachable   *)
(* state, not only the requests taken as transitions.                       *)

TypeOK ==
    /\ Len(mem) <= Cap /\ clock \in 0..MaxRec
    /\ LET lg == Log IN \A i \in DOMAIN lg : lg[i].ts \in 2..(2 * clock)

InForce == inScope /\ Quiescent

(* Timestamps grow along the stores: memory is newer than the file, the     *)
(* file newer than the rotated file.                                        *)
Ordered == MaxFlight = 0 => LET lg == Log IN \A i \in 1..(Len(lg) - 1) : lg[i].ts < lg[i + 1].ts

(* Nothing is lost or duplicated outside the exclusion window; each stored  *)
(* entry is the recorded one, whole (PayloadPreserved).                     *)
SortedRec == IF MaxFlight = 0 THEN recorded ELSE SortSeq(recorded, LAMBDA a, b : a.ts < b.ts)
NothingLost      == InForce => Log = SortedRec
PayloadPreserved == InForce => LET lg == Log IN \A i \in DOMAIN lg : \E j \in DOMAIN recorded : recorded[j] = lg[i]

(* Selection is per entry, so a filter acts on paging only through the set  *)
(* of entries it selects: SearchAll is checked for every single term, every *)
(* single status and some combinations (FilterFamily), PagingPartitions for *)
(* the unfiltered log and three filters of different selectivity.           *)
AllFilters == FilterFamily \cup {<<"none", "none">>}

(* The oracle, written on the ghost only.                                   *)
Oracle(t, s) == SelectSeq(Reverse(SortedRec), LAMBDA e : TermMatches(t, e) /\ StatusMatches(s, e) /\ ~Hidden(e))

(* SearchAll: an unrestricted search returns exactly the recorded entries   *)
(* that satisfy the filters, each once, newest first.                       *)
SearchAll ==
    InForce => \A f \in AllFilters :
        Reply(P(0, Huge, 0, f[1], f[2]), Log).data = Ids(Oracle(f[1], f[2]))

(* Concatenation of the pages obtained by following the returned cursor.    *)
RECURSIVE CursorPages(_, _, _, _)
CursorPages(c, l, t, s) ==
    LET r == Reply(P(c, l, 0, t, s), Log)
    IN IF r.data = <<>> THEN <<>> ELSE r.data \o CursorPages(r.oldest, l, t, s)
RECURSIVE OffsetPages(_, _, _, _)
OffsetPages(o, l, t, s) ==
    LET r == Reply(P(0, l, o, t, s), Log)
    IN IF r.data = <<>> THEN <<>> ELSE r.data \o OffsetPages(o + l, l, t, s)

(* PagingPartitions: for every page size and every filter, wherever the     *)
(* memory / file / rotated-file boundaries fall, both ways of paging give   *)
(* the unpaged sequence back: no gaps, no duplicates.  Every cursor handed  *)
(* out is a stored timestamp, so every request of the chain is well formed. *)
PagingPartitions ==
    InForce => \A f \in PagedFilters, l \in PageSizes :
        /\ CursorPages(0, l, f[1], f[2]) = Ids(Oracle(f[1], f[2]))
        /\ OffsetPages(0, l, f[1], f[2]) = Ids(Oracle(f[1], f[2]))

(* WindowPaging: with scan windows of every small size, following the       *)
(* cursors of the mechanism until it says "end" still yields exactly the    *)
(* selected entries, and every reply on the way obeys the window rule (so   *)
(* the rule and the statement's paging clause fit together).                *)
RECURSIVE WindowPages(_, _, _, _, _)
WindowPages(c, l, t, s, k) ==
    LET r == MechReply(PS(c, l, t, s, k))
    IN IF r.oldest = 0 THEN r.data ELSE r.data \o WindowPages(r.oldest, l, t, s, k)
RECURSIVE WindowChainOK(_, _, _, _, _)
WindowChainOK(c, l, t, s, k) ==
    LET p == PS(c, l, t, s, k)
        r == MechReply(p)
    IN /\ Admissible(p, Log, Disk, r)
       /\ r.oldest # 0 => WindowChainOK(r.oldest, l, t, s, k)
(* MechReply follows the order of storage, so this is stated for stores that *)
(* are in timestamp order (the mechanism is the defect otherwise, see         *)
(* InvSigs).                                                                  *)
WindowPaging ==
    InForce /\ TsSorted(RawLog) => \A f \in PagedFilters \cup {<<"nomatch", "none">>}, l \in PageSizes, k \in {1, 2, 3} :
        /\ WindowPages(0, l, f[1], f[2], k) = Ids(Oracle(f[1], f[2]))
        /\ WindowChainOK(0, l, f[1], f[2], k)

(* NoParameterCrashes: Search is total -- for every parameter combination   *)
(* there is an admissible reply (the spec's own reply is one), and what a   *)
(* 200 returns never invents, repeats or reorders entries.                  *)
NoParameterCrashes ==
    Quiescent => \A p \in {Plain(0, l, o) : l \in Limits, o \in Offsets}
                       \cup {Plain(c, l, o) : c \in Cursors, l \in {-1, 2, Huge}, o \in {0, 1}} :
        LET r == IF WellFormed(p, Log) THEN Reply(p, Log)
                 ELSE [st |-> "ok", data |-> Ids(Sel(p, Log)), oldest |-> 0]
        IN /\ Admissible(p, Log, Disk, r)
           /\ Admissible(p, Log, Disk, [st |-> "bad_request"]) = ~WellFormed(p, Log)
           /\ IsSubseq(r.data, Ids(Reverse(Log)))

(* What the last Search transition answered is admissible.                  *)
LastReplyOK == lastReply.st \in {"none", "ok", "bad_request"}

(* For QueryLog.window.cfg only: the statement's exclusion is necessary.    *)
NothingLostEvenInWindow == Quiescent => Log = SortedRec
=============================================================================
