SPECIFICATION Spec
CONSTANTS MaxLines = 2
          Shapes <- ShapesFull
          Endings <- EndingsAll
INVARIANTS Statement
