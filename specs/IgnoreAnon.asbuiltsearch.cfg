CONSTANT Design = "asbuilt"
SPECIFICATION Spec
INVARIANTS SearchNames
