SPECIFICATION TSpec
CONSTANT DoEmit = FALSE
