package dnsforward

// C01 conformance harness.
//
// Direction A (TestZZVerifC01Replay): every line of VERIF_IN is one
// configuration of specs/DnsPipeline.tla together with the verdict table TLC
// computed for it (the admissible outcomes of every request of the header's
// query list).  One real server is built per configuration, every request is
// sent through Server.handleDNSRequest and the projected observation must be
// one of the admissible outcomes.
//
// Direction B (TestZZVerifC01Trace): a seeded generator draws larger
// configurations (up to 12 rules, names up to 5 labels), queries around the
// rule targets, and records configuration + request + observation for
// specs/TraceDnsPipeline.tla.

import (
	"encoding/json"
	"fmt"
	"math/rand"
	"os"
	"path/filepath"
	"strconv"
	"strings"
	"testing"
)

// zzC01Step is one configuration of a walk with its verdict tables: Tab for
// a question this server is asked for the first time, TabR for one it has
// been asked before (emitted only with the response cache on; otherwise the
// two are the same).
type zzC01Step struct {
	// Fail: no reconfiguration, but a rebuild of the engines that fails (a
	// list file cannot be opened); Cfg and the tables are those of the step
	// before -- a failed reconfiguration changes nothing.
	Fail bool           `json:"fail"`
	CI   int            `json:"ci"`
	Cfg  zzC0102Cfg     `json:"cfg"`
	Tab  [][]zzC0102Out `json:"tab"`
	TabR [][]zzC0102Out `json:"tabr"`
}

// zzC01Line is a header (the query list) or a walk: the configurations ONE
// live server goes through, in order.
type zzC01Line struct {
	Kind    string       `json:"kind"`
	I       int          `json:"i"`
	Queries []zzC0102Req `json:"queries"`
	// ProtOff / ProtOffR: the outcomes of any request (first time / asked
	// before) while protection is not in effect.
	ProtOff  []zzC0102Out `json:"protoff"`
	ProtOffR []zzC0102Out `json:"protoffr"`
	Steps    []zzC01Step  `json:"steps"`
	UDP     bool         `json:"udp"`
}

type zzC01Bad struct {
	Kind     string       `json:"kind"`
	I        int          `json:"i"`
	S        int          `json:"s"`
	Q        int          `json:"q"`
	Req      zzC0102Req   `json:"req"`
	Rep      bool         `json:"rep"`
	Got      zzC0102Out   `json:"got"`
	Want     []zzC0102Out `json:"want"`
	Concrete string       `json:"concrete"`
	Lists    any          `json:"lists"`
	History  any          `json:"history"`
	Ops      []string     `json:"ops"`
	AddrForm string       `json:"addrform"`
}

func TestZZVerifC01Replay(t *testing.T) {
	idx, n, done := zzC0102Shard(t, "TestZZVerifC01Replay")
	if done {
		return
	}

	w := zzNewWriter(t, "VERIF_OUT")
	defer w.close()

	dir := zzC0102WorkDir(t)
	var queries []zzC0102Req
	var hdr zzC01Line
	lineNo, walks, cfgs, evals, bad, viaUDP, reconfs, faults := 0, 0, 0, 0, 0, 0, 0, 0
	zzReadNDJSON(t, "VERIF_IN", func(b []byte) {
		var l zzC01Line
		if err := json.Unmarshal(b, &l); err != nil {
			t.Fatalf("bad vector: %v", err)
		}

		if l.Kind == "hdr01" {
			queries = l.Queries
			hdr = l

			return
		}

		lineNo++
		if lineNo%n != idx {
			return
		}

		// Two generators: one for the concretisation and the reconfiguration
		// operations, one for the requests (their number depends on timing
		// when a reconfiguration is waited for), so that a walk is driven
		// with the same operations every time.
		rng := rand.New(rand.NewSource(zzSeed()*1000003 + int64(l.I)))
		rngQ := rand.New(rand.NewSource(zzSeed()*1000003 + int64(l.I) + 500009))
		d := filepath.Join(dir, strconv.Itoa(l.I))
		z, err := zzC0102Build(&l.Steps[0].Cfg, d, rng)
		if err != nil {
			w.put(map[string]any{"kind": "skip", "i": l.I, "configs": len(l.Steps), "err": err.Error()})

			return
		}
		defer func() { z.close(); _ = os.RemoveAll(d) }()

		udp := ""
		if l.UDP {
			// A sample of walks is also driven through a real socket; only
			// c2 requests (the source address is the loopback address then,
			// which is neither c1 nor c2: no rule and no setting of any
			// universe depends on it).
			if err = z.s.Start(); err == nil {
				udp = z.s.dnsProxy.Addr("udp").String()
				defer func() { _ = z.s.Stop() }()
			}
		}

		walks++
		var history []any
		for si := range l.Steps {
			st := &l.Steps[si]
			if si > 0 && l.Steps[si-1].Fail {
				if err = z.heal(); err != nil {
					w.put(map[string]any{"kind": "skip", "i": l.I, "s": si, "configs": len(l.Steps) - si,
						"err": err.Error(), "ops": z.ops})

					return
				}
			}

			if st.Fail {
				var injected bool
				injected, err = z.failedRebuild(rng)
				if err != nil {
					w.put(map[string]any{"kind": "skip", "i": l.I, "s": si, "configs": len(l.Steps) - si,
						"err": err.Error(), "ops": z.ops})

					return
				}
				if injected {
					faults++
				}
			} else if si > 0 {
				// The SAME live server, reconfigured.
				if err = z.reconfigure(&st.Cfg, rng); err != nil {
					w.put(map[string]any{"kind": "skip", "i": l.I, "s": si, "configs": len(l.Steps) - si,
						"err": err.Error(), "ops": z.ops})

					return
				}
				reconfs++
			}

			cfgs++
			if st.Fail {
				history = append(history, "a rebuild that fails; nothing changes")
			} else {
				history = append(history, z.texts)
			}
			// With the cache on every request is sent twice: the second
			// answer must equal the first.
			sends := 1
			if st.Cfg.Cache {
				sends = 2
			}
			for qi := range queries {
				req := &queries[qi]
				via := ""
				if udp != "" && req.Client == "c2" && req.Cid == "" {
					via = udp
				}

				for k := 0; k < sends; k++ {
					if via != "" {
						viaUDP++
					}

					ans := zzC0102Harmless(req.Qtype)
					wantOf := func(rep bool) (want []zzC0102Out) {
						switch {
						case z.protOff && rep && st.Cfg.Cache:
							return hdr.ProtOffR
						case z.protOff:
							return hdr.ProtOff
						case rep && st.Cfg.Cache:
							return st.TabR[qi]
						default:
							return st.Tab[qi]
						}
					}
					o, ok := z.settled(req, ans, rngQ, via, wantOf)
					evals++
					if ok {
						continue
					}
					want := wantOf(o.Rep)

					bad++
					if bad <= 300 {
						w.put(zzC01Bad{
							Kind: "bad", I: l.I, S: si, Q: qi, Req: *req, Rep: o.Rep, Got: o.Out, Want: want,
							Concrete: o.Concrete, Lists: z.texts, History: history, Ops: z.ops, AddrForm: o.AddrForm,
						})
					}

					break
				}
			}
		}

		if walks <= 2 {
			w.put(map[string]any{"kind": "sample", "i": l.I, "history": history, "ops": z.ops})
		}
	})

	w.put(map[string]any{"kind": "summary", "shard": idx, "walks": walks, "configs": cfgs, "evals": evals,
		"bad": bad, "udp": viaUDP, "reconfigurations": reconfs, "faults": faults})
}

// ---------------------------------------------------------------- direction B

var zzC01Labels = []string{"a", "b", "c", "d", "xa", "ab", "4chan", "4cdn"}
var zzC01TLDs = []string{"com", "org", "net"}

func zzC01RandName(rng *rand.Rand, maxLabels int) (n []string) {
	k := 1 + rng.Intn(maxLabels-1)
	for i := 0; i < k; i++ {
		n = append(n, zzC01Labels[rng.Intn(len(zzC01Labels))])
	}

	return append(n, zzC01TLDs[rng.Intn(len(zzC01TLDs))])
}

// zzC01RandRule draws one rule over the targets tg.
func zzC01RandRule(rng *rand.Rand, tg [][]string, id int) (r zzC0102Rule) {
	r = zzC0102Rule{
		ID: id, Tgt: zzC0102Host{N: tg[rng.Intn(len(tg))]}, Dt: "none", Cl: "none", Da: [][]string{},
		Place: []string{"allow", "block", "block", "custom", "custom", "offblock", "offallow"}[rng.Intn(7)],
	}

	if rng.Intn(5) == 0 {
		r.Kind, r.Pat = "hosts", "exact"
		r.IP = []string{"r1", "r2", "r6", "null4"}[rng.Intn(4)]

		return r
	}

	r.Kind = []string{"block", "block", "allow"}[rng.Intn(3)]
	r.Pat = []string{"domain", "domain", "exact", "wild"}[rng.Intn(4)]
	r.Imp = rng.Intn(4) == 0
	if rng.Intn(4) == 0 {
		r.Dt = []string{"only", "except"}[rng.Intn(2)]
		r.Dtype = []string{"A", "AAAA", "HTTPS", "TXT"}[rng.Intn(4)]
	}

	if rng.Intn(4) == 0 {
		r.Cl = []string{"only", "except"}[rng.Intn(2)]
		r.Clv = []string{"ip", "cidr", "name"}[rng.Intn(3)]
	}

	if rng.Intn(5) == 0 {
		for k := 0; k < 1+rng.Intn(2); k++ {
			d := tg[rng.Intn(len(tg))]
			if rng.Intn(2) == 0 {
				d = append([]string{zzC01Labels[rng.Intn(4)]}, d...)
			}
			r.Da = append(r.Da, d)
		}
	}

	return r
}

// zzC01Twin reports whether b (a $badfilter rule) would negate r in urlfilter.
func zzC01Twin(b, r *zzC0102Rule) (ok bool) {
	return b.Kind == r.Kind && b.Pat == r.Pat && zzC0102JSON(b.Tgt) == zzC0102JSON(r.Tgt) &&
		b.Imp == r.Imp && b.Cl == r.Cl && b.Clv == r.Clv
}

func zzC01Engine(place string) (e string) {
	switch place {
	case "allow":
		return "allow"
	case "block", "custom":
		return "block"
	default:
		return place
	}
}

// zzC01RandRules draws up to 12 rules over the targets (plus at most one
// $badfilter twin per engine).
func zzC01RandRules(rng *rand.Rand, targets [][]string) (rules []zzC0102Rule) {
	cfg := &zzC0102Cfg{Rules: []zzC0102Rule{}}
	nr := rng.Intn(13)
	if rng.Intn(6) == 0 {
		nr = 0
	}
	for i := 0; i < nr; i++ {
		cfg.Rules = append(cfg.Rules, zzC01RandRule(rng, targets, i+1))
	}

	// At most one $badfilter rule per engine, spelled as the exact twin of
	// an existing rule without $dnstype/$denyallow (see RuleEngine!Ambiguous).
	used := map[string]bool{}
	for i := 0; i < len(cfg.Rules) && rng.Intn(3) == 0; i++ {
		r := cfg.Rules[rng.Intn(len(cfg.Rules))]
		e := zzC01Engine(r.Place)
		if r.Kind == "hosts" || used[e] {
			continue
		}
		ambiguous := false
		for j := range cfg.Rules {
			o := &cfg.Rules[j]
			if zzC01Engine(o.Place) == e && zzC01Twin(&r, o) && (o.Dt != "none" || len(o.Da) > 0) {
				ambiguous = true
			}
		}
		if ambiguous {
			continue
		}
		used[e] = true
		b := r
		b.ID, b.Bad, b.Dt, b.Dtype, b.Da = len(cfg.Rules)+1, true, "none", "", [][]string{}
		if rng.Intn(2) == 0 {
			b.Place = map[string]string{"block": "custom", "custom": "block"}[r.Place]
			if b.Place == "" {
				b.Place = r.Place
			}
		}
		cfg.Rules = append(cfg.Rules, b)
	}

	return cfg.Rules
}

// zzC01RandCfg draws a configuration of up to 12 rules.
func zzC01RandCfg(rng *rand.Rand) (cfg zzC0102Cfg, targets [][]string) {
	base := zzC01RandName(rng, 3)
	targets = [][]string{base, append([]string{zzC01Labels[rng.Intn(4)]}, base...), zzC01RandName(rng, 4), {"4chan", "org"}, {"9gag", "com"}}
	if rng.Intn(2) == 0 {
		targets = append(targets, append([]string{"b", "a"}, base...))
	}

	cfg.Rules = zzC01RandRules(rng, targets)
	cfg.Cache = rng.Intn(3) == 0
	cfg.Cust = 1 + rng.Intn(2)
	cfg.Mode = []string{"default", "refused", "nxdomain", "null_ip", "custom_ip"}[rng.Intn(5)]
	cfg.Prot = []string{"on", "on", "on", "off", "paused", "expired"}[rng.Intn(6)]
	cfg.Filt = rng.Intn(5) != 0
	cfg.Svc = []string{"none", "none", "active", "paused"}[rng.Intn(4)]
	cfg.Client = zzC0102Client{Known: rng.Intn(2) == 0, Filt: true, Svc: "inherit"}
	if cfg.Client.Known {
		cfg.Client.UseOwn = rng.Intn(2) == 0
		cfg.Client.Filt = rng.Intn(3) != 0
		cfg.Client.Svc = []string{"inherit", "inherit", "none", "active", "paused"}[rng.Intn(5)]
	}

	return cfg, targets
}

func TestZZVerifC01Trace(t *testing.T) {
	w := zzNewWriter(t, "VERIF_OUT")
	defer w.close()

	nCfg, _ := strconv.Atoi(os.Getenv("VERIF_N"))
	if nCfg == 0 {
		nCfg = 100
	}

	only := zzC0102Only()
	dir := zzC0102WorkDir(t)
	for ci := 0; ci < nCfg; ci++ {
		if only != nil && !only[ci] {
			continue
		}

		// One generator per configuration, so that a configuration can be
		// re-driven alone (VERIF_ONLY) with the same concrete inputs.
		rng := rand.New(rand.NewSource(zzSeed()*7919 + int64(ci)))
		cfg, targets := zzC01RandCfg(rng)
		if cfg.Rules == nil {
			cfg.Rules = []zzC0102Rule{}
		}

		d := filepath.Join(dir, "t"+strconv.Itoa(ci))
		z, err := zzC0102Build(&cfg, d, rng)
		if err != nil {
			t.Fatalf("building %s: %v", zzC0102JSON(cfg), err)
		}

		// One live server: the first configuration, then up to two
		// reconfigurations of its rule lists (other rules over the same
		// targets, sometimes none at all), with requests after each.
		cur := cfg
		for step, steps := 0, 1+rng.Intn(3); step < steps; step++ {
			if step > 0 {
				next := cur
				next.Rules = zzC01RandRules(rng, targets)
				if rng.Intn(3) == 0 {
					// drop every allow-list rule
					kept := []zzC0102Rule{}
					for _, r := range next.Rules {
						if r.Place != "allow" {
							kept = append(kept, r)
						}
					}
					next.Rules = kept
				}
				next.Mode = []string{"default", "refused", "nxdomain", "null_ip", "custom_ip", "custom_ip"}[rng.Intn(6)]
				next.Cust = 1 + rng.Intn(2)
				if err = z.reconfigure(&next, rng); err != nil {
					t.Fatalf("reconfiguring: %v\n%s", err, strings.Join(z.ops, "\n"))
				}
				if err = z.quiesce(step); err != nil {
					// Give this server up; direction A reports reconfigurations
					// that do not take effect.
					w.put(map[string]any{"ev": "stuck", "ci": ci, "err": err.Error()})

					break
				}
				cur = next
			}

			logged := cur
			if z.protOff {
				// the flag was set during a running pause and the server
				// reports that the pause still holds (see setProt)
				logged.Prot = "paused"
			}
			w.put(map[string]any{"ev": "cfg", "ci": ci, "step": step, "cfg": logged, "lists": z.texts})
			for qi := 0; qi < 16; qi++ {
				n := targets[rng.Intn(len(targets))]
				switch rng.Intn(5) {
				case 0:
					n = append([]string{zzC01Labels[rng.Intn(len(zzC01Labels))]}, n...)
				case 1:
					if len(n) > 2 {
						n = n[1:]
					}
				case 2:
					n = append([]string{"x" + n[0]}, n[1:]...)
				}
				if len(n) > 5 {
					n = n[len(n)-5:]
				}

				req := zzC0102Req{
					Name: n, Qtype: []string{"A", "AAAA", "HTTPS", "TXT"}[rng.Intn(4)],
					Client: []string{"c1", "c2"}[rng.Intn(2)],
					Cid:    []string{"", "", "x", "kid"}[rng.Intn(4)],
				}
				ans := zzC0102Harmless(req.Qtype)
				for k, sends := 0, 1+rng.Intn(2); k < sends; k++ {
					o := z.query(&req, ans, rng, "")
					w.put(map[string]any{"ev": "q", "req": req, "ans": zzC0102FullRRs(ans), "rep": o.Rep,
						"obs": o.Out, "concrete": o.Concrete})
				}
			}
		}

		z.close()
		_ = os.RemoveAll(d)
	}

	fmt.Fprintf(os.Stderr, "c01 trace: %d configurations\n", nCfg)
}

// zzC0102FullRRs fills the optional fields so that every record has the same
// shape for TLC.
func zzC0102FullRRs(ans []zzC0102RR) (full []zzC0102RR) {
	full = make([]zzC0102RR, len(ans))
	for i, a := range ans {
		if a.N == nil {
			a.N = []string{}
		}
		if a.O == nil {
			a.O = []string{}
		}
		if a.H4 == nil {
			a.H4 = []string{}
		}
		if a.H6 == nil {
			a.H6 = []string{}
		}
		full[i] = a
	}

	return full
}
