PROPERTY = "G05"
ENTRY = {
        "text": "RuntimeClients.tla/RuntimeClientsCore.tla (on top of C04's ClientsCore.tla: per address one datum per source, the reported "
                "name/source = highest-priority source WHOIS < ARP < rDNS < DHCP < hosts file that knows the address, every report replaces only "
                "its own source's data, an address no source knows is no runtime client, DHCP data synchronised on listing and learned on lookup, "
                "WHOIS refused for addresses owned by IP/CIDR, persistent clients shadow runtime ones; CustomUpstreamConfig attributed with "
                "C04's precedence, nil without effective upstream lines, always the owner's CURRENT upstreams/cache switch, the same object until "
                "the client's upstream settings or the common settings change) is explored by TLC over all histories of four finite universes "
                "(6 invariants, 4 action properties); every labelled edge TLC prints is walked through a real client.Storage with fake DHCP / ARP / "
                "hosts sources (tours from the initial state), comparing the reply and, after every step, the abstraction of the runtime index, "
                "RangeRuntime, Find and FindByName; seeded random histories over a larger universe (hosts goroutine, real ARP ticker) are recorded "
                "and validated by TraceRuntimeClients.tla (subset construction over the spec's nondeterminism).",
        "design_ref": "DESIGN.md section 5 items 5 and 6; notes/G05.md",
        "note": "Trusted: TLC, conc()/abs() of zz_verif_g05_test.go, reflection on proxy.CustomUpstreamConfig (upstream addresses, cache present). "
                "Exported Storage API only; unexported fields are read for the abstraction function. Nondeterministic where the documentation is "
                "silent (empty ARP table, WHOIS for lease-owned addresses, lookup after the lease ended, update keeping the upstream settings, "
                "ARP after a failed refresh). Closing of replaced configurations and ClearUpstreamCache are not observed. The quick tier replays "
                "every edge of smaller universes. Two open findings with proposed fixes (lease-MAC clients never get their upstreams; "
                "configurations rebuilt on every lookup after a change of the common settings).",
        "technique": "TLA+ state machine explored by TLC; edge-covering tour replay into real code + TLC trace validation",
    }
