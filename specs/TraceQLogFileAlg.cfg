SPECIFICATION Spec
CONSTANTS
  MaxEntry = 16384
  BufSize = 1638400
  DepthLimit = 100
  EmptyGuard = TRUE
