SPECIFICATION SpecGen01
CONSTANT AllModes = FALSE
INVARIANTS Gen_C01
