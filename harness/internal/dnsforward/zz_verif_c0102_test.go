package dnsforward

// Shared part of the C01 / C02 conformance harness.
//
// An abstract configuration of specs/DnsPipeline.tla (rule lists, blocking
// mode, protection / filtering flags, persistent client, blocked service,
// AAAA switch) is concretised into a real filtering.DNSFilter (rule lists
// written as real text files and custom rules), a real client.Storage and a
// real dnsforward.Server; queries go through Server.handleDNSRequest with a
// recording mock upstream and a recording query log; the observation is
// projected back (abs) onto the spec's outcome vocabulary
// (why, response class, address tokens, upstream calls).

import (
	"bytes"
	"context"
	"crypto/tls"
	"encoding/json"
	"fmt"
	"math/rand"
	"net"
	"net/http"
	"net/http/httptest"
	"net/netip"
	"os"
	"os/exec"
	"path/filepath"
	"sort"
	"strconv"
	"strings"
	"sync"
	"testing"
	"time"

	"github.com/AdguardTeam/AdGuardHome/internal/client"
	"github.com/AdguardTeam/AdGuardHome/internal/filtering"
	"github.com/AdguardTeam/AdGuardHome/internal/filtering/rulelist"
	"github.com/AdguardTeam/AdGuardHome/internal/querylog"
	"github.com/AdguardTeam/AdGuardHome/internal/schedule"
	"github.com/AdguardTeam/dnsproxy/proxy"
	"github.com/AdguardTeam/dnsproxy/upstream"
	"github.com/AdguardTeam/golibs/logutil/slogutil"
	"github.com/AdguardTeam/golibs/netutil"
	"github.com/AdguardTeam/golibs/timeutil"
	"github.com/miekg/dns"
)

// ---------------------------------------------------------------- vocabulary

type zzC0102Host struct {
	IsIP bool     `json:"isip"`
	N    []string `json:"n"`
}

type zzC0102Rule struct {
	ID    int         `json:"id"`
	Place string      `json:"place"`
	Kind  string      `json:"kind"`
	Pat   string      `json:"pat"`
	Tgt   zzC0102Host `json:"tgt"`
	Imp   bool        `json:"imp"`
	Dt    string      `json:"dt"`
	Dtype string      `json:"dtype"`
	Cl    string      `json:"cl"`
	Clv   string      `json:"clv"`
	Da    [][]string  `json:"da"`
	IP    string      `json:"ip"`
	Bad   bool        `json:"bad"`
}

type zzC0102Client struct {
	Known  bool   `json:"known"`
	UseOwn bool   `json:"useOwn"`
	Filt   bool   `json:"filt"`
	Svc    string `json:"svc"`
}

type zzC0102Cfg struct {
	Rules   []zzC0102Rule `json:"rules"`
	Mode    string        `json:"mode"`
	Prot    string        `json:"prot"`
	Filt    bool          `json:"filt"`
	Svc     string        `json:"svc"`
	Client  zzC0102Client `json:"client"`
	AAAAOff bool          `json:"aaaaOff"`
	Cache   bool          `json:"cache"`
	// Cust says which pair of custom blocking addresses is configured (1, 2).
	Cust int `json:"cust"`
}

type zzC0102Req struct {
	Name   []string `json:"name"`
	Qtype  string   `json:"qtype"`
	Client string   `json:"client"`
	// Cid is the ClientID of an encrypted request: "" none, "kid" the one
	// configured for the persistent client, "x" one configured for nobody.
	Cid string `json:"cid"`
}

// zzC0102RR is an abstract resource record of an upstream answer.
type zzC0102RR struct {
	T string `json:"t"`
	// O is the owner name; empty = the question name.
	O  []string `json:"o"`
	N  []string `json:"n"`
	A  string   `json:"a"`
	H4 []string `json:"h4"`
	H6 []string `json:"h6"`
}

// zzC0102Out is one outcome in the spec's vocabulary.
type zzC0102Out struct {
	Why   string   `json:"why"`
	C     string   `json:"c"`
	A     []string `json:"a"`
	Calls int      `json:"calls"`
}

func (o zzC0102Out) key() (k string) {
	a := append([]string{}, o.A...)
	sort.Strings(a)

	return fmt.Sprintf("%s|%s|%s|%d", o.Why, o.C, strings.Join(a, ","), o.Calls)
}

// Address tokens.  Everything is from documentation ranges.
var zzC0102Addrs = map[string]string{
	"null4": "0.0.0.0", "null6": "::",
	"cust4": "192.0.2.44", "cust6": "2001:db8:44::44",
	"cust4b": "192.0.2.55", "cust6b": "2001:db8:55::55",
	"r1": "198.51.100.1", "r2": "198.51.100.2", "r6": "2001:db8:51::1",
	"sent4": "203.0.113.77", "sent6": "2001:db8:77::77",
	"i1": "203.0.113.1", "i2": "203.0.113.2", "i6": "2001:db8:113::6", "j6": "2001:db8:113::7",
}

var zzC0102Tokens = func() (m map[string]string) {
	m = map[string]string{}
	for k, v := range zzC0102Addrs {
		m[netip.MustParseAddr(v).String()] = k
	}

	return m
}()

const (
	zzC0102C1     = "10.77.1.10"
	zzC0102C1CIDR = "10.77.1.0/24"
	zzC0102C2     = "10.77.2.20"
	zzC0102Outer  = "10.77.0.0/16"
	zzC0102Inner  = "10.77.1.32/28"
	zzC0102Kid    = "kid"
	zzC0102Svc    = "4chan"
	// zzC0102Svc2 is the service of a client's own set.
	zzC0102Svc2 = "9gag"
	// ClientIDs and the server name DoT clients use.
	zzC0102KidCID    = "kidid"
	zzC0102OtherCID  = "otherid"
	zzC0102SrvName   = "dns.zz-verif.example"
	zzC0102TTL    = 777
)

var zzC0102Qtypes = map[string]uint16{
	"A": dns.TypeA, "AAAA": dns.TypeAAAA, "HTTPS": dns.TypeHTTPS, "TXT": dns.TypeTXT, "CNAME": dns.TypeCNAME,
}

// ------------------------------------------------------------- concretisation

// zzC0102AddrForm is how the two clients' addresses are spelled on one server:
// which addresses c1 and c2 have, the prefixes around c1 used in $client rules
// and for the nested persistent clients, and the FORM in which the server
// sees the source address of a request:
//
//	"plain"   an IPv4 address
//	"zoned"   a link-local IPv6 address with its zone (fe80::...%eth0), which
//	          is how every link-local peer's address arrives
//	"mapped"  the IPv4 address as an IPv4-mapped IPv6 address (::ffff:a.b.c.d),
//	          which is how a dual-stack reverse proxy reports an IPv4 client
//
// The client is the same whatever the form: abstractly nothing changes.
type zzC0102AddrForm struct {
	form                       string
	c1, c2, cidr, outer, inner string
}

var zzC0102PlainForm = zzC0102AddrForm{
	form: "plain", c1: zzC0102C1, c2: zzC0102C2, cidr: zzC0102C1CIDR, outer: zzC0102Outer, inner: zzC0102Inner,
}

// zzC0102PickForm draws the address form of a server.  Other forms than the
// plain one are used only when VERIF_ADDRFORMS is set (C01's replay).
func zzC0102PickForm(rng *rand.Rand) (af zzC0102AddrForm) {
	k := rng.Intn(6)
	if os.Getenv("VERIF_ADDRFORMS") == "" {
		return zzC0102PlainForm
	}

	switch k {
	case 0:
		return zzC0102AddrForm{
			form: "zoned", c1: "fe80::77:1:10", c2: "fe80::77:2:20", cidr: "fe80::77:1:0/112",
			outer: "fe80::77:0:0/96", inner: "fe80::77:1:20/124",
		}
	case 1:
		af = zzC0102PlainForm
		af.form = "mapped"

		return af
	default:
		return zzC0102PlainForm
	}
}

// wire returns the source address of a request from the client as the server
// sees it.
func (af *zzC0102AddrForm) wire(cli string, plain bool) (addr netip.Addr) {
	addr = netip.MustParseAddr(cli)
	switch {
	case plain:
		return addr
	case af.form == "zoned":
		return addr.WithZone("eth0")
	case af.form == "mapped":
		return netip.AddrFrom16(addr.As16())
	default:
		return addr
	}
}

// zzC0102HostText renders the target of a rule.
func zzC0102HostText(h zzC0102Host, sfx string) (s string) {
	if h.IsIP {
		return zzC0102Addrs[h.N[0]]
	}

	return zzC0102Name(h.N, sfx)
}

// zzC0102Plain are the labels rendered as they are: top-level domains and the
// labels of the real blocked services.
var zzC0102Plain = map[string]bool{
	"com": true, "org": true, "net": true, "example": true,
	"4chan": true, "4cdn": true, "4channel": true, "9gag": true, "9cache": true,
}

// zzC0102Name renders abstract labels in lower case.  Every other label gets
// the server's decoration sfx appended: a seeded pair of letters, the same
// for all labels of one server (the renaming is injective, "xa" stays a
// look-alike of "a"), so that across a run names are spelled with every
// letter of the alphabet -- and, once the letter case is mixed, with every
// upper-case letter.
func zzC0102Name(labels []string, sfx string) (s string) {
	out := make([]string, len(labels))
	for i, l := range labels {
		if zzC0102Plain[l] {
			out[i] = l
		} else {
			out[i] = l + sfx
		}
	}

	return strings.Join(out, ".")
}

// zzC0102Sfx draws a server's label decoration.
func zzC0102Sfx(rng *rand.Rand) (sfx string) {
	const letters = "abcdefghijklmnopqrstuvwxyz"

	return string([]byte{letters[rng.Intn(26)], letters[rng.Intn(26)]})
}

// zzC0102RuleText renders one abstract rule as a filter-list line.  Rule
// texts are lower case (DESIGN.md section 4: only the request side varies).
func zzC0102RuleText(r *zzC0102Rule, rng *rand.Rand, wildStyle int, sfx string, af *zzC0102AddrForm) (line string) {
	n := zzC0102HostText(r.Tgt, sfx)
	if r.Kind == "hosts" {
		if r.IP == "null4" && rng.Intn(2) == 0 {
			return n
		}

		sep := " "
		if rng.Intn(3) == 0 {
			sep = "\t"
		}

		return zzC0102Addrs[r.IP] + sep + n
	}

	var b strings.Builder
	if r.Kind == "allow" {
		b.WriteString("@@")
	}

	switch r.Pat {
	case "domain":
		b.WriteString("||" + n + "^")
	case "exact":
		b.WriteString("|" + n + "|")
	case "wild":
		// One spelling per configuration: $badfilter twins must have the
		// same pattern text.
		switch wildStyle {
		case 0:
			b.WriteString("*." + n)
		case 1:
			b.WriteString("*." + n + "^")
		default:
			b.WriteString("||*." + n + "^")
		}
	}

	var mods []string
	if r.Imp {
		mods = append(mods, "important")
	}

	switch r.Dt {
	case "only":
		mods = append(mods, "dnstype="+r.Dtype)
	case "except":
		mods = append(mods, "dnstype=~"+r.Dtype)
	}

	if r.Cl != "none" && r.Cl != "" {
		v := af.c1
		switch r.Clv {
		case "cidr":
			v = af.cidr
		case "name":
			v = "'" + zzC0102Kid + "'"
		}

		if r.Cl == "except" {
			v = "~" + v
		}

		mods = append(mods, "client="+v)
	}

	if len(r.Da) > 0 {
		ds := make([]string, len(r.Da))
		for i, d := range r.Da {
			ds[i] = zzC0102Name(d, sfx)
		}

		mods = append(mods, "denyallow="+strings.Join(ds, "|"))
	}

	if r.Bad {
		mods = append(mods, "badfilter")
	}

	if len(mods) > 0 {
		rng.Shuffle(len(mods), func(i, j int) { mods[i], mods[j] = mods[j], mods[i] })
		b.WriteString("$" + strings.Join(mods, ","))
	}

	return b.String()
}

// zzC0102MixCase returns the FQDN of labels with seeded letter case: all lower
// case, all upper case, or every letter on its own.
func zzC0102MixCase(labels []string, rng *rand.Rand, sfx string) (fqdn string) {
	s := []byte(zzC0102Name(labels, sfx) + ".")
	switch k := rng.Intn(6); {
	case k == 0:
		return strings.ToUpper(string(s))
	case k >= 3:
		for i, c := range s {
			if c >= 'a' && c <= 'z' && rng.Intn(2) == 0 {
				s[i] = c - 'a' + 'A'
			}
		}
	}

	return string(s)
}

// ------------------------------------------------------------------- doubles

// zzC0102Up is the recording upstream.
type zzC0102Up struct {
	mu    sync.Mutex
	calls []dns.Question
	// answer builds the answer section for a request.
	answer func(req *dns.Msg) (ans []dns.RR)
	last   []dns.RR
}

func (u *zzC0102Up) Exchange(req *dns.Msg) (resp *dns.Msg, err error) {
	u.mu.Lock()
	defer u.mu.Unlock()

	u.calls = append(u.calls, req.Question[0])
	resp = (&dns.Msg{}).SetReply(req)
	resp.RecursionAvailable = true
	resp.Answer = u.answer(req)
	u.last = make([]dns.RR, len(resp.Answer))
	for i, rr := range resp.Answer {
		u.last[i] = dns.Copy(rr)
	}

	return resp, nil
}

func (u *zzC0102Up) Address() (addr string) { return "zz-verif-mock" }
func (u *zzC0102Up) Close() (err error)     { return nil }

// zzC0102QLog records what the server writes to the query log.
type zzC0102QLog struct {
	querylog.QueryLog
	last *querylog.AddParams
	n    int
}

func (l *zzC0102QLog) Add(p *querylog.AddParams)                            { l.last = p; l.n++ }
func (l *zzC0102QLog) ShouldLog(_ string, _, _ uint16, _ []string) (ok bool) { return true }

type zzC0102DHCP struct{}

func (zzC0102DHCP) HostByIP(netip.Addr) (host string) { return "" }
func (zzC0102DHCP) IPByHost(string) (ip netip.Addr)   { return netip.Addr{} }
func (zzC0102DHCP) Enabled() (ok bool)                { return false }

// zzC0102Hdr is the header of a mock-upstream record.
func zzC0102Hdr(name string, t uint16) (h dns.RR_Header) {
	return dns.RR_Header{Name: name, Rrtype: t, Class: dns.ClassINET, Ttl: zzC0102TTL}
}

// zzC0102RRs renders an abstract answer section for the question name.  Every
// record is owned by its explicit owner name (empty = the question name), in
// exactly the given order.
//
// The names on the answer side (CNAME targets, owners other than the question
// name) get a seeded letter case of their own: a resolver may hand back any
// spelling, and matching must not depend on it.
func zzC0102RRs(qname string, ans []zzC0102RR, rng *rand.Rand, sfx string) (rrs []dns.RR) {
	for _, a := range ans {
		owner := qname
		if len(a.O) > 0 {
			owner = zzC0102MixCase(a.O, rng, sfx)
		}

		switch a.T {
		case "CNAME":
			tgt := zzC0102MixCase(a.N, rng, sfx)
			rrs = append(rrs, &dns.CNAME{Hdr: zzC0102Hdr(owner, dns.TypeCNAME), Target: tgt})
		case "A":
			rrs = append(rrs, &dns.A{Hdr: zzC0102Hdr(owner, dns.TypeA), A: net.ParseIP(zzC0102Addrs[a.A]).To4()})
		case "AAAA":
			rrs = append(rrs, &dns.AAAA{Hdr: zzC0102Hdr(owner, dns.TypeAAAA), AAAA: net.ParseIP(zzC0102Addrs[a.A])})
		case "HTTPS":
			rr := &dns.HTTPS{SVCB: dns.SVCB{Hdr: zzC0102Hdr(owner, dns.TypeHTTPS), Priority: 1, Target: "."}}
			rr.Value = append(rr.Value, &dns.SVCBAlpn{Alpn: []string{"h2"}})
			if len(a.H4) > 0 {
				h := &dns.SVCBIPv4Hint{}
				for _, t := range a.H4 {
					h.Hint = append(h.Hint, net.ParseIP(zzC0102Addrs[t]).To4())
				}
				rr.Value = append(rr.Value, h)
			}
			if len(a.H6) > 0 {
				h := &dns.SVCBIPv6Hint{}
				for _, t := range a.H6 {
					h.Hint = append(h.Hint, net.ParseIP(zzC0102Addrs[t]))
				}
				rr.Value = append(rr.Value, h)
			}
			rrs = append(rrs, rr)
		default:
			rrs = append(rrs, &dns.TXT{Hdr: zzC0102Hdr(owner, dns.TypeTXT), Txt: []string{"zz-verif-sentinel"}})
		}
	}

	return rrs
}

// zzC0102Harmless is the abstract answer of the C01 upstream for a query type:
// a sentinel record of the asked type that no rule of any universe matches.
func zzC0102Harmless(qtype string) (ans []zzC0102RR) {
	switch qtype {
	case "A":
		return []zzC0102RR{{T: "A", A: "sent4"}}
	case "AAAA":
		return []zzC0102RR{{T: "AAAA", A: "sent6"}}
	case "HTTPS":
		return []zzC0102RR{{T: "HTTPS", H4: []string{"sent4"}}}
	default:
		return []zzC0102RR{{T: "TXT"}}
	}
}

// ------------------------------------------------------------------ the server

type zzC0102Srv struct {
	s   *Server
	f   *filtering.DNSFilter
	fc  *filtering.Config
	up  *zzC0102Up
	ql  *zzC0102QLog
	st  *client.Storage
	cfg *zzC0102Cfg
	dir string
	// texts are the rule lines by place, for diagnostics.
	texts map[string][]string
	// lists is the concrete state of the rule lists by key ("allow", "block",
	// "block2", "offallow", "offblock").
	lists map[string]*zzC0102List
	// handlers are the HTTP handlers filtering registered, by path.
	handlers map[string]http.HandlerFunc
	// asked is the set of questions this server has been asked.
	asked map[string]bool
	// ops is the log of reconfiguration operations, for diagnostics.
	ops       []string
	wildStyle int
	// sfx is the decoration of this server's labels (zzC0102Name).
	sfx string
	// af is the form of the clients' addresses; forcePlain makes the next
	// requests arrive with the plain form of the same addresses.
	af         zzC0102AddrForm
	forcePlain bool
	reqID uint64
	// ruleText keeps the rendering of every abstract rule for the life of the
	// server: a list that gets the same rules again gets the same bytes.
	ruleText map[string]string
	// pFlag / pDeadline track what the protection APIs were told: the flag,
	// and whether a pause deadline is recorded ("none", "future", "past").
	pFlag     bool
	pDeadline string
	faultGen  int
	// nested: the persistent client is identified by a /24 between an outer
	// /16 and an inner /28 client; innerPresent: the /28 client exists now.
	// otherZone: pause schedules are in another time zone.
	nested, innerPresent, otherZone bool
	// inFlight: a pause has run out and the server's write-back of
	// "protection on" is held in flight (see expireInFlight).
	inFlight bool
	// protOff is true while the server itself reports that protection is not
	// in effect although the configuration walked to says "on" (the one case
	// the statement leaves open: the flag set through the DNS configuration
	// API while a pause is running).
	protOff bool
	// settleUntil bounds the wait for the last reconfiguration to take effect
	// (the handlers rebuild the engines asynchronously).
	settleUntil time.Time
}

// zzC0102CustAddrs returns the custom blocking addresses of a configuration.
func zzC0102CustAddrs(cfg *zzC0102Cfg) (v4, v6 netip.Addr) {
	if cfg.Cust == 2 {
		return netip.MustParseAddr(zzC0102Addrs["cust4b"]), netip.MustParseAddr(zzC0102Addrs["cust6b"])
	}

	return netip.MustParseAddr(zzC0102Addrs["cust4"]), netip.MustParseAddr(zzC0102Addrs["cust6"])
}

// zzC0102Settle is the bound on the wait for a reconfiguration to take effect.
func zzC0102Settle() (d time.Duration) {
	ms, err := strconv.Atoi(os.Getenv("VERIF_SETTLE_MS"))
	if err != nil || ms <= 0 {
		ms = 2000
	}

	return time.Duration(ms) * time.Millisecond
}

// zzC0102List is the concrete state of one rule list of a live server.
type zzC0102List struct {
	key     string
	white   bool
	src     string
	exists  bool
	enabled bool
	lines   []string
}

var zzC0102ListKeys = []string{"allow", "block", "block2", "offallow", "offblock"}

// zzC0102Services returns the blocked-services setting: id is the service of
// the set; "paused" means that the pause schedule is in effect NOW, i.e. now,
// read in the schedule's time zone, lies in the range of that zone's current
// day; "active" that it is not.  otherZone asks for a schedule in a time zone
// whose current weekday differs from the server-local one (see
// zzC0102OtherZone), with different ranges on the two days.
func zzC0102Services(svc, id string, otherZone bool) (b *filtering.BlockedServices) {
	b = &filtering.BlockedServices{Schedule: schedule.EmptyWeekly()}
	if svc != "active" && svc != "paused" {
		return b
	}

	b.IDs = []string{id}
	zone, zoneDay, localDay := zzC0102OtherZone()
	if !otherZone || zone == "" {
		if svc == "paused" {
			b.Schedule = schedule.FullWeekly()
		}

		return b
	}

	// paused: the whole day that it is in the schedule's zone, nothing on the
	// weekday that it is locally; active: the converse.
	fullDay := svc == "paused"
	days := map[string]any{"time_zone": zone}
	names := []string{"sun", "mon", "tue", "wed", "thu", "fri", "sat"}
	full := map[string]any{"start": 0, "end": 24 * 3600 * 1000}
	for d := time.Sunday; d <= time.Saturday; d++ {
		switch {
		case d == zoneDay && fullDay, d == localDay && !fullDay:
			days[names[d]] = full
		case d != zoneDay && d != localDay && d%2 == 0:
			// other days: something, so that the week is not uniform
			days[names[d]] = map[string]any{"start": 3600 * 1000, "end": 7200 * 1000}
		}
	}

	js, _ := json.Marshal(days)
	w := &schedule.Weekly{}
	if err := w.UnmarshalJSON(js); err != nil {
		// No such zone on this system: the same-zone schedule.
		if svc == "paused" {
			b.Schedule = schedule.FullWeekly()
		}

		return b
	}
	b.Schedule = w

	return b
}

// zzC0102OtherZone picks, at run time, a fixed-offset zone whose current weekday
// differs from the server-local one, and that stays so for the next half hour
// (zone = "" if there is none).
func zzC0102OtherZone() (zone string, zoneDay, localDay time.Weekday) {
	now := time.Now()
	later := now.Add(30 * time.Minute)
	for _, name := range []string{"Etc/GMT-14", "Etc/GMT+12", "Etc/GMT-13", "Etc/GMT+11"} {
		loc, err := time.LoadLocation(name)
		if err != nil {
			continue
		}

		zd, ld := now.In(loc).Weekday(), now.Local().Weekday()
		if zd != ld && later.In(loc).Weekday() == zd && later.Local().Weekday() == ld {
			return name, zd, ld
		}
	}

	return "", 0, 0
}

// zzC0102TLSConn is a DoT connection whose client sent the server name sn.
type zzC0102TLSConn struct {
	net.Conn
	sn string
}

func (c zzC0102TLSConn) ConnectionState() (cs tls.ConnectionState) {
	cs.ServerName = c.sn

	return cs
}

var zzC0102InitOnce sync.Once

func zzC0102ListBody(key string, lines []string) (body []byte) {
	return []byte("! zz-verif list " + key + "\n" + strings.Join(lines, "\n") + "\n")
}

// render fills z.texts for cfg and returns the lines by list key.
func (z *zzC0102Srv) render(cfg *zzC0102Cfg, rng *rand.Rand, split bool) (byKey map[string][]string) {
	z.texts = map[string][]string{}
	byKey = map[string][]string{}
	for i := range cfg.Rules {
		r := &cfg.Rules[i]
		rk := *r
		rk.ID, rk.Place = 0, ""
		key := zzC0102JSON(rk)
		t, ok := z.ruleText[key]
		if !ok {
			t = zzC0102RuleText(r, rng, z.wildStyle, z.sfx, &z.af)
			z.ruleText[key] = t
		}
		z.texts[r.Place] = append(z.texts[r.Place], t)
		k := r.Place
		if k == "block" && split && rng.Intn(3) == 0 {
			// Block rules are spread over two enabled lists, seeded.
			k = "block2"
		}
		byKey[k] = append(byKey[k], t)
	}

	return byKey
}

func (z *zzC0102Srv) persistent(c zzC0102Client) (p *client.Persistent) {
	p = &client.Persistent{
		Name: zzC0102Kid, UID: client.MustNewUID(),
		ClientIDs:             []string{zzC0102KidCID},
		UseOwnSettings:        c.UseOwn,
		FilteringEnabled:      c.Filt,
		UseOwnBlockedServices: c.Svc != "inherit",
		BlockedServices:       zzC0102Services(c.Svc, zzC0102Svc2, z.otherZone),
	}
	if z.nested {
		// identified by the /24 around c1, between the "outer" /16 and the
		// "inner" /28 clients (see neighbours)
		p.Subnets = []netip.Prefix{netip.MustParsePrefix(z.af.cidr)}
	} else {
		// The exact-address identifier of a link-local client is written
		// with its zone (an identifier can carry one, and fe80::1 on another
		// interface is another host); a mapped address denotes the IPv4 one.
		// (Both spellings are listed, so that the client is the same one
		// with and without the zone.)
		p.IPs = []netip.Addr{netip.MustParseAddr(z.af.c1)}
		if z.af.form == "zoned" {
			p.IPs = append(p.IPs, z.af.wire(z.af.c1, false))
		}
	}

	return p
}

// neighbours returns the persistent clients around the one under test when it
// is identified by a subnet: "outer", a /16 with a different base address that
// contains c1 and c2 and changes nothing (global settings), and "inner", a /28
// inside the /24 that does not contain c1, with settings of its own.  The
// most specific subnet containing an address decides whose request it is, so
// neither changes which client c1 and c2 are.
func (z *zzC0102Srv) neighbours() (outer, inner *client.Persistent) {
	outer = &client.Persistent{
		Name: "outer", UID: client.MustNewUID(),
		Subnets:         []netip.Prefix{netip.MustParsePrefix(z.af.outer)},
		BlockedServices: zzC0102Services("none", zzC0102Svc2, false),
	}
	inner = &client.Persistent{
		Name: "inner", UID: client.MustNewUID(),
		Subnets:          []netip.Prefix{netip.MustParsePrefix(z.af.inner)},
		UseOwnSettings:   true,
		FilteringEnabled: !z.cfg.Client.Filt,
		BlockedServices:  zzC0102Services("none", zzC0102Svc2, false),
	}

	return outer, inner
}

// editClients is an edit history of the client registry that leaves every
// request's client unchanged (DnsPipeline!EditClients): the "inner" client is
// updated (= removed and added again), or removed, or added back.
func (z *zzC0102Srv) editClients(rng *rand.Rand) (err error) {
	if !z.nested {
		return nil
	}

	ctx := context.Background()
	_, inner := z.neighbours()
	switch k := rng.Intn(3); {
	case !z.innerPresent:
		z.ops = append(z.ops, "(clients: inner /28 added again)")
		err = z.st.Add(ctx, inner)
		z.innerPresent = true
	case k == 0:
		z.ops = append(z.ops, "(clients: inner /28 removed)")
		if !z.st.RemoveByName(ctx, "inner") {
			err = fmt.Errorf("harness: inner client not removed")
		}
		z.innerPresent = false
	default:
		z.ops = append(z.ops, "(clients: inner /28 updated)")
		if prev, ok := z.st.FindByName("inner"); ok {
			inner.UID = prev.UID
		}
		inner.Tags = []string{"device_pc"}
		err = z.st.Update(ctx, "inner", inner)
	}

	return err
}

// zzC0102Build builds the real objects for cfg under dir (an absolute path).
func zzC0102Build(cfg *zzC0102Cfg, dir string, rng *rand.Rand) (z *zzC0102Srv, err error) {
	zzC0102InitOnce.Do(filtering.InitModule)

	z = &zzC0102Srv{
		cfg: cfg, dir: dir, lists: map[string]*zzC0102List{}, handlers: map[string]http.HandlerFunc{},
		asked: map[string]bool{}, wildStyle: rng.Intn(3), ruleText: map[string]string{},
		sfx: zzC0102Sfx(rng), af: zzC0102PickForm(rng),
		// Request ids of the requests handed to the handler directly; far from
		// the ids the proxy gives to the requests of the UDP sample (the
		// ClientID of a request is kept by request id).
		reqID: 1 << 40,
	}
	byKey := z.render(cfg, rng, true)

	fdir, sdir := filepath.Join(dir, "filters"), filepath.Join(dir, "src")
	for _, d := range []string{fdir, sdir} {
		if err = os.MkdirAll(d, 0o755); err != nil {
			return nil, err
		}
	}

	ids := map[string]int{"allow": 11, "offallow": 12, "block": 21, "offblock": 22, "block2": 23}
	var blockLists, allowLists []filtering.FilterYAML
	for _, k := range zzC0102ListKeys {
		l := &zzC0102List{
			key: k, white: strings.HasSuffix(k, "allow"), src: filepath.Join(sdir, k+".txt"),
			exists: true, enabled: !strings.HasPrefix(k, "off"), lines: byKey[k],
		}
		z.lists[k] = l
		if len(l.lines) == 0 {
			// A list without rules may be absent, switched off, or present
			// and empty.
			switch rng.Intn(3) {
			case 0:
				l.exists, l.enabled = false, false
			case 1:
				l.enabled = false
			}
		}

		if !l.exists {
			continue
		}

		body := zzC0102ListBody(k, l.lines)
		if err = os.WriteFile(l.src, body, 0o644); err != nil {
			return nil, err
		}
		if err = os.WriteFile(filepath.Join(fdir, strconv.Itoa(ids[k])+".txt"), body, 0o644); err != nil {
			return nil, err
		}

		y := filtering.FilterYAML{
			Enabled: l.enabled, URL: l.src, Name: "list " + k,
			Filter: filtering.Filter{ID: rulelist.URLFilterID(ids[k])},
		}
		if l.white {
			allowLists = append(allowLists, y)
		} else {
			blockLists = append(blockLists, y)
		}
	}

	ctx := context.Background()
	z.st, err = client.NewStorage(ctx, &client.StorageConfig{
		Logger: slogutil.NewDiscardLogger(), Clock: timeutil.SystemClock{}, DHCP: client.EmptyDHCP{},
	})
	if err != nil {
		return nil, fmt.Errorf("client storage: %w", err)
	}

	// Half of the servers identify the persistent client by nested subnets,
	// half of them take their pause schedules from another time zone.
	z.nested, z.otherZone = rng.Intn(2) == 0, rng.Intn(2) == 0
	if z.nested {
		outer, inner := z.neighbours()
		// in a seeded order: the index must not depend on it
		first, second := outer, inner
		if rng.Intn(2) == 0 {
			first, second = inner, outer
		}
		if err = z.st.Add(ctx, first); err != nil {
			return nil, fmt.Errorf("adding client: %w", err)
		}
		if cfg.Client.Known && rng.Intn(2) == 0 {
			if err = z.st.Add(ctx, z.persistent(cfg.Client)); err != nil {
				return nil, fmt.Errorf("adding client: %w", err)
			}
		}
		if err = z.st.Add(ctx, second); err != nil {
			return nil, fmt.Errorf("adding client: %w", err)
		}
		z.innerPresent = true
	}

	if cfg.Client.Known {
		if _, ok := z.st.FindByName(zzC0102Kid); !ok {
			if err = z.st.Add(ctx, z.persistent(cfg.Client)); err != nil {
				return nil, fmt.Errorf("adding client: %w", err)
			}
		}
	}

	if rng.Intn(2) == 0 {
		// an edit history before the first question
		if err = z.editClients(rng); err != nil {
			return nil, fmt.Errorf("editing clients: %w", err)
		}
	}

	cust4, cust6 := zzC0102CustAddrs(cfg)
	globalSvc := zzC0102Services(cfg.Svc, zzC0102Svc, z.otherZone)
	if cfg.Svc == "active" && rng.Intn(2) == 0 && len(globalSvc.IDs) > 0 && globalSvc.Schedule != nil &&
		*globalSvc.Schedule == *schedule.EmptyWeekly() {
		// The form a configuration file without a "schedule" key loads as:
		// services that are never paused (seeded change C01-16).
		globalSvc.Schedule = nil
	}
	z.fc = &filtering.Config{
		BlockingIPv4:         cust4,
		BlockingIPv6:         cust6,
		ApplyClientFiltering: z.st.ApplyClientFiltering,
		BlockedServices:      globalSvc,
		DataDir:              dir,
		BlockingMode:         filtering.BlockingMode(cfg.Mode),
		Filters:              blockLists,
		WhitelistFilters:     allowLists,
		UserRules:            z.texts["custom"],
		BlockedResponseTTL:   10,
		FilteringEnabled:     cfg.Filt,
		ProtectionEnabled:    cfg.Prot == "on",
		SafeFSPatterns:       []string{filepath.Join(sdir, "*")},
		ConfigModified:       func() {},
		HTTPRegister: func(_, path string, h http.HandlerFunc) {
			z.handlers[path] = h
		},
	}
	switch cfg.Prot {
	case "paused":
		t := time.Now().Add(time.Hour)
		z.fc.ProtectionDisabledUntil = &t
	case "expired":
		t := time.Now().Add(-time.Hour)
		z.fc.ProtectionDisabledUntil = &t
	}

	z.f, err = filtering.New(z.fc, nil)
	if err != nil {
		return nil, fmt.Errorf("filtering.New: %w", err)
	}

	// The way home brings the filter up: register the handlers, start the
	// updates loop, load the lists.
	z.f.Start()
	z.f.EnableFilters(false)

	z.pFlag, z.pDeadline = cfg.Prot == "on", "none"
	switch cfg.Prot {
	case "paused":
		z.pDeadline = "future"
	case "expired":
		z.pDeadline = "past"
	}

	z.up = &zzC0102Up{}
	z.ql = &zzC0102QLog{}
	z.s, err = NewServer(DNSCreateParams{
		DHCPServer: zzC0102DHCP{}, DNSFilter: z.f, QueryLog: z.ql,
		PrivateNets: netutil.SubnetSetFunc(netutil.IsLocallyServed),
		Logger:      slogutil.NewDiscardLogger(),
	})
	if err != nil {
		return nil, fmt.Errorf("NewServer: %w", err)
	}

	sc := &ServerConfig{
		UDPListenAddrs: []*net.UDPAddr{{IP: net.IP{127, 0, 0, 1}}},
		TCPListenAddrs: []*net.TCPAddr{{IP: net.IP{127, 0, 0, 1}}},
		TLSConf:        &TLSConfig{ServerName: zzC0102SrvName},
		Config: Config{
			UpstreamMode:     UpstreamModeLoadBalance,
			EDNSClientSubnet: &EDNSClientSubnet{},
			ClientsContainer: z.st,
			AAAADisabled:     cfg.AAAAOff,
		},
		ConfigModified: func() {},
		ServePlainDNS:  true,
	}
	if cfg.Cache {
		// The production default.
		sc.CacheSize = 4 * 1024 * 1024
	}

	if err = z.s.Prepare(sc); err != nil {
		return nil, fmt.Errorf("Prepare: %w", err)
	}

	// As the package's own tests do: replace the upstreams after Prepare.
	z.s.conf.UpstreamConfig.Upstreams = []upstream.Upstream{z.up}

	if cfg.Prot == "expired" {
		if err = z.awaitReenabled(); err != nil {
			return nil, err
		}
	}

	return z, nil
}

func (z *zzC0102Srv) close() {
	z.f.Close()
	_ = z.st.Shutdown(context.Background())
}

// post calls one of filtering's HTTP handlers.
func (z *zzC0102Srv) post(path string, body any) (err error) {
	h := z.handlers[path]
	if h == nil {
		return fmt.Errorf("no handler for %s", path)
	}

	return z.postTo(h, path, body)
}

// postTo calls an HTTP handler with a JSON body.
func (z *zzC0102Srv) postTo(h http.HandlerFunc, path string, body any) (err error) {
	b, _ := json.Marshal(body)
	r := httptest.NewRequest(http.MethodPost, path, bytes.NewReader(b))
	r.Header.Set("Content-Type", "application/json")
	w := httptest.NewRecorder()
	h(w, r)
	z.ops = append(z.ops, path+" "+string(b))
	if w.Code != http.StatusOK {
		return fmt.Errorf("%s %s: status %d: %s", path, b, w.Code, strings.TrimSpace(w.Body.String()))
	}

	return nil
}

func zzC0102SameLines(a, b []string) (ok bool) {
	return strings.Join(a, "\n") == strings.Join(b, "\n")
}

// setURL switches a list on or off through /control/filtering/set_url.
func (z *zzC0102Srv) setURL(l *zzC0102List, on bool) (err error) {
	type setData struct {
		Name    string `json:"name"`
		URL     string `json:"url"`
		Enabled bool   `json:"enabled"`
	}

	return z.post("/control/filtering/set_url", map[string]any{
		"url": l.src, "whitelist": l.white, "data": setData{Name: "list " + l.key, URL: l.src, Enabled: on},
	})
}

// setList brings one rule list to the wanted contents through the handlers the
// web UI uses.
func (z *zzC0102Srv) setList(l *zzC0102List, want []string, rng *rand.Rand) (err error) {
	setURL := func(on bool) (err error) { return z.setURL(l, on) }
	remove := func() (err error) {
		return z.post("/control/filtering/remove_url", map[string]any{"url": l.src, "whitelist": l.white})
	}
	add := func() (err error) {
		return z.post("/control/filtering/add_url", map[string]any{"name": "list " + l.key, "url": l.src, "whitelist": l.white})
	}

	if strings.HasPrefix(l.key, "off") {
		// A list that stays switched off, with other contents.
		if zzC0102SameLines(l.lines, want) && (!l.exists || !l.enabled) {
			return nil
		}
		if l.exists {
			if err = remove(); err != nil {
				return err
			}
			l.exists = false
		}
		l.lines = want
		if len(want) == 0 {
			return nil
		}
		if err = os.WriteFile(l.src, zzC0102ListBody(l.key, want), 0o644); err != nil {
			return err
		}
		if err = add(); err != nil {
			return err
		}
		l.exists, l.enabled = true, false

		return setURL(false)
	}

	if len(want) == 0 {
		if !(l.exists && l.enabled && len(l.lines) > 0) {
			return nil
		}

		// The last rules of the list go away: switch the list off or
		// remove it.
		if rng.Intn(2) == 0 {
			l.enabled = false

			return setURL(false)
		}
		l.exists, l.enabled, l.lines = false, false, nil

		return remove()
	}

	if err = os.WriteFile(l.src, zzC0102ListBody(l.key, want), 0o644); err != nil {
		return err
	}

	switch {
	case !l.exists:
		err = add()
	case !l.enabled:
		err = setURL(true)
	case !zzC0102SameLines(l.lines, want):
		err = z.post("/control/filtering/refresh", map[string]any{"whitelist": l.white})
	}
	l.exists, l.enabled, l.lines = true, true, want

	return err
}

// reconfigure brings the LIVE server from its current configuration to cfg:
// rule lists and custom rules through filtering's HTTP handlers, the blocking
// mode through the setter dnsforward's own config handler uses, the
// persistent client through client.Storage.  Only these may differ.
func (z *zzC0102Srv) reconfigure(cfg *zzC0102Cfg, rng *rand.Rand) (err error) {
	old := z.cfg
	oc, nc := old.Client, cfg.Client
	oc.Known, nc.Known = false, false
	if old.Filt != cfg.Filt || old.Svc != cfg.Svc || old.AAAAOff != cfg.AAAAOff ||
		old.Cache != cfg.Cache || oc != nc {
		return fmt.Errorf("harness: unsupported reconfiguration %s -> %s", zzC0102JSON(old), zzC0102JSON(cfg))
	}

	z.ops = append(z.ops, "--- reconfigure")
	oldCustom := z.texts["custom"]
	byKey := z.render(cfg, rng, false)
	for _, k := range zzC0102ListKeys {
		if err = z.setList(z.lists[k], byKey[k], rng); err != nil {
			return fmt.Errorf("list %s: %w", k, err)
		}
	}

	if !zzC0102SameLines(oldCustom, z.texts["custom"]) {
		rules := append([]string{}, z.texts["custom"]...)
		if err = z.post("/control/filtering/set_rules", map[string]any{"rules": rules}); err != nil {
			return err
		}
	}

	// Blocking mode and custom addresses through dnsforward's own
	// POST /control/dns_config handler; like the web UI, sometimes although
	// nothing of it changed.
	if old.Mode != cfg.Mode || old.Cust != cfg.Cust || rng.Intn(4) == 0 {
		body := map[string]any{"blocking_mode": cfg.Mode}
		if cfg.Mode == "custom_ip" {
			v4, v6 := zzC0102CustAddrs(cfg)
			body["blocking_ipv4"], body["blocking_ipv6"] = v4.String(), v6.String()
		}
		if err = z.postTo(z.s.handleSetConfig, "/control/dns_config", body); err != nil {
			return err
		}
	}

	if err = z.setProt(cfg.Prot, old.Prot, rng); err != nil {
		return err
	}

	// Sometimes a list that keeps its rules is switched off and on again
	// (two reconfigurations without a request in between); last, so that
	// nothing else of this step rebuilds the engines afterwards.
	if rng.Intn(3) == 0 {
		var live []*zzC0102List
		for _, k := range zzC0102ListKeys {
			if l := z.lists[k]; l.exists && l.enabled && len(l.lines) > 0 {
				live = append(live, l)
			}
		}
		if len(live) > 0 {
			l := live[rng.Intn(len(live))]
			if err = z.setURL(l, false); err == nil {
				if rng.Intn(2) == 0 {
					// let the rebuild without the list happen first
					time.Sleep(time.Duration(1+rng.Intn(4)) * time.Millisecond)
				}
				err = z.setURL(l, true)
			}
			if err != nil {
				return err
			}
		}
	}

	ctx := context.Background()
	switch {
	case cfg.Client.Known && !old.Client.Known:
		err = z.st.Add(ctx, z.persistent(cfg.Client))
	case !cfg.Client.Known && old.Client.Known:
		if !z.st.RemoveByName(ctx, zzC0102Kid) {
			err = fmt.Errorf("harness: client not removed")
		}
	}
	if err == nil && rng.Intn(3) == 0 {
		err = z.editClients(rng)
	}
	z.cfg = cfg
	z.settleUntil = time.Now().Add(zzC0102Settle())

	return err
}

// setProt brings protection to the wanted state through the two real entry
// points: POST /control/protection (on / off / off for a duration) and POST
// /control/dns_config (the flag only), sometimes by way of a pause.
func (z *zzC0102Srv) setProt(want, cur string, rng *rand.Rand) (err error) {
	protAPI := func(on bool, ms uint) (err error) {
		z.pFlag, z.pDeadline = on, "none"
		if ms > 0 {
			z.pDeadline = "future"
		}

		return z.postTo(z.s.handleSetProtection, "/control/protection", map[string]any{"enabled": on, "duration": ms})
	}
	dnsAPI := func(on bool) (err error) {
		z.pFlag = on

		return z.postTo(z.s.handleSetConfig, "/control/dns_config", map[string]any{"protection_enabled": on})
	}

	z.protOff = false
	if z.inFlight {
		// DnsPipeline!WriteBack: the write-back held since the step before
		// completes; protection is on, no deadline.
		if err = z.writeBack(); err != nil {
			return err
		}
		if cur == "expired" {
			cur = "on"
		}
	}

	detour := rng.Intn(4) == 0
	if want == cur && !detour && !(want == "on" && z.pDeadline == "future") {
		return nil
	}

	if (want == "on" && rng.Intn(6) == 0) || (want == "expired" && rng.Intn(2) == 0) {
		// DnsPipeline!PauseExpires: by way of a pause that runs out, with the
		// write-back still in flight while this step's questions are asked.
		if err = protAPI(false, 1); err != nil {
			return err
		}

		return z.expireInFlight()
	}

	if detour && (want == "on" || want == "off") {
		// by way of a pause of an hour
		if err = protAPI(false, 3600000); err != nil {
			return err
		}
	}

	switch want {
	case "on":
		if rng.Intn(2) == 0 {
			err = protAPI(true, 0)
		} else {
			err = dnsAPI(true)
		}
	case "off":
		if z.pDeadline == "none" && rng.Intn(2) == 0 {
			err = dnsAPI(false)
		} else {
			err = protAPI(false, 0)
		}
	case "paused":
		err = protAPI(false, 3600000)
	default:
		// a pause that has run out
		if err = protAPI(false, 1); err == nil {
			time.Sleep(5 * time.Millisecond)
			// The server notices that the pause has run out when it is asked
			// (a request, or the status page) and switches protection back on
			// in a goroutine of its own; wait for that like a status poll
			// would, so that a later protection request cannot be overtaken
			// by it (that race is not what C01/C02 are about).
			err = z.awaitReenabled()
		}
	}
	if err != nil {
		return err
	}

	if want == "on" && z.pFlag && z.pDeadline == "future" {
		// The flag was set through the DNS configuration API while a pause
		// started through the protection API is running: the statement does
		// not say which wins.  What the server reports decides -- and then it
		// must hold for names and for answers alike.
		on, _ := z.s.UpdatedProtectionStatus()
		z.protOff = !on
		z.ops = append(z.ops, fmt.Sprintf("(server reports protection in effect: %t)", on))
	}

	return nil
}

// expireInFlight realises the state "the pause has run out, an earlier request
// has started the goroutine that writes 'protection on' back, and it has not
// finished yet": the server marks that state with protectionUpdateInProgress,
// which is set here the way the package's own tests pin the window.  Protection
// is ON in this state (the deadline has passed).
func (z *zzC0102Srv) expireInFlight() (err error) {
	time.Sleep(4 * time.Millisecond)
	z.s.protectionUpdateInProgress.Store(true)
	z.inFlight = true
	z.pFlag, z.pDeadline = false, "past"
	z.ops = append(z.ops, "(pause ran out; write-back of 'protection on' in flight)")

	return nil
}

// writeBack lets the held write-back happen.
func (z *zzC0102Srv) writeBack() (err error) {
	z.s.protectionUpdateInProgress.Store(false)
	z.inFlight = false
	z.ops = append(z.ops, "(write-back completes)")

	return z.awaitReenabled()
}

// awaitReenabled waits until the server has switched protection back on after
// a pause that has run out.
func (z *zzC0102Srv) awaitReenabled() (err error) {
	deadline := time.Now().Add(5 * time.Second)
	for {
		_, _ = z.s.UpdatedProtectionStatus()
		if on, until := z.f.ProtectionStatus(); on && until == nil {
			z.pFlag, z.pDeadline = true, "none"

			return nil
		}
		if time.Now().After(deadline) {
			return fmt.Errorf("harness: protection not re-enabled within 5 s after a pause ran out")
		}
		time.Sleep(200 * time.Microsecond)
	}
}

// failedRebuild injects a fault into a rebuild of the engines: the file of an
// enabled rule list cannot be opened (a symbolic link onto itself: ELOOP) while
// the custom rules are saved again unchanged, which makes filtering rebuild
// its engines.  Afterwards the file is put back.  It reports whether a fault
// could be injected (there must be an enabled list with rules).
func (z *zzC0102Srv) failedRebuild(rng *rand.Rand) (done bool, err error) {
	var live []*zzC0102List
	for _, k := range zzC0102ListKeys {
		if l := z.lists[k]; l.exists && l.enabled && len(l.lines) > 0 {
			live = append(live, l)
		}
	}
	if len(live) == 0 {
		return false, nil
	}

	l := live[rng.Intn(len(live))]
	var path string
	for _, lists := range z.listConf() {
		for i := range lists {
			if lists[i].URL == l.src {
				path = lists[i].Path(z.dir)
			}
		}
	}
	if path == "" {
		return false, fmt.Errorf("harness: list %s not found in the configuration", l.key)
	}

	// First make sure that no rebuild of an earlier operation is still
	// pending (it would run into the fault, too): save the custom rules with a
	// marker rule and wait for it.  The requests of the step before have been
	// checked already, so this rebuild hides nothing.
	z.faultGen++
	if qerr := z.quiesce(1000 + z.faultGen); qerr != nil {
		z.ops = append(z.ops, "(no fault injected: "+qerr.Error()+")")

		return false, nil
	}

	// The fault, put in place atomically (the file never just disappears: a
	// missing list file is tolerated by design).
	z.ops = append(z.ops, "--- fault: "+path+" cannot be opened; custom rules saved again")
	tmp := path + ".zz-fault"
	_ = os.Remove(tmp)
	if err = os.Symlink(filepath.Base(path), tmp); err != nil {
		return false, err
	}
	if err = os.Rename(tmp, path); err != nil {
		return false, err
	}

	rules := append([]string{}, z.texts["custom"]...)
	err = z.post("/control/filtering/set_rules", map[string]any{"rules": rules})
	// Let the rebuild be attempted (it runs in filtering's own goroutine).
	time.Sleep(time.Duration(40+rng.Intn(40)) * time.Millisecond)

	return true, err
}

// listConf returns the rule lists the filter has now (filtering keeps its own
// copy of the configuration; WriteDiskConfig is how home reads it back).
func (z *zzC0102Srv) listConf() (lists [][]filtering.FilterYAML) {
	c := &filtering.Config{}
	z.f.WriteDiskConfig(c)

	return [][]filtering.FilterYAML{c.Filters, c.WhitelistFilters}
}

// heal puts the files of all lists back after failedRebuild.
func (z *zzC0102Srv) heal() (err error) {
	for _, lists := range z.listConf() {
		for i := range lists {
			p := lists[i].Path(z.dir)
			fi, serr := os.Lstat(p)
			if serr != nil || fi.Mode()&os.ModeSymlink == 0 {
				continue
			}
			for _, l := range z.lists {
				if l.src == lists[i].URL {
					tmp := p + ".zz-heal"
					if err = os.WriteFile(tmp, zzC0102ListBody(l.key, l.lines), 0o644); err == nil {
						err = os.Rename(tmp, p)
					}
				}
			}
		}
	}
	z.ops = append(z.ops, "--- fault removed")

	return err
}

// settled sends the request until the outcome is admissible or the bound on
// the wait for the last reconfiguration expires (the handlers rebuild the
// engines asynchronously; an outcome that is still not admissible when the
// bound has expired is a disagreement: a reconfiguration that never takes
// effect is what the properties forbid).
func (z *zzC0102Srv) settled(
	req *zzC0102Req,
	ans []zzC0102RR,
	rng *rand.Rand,
	via string,
	want func(rep bool) []zzC0102Out,
) (o zzC0102Obs, ok bool) {
	pause := 200 * time.Microsecond
	for {
		o = z.query(req, ans, rng, via)
		if zzC0102Admissible(o.Out, want(o.Rep)) {
			return o, true
		}
		if z.af.form != "plain" && via == "" {
			// Is it the FORM of the client's address?  The same request from
			// the same client in the plain form of its address:
			z.forcePlain = true
			o2 := z.query(req, ans, rng, via)
			z.forcePlain = false
			if zzC0102Admissible(o2.Out, want(o2.Rep)) {
				// ... and once more in the original form (a reconfiguration
				// may have taken effect in between):
				o = z.query(req, ans, rng, via)
				if zzC0102Admissible(o.Out, want(o.Rep)) {
					return o, true
				}
				o.AddrForm = z.af.form

				return o, false
			}
		}
		if !time.Now().Before(z.settleUntil) {
			return o, false
		}
		time.Sleep(pause)
		if pause < 20*time.Millisecond {
			pause *= 2
		}
	}
}

// zzC0102Obs is a projected observation plus a description of the concrete
// exchange.
type zzC0102Obs struct {
	Out      zzC0102Out `json:"out"`
	Concrete string     `json:"concrete"`
	// Rep is true when this server had been asked the question before.
	Rep bool `json:"rep"`
	// AddrForm is set when the outcome is not admissible although the same
	// request with the plain form of the client's address is: the form of the
	// address ("zoned", "mapped") makes the difference.
	AddrForm string `json:"addrform"`
}

// query sends one request through handleDNSRequest.  ans is the abstract
// answer the upstream gives if asked.
func (z *zzC0102Srv) query(req *zzC0102Req, ans []zzC0102RR, rng *rand.Rand, viaUDP string) (o zzC0102Obs) {
	qname := zzC0102MixCase(req.Name, rng, z.sfx)
	// the concrete answer section the upstream gives for this question
	upRRs := zzC0102RRs(qname, ans, rng, z.sfx)
	qt := zzC0102Qtypes[req.Qtype]
	m := &dns.Msg{}
	m.SetQuestion(qname, qt)
	m.Id = uint16(rng.Intn(1 << 16))

	z.up.mu.Lock()
	z.up.calls, z.up.last = nil, nil
	z.up.answer = func(_ *dns.Msg) (rrs []dns.RR) {
		rrs = make([]dns.RR, len(upRRs))
		for i, rr := range upRRs {
			rrs[i] = dns.Copy(rr)
		}

		return rrs
	}
	z.up.mu.Unlock()
	z.ql.last = nil

	qkey := strings.ToLower(qname) + "|" + req.Qtype
	o.Rep = z.asked[qkey]
	z.asked[qkey] = true

	cli := z.af.c2
	if req.Client == "c1" {
		cli = z.af.c1
	}
	src := z.af.wire(cli, z.forcePlain)

	var res *dns.Msg
	var herr error
	if viaUDP != "" {
		res, herr = dns.Exchange(m, viaUDP)
	} else {
		z.reqID++
		pctx := &proxy.DNSContext{
			Proto: proxy.ProtoUDP, Req: m, RequestID: z.reqID,
			Addr: netip.AddrPortFrom(src, uint16(1024+rng.Intn(60000))),
		}
		// A panic while the request is handled is an observation (the real
		// server would lose the request, or crash), not a harness failure.
		func() {
			defer func() {
				if v := recover(); v != nil {
					herr = fmt.Errorf("panic: %v", v)
				}
			}()
			herr = z.handle(req, pctx)
		}()
		res = pctx.Res
	}

	o.Concrete = fmt.Sprintf("%s %s from %s", qname, req.Qtype, src)
	if req.Cid != "" {
		o.Concrete += " DoT ClientID " + req.Cid
	}
	o.Out = z.abs(qname, qt, res, herr, upRRs)
	if res != nil {
		o.Concrete += fmt.Sprintf(" -> rcode=%s answer=%q ns=%d", dns.RcodeToString[res.Rcode], zzC0102Strs(res.Answer), len(res.Ns))
	} else if herr != nil {
		o.Concrete += " -> " + herr.Error()
	}

	return o
}

// handle passes one request to the server the way the proxy does.
func (z *zzC0102Srv) handle(req *zzC0102Req, pctx *proxy.DNSContext) (herr error) {
	if req.Cid != "" {
		// A DNS-over-TLS request: the ClientID is the label in front of the
		// server name; the proxy calls HandleBefore, then the handler.
		cid := zzC0102OtherCID
		if req.Cid == "kid" {
			cid = zzC0102KidCID
		}
		pctx.Proto = proxy.ProtoTLS
		pctx.Conn = zzC0102TLSConn{sn: cid + "." + zzC0102SrvName}
		if herr = z.s.HandleBefore(z.s.dnsProxy, pctx); herr != nil {
			return herr
		}
	}

	return z.s.handleDNSRequest(z.s.dnsProxy, pctx)
}

func zzC0102Strs(rrs []dns.RR) (s []string) {
	for _, rr := range rrs {
		s = append(s, strings.Join(strings.Fields(rr.String()), " "))
	}

	return s
}

// zzC0102NoTTL returns rr's text with the TTL zeroed and, if stripV6, without
// ipv6hint values.
func zzC0102NoTTL(rr dns.RR, stripV6 bool) (s string) {
	c := dns.Copy(rr)
	c.Header().Ttl = 0
	if h, ok := c.(*dns.HTTPS); ok && stripV6 {
		zzC0102RemoveV6(h)
	}

	// Names are compared without regard to letter case (a cached answer
	// keeps the spelling of the question it was fetched for).
	return strings.ToLower(strings.Join(strings.Fields(c.String()), " "))
}

func zzC0102RemoveV6(rr *dns.HTTPS) {
	var v []dns.SVCBKeyValue
	for _, kv := range rr.Value {
		if _, ok := kv.(*dns.SVCBIPv6Hint); !ok {
			v = append(v, kv)
		}
	}
	rr.Value = v
}

// abs projects the real observation onto the spec's outcome.
//
// upAns is the answer section the upstream gives (or gave, when the response
// cache answers) for this question.
func (z *zzC0102Srv) abs(qname string, qt uint16, res *dns.Msg, herr error, upAns []dns.RR) (out zzC0102Out) {
	z.up.mu.Lock()
	calls := append([]dns.Question{}, z.up.calls...)
	z.up.mu.Unlock()

	out.A = []string{}
	out.Calls = len(calls)
	for _, c := range calls {
		// Exactly the original question must be what goes upstream.
		if !strings.EqualFold(c.Name, qname) || c.Qtype != qt {
			out.Calls += 100
		}
	}

	out.Why = "-"
	if l := z.ql.last; l != nil && l.Result != nil {
		switch l.Result.Reason {
		case filtering.NotFilteredNotFound:
			out.Why = "N"
		case filtering.NotFilteredAllowList:
			out.Why = "A"
		case filtering.FilteredBlockList:
			out.Why = "B"
			if l.OrigAnswer != nil {
				out.Why = "R"
			}
		case filtering.FilteredBlockedService:
			out.Why = "S"
		default:
			out.Why = "?" + l.Result.Reason.String()
		}
	}

	switch {
	case herr != nil:
		out.C = "other:error:" + herr.Error()

		return out
	case res == nil:
		out.C = "other:noresponse"

		return out
	case len(res.Question) != 1 || res.Question[0].Name != qname || res.Question[0].Qtype != qt:
		out.C = "other:question"

		return out
	}

	// Delivered = the upstream's answer, intact?  (Same records, same owners,
	// same order; TTLs are not compared: a cache counts them down.)
	// (A cache never keeps an answer without records, so an empty answer
	// without an exchange is a synthetic one.)
	if (len(calls) > 0 || (z.cfg.Cache && len(upAns) > 0)) && res.Rcode == dns.RcodeSuccess &&
		len(res.Answer) == len(upAns) {
		same := true
		for i := range upAns {
			// With AAAA disabled IPv6 hints are ignored on both sides (the
			// statement is silent on them).
			a, b := zzC0102NoTTL(res.Answer[i], z.cfg.AAAAOff), zzC0102NoTTL(upAns[i], z.cfg.AAAAOff)
			same = same && a == b
		}
		if same {
			out.C = "up"

			return out
		}
	}

	// Anything else must be synthetic: nothing of the upstream may be in it.
	for _, sec := range [][]dns.RR{res.Answer, res.Ns, res.Extra} {
		for _, rr := range sec {
			if t := rr.Header().Ttl; (t > zzC0102TTL-200 && t <= zzC0102TTL) || strings.Contains(rr.String(), "zz-verif-sentinel") {
				out.C = "other:leak:" + strings.Join(strings.Fields(rr.String()), " ")

				return out
			}
		}
	}

	switch {
	case res.Rcode == dns.RcodeNameError && len(res.Answer) == 0:
		out.C = "nx"
	case res.Rcode == dns.RcodeRefused && len(res.Answer) == 0:
		out.C = "ref"
	case res.Rcode == dns.RcodeSuccess && len(res.Answer) == 0:
		out.C = "empty"
	case res.Rcode == dns.RcodeSuccess:
		out.C = "ip"
		for _, rr := range res.Answer {
			var ip net.IP
			switch rr := rr.(type) {
			case *dns.A:
				ip = rr.A
			case *dns.AAAA:
				ip = rr.AAAA
			}
			addr, ok := netip.AddrFromSlice(ip)
			if !ok || rr.Header().Rrtype != qt || rr.Header().Name != qname {
				out.C = "other:answer:" + strings.Join(strings.Fields(rr.String()), " ")

				return out
			}
			if rr.Header().Rrtype == dns.TypeA {
				addr = addr.Unmap()
			}
			tok, known := zzC0102Tokens[addr.String()]
			if !known {
				tok = "?" + addr.String()
			}
			out.A = append(out.A, tok)
		}
		sort.Strings(out.A)
		// Duplicate records do not change the set of addresses.
		out.A = zzC0102Uniq(out.A)
	default:
		out.C = "other:rcode:" + dns.RcodeToString[res.Rcode]
	}

	return out
}

func zzC0102Uniq(s []string) (u []string) {
	u = s[:0]
	for i, x := range s {
		if i == 0 || x != s[i-1] {
			u = append(u, x)
		}
	}

	return u
}

// zzC0102Admissible reports whether got is one of want.
func zzC0102Admissible(got zzC0102Out, want []zzC0102Out) (ok bool) {
	k := got.key()
	for _, w := range want {
		if w.key() == k {
			return true
		}
	}

	return false
}

// ------------------------------------------------------------------ sharding

// zzC0102Shard returns (index, count) of this process's share of the work, or
// runs the children when this process is the coordinator (returns done).
func zzC0102Shard(t *testing.T, testName string) (idx, n int, done bool) {
	n, _ = strconv.Atoi(os.Getenv("VERIF_SHARDS"))
	if n <= 1 {
		return 0, 1, false
	}

	if s := os.Getenv("VERIF_SHARD"); s != "" {
		idx, _ = strconv.Atoi(s)

		return idx, n, false
	}

	// Coordinator: one child process per shard, each single-threaded (the
	// server construction forces garbage collections whose cost grows with
	// GOMAXPROCS and with the heap of a long-lived process).
	outp := os.Getenv("VERIF_OUT")
	var wg sync.WaitGroup
	errs := make([]error, n)
	outs := make([][]byte, n)
	for i := 0; i < n; i++ {
		wg.Add(1)
		go func(i int) {
			defer wg.Done()
			cmd := exec.Command(os.Args[0], "-test.run", "^"+testName+"$", "-test.timeout", "30m")
			cmd.Env = append(os.Environ(), "VERIF_SHARD="+strconv.Itoa(i), "GOMAXPROCS=2",
				"VERIF_OUT="+outp+"."+strconv.Itoa(i))
			outs[i], errs[i] = cmd.CombinedOutput()
		}(i)
	}
	wg.Wait()

	w := zzNewWriter(t, "VERIF_OUT")
	defer w.close()
	for i := 0; i < n; i++ {
		if errs[i] != nil {
			t.Errorf("shard %d: %v\n%s", i, errs[i], outs[i])

			continue
		}
		b, err := os.ReadFile(outp + "." + strconv.Itoa(i))
		if err != nil {
			t.Errorf("shard %d output: %v", i, err)

			continue
		}
		_, _ = w.w.Write(b)
		_ = os.Remove(outp + "." + strconv.Itoa(i))
	}

	return 0, n, true
}

// zzC0102WorkDir is the scratch directory for filter files.
func zzC0102WorkDir(t *testing.T) (dir string) {
	dir = os.Getenv("VERIF_WORK")
	if dir == "" {
		return t.TempDir()
	}

	dir = filepath.Join(dir, "srv"+os.Getenv("VERIF_SHARD")+"_"+strconv.Itoa(os.Getpid()))
	if err := os.MkdirAll(dir, 0o755); err != nil {
		t.Fatal(err)
	}

	return dir
}

func zzC0102JSON(v any) (s string) {
	b, _ := json.Marshal(v)

	return string(b)
}

// zzC0102Only parses VERIF_ONLY: the configuration indices a trace driver is
// restricted to (nil = all).
func zzC0102Only() (only map[int]bool) {
	v := os.Getenv("VERIF_ONLY")
	if v == "" {
		return nil
	}

	only = map[int]bool{}
	for _, f := range strings.Split(v, ",") {
		i, err := strconv.Atoi(f)
		if err == nil {
			only[i] = true
		}
	}

	return only
}

// quiesce is used by the trace drivers (direction B), which have no expected
// outcome to wait for: it saves the custom rules once more with a marker rule
// (for a name outside every universe) and waits until the engines block the
// marker, i.e. until they were rebuilt after every earlier operation.  (The
// replay of direction A does NOT do this: a rebuild forced by the harness
// would hide a reconfiguration that fails to rebuild the engines.)
func (z *zzC0102Srv) quiesce(gen int) (err error) {
	marker := fmt.Sprintf("gen%d.zz-verif-marker.example", gen)
	rules := append(append([]string{}, z.texts["custom"]...), "||"+marker+"^")
	if err = z.post("/control/filtering/set_rules", map[string]any{"rules": rules}); err != nil {
		return err
	}

	setts := &filtering.Settings{FilteringEnabled: true, ProtectionEnabled: true}
	deadline := time.Now().Add(5 * time.Second)
	for {
		res, cerr := z.f.CheckHostRules(marker, dns.TypeA, setts)
		if cerr == nil && res.IsFiltered {
			return nil
		}
		if time.Now().After(deadline) {
			return fmt.Errorf("engines not rebuilt within 5 s (marker %s)", marker)
		}
		time.Sleep(200 * time.Microsecond)
	}
}
