--------------------------- MODULE RateLimitRefB ---------------------------
(***************************************************************************)
(* G12 correspondence, direction  RateLimitInd!Spec => RateLimit!Spec,     *)
(* root = RateLimitInd with the constants of RateLimit.mc.cfg and the same *)
(* VIEW; checks/g12.py compares the number of reachable states with        *)
(* RateLimitRefA.                                                          *)
(***************************************************************************)
EXTENDS RateLimitInd

Orig == INSTANCE RateLimit

ASSUME ConstOK

OrigSpec == Orig!Spec
OrigInvs == Orig!TypeOK /\ Orig!NoBlockBeforeLimit /\ Orig!LimitIsSharp
OrigProps == /\ Orig!BlockedNeverEvaluates /\ Orig!BlockLastsExactly /\ Orig!SuccessClears
             /\ Orig!OthersUntouched /\ Orig!ClaimIsIgnored
=============================================================================
