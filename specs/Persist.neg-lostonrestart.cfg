SPECIFICATION Spec
CONSTANTS
    Deep = FALSE
    Bug = "lostonrestart"
    DoEmit = FALSE
INVARIANTS WriteThrough ReportsRunning TypeOK
PROPERTIES RefusedChangesNothing RestartRestores CrashAtomic AcceptedEverywhere
VIEW View
