"""G04 -- the protection on / off / pause timed automaton (growth item).

TLC explores specs/Protection.tla exhaustively (modulo time translation) and
checks the statement's properties on it; three negative configurations show
that the properties see the code's as-built behaviours.
Direction A: the same TLC run emits every labelled edge of the state graph; the
Go harness (package dnsforward) walks them against a real Server + DNSFilter
under the synctest virtual clock and compares reply + projected state after
every step; the GET /control/status member of the alphabet lives in package
home and is covered by direction B there.
Direction B: seeded random timed histories in milliseconds are recorded from
the real code (package dnsforward: set / switch / dns_info / queries / worker /
restart; package home: set / status through the real handleStatus) and
validated line by line by TraceProtection.tla, which reuses the module's
outcome operators.
"""
import json
import re
import threading
import vlib

PKG = "internal/dnsforward"
FILES = ["zz_verif_common_test.go", "zz_verif_g04_test.go"]
PKG_HOME = "internal/home"

ACTIONS = {"SetProtection", "SetFlag", "Status", "Info", "Query", "Worker", "Restart", "Tick"}
NEG = ["negworker", "negflag", "neghuge"]

K_OVERFLOW = "pause-duration-overflow"
K_FLAG = "dns-config-switch-keeps-deadline"
K_WORKER = "worker-overwrites-newer-setting"


# ------------------------------------------------------------ classification
def classify_walk(r):
    """Narrow classification of a reproduced walk disagreement."""
    act, frm, got = r["act"], r["from"], r["got"]
    mem = got[1].split("!")[0].split("+w")[0] if not got[1].startswith("FLAG+") else got[1]
    f = act.split()
    if f[0] == "set" and f[1] == "0" and f[2] == "huge" and got[0] == "ok" and re.match(r"^p(P|\d+(/\d+)?)(\+w)?$", got[1]):
        # accepted, but the deadline is not beyond every horizon
        return K_OVERFLOW
    if f[0] == "flag" and got[0] == "ok" and frm.startswith("p"):
        frm_mem = frm.split("+w")[0]
        if f[1] == "1" and got[1].startswith("FLAG+" + frm_mem):
            return K_FLAG        # enabling left the running pause in place
        if f[1] == "0" and frm_mem == "pP" and got[1].split("+w")[0] == "pP":
            return K_FLAG        # disabling after the deadline left the record that reads "on"
    if act == "worker" and frm.endswith("+w") and got == ["none", "on"] and not r.get("ran"):
        frm_mem = frm[:-2]
        if frm_mem not in ("pP", "p0", "on"):
            return K_WORKER      # the worker wrote ON over a setting made after it was started
    return None


def classify_trace(L):
    """Narrow classification of a rejected (and regenerated) trace line."""
    pre, post, k = L["pre"], L["post"], L["k"]
    now = L["now"]
    if k == "set" and L["dk"] == "huge" and not L["en"] and L["res"] == "ok" and not post["en"] and post["u"] != 2000000000 and post["u"] != 0:
        return K_OVERFLOW
    if k == "flag" and L["res"] == "ok" and pre["u"] > 0 and post["u"] == pre["u"]:
        if L["en"] and post["en"] and pre["u"] > now:
            return K_FLAG
        if not L["en"] and not post["en"] and pre["u"] < now:
            return K_FLAG
    if k == "worker" and pre["w"] and post == {"en": True, "u": 0, "w": False}:
        over = pre["u"] > 0 and pre["u"] <= now and pre["u"] != 2000000000
        if not over and not (pre["en"] and pre["u"] == 0):
            return K_WORKER
    return None


# --------------------------------------------------------------- spec -> graph
def st_str(p):
    m, u = p["m"], p["u"]
    if m == "paused":
        s = "pF" if u == -1 else "pP" if u == -2 else "p%d" % u
    else:
        s = m
    return s + ("+w" if p["w"] else "")


def dur_tok(d):
    return "big" if d == -1 else "huge" if d == -2 else str(d)


def rel_tok(u):
    return "none" if u == -3 else "F" if u == -1 else str(u)


def act_out(v):
    a, o = v["act"], v["out"]
    k = a["k"]
    if k == "set":
        return "set %d %s" % (1 if a["en"] else 0, dur_tok(a["d"])), o
    if k == "flag":
        return "flag %d" % (1 if a["en"] else 0), o
    if k == "status":
        return "status", "%d,%s" % (1 if o["en"] else 0, "F" if o["rem"] == -1 else str(o["rem"]))
    if k == "info":
        return "info", "%d,%s" % (1 if o["en"] else 0, rel_tok(o["until"]))
    if k == "query":
        return "query " + a["kind"], o
    if k == "tick":
        return "tick %d" % a["d"], o
    return k, o


def build_graph(vectors):
    edges = set()
    for v in vectors:
        act, out = act_out(v)
        edges.add((st_str(v["src"]), act, st_str(v["dst"]), out))
    return sorted(edges)


def action_counts(out):
    res = {}
    for m in re.finditer(r"^<(\w+) line \d+, col \d+ to line \d+, col \d+ of module \w+>: (\d+):(\d+)$", out, re.M):
        res[m.group(1)] = (int(m.group(2)), int(m.group(3)))
    return res


def model_check(ctx):
    r = ctx.tlc("Protection", "Protection.mc.cfg", workers=2, timeout=300, coverage=True, heap="2g")
    cnt = action_counts(r["out"])
    for a in ACTIONS:
        if cnt.get(a, (0, 0))[1] == 0:
            raise vlib.Inconclusive("vacuous: action %s of Protection never taken (%s)" % (a, cnt))
    if not r["vectors"]:
        raise vlib.Inconclusive("no edges emitted by Protection")
    negs = {}
    for n in NEG:
        x = ctx.tlc("Protection", "Protection.%s.cfg" % n, workers=1, timeout=120, heap="1g", expect_violation=True)
        if x["violated"] != "EffectFollowsCalls":
            raise vlib.Inconclusive("negative configuration %s: expected EffectFollowsCalls to be violated, got %s" % (n, x["violated"]))
        negs[n] = x["violated"]
    return r, negs


# ------------------------------------------------------------------ Go side
def go_dns(ctx, run, env, timeout):
    return ctx.go_test(PKG, FILES, run, env=env, synctest=True, timeout=timeout, go_timeout="%ds" % timeout)


def go_home(ctx, run, env, timeout):
    return ctx.go_test(PKG_HOME, FILES, run, env=env, synctest=True, timeout=timeout, go_timeout="%ds" % timeout)


def walk_and_trace(ctx, graph):
    """One go test invocation per package: dnsforward runs the direction-A walk
    and records its direction-B traces; home records the status traces.  The
    two packages are built concurrently."""
    gin, gout = ctx.path("g04_graph.ndjson"), ctx.path("g04_walk.ndjson")
    tr, trh = ctx.path("g04_trace.ndjson"), ctx.path("g04_trace_home.ndjson")
    vlib.write_ndjson(gin, [graph])
    res = {}

    def dns():
        try:
            res["dns"] = go_dns(ctx, "^TestZZVerifG04(Walk|Trace)$", {"VERIF_IN": gin, "VERIF_OUT": gout, "VERIF_OUT_TRACE": tr},
                                600 if ctx.quick else 1200)
        except Exception as e:        # noqa: BLE001
            res["dns"] = e

    def home():
        try:
            res["home"] = go_home(ctx, "^TestZZVerifG04Status$", {"VERIF_OUT_TRACE": trh}, 600)
        except Exception as e:        # noqa: BLE001
            res["home"] = e

    ths = [threading.Thread(target=dns), threading.Thread(target=home)]
    for t in ths:
        t.start()
    for t in ths:
        t.join()
    for k in ("dns", "home"):
        if isinstance(res.get(k), Exception):
            raise res[k]
    rows = vlib.read_ndjson(gout)
    if res["dns"][0] != 0 or not any(r.get("kind") == "done" for r in rows):
        raise vlib.Inconclusive("G04 walk harness did not complete:\n" + res["dns"][1][-3000:])
    t1, t2 = vlib.read_ndjson(tr), vlib.read_ndjson(trh)
    if not t1:
        raise vlib.Inconclusive("G04 trace driver did not complete:\n" + res["dns"][1][-3000:])
    if res["home"][0] != 0 or not t2:
        raise vlib.Inconclusive("G04 status trace driver (package home) did not complete:\n" + res["home"][1][-3000:])
    return rows, (tr, t1), (trh, t2)


def traces(ctx, which, only, tag):
    p = ctx.path("g04_trace_%s%s.ndjson" % (which, tag))
    env = {"VERIF_OUT_TRACE": p, "VERIF_G04_ONLY": ",".join(str(k) for k in only)}
    if which == "dns":
        rc, out = go_dns(ctx, "^TestZZVerifG04Trace$", env, 600)
    else:
        rc, out = go_home(ctx, "^TestZZVerifG04Status$", env, 600)
    rows = vlib.read_ndjson(p)
    if rc != 0 or not rows:
        raise vlib.Inconclusive("G04 trace driver (%s) did not complete:\n%s" % (which, out[-3000:]))
    return p, rows


def validate(ctx, path, rows):
    """Validate a trace file with TraceProtection.tla; returns the (1-based)
    numbers of the rejected lines (the first one of each history).  Large
    files are cut at history boundaries and the parts validated concurrently."""
    parts, start = [], 0
    for i in range(1, len(rows) + 1):
        if i == len(rows) or (rows[i]["k"] == "reset" and i - start >= 25000):
            parts.append((start, i))
            start = i
    lines = open(path).read().splitlines()
    lines = [ln for ln in lines if ln.strip()]
    if len(lines) != len(rows):
        raise vlib.Inconclusive("trace file %s: %d lines, %d records" % (path, len(lines), len(rows)))
    res, errs = {}, []

    def one(pi, a, b, slot):
        try:
            pp = "%s.part%d" % (path, pi)
            with open(pp, "w") as fh:
                fh.write("\n".join(lines[a:b]) + "\n")
            # One cfg name per concurrent run: vlib derives the scratch directory from it.
            r = ctx.tlc("TraceProtection", "TraceProtection.s%d.cfg" % slot, workers=1, extra_files=[(pp, "trace.ndjson")], timeout=900, heap="2g")
            if not r["vectors"]:
                raise vlib.Inconclusive("TraceProtection produced no verdict")
            verdict = r["vectors"][-1]
            if verdict["n"] != b - a:
                raise vlib.Inconclusive("TraceProtection consumed %s of %d lines" % (verdict["n"], b - a))
            res[pi] = [a + i for i in verdict["bad"]]
        except Exception as e:        # noqa: BLE001
            errs.append(e)

    for k in range(0, len(parts), 4):
        ths = [threading.Thread(target=one, args=(k + j, a, b, j)) for j, (a, b) in enumerate(parts[k:k + 4])]
        for t in ths:
            t.start()
        for t in ths:
            t.join()
    if errs:
        raise errs[0]
    return sorted(i for v in res.values() for i in v)


def first_bad(rows, bad):
    """The first rejected line of each history: after it the history is off
    the spec (later lines start from a state the spec does not have)."""
    first = {}
    for i in bad:
        tr = rows[i - 1]["tr"]
        if tr not in first:
            first[tr] = i
    return first


def trace_half(ctx, which, path, rows):
    """Validate one trace file.  Rejected lines are reproduced by regenerating
    only their histories (same seed) and validating again."""
    bad = validate(ctx, path, rows)
    first = first_bad(rows, bad)
    confirmed, truncated = [], 0
    if first:
        trs = sorted(first)
        p2, rows2 = traces(ctx, which, trs, "_again")
        bad2 = validate(ctx, p2, rows2)
        for tr, i in sorted(first_bad(rows2, bad2).items()):
            rec = {k: v for k, v in rows2[i - 1].items() if k != "concrete"}
            rec.update({"seed": ctx.seed, "tier": ctx.tier, "half": which,
                        "line_in_trace": sum(1 for r in rows2[:i] if r["tr"] == tr)})
            confirmed.append(rec)
            truncated += sum(1 for r in rows2[i:] if r["tr"] == tr)
        ctx.log("TraceProtection/%s: %d histories with a rejected line, %d confirmed on regeneration" % (which, len(first), len(confirmed)))
    return first, confirmed, truncated


def run(ctx):
    # ---- the statement on the model + edge generation
    mc, negs = model_check(ctx)
    edges = build_graph(mc["vectors"])
    inits = sorted({e[0] for e in edges if e[0] in ("on", "off")})
    status_edges = [e for e in edges if e[1] == "status"]
    walk_edges = [e for e in edges if e[1] != "status"]
    if inits != ["off", "on"] or len(walk_edges) < 400 or not status_edges:
        raise vlib.Inconclusive("edge graph too small: %d edges, initial states %s" % (len(walk_edges), inits))
    graph = {"init": inits, "edges": walk_edges}
    ctx.log("graph: %d states, %d edges (+%d status edges left to package home)" % (
        len({e[0] for e in edges}), len(walk_edges), len(status_edges)))

    # ---- direction A
    rows, (p_dns, t_dns), (p_home, t_home) = walk_and_trace(ctx, graph)
    summaries = [r for r in rows if r.get("kind") == "summary"]
    flaky = [r for r in rows if r.get("kind") == "flaky"]
    known_pairs, truncated_walk, by_key = set(), 0, {}
    for r in rows:
        if r.get("kind") != "bad":
            continue
        key = classify_walk(r)
        verdict = ctx.disagreement(key, r, "tick=%s, start %s: after %s, '%s' gave %s; spec admits %s (%s)" % (
            r["variant"], r["init"], [h["act"] for h in r["history"]], r["act"], r["got"], r["admissible"], r["detail"]))
        if verdict == "known":
            known_pairs.add((r["from"], r["act"]))
            truncated_walk += 1
            by_key["walk:" + key] = by_key.get("walk:" + key, 0) + 1
    if not summaries:
        raise vlib.Inconclusive("no walk summaries")
    steps = sum(s["steps"] for s in summaries)
    composites = sum(s["composites"] for s in summaries)
    never = None
    for s in summaries:
        if s["edges"] != len(walk_edges):
            raise vlib.Inconclusive("harness read %d of %d edges" % (s["edges"], len(walk_edges)))
        unc = set(s["uncovered_idx"])
        never = unc if never is None else (never & unc)
    taken = {(e[0], e[1]) for i, e in enumerate(walk_edges) if i not in never}
    holes = [walk_edges[i] for i in sorted(never)
             if (walk_edges[i][0], walk_edges[i][1]) not in taken and (walk_edges[i][0], walk_edges[i][1]) not in known_pairs]
    covered = len(walk_edges) - len(never)
    ctx.log("walk: %d steps, %d/%d edges covered, %d alternatives / known-finding edges never taken, %d flaky" % (
        steps, covered, len(walk_edges), len(never), len(flaky)))
    nobad = not ctx.violations
    if holes and nobad:
        raise vlib.Inconclusive("walk left %d (state, action) pairs unexplored, e.g. %s" % (len(holes), holes[:3]))
    if len(flaky) > 3:
        raise vlib.Inconclusive("%d non-reproducible disagreements, e.g. %s" % (len(flaky), json.dumps(flaky[0])[:600]))
    if composites < 20 and nobad:
        raise vlib.Inconclusive("only %d observations were followed by the real worker goroutine" % composites)

    # ---- direction B
    allconf, nbad, truncated_trace = [], 0, 0
    for which, path, trs in (("dns", p_dns, t_dns), ("home", p_home, t_home)):
        first, confirmed, trunc = trace_half(ctx, which, path, trs)
        nbad += len(first)
        truncated_trace += trunc
        allconf += confirmed
    for rec in allconf:
        key = classify_trace(rec)
        by_key["trace:%s" % key] = by_key.get("trace:%s" % key, 0) + 1
        ctx.disagreement(key, rec, "history %s (%s), line %s at %s ms: %s en=%s d=%s(%s) kind=%s -> %s, stored %s -> %s, file %s; rejected by TraceProtection (%s)" % (
            rec["tr"], rec["half"], rec["line_in_trace"], rec["now"], rec["k"], rec["en"], rec["d"], rec["dk"], rec["kind"],
            rec["res"] or [rec["ren"], rec["ru"]], rec["pre"], rec["post"], rec["disk"], rec["detail"]))
    ntr = len({r["tr"] for r in t_dns}) + len({r["tr"] for r in t_home})
    kinds = {r["k"] for r in t_dns} | {r["k"] for r in t_home}
    need = {"set", "flag", "info", "status", "query", "worker", "restart", "tick"}
    paused_reads = sum(1 for r in t_dns + t_home if r["k"] in ("info", "status") and not r["ren"] and r["ru"] > 0)
    unblocked = sum(1 for r in t_dns if r["k"] == "query" and r["res"] == "up" and r["kind"] not in ("rw", "clean"))
    ran = sum(1 for r in t_dns + t_home if r["ran"] and r["pre"]["u"] > 0 and r["post"] == {"en": True, "u": 0, "w": False})
    if need - kinds or paused_reads < 20 or unblocked < 20 or ran < 5:
        raise vlib.Inconclusive("vacuous traces: kinds %s, %d reads inside a pause, %d unblocked queries, %d real worker runs" % (
            sorted(kinds), paused_reads, unblocked, ran))

    nontrivial = sum(1 for e in walk_edges if (e[1].startswith("query") and e[3] == "up" and e[1].split()[1] not in ("rw", "clean"))
                     or (e[1] == "info" and e[3].startswith("0,")) or e[1] in ("worker", "restart")
                     or (e[1].startswith(("set", "flag")) and e[0] != e[2]))
    samples = [r for r in rows if r.get("kind") == "sample"][:2]
    for s in samples:
        s["history"] = [{k: v for k, v in h.items() if k != "seed"} for h in s["history"][:8]]
    for r in (next((r for r in t_dns if r["k"] == "set" and r["d"] > 0), None),
              next((r for r in t_dns if r["k"] == "query" and r["res"] == "up" and r["kind"] == "sb"), None),
              next((r for r in t_home if r["k"] == "status" and r["ru"] > 0), None)):
        if r:
            samples.append({k: v for k, v in r.items() if k != "concrete"})
    cov = {
        "traces_validated_against_impl": len(summaries) + ntr,
        "evaluations": steps + len(t_dns) + len(t_home),
        "walk_steps": steps, "edges": len(walk_edges), "edges_covered": covered,
        "edges_not_taken_by_code": len(never), "status_edges_left_to_home_traces": len(status_edges),
        "walks": len(summaries), "observations_followed_by_real_worker": composites,
        "distinct_nontrivial": nontrivial,
        "rule": "an evaluation is one executed step (HTTP request, DNS query, clock advance, worker run or restart) whose reply and "
                "projected state were compared with the spec; non-trivial = distinct spec edges that are a blocked-kind query answered "
                "from upstream, a dns_info read reporting protection off, a worker run, a restart, or a set/switch call that changes the "
                "state; edges_not_taken_by_code are alternatives of the spec's nondeterministic points (boundary instant, enabled+duration, "
                "huge duration, dns_config switch during a pause) and edges whose behaviour in the code is an open known finding",
        "trace_lines": len(t_dns) + len(t_home), "trace_histories": ntr, "trace_histories_with_rejected_line": nbad,
        "trace_reads_inside_a_pause": paused_reads, "trace_unblocked_queries": unblocked, "trace_real_worker_runs": ran,
        "truncated_by_known_finding": truncated_walk + truncated_trace,
        "histories_ended_by_known_finding": by_key,
        "flaky": len(flaky), "negative_configurations": negs,
        "exhaustive": True, "samples": samples,
        "states": mc["distinct"], "transitions": mc["generated"],
    }
    return ctx.finish("model_checking", cov, assumptions=[
        "TLC; the abstraction function of zz_verif_g04_test.go (stored flag + deadline relative to the virtual clock, in memory and in the YAML file; worker pending)",
        "testing/synctest virtual clock; handler level (handlers called with httptest requests; queries through Server.handleDNSRequest with a mock upstream), no sockets",
        "a started-but-not-yet-scheduled write-back worker is modelled by setting protectionUpdateInProgress and calling enableProtectionAfterPause later (the code the goroutine runs)",
        "restart = the filtering section written by WriteDiskConfig on every ConfigModified, through YAML, into a new DNSFilter + Server",
        "the instant now = deadline is left open (both 'still paused' and 'in effect' admitted)"])


def replay(ctx, path):
    rec = json.load(open(path))["record"]
    if "history" not in rec:
        ctx.seed, ctx.tier = rec["seed"], rec.get("tier", "quick")
        p, rows = traces(ctx, rec["half"], [rec["tr"]], "_replay")
        bad = validate(ctx, p, rows)
        first = first_bad(rows, bad)
        print(json.dumps({"trace": rec["tr"], "stored_line": rec["line_in_trace"], "rejected_lines": bad,
                          "lines": [{k: rows[i - 1][k] for k in rows[i - 1] if k != "concrete"} for i in sorted(first.values())[:3]],
                          "verdict": "DISAGREEMENT" if bad else "accepted"}, indent=1))
        return 1 if bad else 0
    rin, rout = ctx.path("g04_replay_in.ndjson"), ctx.path("g04_replay_out.ndjson")
    vlib.write_ndjson(rin, [rec])
    rc, out = go_dns(ctx, "^TestZZVerifG04Replay$", {"VERIF_IN": rin, "VERIF_OUT": rout}, 600)
    rows = [r for r in vlib.read_ndjson(rout) if r.get("kind") == "replay"]
    if rc != 0 or not rows:
        raise vlib.Inconclusive("G04 replay did not complete:\n" + out[-3000:])
    r = rows[0]
    print(json.dumps({"history": [h["act"] for h in r["history"]], "act": r["act"],
                      "expected": r["admissible"], "observed": r["got"], "detail": r["detail"],
                      "verdict": "admissible" if r["ok"] else "DISAGREEMENT"}, indent=1))
    return 0 if r["ok"] else 1
