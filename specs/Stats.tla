-------------------------------- MODULE Stats --------------------------------
(***************************************************************************)
(* C09 -- statistics totals equal the queries counted inside the           *)
(* retention window.                                                       *)
(*                                                                         *)
(* Written from the statement of the property.  The oracle is the ghost    *)
(* variable `ledger`: the multiset of (hour in which the query was         *)
(* counted, result category) of every counted query.  The mechanism        *)
(* (current in-memory unit `cur`, persisted hourly buckets `db`, hourly    *)
(* flush, clean shutdown / restart, limit change, clear) is modelled as    *)
(* one action per critical section / API call, and TLC checks that the     *)
(* reply of the statistics API, which is computed from `cur` and `db`      *)
(* only, always agrees with the ledger (invariants at the end).            *)
(*                                                                         *)
(* Time.  Hours are kept RELATIVE to the hour the module has observed      *)
(* last (the id of the current unit): a bucket or ledger entry has an      *)
(* `age` a >= 0, meaning "counted a hours before the observed hour".       *)
(* `lead` says how far the wall clock has run ahead of the observed hour   *)
(* (the module looks at the clock only in Flush, Open and Clear; in        *)
(* production Flush polls once per second).  The relative representation   *)
(* makes the reachable state space finite without bounding the clock, so   *)
(* the exhaustive run covers histories of every length.  The Go harness    *)
(* keeps the absolute hour.                                                *)
(*                                                                         *)
(* ABSOLUTE CLOCK.  Because hours are relative, nothing in this spec can    *)
(* depend on where the clock stands: the property is stated, and checked,  *)
(* for every absolute hour Base >= 0 of the first observation at once --   *)
(* the epoch (hour 0), hour numbers below, at and above the retention      *)
(* limit, present-day numbers.  (The only trace of the absolute position   *)
(* is `phase`, the hour modulo DayLen, needed for the daily rendering; Init *)
(* lets it range over every residue.)  An implementation that computes     *)
(* with absolute hour numbers has to get the same answers for every Base;  *)
(* the harness therefore makes Base a seeded dimension of every leg        *)
(* (0, 1, limit-1, limit, limit+1, 2*limit, ~470 000).                     *)
(*                                                                         *)
(* "The hour that was current when it was counted" is read as the hour     *)
(* the module had observed when it counted the query (age 0): between a    *)
(* clock advance and the next poll of the flusher (<= 1 s) the module      *)
(* cannot know the hour changed.  This is the loosest reading the          *)
(* statement allows; a stricter one (wall-clock hour) would reject every   *)
(* implementation that polls the clock.                                    *)
(*                                                                         *)
(* Where the statement is silent the spec is nondeterministic:             *)
(*  - a bucket whose hour has been OUTSIDE the window at some moment       *)
(*    (aged out, or cut off by a smaller limit) and is inside again        *)
(*    because the limit was raised may or may not be reported (flag `g`,   *)
(*    "gone?": such slots are `opt` in the reply);                         *)
(*  - for daily series the statement only demands "never exceed the        *)
(*    totals": DailyOK below is the admissible set; RefDaily is one        *)
(*    reference design used to make the invariant non-vacuous.             *)
(***************************************************************************)
EXTENDS Integers, Sequences, FiniteSets, FiniteSetsExt, TLC, Json

CONSTANTS
    Limits,      \* admissible retention limits, in hours (units)
    MaxLim,      \* the largest of them
    NCats,       \* number of result categories (5 in the code)
    MaxLive,     \* exploration bound: counted queries still remembered
    MaxTick,     \* largest single clock advance offered by Tick
    DayLen,      \* hours per day (24; scaled down in Stats.mc.cfg)
    DailyAbove,  \* series are daily iff limit \div DayLen > DailyAbove (7)
    EmitEdges    \* TRUE: print one labelled edge per generated transition

ASSUME /\ \A l \in Limits : l \in 1..MaxLim
       /\ NCats >= 1 /\ MaxTick >= 1 /\ DayLen >= 1

VARIABLES
    lead,     \* wall clock minus observed hour, saturated at MaxLim
    phase,    \* observed hour modulo DayLen (0 when no limit is daily)
    up,       \* the module is running (between Open/New and Close)
    enabled,  \* statistics collection switched on
    limit,    \* retention limit in hours
    cur,      \* counters of the current unit (age 0), in memory
    db,       \* age -> [n : counters, g : has been outside the window]
    ledger    \* ghost: bag of [a : age, c : category, g] of counted queries

vars == <<lead, phase, up, enabled, limit, cur, db, ledger>>

Cats == 1..NCats
Min2(a, b) == IF a < b THEN a ELSE b

\* ------------------------------------------------------------------ counters
\* A unit keeps the total and the per-category counters separately, as the
\* API reports them separately (num_dns_queries vs. num_blocked_filtering...).
Zero        == [t |-> 0, by |-> [c \in Cats |-> 0]]
Add(n, c)   == [t |-> n.t + 1, by |-> [n.by EXCEPT ![c] = @ + 1]]
Plus(m, n)  == [t |-> m.t + n.t, by |-> [c \in Cats |-> m.by[c] + n.by[c]]]
SumN(S)     == FoldSet(LAMBDA s, acc : Plus(s.n, acc), Zero, S)   \* S: set of slots
Leq(m, n)   == m.t <= n.t /\ \A c \in Cats : m.by[c] <= n.by[c]

IsDaily(l)  == (l \div DayLen) > DailyAbove
Phased      == \E l \in Limits : IsDaily(l)
PhaseAfter(k) == IF Phased THEN (phase + k) % DayLen ELSE 0

\* ------------------------------------------------------------ bucket algebra
\* Move every bucket of d by `by` hours into the past under limit lim.
\* Buckets reaching age MaxLim can never be inside any window again (the
\* clock is monotone) and are forgotten; buckets at age >= lim are marked g.
ShiftDB(d, by, lim) ==
    LET keep == {a \in DOMAIN d : a + by < MaxLim} IN
    [b \in {a + by : a \in keep} |->
        [n |-> d[b - by].n, g |-> d[b - by].g \/ (b >= lim)]]

MarkDB(d, lim) == [a \in DOMAIN d |-> [d[a] EXCEPT !.g = @ \/ (a >= lim)]]

\* The persisted image of the current unit joined with the stored buckets.
\* While the module is up no bucket of age 0 is in db (Open moves it to cur).
Persisted == IF cur = Zero THEN db ELSE (0 :> [n |-> cur, g |-> FALSE]) @@ db

\* The same two operations on the ghost bag.
LedgerMap(L, F(_)) ==
    LET img == {F(k) : k \in DOMAIN L} IN
    [q \in img |-> FoldSet(LAMBDA k, acc : acc + L[k], 0, {k \in DOMAIN L : F(k) = q})]
ShiftLedger(L, by, lim) ==
    LET keep == {k \in DOMAIN L : k.a + by < MaxLim}
        K    == [k \in keep |-> L[k]]
    IN LedgerMap(K, LAMBDA k : [a |-> k.a + by, c |-> k.c, g |-> k.g \/ (k.a + by >= lim)])
MarkLedger(L, lim) == LedgerMap(L, LAMBDA k : [k EXCEPT !.g = @ \/ (k.a >= lim)])
LedgerSize(L) == FoldSet(LAMBDA k, acc : acc + L[k], 0, DOMAIN L)
LedgerAdd(L, k) == IF k \in DOMAIN L THEN [L EXCEPT ![k] = @ + 1] ELSE (k :> 1) @@ L
EmptyFn == [x \in {} |-> 0]

\* --------------------------------------------------------------- API reply
\* What GET /control/stats may say in the current state.  One slot per hour of
\* the window that holds data; `opt` slots may be reported or left out (as a
\* whole unit).  Everything else in the window is zero; nothing outside the
\* window is reported.
Slots == (IF cur = Zero THEN {} ELSE {[a |-> 0, n |-> cur, opt |-> FALSE]})
            \cup {[a |-> a, n |-> db[a].n, opt |-> db[a].g] : a \in {x \in DOMAIN db : x < limit}}
OptAges      == {s.a : s \in {x \in Slots : x.opt}}
Chosen(K)    == {s \in Slots : ~s.opt \/ s.a \in K}     \* K \subseteq OptAges
Totals(K)    == SumN(Chosen(K))
\* Hourly series: position i (1 = oldest) shows age limit - i.
SlotAt(K, a) == LET m == {s \in Chosen(K) : s.a = a} IN IF m = {} THEN Zero ELSE (CHOOSE s \in m : TRUE).n
Hourly(K)    == [i \in 1..limit |-> SlotAt(K, limit - i)]
SumSeq(q)    == FoldSet(LAMBDA i, acc : Plus(q[i], acc), Zero, DOMAIN q)

\* Daily series.  Admissible set according to the statement:
DailyOK(series, tot) == Leq(SumSeq(series), tot)
\* Reference design: days aligned to absolute day boundaries, the last entry
\* is the running day (phase + 1 hours so far); window hours before the first
\* listed day are left out.
NDays        == limit \div DayLen
RefHours     == Min2(limit, (NDays - 1) * DayLen + phase + 1)
RefDaily(K)  == [d \in 1..NDays |->
                   SumN({s \in Chosen(K) : s.a < RefHours
                                           /\ ((RefHours - 1 - s.a) \div DayLen) + 1 = d})]

Reply == [units |-> IF IsDaily(limit) THEN "days" ELSE "hours",
          len   |-> IF IsDaily(limit) THEN NDays ELSE limit,
          slots |-> {[a |-> s.a, t |-> s.n.t, by |-> s.n.by, opt |-> s.opt] : s \in Slots}]

\* ------------------------------------------------------------ edge emission
StateRec(l, p, u, e, lm, c, d) ==
    [lead |-> l, ph |-> p, up |-> u, en |-> e, lim |-> lm, ct |-> c.t, cby |-> c.by,
     db |-> {[a |-> a, t |-> d[a].n.t, by |-> d[a].n.by, g |-> d[a].g] : a \in DOMAIN d}]
Here == StateRec(lead, phase, up, enabled, limit, cur, db)
\* Called as the last conjunct of an action, so the primed variables are known.
Edge(act, arg) ==
    \/ ~EmitEdges
    \/ PrintT(<<"@@V", ToJson([s |-> Here, a |-> act, x |-> arg,
                               d |-> StateRec(lead', phase', up', enabled', limit', cur', db'),
                               o |-> IF up' THEN Reply' ELSE [units |-> "down", len |-> 0, slots |-> {}]])>>)

\* ------------------------------------------------------------------ actions
Init == /\ lead = 0 /\ phase \in (IF Phased THEN 0..(DayLen - 1) ELSE {0})
        /\ up = TRUE /\ enabled = TRUE /\ limit \in Limits
        /\ cur = Zero /\ db = EmptyFn /\ ledger = EmptyFn

\* Update(c): one query with result category c is handed to the module.  It is
\* counted (once, in the observed hour, in category c) iff collection is on.
\* PAYLOAD INDEPENDENCE.  The action has no parameter but the category on
\* purpose: a real query also carries a client, a domain, a processing time
\* and upstream statistics, and the statement quantifies over all of them, but
\* none of them may influence whether, where or how often the query shows up
\* in the totals and the series.  Every concrete payload is therefore a
\* refinement of this one transition; the harness draws the payload fields
\* over their boundary values (zero / sub-microsecond / huge processing time,
\* one-character and maximal names, nil / empty / long upstream lists, cached
\* and failed answers) from the seed in both binding directions, and the
\* reply is held against Reply / ObsOK of the payload-free state.
DoUpdate(c) ==
    /\ up
    /\ IF enabled
         THEN /\ cur' = Add(cur, c)
              /\ ledger' = LedgerAdd(ledger, [a |-> 0, c |-> c, g |-> FALSE])
         ELSE UNCHANGED <<cur, ledger>>
    /\ UNCHANGED <<lead, phase, up, enabled, limit, db>>
Update(c) == /\ LedgerSize(ledger) < MaxLive
             /\ DoUpdate(c)
             /\ Edge("update", c)

\* Tick(k): the wall clock advances by k hours (also while the module is down).
\* Once the clock is MaxLim or more hours ahead every stored count is older
\* than any window, so the lead saturates; when some limit is daily the
\* saturated value keeps its residue modulo DayLen (phase needs it).
Sat(x) == IF x <= MaxLim THEN x
          ELSE IF Phased THEN MaxLim + ((x - MaxLim) % DayLen) ELSE MaxLim
DoTick(k) == /\ lead' = Sat(lead + k)
             /\ UNCHANGED <<phase, up, enabled, limit, cur, db, ledger>>
Tick(k) == /\ DoTick(k)
           /\ Edge("tick", k)

\* Everything the module does when it looks at the clock and finds that the
\* hour has changed: the observed hour becomes the wall-clock hour, every
\* count gets `lead` hours older, what leaves the window is no longer reported.
Observe(stored) ==
    /\ db' = ShiftDB(stored, lead, limit)
    /\ ledger' = ShiftLedger(ledger, lead, limit)
    /\ phase' = PhaseAfter(lead)
    /\ lead' = 0

\* Flush: the periodic step.  A no-op unless the hour has changed; then (in
\* one critical section) a fresh current unit is installed and the old one is
\* persisted under its own hour.
DoFlush ==
    /\ up
    /\ IF lead = 0
         THEN UNCHANGED vars
         ELSE /\ Observe(Persisted)
              /\ cur' = Zero
              /\ UNCHANGED <<up, enabled, limit>>
Flush == DoFlush /\ Edge("flush", 0)

\* FlushFails: the periodic step runs while the database cannot be used (the
\* handle is gone for a moment, or opening the write transaction fails).
\* Counts survive hour rollovers and each query is counted exactly once also
\* then: the step must leave everything as it is -- the unit of the finished
\* hour stays current ("pending": lead keeps its value), queries arriving
\* meanwhile are still counted once into it, and a later successful Flush
\* persists it under its own hour.  Nothing is lost, nothing is counted twice.
DoFlushFails == up /\ UNCHANGED vars
FlushFails == DoFlushFails /\ Edge("flushfail", 0)

\* Close: clean shutdown; the current unit is persisted under its hour.
DoClose == /\ up
           /\ up' = FALSE
           /\ db' = Persisted
           /\ cur' = Zero
           /\ UNCHANGED <<lead, phase, enabled, limit, ledger>>
Close == DoClose /\ Edge("close", 0)

\* Open: restart.  The clock is read; the unit persisted for this very hour,
\* if any, becomes the current unit again.
DoOpen ==
    /\ ~up
    /\ up' = TRUE
    /\ LET moved == ShiftDB(db, lead, limit) IN
         /\ cur' = IF 0 \in DOMAIN moved THEN moved[0].n ELSE Zero
         /\ db' = [a \in DOMAIN moved \ {0} |-> moved[a]]
    /\ ledger' = ShiftLedger(ledger, lead, limit)
    /\ phase' = PhaseAfter(lead)
    /\ lead' = 0
    /\ UNCHANGED <<enabled, limit>>
Open == DoOpen /\ Edge("open", 0)

\* SetLimit(l): the retention limit is changed through the API.  Shrinking
\* cuts the window at once; growing does not bring back what was cut.
DoSetLimit(l) ==
    /\ up
    /\ limit' = l
    /\ db' = MarkDB(db, l)
    /\ ledger' = MarkLedger(ledger, l)
    /\ UNCHANGED <<lead, phase, up, enabled, cur>>
SetLimit(l) == l # limit /\ DoSetLimit(l) /\ Edge("limit", l)

DoSetEnabled(b) ==
    /\ up
    /\ enabled' = b
    /\ UNCHANGED <<lead, phase, up, limit, cur, db, ledger>>
SetEnabled(b) == b # enabled /\ DoSetEnabled(b) /\ Edge("enable", IF b THEN 1 ELSE 0)

\* Clear: everything counted so far is forgotten; the clock is read.
DoClear == /\ up
           /\ cur' = Zero /\ db' = EmptyFn /\ ledger' = EmptyFn
           /\ phase' = PhaseAfter(lead)
           /\ lead' = 0
           /\ UNCHANGED <<up, enabled, limit>>
Clear == DoClear /\ Edge("clear", 0)

\* Read: GET /control/stats.  No effect; the reply is Reply (with the opt
\* slots chosen freely).
Read == /\ up /\ UNCHANGED vars /\ Edge("read", 0)

Next == \/ \E c \in Cats : Update(c)
        \/ \E k \in 1..MaxTick : Tick(k)
        \/ Flush \/ FlushFails \/ Close \/ Open \/ Clear \/ Read
        \/ \E l \in Limits : SetLimit(l)
        \/ \E b \in BOOLEAN : SetEnabled(b)

Spec == Init /\ [][Next]_vars

\* ------------------------------------------------- the statement, as checked
LedgerCount(P(_)) == FoldSet(LAMBDA k, acc : acc + ledger[k], 0, {k \in DOMAIN ledger : P(k)})
Stored == IF up THEN Persisted ELSE db

TypeOK ==
    /\ lead \in 0..(MaxLim + DayLen) /\ phase \in 0..(DayLen - 1) /\ up \in BOOLEAN /\ enabled \in BOOLEAN
    /\ limit \in Limits
    /\ DOMAIN db \subseteq 0..(MaxLim - 1)
    /\ (up => 0 \notin DOMAIN db)
    /\ (~up => cur = Zero)
    /\ \A k \in DOMAIN ledger : k.a \in 0..(MaxLim - 1) /\ k.c \in Cats /\ ledger[k] >= 1

\* Each query is counted exactly once, in the hour that was current when it
\* was counted, and the counts survive rollover and clean restart: what is
\* stored (memory + disk while up, disk while down) for an hour equals the
\* ledger for that hour, category by category, with the same "has been outside
\* the window" mark.
CountedOnceInItsHour ==
    \A a \in DOMAIN Stored \cup {k.a : k \in DOMAIN ledger}, c \in Cats :
        LET n == IF a \in DOMAIN Stored THEN Stored[a].n.by[c] ELSE 0 IN
        /\ n = LedgerCount(LAMBDA k : k.a = a /\ k.c = c)
        /\ (a \in DOMAIN Stored =>
              /\ LedgerCount(LAMBDA k : k.a = a /\ k.g # Stored[a].g) = 0
              /\ (Stored[a].g \/ a < limit))    \* a bucket outside the window has the mark
SurvivesRestart == ~up => CountedOnceInItsHour    \* named separately for the manifest

\* ... and in exactly one result category: every unit's total is the sum of its
\* per-category counters.
ExactlyOneCategory ==
    \A a \in DOMAIN Stored :
        Stored[a].n.t = FoldSet(LAMBDA c, acc : acc + Stored[a].n.by[c], 0, Cats)

\* The totals reported equal the number of counted queries whose hour lies
\* inside the window, whatever else the queries carried (the ledger, like the
\* state, records hour and category only: see PAYLOAD INDEPENDENCE at Update)
\* -- for every admissible choice K of the optional slots
\* the totals are the never-cut ledger entries of the window plus the entries
\* of the chosen optional hours.
Conservation ==
    up => \A K \in SUBSET OptAges :
        /\ Totals(K).t = LedgerCount(LAMBDA k : k.a < limit /\ (~k.g \/ k.a \in K))
        /\ \A c \in Cats :
             Totals(K).by[c] = LedgerCount(LAMBDA k : k.a < limit /\ k.c = c /\ (~k.g \/ k.a \in K))

\* Queries older than the window are not reported.
OldNotReported ==
    up => /\ \A s \in Slots : s.a < limit
          /\ Totals(OptAges).t <= LedgerCount(LAMBDA k : k.a < limit)

HourlySumsToTotal ==
    up /\ ~IsDaily(limit) => \A K \in SUBSET OptAges : SumSeq(Hourly(K)) = Totals(K)

DailyNeverExceeds ==
    up /\ IsDaily(limit) => \A K \in SUBSET OptAges : DailyOK(RefDaily(K), Totals(K))

\* ------------------------------------------- binding: observed API replies
\* An observed reply e (recorded by the Go harness from GET /control/stats):
\*   e.units  "hours" | "days"           e.len  length of the series
\*   e.tot    <<total, by_1, ..., by_NCats>>   (the num_* fields)
\*   e.nz     the non-zero positions of the series, each
\*            <<position (1 = oldest), total, x_1, ..., x_m>> where x_j is the
\*            series of category sc[j] (the API has no series for every
\*            category, sc lists those it has).
\* ObsOK says whether the spec admits it in the current state.  Only what the
\* statement names is constrained: totals; hourly series entry by entry (one
\* entry per hour of the window, a count sits in the hour it was counted in);
\* daily series only "never exceed the totals".
Proj(n, sc)  == <<n.t>> \o [j \in 1..Len(sc) |-> n.by[sc[j]]]
ObsTot(n)    == <<n.t>> \o [c \in 1..NCats |-> n.by[c]]
ObsOK(e, sc) ==
    \E K \in SUBSET OptAges :
        /\ e.tot = ObsTot(Totals(K))
        /\ IF e.units = "hours"
             THEN /\ e.len = limit
                  /\ {e.nz[i] : i \in DOMAIN e.nz}
                        = {<<limit - s.a>> \o Proj(s.n, sc) : s \in Chosen(K)}
             ELSE \A j \in 1..(Len(sc) + 1) :
                    FoldSet(LAMBDA i, acc : acc + e.nz[i][j + 1], 0, DOMAIN e.nz)
                        <= Proj(Totals(K), sc)[j]

\* Vacuity witnesses: Stats.vac.cfg states NeverDailyData as an invariant and
\* the check requires TLC to REFUTE it (the daily branch is reachable with
\* data); optional slots are witnessed by the emitted edges themselves.
NeverDailyData == ~(up /\ IsDaily(limit) /\ Totals({}).t > 1 /\ phase # 0)
=============================================================================
