"""Table from which tools/mkmanifest.py generates MANIFEST.json."""

HOOKS = {
    "guard": "verif",
    "enable": "go test -tags verif -overlay <generated>  (harness files are overlaid from /verif/harness; hooks, if any, are //go:build verif files in /repo)",
    "baseline_off_cmd": "cd /repo && GOFLAGS=-mod=mod GOPROXY=off go test -vet=off -count=1 -timeout 25m ./...",
    "source_commits": [],
    "add_only": True,
}

ENGINES = [
    {"name": "tlc", "path": "/verif/specs", "kind_free_text": "explicit TLA+ specifications checked/enumerated by TLC (tools/vlib.py Ctx.tlc)",
     "serves_properties": []},
    {"name": "go-overlay-harness", "path": "/verif/harness", "kind_free_text": "in-package Go test files overlaid into /repo at build time (go test -overlay); replay TLC vectors/behaviours into the real code and record traces for TLC to validate",
     "serves_properties": []},
]

NOTES = ("Model-based verification with explicit TLA+ specifications; see DESIGN.md. "
         "./check <id> <tier> is the single entry point; exit 0/1/2 = held / reproduced violation / inconclusive.")

NOT_APPLICABLE = {}

CHECKS = {
    "C16": {
        "text": "ClientID.tla (decision procedure written from the statement) is enumerated by TLC over every input of a finite universe "
                "(6 protocols x 3 configured names x strict x 29 client names x 1445 DoH paths; ~2e5 inputs, 7 invariants of the statement checked on the spec); "
                "every vector is replayed into the real HandleBefore and the outcome must be in the spec's admissible set; "
                "a random driver over a larger universe is recorded and validated by TraceClientID.tla.",
        "design_ref": "DESIGN.md section 4 C16",
        "note": "Trusted: TLC, conc()/abs() of zz_verif_c16_test.go, the harness's own label classifier. Handler level (fake TLS/QUIC connection states), no sockets. "
                "Case handling of the configured server name is not asserted (statement silent).",
        "technique": "TLA+ spec enumerated by TLC; exhaustive vector replay into real code + TLC trace validation",
    },
}
