"""Parse Go race-detector reports into normalised unordered pairs of top
application frames (function names, no line numbers)."""
import re

APP = "github.com/AdguardTeam/AdGuardHome/internal/"
_fn = re.compile(r"^\s{2}(\S+)\(.*\)$|^\s{2}(\S+)\(\)$")


def _top_app_frame(lines):
    """First frame in the AdGuardHome module that is not harness code."""
    frames = []
    for i, ln in enumerate(lines):
        if not ln.startswith("  ") or ln.startswith("   ") or not ln.rstrip().endswith(")"):
            continue
        fn = ln.strip()
        fn = fn[:fn.rindex("(")]
        loc = lines[i + 1].strip() if i + 1 < len(lines) else ""
        frames.append((fn, loc))
    for fn, loc in frames:
        if fn.startswith(APP) and "zz_verif_" not in loc and ".zz" not in fn:
            f = fn[len(APP):]
            f = re.sub(r"\.func\d+(\.\d+)*$", "", f)
            return f
    for fn, loc in frames:
        if "zz_verif_" in loc or ".zz" in fn:
            return "HARNESS"
    return frames[0][0] if frames else "?"


def parse(text):
    """Returns list of dict(pair=(a,b), kinds=(k1,k2), raw=str)."""
    out = []
    blocks = text.split("==================")
    for b in blocks:
        if "WARNING: DATA RACE" not in b:
            continue
        lines = b.splitlines()
        # sections start with "Read at", "Write at", "Previous read at", "Previous write at"
        secs = []
        cur = None
        for ln in lines:
            if re.match(r"^(Read|Write|Previous read|Previous write|Atomic|Previous atomic)", ln.strip()) and " by " in ln:
                cur = {"head": ln.strip(), "lines": []}
                secs.append(cur)
            elif ln.startswith("Goroutine ") or ln.strip().startswith("Goroutine "):
                cur = None
            elif cur is not None:
                cur["lines"].append(ln)
        if len(secs) < 2:
            continue
        a = _top_app_frame(secs[0]["lines"])
        c = _top_app_frame(secs[1]["lines"])
        pair = tuple(sorted([a, c]))
        out.append({"pair": pair, "heads": [secs[0]["head"].split(" at ")[0], secs[1]["head"].split(" at ")[0]], "raw": b.strip()[:6000]})
    return out


if __name__ == "__main__":
    import sys, collections
    c = collections.Counter()
    ex = {}
    for p in sys.argv[1:]:
        for r in parse(open(p, errors="replace").read()):
            c[r["pair"]] += 1
            ex.setdefault(r["pair"], r["raw"])
    for k, v in c.most_common():
        print(v, " | ".join(k))
