\* Negative configuration: the seeded fault "nowrite" of Persist.tla must violate WriteThrough.
SPECIFICATION Spec
CONSTANTS
    Deep = FALSE
    Bug = "nowrite"
    DoEmit = FALSE
INVARIANTS WriteThrough
VIEW View
