SPECIFICATION Spec
CONSTANTS BlockLists = {"b1"}
          AllowLists = {"a1"}
          AsIsC = FALSE
          CosmC = FALSE
          Configs <- ConfHTTP
          ForcedBeh <- BehAdmin
          SchedBeh <- BehAdminSched
          FileBeh <- BehAdmin
          SetURLBeh <- BehSetURL
          Toggle = TRUE
          SetURLAsIs = FALSE
INVARIANTS InvCoherent
