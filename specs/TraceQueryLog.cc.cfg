SPECIFICATION TSpec
CONSTANTS
  MaxRec = 100000000
  MemSizes = {}
  FileModes = {}
  Palettes = {0}
  Kinds = {}
  RestartResizes = TRUE
  IgnoreModes = {FALSE}
  AnonModes = {}
  MaxFlight = 1
  Faults = TRUE
  AllowWindow = FALSE
  EmitEdges = FALSE
INVARIANTS TInv
