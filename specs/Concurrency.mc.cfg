SPECIFICATION Spec
INVARIANTS TypeOK ObservedVersionsExist OverlapSound
PROPERTIES EveryRequestAnswered
