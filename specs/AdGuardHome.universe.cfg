SPECIFICATION Spec
CONSTANTS
  W = 4
  LowBits = 1
  SvcDomains <- AllSvcDomains
  Svc2Domains <- AllSvcDomains
  Scale = 2
  MaxAdmin = 1
  MaxQuery = 1
  Fault = "none"
  MaxLen = 1
INVARIANTS TypeOK LogExactlyOnce StatsTotals DeniedLeavesNoTrace EffectOfSettings ViewSound AttributionsAgree
