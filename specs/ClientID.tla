------------------------------ MODULE ClientID ------------------------------
(***************************************************************************)
(* C16 -- where a ClientID may come from.                                  *)
(*                                                                         *)
(* Written from the statement of the property, not from the control flow   *)
(* of clientid.go: a request is abstracted to (protocol, configured server *)
(* name, strict flag, client server name, source of that name, DoH path as *)
(* a sequence of segments); Extract yields the SET of admissible outcomes  *)
(* (the statement is silent in two places, see Deeper / PathWins below).   *)
(*                                                                         *)
(* Names are sequences of labels, paths sequences of segments; the Go      *)
(* harness renders them (conc) with seeded spellings (percent-encoding,    *)
(* trailing slash, port in the Host header).                               *)
(***************************************************************************)
EXTENDS Sequences, Naturals, FiniteSets, TLC, Json

VARIABLES st, in, out
vars == <<st, in, out>>

\* --------------------------------------------------------------- vocabulary
\* Candidate ClientID labels.  L63 / L64 stand for labels of 63 and 64
\* characters, EMPTY for the empty label (".example.com").  KELVIN / IDOT stand
\* for labels holding a non-ASCII letter whose Unicode lower-case form is ASCII
\* (U+212A KELVIN SIGN + "ids", "adm" + U+0130 + "n"): they are not host-name
\* labels, whatever order the code validates and folds in.
IdLabels    == {"cli", "CLi-9", "a_b", "-ab", "ab-", "L63", "L64", "EMPTY", "9x", "KELVIN", "IDOT"}
MCValid     == {"cli", "CLi-9", "L63", "9x", "other", "dns-query", "dns-querycli", "xdns-query"}
\* Lower-casing of the labels of the universe that hold capitals: the id label
\* CLi-9 and the case variants of the configured names' labels.
MCLower     == [x \in {"CLi-9", "EXAMPLE", "Com", "Dns"} |->
                  CASE x = "CLi-9" -> "cli-9" [] x = "EXAMPLE" -> "example" [] x = "Com" -> "com" [] x = "Dns" -> "dns"]
\* The same name in another letter case.
UpperLabel(l) == CASE l = "example" -> "EXAMPLE" [] l = "com" -> "Com" [] l = "dns" -> "Dns" [] OTHER -> l
UpperName(n)  == [i \in 1..Len(n) |-> UpperLabel(n[i])]

INSTANCE ClientIDCore WITH ValidLabels <- MCValid, LowerMap <- MCLower

\* <<>> = no server name configured.
HostNames == {<<>>, <<"example", "com">>, <<"dns", "example", "com">>, <<"Dns", "EXAMPLE", "com">>}


\* Client server names offered for a configured name h.
CliNames(h) ==
    LET base == IF h = <<>> THEN <<"example", "com">> ELSE h IN
    {<<>>, base}
      \cup {<<l>> \o base : l \in IdLabels}
      \* the configured name in another letter case: equal, <id>.<name>, deeper
      \cup {UpperName(base), LowerName(base)}
      \cup {<<l>> \o UpperName(base) : l \in {"cli", "CLi-9", "a_b", "EMPTY"}}
      \cup {<<l>> \o LowerName(base) : l \in {"cli", "CLi-9"}}
      \cup {<<"cli", "cli">> \o UpperName(base)}
      \cup {<<l, m>> \o base : l \in {"cli", "a_b"}, m \in {"cli", "CLi-9"}}
      \cup {<<"other", "com">>, <<"xexample", "com">>, <<"cli", "xexample", "com">>,
            <<"cli", "other", "com">>, <<"com">>, <<"cli", "com">>,
            <<"cli", "example", "com">>, <<"cli", "example", "org">>}

\* "dns-querycli" / "xdns-query": look-alikes of the resolver segment (prefix / suffix).
Segs == {"dns-query", "cli", "CLi-9", "a_b", "L64", "..", ".", "", "other", "dns-querycli", "xdns-query", "KELVIN"}
SmallSegs == {"dns-query", "cli", "..", "", "dns-querycli"}

\* --------------------------------------------------------------- behaviour
NoIn == [proto |-> "none", host |-> <<>>, strict |-> FALSE, cli |-> <<>>, via |-> "none",
         port |-> FALSE, path |-> <<>>]

Paths == {<<>>} \cup {<<a>> : a \in Segs} \cup {<<a, b>> : a, b \in Segs}
           \cup {<<a, b, c>> : a, b, c \in Segs}
           \cup {<<a, b, c, d>> : a, b, c, d \in SmallSegs}

HttpsCli(h) ==
    LET base == IF h = <<>> THEN <<"example", "com">> ELSE h IN
    {<<>>, base, <<"cli">> \o base, <<"a_b">> \o base, <<"CLi-9">> \o base,
     UpperName(base), <<"cli">> \o UpperName(base),
     <<"other", "com">>, <<"cli", "cli">> \o base, <<"cli", "xexample", "com">>}

Emit(i, o) == PrintT(<<"@@V", ToJson([in |-> i, out |-> o])>>)

Finish(i) == /\ in' = i
             /\ out' = Extract(i)
             /\ st' = "done"
             /\ Emit(i, out')

PickPlain == /\ st = "pick"
             /\ \E p \in PlainProtos, h \in HostNames, s \in BOOLEAN :
                  \E c \in {<<>>, <<"cli", "example", "com">>} :
                    Finish([NoIn EXCEPT !.proto = p, !.host = h, !.strict = s, !.cli = c, !.via = "none"])

PickConn == /\ st = "pick"
            /\ \E p \in {"tls", "quic"}, h \in HostNames, s \in BOOLEAN :
                 \E c \in CliNames(h) :
                   Finish([NoIn EXCEPT !.proto = p, !.host = h, !.strict = s, !.cli = c, !.via = "sni"])

PickHTTPS == /\ st = "pick"
             /\ \E h \in HostNames, s \in BOOLEAN, v \in {"sni", "hosthdr"}, pt \in BOOLEAN :
                  \E c \in HttpsCli(h), p \in Paths :
                    /\ (pt => v = "hosthdr" /\ c # <<>>)
                    /\ Finish([proto |-> "https", host |-> h, strict |-> s, cli |-> c, via |-> v,
                               port |-> pt, path |-> p])

\* A server answers a whole history of requests, interleaved with
\* reconfigurations.  Reconfigure stands for Server.Prepare applied with the
\* configuration already in force (any POST /control/dns_config does that): it
\* changes nothing the outcome depends on.  What it does change is outside the
\* statement's vocabulary: the proxy is a new instance, and dnsproxy's request
\* identifiers -- the keys under which the pre-request hook hands the ClientID
\* to the processing stage -- are "unique across requests processed by a
\* single Proxy instance" only, so they start again.  HistoryIndependent is
\* the statement read over histories: the outcome of a request is a function
\* of that request and of the configuration in force, whatever was served
\* before and however often the server was reconfigured in between.  The
\* conformance harness concretises Reconfigure and restarts its identifiers
\* exactly there.
Again       == st = "done" /\ st' = "pick" /\ in' = NoIn /\ out' = {}
Reconfigure == st = "pick" /\ UNCHANGED vars

Init == st = "pick" /\ in = NoIn /\ out = {}
Next == PickPlain \/ PickConn \/ PickHTTPS \/ Again \/ Reconfigure
Spec == Init /\ [][Next]_vars

HistoryIndependent == [][st' = "done" => out' = Extract(in')]_vars

\* --------------------------------------------- properties of the statement
Done == st = "done"
Ids == {o \in out : o.k = "id"}

\* The id is the single label in front of the configured name, or the single
\* segment after dns-query in the cleaned path -- never anything else.
OnlyFromPathOrSNI ==
    Done => \A o \in Ids :
        \/ /\ in.proto = "https" /\ Len(Clean(in.path)) = 2
           /\ Clean(in.path)[1] = "dns-query" /\ o.v = Lower(Clean(in.path)[2])
        \/ /\ in.proto \in {"tls", "quic", "https"} /\ in.host # <<>>
           /\ Immediate(in.cli, in.host) /\ o.v = Lower(Head(in.cli))
Lowercased == Done => \A o \in Ids : o.v = Lower(o.v) /\ o.v # "CLi-9"
ValidLabelOrError ==
    Done => \A o \in Ids : \E l \in MCValid : o.v = Lower(l)
PlainAndDNSCryptNever == Done /\ in.proto \in PlainProtos => out = {None}
StrictRejectsForeign ==
    Done /\ in.proto \in {"tls", "quic"} /\ in.strict /\ Foreign(in.host, in.cli) => out = {Err}
\* An invalid candidate label is an error, never "none" and never an id.
InvalidNeverSilent ==
    Done /\ in.proto \in {"tls", "quic"} /\ in.host # <<>> /\ Immediate(in.cli, in.host)
         /\ Head(in.cli) \notin MCValid => Err \in out /\ Ids = {} /\ (Head(in.cli) # "EMPTY" => out = {Err})
NonEmptyOutcome == Done => out # {}
=============================================================================
