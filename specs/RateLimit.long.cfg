\* The graph walked by the "config" leg of the harness: one client, a block
\* (200 ticks) longer than any walked history (at most 32 steps of at most 4
\* ticks).  It stands for configured block durations of centuries, which the
\* harness feeds through the program's own conversion of block_auth_min.
CONSTANTS
    Addrs = {"a1"}
    Claims = {"none", "trusted"}
    MaxAttemptsSet = {1, 2, 3}
    BlockDurSet = {200}
    Window = 2
    MaxTick = 4
SPECIFICATION Spec
VIEW View
INVARIANTS TypeOK NoBlockBeforeLimit LimitIsSharp
PROPERTIES BlockedNeverEvaluates BlockLastsExactly SuccessClears ClaimIsIgnored
