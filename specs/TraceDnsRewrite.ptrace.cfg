SPECIFICATION Spec
