#!/usr/bin/env python3
"""Regenerate the generated part of DESIGN.md section 12 (findings table, seeded-change table,
per-property implementation notes from notes/Cxx.md)."""
import glob, json, os, re
V = os.path.dirname(os.path.dirname(os.path.abspath(__file__)))
BEGIN, END = "<!-- BEGIN GENERATED RECORD -->", "<!-- END GENERATED RECORD -->"
out = [BEGIN, "", "### 12.1 Genuine defects found on the unchanged tree", "",
       "Generated from `known_findings/*.jsonl` (the files the checks read). `fixed` = repaired by one unguarded `fix:` commit in /repo "
       "(the entry suppresses nothing: the check reports the violation again if it returns); `open` = recorded, printed as `KNOWN-FINDING`.", "",
       "| property | key | status | commit | what |", "|---|---|---|---|---|"]
for f in sorted(glob.glob(os.path.join(V, "known_findings", "*.jsonl"))):
    for l in open(f):
        l = l.strip()
        if not l or l.startswith("#"):
            continue
        r = json.loads(l)
        out.append("| %s | `%s` | %s | %s | %s |" % (r["property"], r["key"][:90], r.get("status"), r.get("commit", ""), r["what"].replace("|", "\\|")[:400]))
out += ["", "### 12.2 Seeded changes (independent sub-agents; property text + scratch worktree only) and which check catches them", "",
        "Each row is a directory `seeded/<id>/` (patch.diff, demo_test.go, README.md, meta.json). `quick` / `thorough` = exit status of "
        "`VERIF_REPO=<worktree with the patch> ./check <property> <tier>` at the time recorded in meta.json (1 = caught with a VIOLATION line, "
        "0 = missed, 2 = inconclusive). `history` keeps earlier results: a miss followed by a catch means the check was strengthened. "
        "`other checks` = quick exit of other properties' checks against the same change (`tools/crosscheck.py`), where the change belongs "
        "to code another property owns (e.g. a schedule slip aimed at C01 is caught by the C18 check). ",
        "`final` = the same quick check against the change re-applied (3-way) to the FINAL tree with all repairs (`tools/reseed_all.py`); "
        "`n/a` = the patch no longer applies because a later `fix:` commit rewrote the code it edits.", "",
        "| id | property | what it needs to manifest | quick | thorough | earlier results | other checks | final |", "|---|---|---|---|---|---|---|---|"]
for d in sorted(glob.glob(os.path.join(V, "seeded", "*"))):
    mp = os.path.join(d, "meta.json")
    if not os.path.exists(mp):
        continue
    m = json.load(open(mp))
    need = re.sub(r"\s+", " ", m.get("what_it_needs_to_manifest", ""))[:330].replace("|", "\\|")
    cr = m.get("check_result") or {}
    q = cr.get("exit") if cr.get("tier", "quick") == "quick" else m.get("quick_exit", "")
    t = m.get("thorough_result", {}).get("exit", "") if isinstance(m.get("thorough_result"), dict) else ""
    hist = ", ".join(str((h or {}).get("exit")) for h in m.get("history", []) if h)
    cross = ", ".join("%s: %s" % (k, v.get("exit")) for k, v in sorted((m.get("cross") or {}).items()))
    fin = m.get("final") or {}
    final = "" if not fin else ("n/a" if not fin.get("applies") else ("build fails" if fin.get("builds") is False else str(fin.get("exit"))))
    if m.get("final_note"):
        final += " (" + m["final_note"].replace("|", "\\|") + ")"
    out.append("| %s | %s | %s | %s | %s | %s | %s | %s |" % (m["id"], m["property"], need, q, t, hist, cross, final))
out += ["", "### 12.3 Per-property and per-growth-item implementation notes", "",
        "Growth items (`Gnn`, DESIGN section 5 / BUILDERS.md growth brief) extend the specification beyond the twenty listed properties; each has its own statement at the top of its notes, its own `./check Gnn quick|thorough`, and is not part of MANIFEST.json's property claims.", "",
        "Included verbatim from `notes/Cxx.md` (written by the builder of each check: constants, measured state counts, what is compared, "
        "mutations tried, deviations from sections 1-11, limits).", ""]
for f in sorted(glob.glob(os.path.join(V, "notes", "[CG]*.md"))):
    pid = os.path.basename(f)[:-3]
    body = open(f).read().strip()
    body = re.sub(r"^(#+) ", lambda m: "#" * min(6, len(m.group(1)) + 3) + " ", body, flags=re.M)
    out += ["#### 12.3.%s" % pid, "", body, ""]
mp = os.path.join(V, "notes", "MEASURED.json")
if os.path.exists(mp):
    md = json.load(open(mp))
    out += ["### 12.4 Measured cost and volume (one run per check and tier, seed 1, final tree)", "",
            "Generated from `notes/MEASURED.json` (`tools/measure.py`): wall time on the 16-core sandbox with the 1-minute load average at the end of the run "
            "(other jobs were running; an idle machine is faster), exit status, number of KNOWN-FINDING lines, TLC distinct states / generated states summed over "
            "the runs of the check, evaluations of the real code, traces validated, and whether the enumerated universe was replayed completely.", "",
            "| check | tier | exit | wall s | load | known | TLC runs | distinct states | generated | evaluations of the code | traces | exhaustive |",
            "|---|---|---|---|---|---|---|---|---|---|---|---|"]
    for pid in sorted(md):
        for tier in ("quick", "thorough"):
            r = md[pid].get(tier)
            if r:
                out.append("| %s | %s | %s | %s | %s | %s | %s | %s | %s | %s | %s | %s |" % (
                    pid, tier, r.get("exit"), r.get("wall_s"), r.get("load1"), r.get("known_findings"), r.get("tlc_runs"),
                    r.get("states"), r.get("transitions"), r.get("evaluations"), r.get("traces"), r.get("exhaustive")))
    out.append("")
out += [END]
p = os.path.join(V, "DESIGN.md")
s = open(p).read()
if BEGIN in s:
    s = s[:s.index(BEGIN)] + "\n".join(out) + s[s.index(END) + len(END):]
else:
    marker = "---------------------------------------------------------------------------\n\n## Appendix"
    i = s.index("## Appendix — idioms verified in this sandbox")
    j = s.rfind("---------------------------------------------------------------------------", 0, i)
    s = s[:j] + "\n".join(out) + "\n\n" + s[j:]
open(p, "w").write(s)
print("DESIGN.md regenerated:", len(out), "lines generated")
