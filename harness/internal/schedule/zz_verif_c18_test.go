package schedule

// C18 conformance harness.
//
//   - TestZZVerifC18Scan   extracts the UTC-offset tables of the host's IANA
//     time zones as integers (the tz database is trusted); the orchestrator
//     feeds a seeded / complete selection of them to TLC (ScheduleHost.tla).
//   - TestZZVerifC18Replay is direction A: every row of the verdict tables
//     that TLC computed with the spec's own Off / Wall / Contains is replayed
//     into the real Weekly (built through UnmarshalJSON / UnmarshalYAML) and
//     the serialisation vectors into the real (un)marshallers.
//   - TestZZVerifC18Trace  is direction B: random (zone, instant, schedule)
//     triples and random serialised schedules, logged as integers for
//     TraceSchedule.tla.

import (
	"encoding/json"
	"fmt"
	"io/fs"
	"math/rand"
	"os"
	"path/filepath"
	"regexp"
	"sort"
	"strings"
	"testing"
	"time"

	"gopkg.in/yaml.v3"
)

// Window of instants used everywhere: synctest's virtual clock (used by the
// filtering half of the check) starts at 2000-01-01, and TLC's integers end
// in January 2038.
var (
	zzC18WinLo = time.Date(2000, 1, 5, 0, 0, 0, 0, time.UTC)
	zzC18WinHi = time.Date(2037, 12, 20, 0, 0, 0, 0, time.UTC)
)

var zzC18NameRe = regexp.MustCompile(`^[A-Z][A-Za-z0-9_+\-]*(/[A-Za-z0-9_+\-]+)*$`)

// zzC18ZoneNames lists the IANA zone names present on the host.
func zzC18ZoneNames() (names []string) {
	seen := map[string]bool{}
	for _, root := range []string{
		os.Getenv("ZONEINFO"),
		"/usr/share/zoneinfo",
		"/usr/share/lib/zoneinfo",
		"/usr/lib/locale/TZ",
		"/etc/zoneinfo",
	} {
		if root == "" {
			continue
		}

		st, err := os.Stat(root)
		if err != nil || !st.IsDir() {
			continue
		}

		_ = filepath.WalkDir(root, func(p string, d fs.DirEntry, err error) error {
			if err != nil {
				return nil
			}

			rel, _ := filepath.Rel(root, p)
			if d.IsDir() {
				if rel == "posix" || rel == "right" {
					return filepath.SkipDir
				}

				return nil
			}

			rel = filepath.ToSlash(rel)
			if !zzC18NameRe.MatchString(rel) || seen[rel] {
				return nil
			}

			hdr := make([]byte, 4)
			fh, oerr := os.Open(p)
			if oerr != nil {
				return nil
			}
			_, rerr := fh.Read(hdr)
			_ = fh.Close()
			if rerr != nil || string(hdr) != "TZif" {
				return nil
			}

			if _, lerr := time.LoadLocation(rel); lerr == nil {
				seen[rel] = true
				names = append(names, rel)
			}

			return nil
		})
	}

	if len(names) == 0 {
		// No tz directory: whatever the Go runtime can load by itself.
		for _, n := range []string{
			"UTC", "Europe/Berlin", "Europe/London", "America/New_York", "America/St_Johns",
			"America/Santiago", "America/Havana", "Asia/Kolkata", "Asia/Kathmandu", "Asia/Tehran",
			"Australia/Sydney", "Australia/Lord_Howe", "Australia/Adelaide", "Pacific/Chatham",
			"Pacific/Auckland", "Pacific/Apia", "Africa/Casablanca", "Asia/Tokyo",
		} {
			if _, err := time.LoadLocation(n); err == nil {
				names = append(names, n)
			}
		}
	}

	sort.Strings(names)

	return names
}

// zzC18Table returns the offset at zzC18WinLo and every later transition up
// to zzC18WinHi as [unix second, new offset].
func zzC18Table(loc *time.Location) (base int, trans [][2]int64) {
	t := zzC18WinLo.In(loc)
	_, base = t.Zone()
	prev := base
	for i := 0; i < 4000; i++ {
		_, end := t.ZoneBounds()
		if end.IsZero() || end.After(zzC18WinHi) {
			break
		}

		_, off := end.Zone()
		if off != prev {
			trans = append(trans, [2]int64{end.Unix(), int64(off)})
			prev = off
		}

		t = end
	}

	return base, trans
}

// TestZZVerifC18Scan writes one record per host zone.
func TestZZVerifC18Scan(t *testing.T) {
	w := zzNewWriter(t, "VERIF_OUT")
	defer w.close()

	for _, n := range zzC18ZoneNames() {
		loc, err := time.LoadLocation(n)
		if err != nil {
			continue
		}

		base, trans := zzC18Table(loc)
		if trans == nil {
			trans = [][2]int64{}
		}

		w.put(map[string]any{"name": n, "base": base, "trans": trans})
	}
}

// ------------------------------------------------------------ concretisation

var zzC18DayKeys = [7]string{"sun", "mon", "tue", "wed", "thu", "fri", "sat"}

// zzC18Week is a schedule in the spec's vocabulary: seven [start, end) pairs,
// Sunday first, in nanoseconds.
type zzC18Week [7][2]int64

// zzC18JSONExact reports whether a duration of ns nanoseconds can be written
// as a JSON number of milliseconds that a binary floating-point decoder reads
// back exactly: the fraction of a millisecond must be a multiple of 1/64 ms.
// Other fractions are exercised through the YAML form only.
func zzC18JSONExact(ns int64) (ok bool) { return ns%15625 == 0 }

// zzC18MsText writes ns nanoseconds as a decimal number of milliseconds,
// exactly, in one of several spellings.
func zzC18MsText(rng *rand.Rand, ns int64) (s string) {
	if ns%1e6 != 0 {
		sign, a := "", ns
		if a < 0 {
			sign, a = "-", -a
		}

		return strings.TrimRight(fmt.Sprintf("%s%d.%06d", sign, a/1e6, a%1e6), "0")
	}

	switch rng.Intn(3) {
	case 0:
		return fmt.Sprintf("%d.0", ns/1e6)
	case 1:
		if ns != 0 {
			return fmt.Sprintf("%de0", ns/1e6)
		}
	}

	return fmt.Sprintf("%d", ns/1e6)
}

func zzC18DurText(rng *rand.Rand, ns int64) (s string) {
	d := time.Duration(ns)
	switch rng.Intn(4) {
	case 0:
		if ns%int64(time.Minute) == 0 {
			return fmt.Sprintf("%dm", ns/int64(time.Minute))
		}
	case 1:
		if ns%int64(time.Second) == 0 {
			return fmt.Sprintf("%ds", ns/int64(time.Second))
		}
	case 2:
		if ns%int64(time.Millisecond) == 0 {
			return fmt.Sprintf("%dms", ns/int64(time.Millisecond))
		}

		return fmt.Sprintf("%dns", ns)
	}

	return d.String()
}

// zzC18JSONDoc renders the API / JSON form of a schedule.
func zzC18JSONDoc(rng *rand.Rand, zone string, wk zzC18Week) (doc string) {
	parts := []string{}
	for i, r := range wk {
		if r == [2]int64{} && rng.Intn(3) != 0 {
			// An unset day is normally absent; sometimes null.
			if rng.Intn(3) == 0 {
				parts = append(parts, fmt.Sprintf("%q:null", zzC18DayKeys[i]))
			}

			continue
		}

		parts = append(parts, fmt.Sprintf("%q:{\"start\":%s,\"end\":%s}", zzC18DayKeys[i],
			zzC18MsText(rng, r[0]), zzC18MsText(rng, r[1])))
	}

	parts = append(parts, fmt.Sprintf("\"time_zone\":%q", zone))
	rng.Shuffle(len(parts), func(i, j int) { parts[i], parts[j] = parts[j], parts[i] })

	return "{" + strings.Join(parts, ",") + "}"
}

// zzC18YAMLDoc renders the configuration-file form of a schedule.
func zzC18YAMLDoc(rng *rand.Rand, zone string, wk zzC18Week) (doc string) {
	b := &strings.Builder{}
	fmt.Fprintf(b, "time_zone: %s\n", zone)
	for i, r := range wk {
		if r == [2]int64{} && rng.Intn(2) == 0 {
			continue
		}

		fmt.Fprintf(b, "%s:\n  start: %s\n  end: %s\n", zzC18DayKeys[i], zzC18DurText(rng, r[0]), zzC18DurText(rng, r[1]))
	}

	return b.String()
}

// zzC18Project reads the state the property talks about: zone name and seven
// ranges.
func zzC18Project(w *Weekly) (zone string, wk zzC18Week) {
	for i, d := range w.days {
		wk[i] = [2]int64{int64(d.start), int64(d.end)}
	}

	return w.location.String(), wk
}

// zzC18Receiver returns the Weekly a document is decoded into: a zero one or
// (populated) one that already holds another schedule -- a different zone,
// all seven days set -- as a configuration struct filled with defaults or
// re-read on reload does.  encoding/json and yaml.v3 both decode into the
// existing value.  What was there before must not show through.
func zzC18Receiver(populated bool, zone string) (w *Weekly) {
	if !populated {
		return &Weekly{}
	}

	other := "Asia/Kolkata"
	if zone == other {
		other = "UTC"
	}

	loc, err := time.LoadLocation(other)
	if err != nil {
		loc = time.UTC
	}

	w = &Weekly{location: loc}
	for i := range w.days {
		w.days[i] = dayRange{start: time.Duration(i+1) * time.Hour, end: time.Duration(i+2)*time.Hour + 7*time.Minute}
	}

	return w
}

// zzC18Build builds a real Weekly from the abstract schedule through one of
// the public decoders, into a fresh or an already populated receiver.
func zzC18Build(rng *rand.Rand, zone string, wk zzC18Week) (w *Weekly, via string, err error) {
	w, via, _, err = zzC18BuildMode(rng, -1, zone, wk)

	return w, via, err
}

// zzC18BuildMode is zzC18Build with the way of building either drawn (mode <
// 0) or given (the recorded one, when a call is re-run): mode = 2*decoder +
// populated.
func zzC18BuildMode(rng *rand.Rand, mode int, zone string, wk zzC18Week) (w *Weekly, via string, used int, err error) {
	if mode < 0 || mode > 5 {
		mode = rng.Intn(6)
	}

	used = mode
	pop := mode%2 == 1
	w = zzC18Receiver(pop, zone)
	switch mode / 2 {
	case 0:
		via = "json"
		err = json.Unmarshal([]byte(zzC18JSONDoc(rng, zone, wk)), w)
	case 1:
		via = "yaml"
		err = yaml.Unmarshal([]byte(zzC18YAMLDoc(rng, zone, wk)), w)
	default:
		via = "json>yaml"
		w0 := zzC18Receiver(!pop, zone)
		err = json.Unmarshal([]byte(zzC18JSONDoc(rng, zone, wk)), w0)
		if err != nil {
			break
		}

		var b []byte
		b, err = yaml.Marshal(w0)
		if err != nil {
			break
		}

		err = yaml.Unmarshal(b, w)
	}

	if pop {
		via += " into populated receiver"
	}

	return w, via, used, err
}

// The representations in which an instant is handed to Contains.  The
// statement quantifies over instants: the verdict must not depend on the
// Location the caller's time.Time happens to carry.
var zzC18PresNames = []string{"utc", "schedule-zone", "+05:45", "local", "far"}

var zzC18OtherZone = time.FixedZone("verif", 5*3600+45*60)

// zzC18Present returns the instant (s, n) in representation pres.  "far" is a
// fixed zone twelve hours away from the schedule zone's offset off at that
// instant, so that it shows another calendar day for half of all instants.
func zzC18Present(pres int, s, n int64, loc *time.Location, off int64) (t time.Time) {
	t = time.Unix(s, n)
	switch pres {
	case 0:
		return t.UTC()
	case 1:
		return t.In(loc)
	case 2:
		return t.In(zzC18OtherZone)
	case 3:
		return t
	default:
		far := off + 12*3600
		if far > 14*3600 {
			far = off - 12*3600
		}

		return t.In(time.FixedZone("far", int(far)))
	}
}

// zzC18WallOf is the trusted wall clock: offset, weekday and second of the
// day that the tz database gives for the instant.
func zzC18WallOf(s, n int64, loc *time.Location) (off, wd, tod int64) {
	lt := time.Unix(s, n).In(loc)
	_, o := lt.Zone()
	h, m, sec := lt.Clock()

	return int64(o), int64(lt.Weekday()), int64(h*3600 + m*60 + sec)
}

type zzC18Vec struct {
	K string `json:"k"`

	// Evaluation tables.
	C     string     `json:"c"`
	Zone  string     `json:"zone"`
	Shape string     `json:"shape"`
	W     [][2]int64 `json:"w"`
	Pts   [][7]int64 `json:"pts"`

	// Pres, when set, is the one representation of the instant to use (the
	// isolated re-run of a recorded call); otherwise all are used.
	Pres *int `json:"pres"`

	// Hist is the recorded sequence of earlier calls [s, n, pres] on the same
	// Weekly object; it is executed first when re-running a recorded call.
	Hist [][3]int64 `json:"hist"`

	// Mode, when set, is the recorded way the Weekly was built.
	Mode *int `json:"mode"`

	// Serialisation vectors.
	D        int      `json:"d"`
	S        int64    `json:"s"`
	E        int64    `json:"e"`
	SN       int64    `json:"sn"`
	EN       int64    `json:"en"`
	Fill     string   `json:"fill"`
	Verdicts []string `json:"verdicts"`

	// Re-run of a recorded serialised week (milliseconds).
	WMs [][2]int64 `json:"wms"`
	WNs [][2]int64 `json:"wns"`
}

func zzC18WeekOfSeconds(w [][2]int64) (wk zzC18Week, ok bool) {
	if len(w) != 7 {
		return wk, false
	}

	for i, r := range w {
		wk[i] = [2]int64{r[0] * int64(time.Second), r[1] * int64(time.Second)}
	}

	return wk, true
}

// TestZZVerifC18Replay is direction A.
func TestZZVerifC18Replay(t *testing.T) {
	w := zzNewWriter(t, "VERIF_OUT")
	defer w.close()

	rng := rand.New(rand.NewSource(zzSeed()))
	var lines, evals, bad, conc, sers, serBad, trueN, unbuilt int
	zones := zzC18ZoneNames()

	zzReadNDJSON(t, "VERIF_IN", func(line []byte) {
		v := &zzC18Vec{}
		if err := json.Unmarshal(line, v); err != nil {
			t.Fatalf("bad vector: %v", err)
		}

		switch v.K {
		case "eval":
			lines++
			e, b, c, tn := zzC18ReplayEval(w, rng, v)
			if e == 0 && c == 0 {
				// The table could not be replayed at all (reported by
				// zzC18ReplayEval as a skip or a disagreement).
				unbuilt += len(v.Pts)
			}

			evals += e
			bad += b
			conc += c
			trueN += tn
		case "ser":
			sers++
			serBad += zzC18ReplaySer(w, rng, v, zones)
		case "week":
			// Isolated re-run of a trace line: report what the decoders do.
			var wk zzC18Week
			if len(v.WMs) != 7 {
				return
			}

			for i, r := range v.WMs {
				wk[i] = [2]int64{r[0] * int64(time.Millisecond), r[1] * int64(time.Millisecond)}
				if len(v.WNs) == 7 {
					wk[i][0] += v.WNs[i][0]
					wk[i][1] += v.WNs[i][1]
				}
			}

			what, detail, acc := zzC18CheckDocs(rng, v.Zone, wk, []string{"accept", "reject"})
			w.put(map[string]any{
				"kind": "week", "c": v.C, "ser": []int{acc[0], acc[1], zzC18Bit(what == "")},
				"what": what, "detail": detail,
			})
		}
	})

	w.put(map[string]any{
		"kind": "summary", "lines": lines, "evals": evals, "bad": bad, "conc": conc,
		"sers": sers, "ser_bad": serBad, "true": trueN, "unbuilt_rows": unbuilt,
	})
}

func zzC18ReplayEval(w *zzWriter, rng *rand.Rand, v *zzC18Vec) (evals, bad, conc, trueN int) {
	loc, err := time.LoadLocation(v.Zone)
	if err != nil {
		w.put(map[string]any{"kind": "skip", "c": v.C, "err": err.Error()})

		return 0, 0, 0, 0
	}

	wk, ok := zzC18WeekOfSeconds(v.W)
	if !ok {
		w.put(map[string]any{"kind": "skip", "c": v.C, "err": "bad week"})

		return 0, 0, 0, 0
	}

	mode := -1
	if v.Mode != nil {
		mode = *v.Mode
	}

	sched, via, mode, err := zzC18BuildMode(rng, mode, v.Zone, wk)
	if err == nil {
		gz, gwk := zzC18Project(sched)
		if gz != v.Zone || gwk != wk {
			err = fmt.Errorf("decoded schedule differs: zone %q ranges %v", gz, gwk)
		}
	}

	if err != nil {
		// A schedule the statement accepts was refused or changed by the
		// decoders.
		w.put(map[string]any{
			"kind": "bad", "what": "build", "c": v.C, "zone": v.Zone, "shape": v.Shape, "w": v.W,
			"via": via, "mode": mode, "err": err.Error(),
		})

		return 0, 1, 0, 0
	}

	// The tz database must agree with the table TLC worked on.
	usable := make([]int, 0, len(v.Pts))
	for i, p := range v.Pts {
		off, wd, tod := zzC18WallOf(p[0], p[1], loc)
		if off != p[2] || wd != p[3] || tod != p[4] {
			// A fault of the machinery, not a verdict.
			conc++
			w.put(map[string]any{
				"kind": "conc", "c": v.C, "zone": v.Zone, "pt": p, "go": []int64{off, wd, tod},
			})

			continue
		}

		usable = append(usable, i)
		evals++
		if p[5] == 1 {
			trueN++
		}
	}

	// Contains has to be a function of (schedule, instant) alone: the rows are
	// put to long-lived Weekly objects, in ascending order of the instants on
	// the first and in descending or shuffled order (seeded) on a second one.
	sort.Slice(usable, func(a, b int) bool {
		pa, pb := v.Pts[usable[a]], v.Pts[usable[b]]

		return pa[0] < pb[0] || (pa[0] == pb[0] && pa[1] < pb[1])
	})

	reported := map[int]bool{}
	passes := 2
	if v.Pres != nil {
		passes = 1
	}

	for pass := 0; pass < passes; pass++ {
		obj, order := sched, "ascending"
		seq := append([]int{}, usable...)
		if pass == 1 {
			var berr error
			obj, _, berr = zzC18Build(rng, v.Zone, wk)
			if berr != nil {
				break
			}

			if rng.Intn(2) == 0 {
				order = "descending"
				for a, b := 0, len(seq)-1; a < b; a, b = a+1, b-1 {
					seq[a], seq[b] = seq[b], seq[a]
				}
			} else {
				order = "shuffled"
				rng.Shuffle(len(seq), func(a, b int) { seq[a], seq[b] = seq[b], seq[a] })
			}
		}

		hist := make([][3]int64, 0, len(seq)*len(zzC18PresNames)+len(v.Hist))
		for _, h := range v.Hist {
			// Re-running a recorded call: first what the object was asked
			// before.
			hl, _ := time.LoadLocation(v.Zone)
			ho, _, _ := zzC18WallOf(h[0], h[1], hl)
			_ = obj.Contains(zzC18Present(int(h[2]), h[0], h[1], loc, ho))
			hist = append(hist, h)
		}

		for _, idx := range seq {
			p := v.Pts[idx]
			s, n, off, wd, want := p[0], p[1], p[2], p[3], p[5] == 1
			first, last := 0, len(zzC18PresNames)-1
			if v.Pres != nil {
				first, last = *v.Pres, *v.Pres
			}

			for pres := first; pres <= last; pres++ {
				got := obj.Contains(zzC18Present(pres, s, n, loc, off))
				call := [3]int64{s, n, int64(pres)}
				if got == want || reported[idx] {
					hist = append(hist, call)

					continue
				}

				// Reproduce in isolation on a fresh object: the call alone,
				// then after the last few earlier calls, then after all of
				// them -- exactly the same instants in the same
				// representations.
				var rh [][3]int64
				reproduced := false
				for _, k := range []int{0, 3, len(hist)} {
					if k > len(hist) {
						k = len(hist)
					}

					rh = hist[len(hist)-k:]
					if zzC18Isolated(v.Zone, wk, rh, call) != want {
						reproduced = true

						break
					}
				}

				hist = append(hist, call)
				if !reproduced {
					w.put(map[string]any{
						"kind": "flaky", "c": v.C, "zone": v.Zone, "pt": p, "via": via, "pres": pres, "order": order,
					})

					continue
				}

				reported[idx] = true
				bad++
				w.put(map[string]any{
					"kind": "bad", "what": "contains", "c": v.C, "zone": v.Zone, "shape": v.Shape,
					"w": v.W, "pt": p, "range": v.W[wd], "want": want, "got": !want, "via": via,
					"pres": pres, "order": order, "hist": append([][3]int64{}, rh...),
					"given_as": zzC18Present(pres, s, n, loc, off).Format("Mon 2006-01-02 15:04:05.999999999 -07:00"),
					"utc":      time.Unix(s, n).UTC().Format(time.RFC3339Nano),
					"local":    time.Unix(s, n).In(loc).Format("Mon 2006-01-02 15:04:05.999999999 -07:00"),
				})
			}
		}
	}

	return evals, bad, conc, trueN
}

// zzC18Isolated asks a fresh Weekly (fresh location, constructed the way the
// package's own tests do) the calls of hist and then call, and returns the
// last answer.
func zzC18Isolated(zone string, wk zzC18Week, hist [][3]int64, call [3]int64) (got bool) {
	loc, err := time.LoadLocation(zone)
	if err != nil {
		return false
	}

	fresh := &Weekly{location: loc}
	for i, r := range wk {
		fresh.days[i] = dayRange{start: time.Duration(r[0]), end: time.Duration(r[1])}
	}

	for _, h := range append(append([][3]int64{}, hist...), call) {
		off, _, _ := zzC18WallOf(h[0], h[1], loc)
		got = fresh.Contains(zzC18Present(int(h[2]), h[0], h[1], loc, off))
	}

	return got
}

// ---------------------------------------------------------- serialised forms

func zzC18SerWeek(v *zzC18Vec) (wk zzC18Week) {
	const ms = int64(time.Millisecond)
	var fill [2]int64
	switch v.Fill {
	case "full":
		fill = [2]int64{0, 86400000 * ms}
	case "work":
		fill = [2]int64{9 * 3600000 * ms, (17*3600000 + 30*60000) * ms}
	}

	for i := range wk {
		wk[i] = fill
	}

	wk[v.D] = [2]int64{v.S*ms + v.SN, v.E*ms + v.EN}

	return wk
}

func zzC18Has(set []string, x string) (ok bool) {
	for _, s := range set {
		if s == x {
			return true
		}
	}

	return false
}

// zzC18CheckDocs decodes both serialised forms of wk and checks the verdict
// and, for accepted schedules, that nothing changes on any round trip.  It
// returns a description of the first disagreement.
func zzC18CheckDocs(rng *rand.Rand, zone string, wk zzC18Week, verdicts []string) (what, detail string, acc [2]int) {
	jdoc, ydoc := zzC18JSONDoc(rng, zone, wk), zzC18YAMLDoc(rng, zone, wk)

	// acc: 1 accepted, 0 refused, 2 form not exercised.
	useJSON := true
	for _, r := range wk {
		useJSON = useJSON && zzC18JSONExact(r[0]) && zzC18JSONExact(r[1])
	}

	// Each form is decoded into a fresh and into an already populated
	// receiver: the result has to be the serialised schedule either way.
	wj, wy := zzC18Receiver(false, zone), zzC18Receiver(false, zone)
	wjp, wyp := zzC18Receiver(true, zone), zzC18Receiver(true, zone)
	var errJ, errJP error
	if useJSON {
		errJ = json.Unmarshal([]byte(jdoc), wj)
		errJP = json.Unmarshal([]byte(jdoc), wjp)
	}

	errY := yaml.Unmarshal([]byte(ydoc), wy)
	errYP := yaml.Unmarshal([]byte(ydoc), wyp)
	acc = [2]int{zzC18Bit(errJ == nil), zzC18Bit(errY == nil)}
	if !useJSON {
		acc[0] = 2
	}

	for i, e := range []error{errJ, errY} {
		form := []string{"json", "yaml"}[i]
		doc := []string{jdoc, ydoc}[i]
		if i == 0 && !useJSON {
			continue
		}

		if e == nil && !zzC18Has(verdicts, "accept") {
			return "accepted-" + form, doc, acc
		}

		if e != nil && !zzC18Has(verdicts, "reject") {
			return "rejected-" + form, doc + " :: " + e.Error(), acc
		}

		if ep := []error{errJP, errYP}[i]; (ep == nil) != (e == nil) {
			return "verdict-depends-on-receiver-" + form, fmt.Sprint(doc, " :: fresh: ", e, ", populated: ", ep), acc
		}

		if e != nil {
			// All or nothing: a rejected document leaves the receiver exactly
			// as it was, it does not take effect in part.
			before := zzC18Receiver(true, zone)
			bz, bwk := zzC18Project(before)
			az, awk := zzC18Project([]*Weekly{wjp, wyp}[i])
			if az != bz || awk != bwk {
				return "rejected-but-changed-receiver-" + form, fmt.Sprint(doc, " :: ", e, " :: receiver now ", az, awk), acc
			}
		}
	}

	same := func(w *Weekly) bool {
		z, g := zzC18Project(w)

		return z == zone && g == wk
	}

	type hop struct {
		name string
		from *Weekly
		json bool
	}

	if useJSON && errJ == nil {
		if !same(wj) {
			return "changed-on-read-json", fmt.Sprint(jdoc, " -> ", fmt.Sprint(zzC18Project(wj))), acc
		}

		if !same(wjp) {
			return "changed-on-read-json-into-populated", fmt.Sprint(jdoc, " -> ", fmt.Sprint(zzC18Project(wjp))), acc
		}
	}

	if errY == nil {
		if !same(wy) {
			return "changed-on-read-yaml", fmt.Sprint(ydoc, " -> ", fmt.Sprint(zzC18Project(wy))), acc
		}

		if !same(wyp) {
			return "changed-on-read-yaml-into-populated", fmt.Sprint(ydoc, " -> ", fmt.Sprint(zzC18Project(wyp))), acc
		}
	}

	hops := []hop{}
	if useJSON && errJ == nil {
		hops = append(hops, hop{"json>json", wj, true}, hop{"json>yaml", wj, false})
	}

	if errY == nil {
		hops = append(hops, hop{"yaml>yaml", wy, false}, hop{"yaml>json", wy, true})
	}

	for _, h := range hops {
		for _, pop := range []bool{false, true} {
			var b []byte
			var err error
			back := zzC18Receiver(pop, zone)
			name := h.name
			if pop {
				name += "-into-populated"
			}

			if h.json {
				b, err = json.Marshal(h.from)
				if err == nil {
					err = json.Unmarshal(b, back)
				}
			} else {
				b, err = yaml.Marshal(h.from)
				if err == nil {
					err = yaml.Unmarshal(b, back)
				}
			}

			if err != nil {
				return "roundtrip-error-" + name, string(b) + " :: " + err.Error(), acc
			}

			if !same(back) {
				return "roundtrip-changed-" + name, fmt.Sprint(string(b), " -> ", fmt.Sprint(zzC18Project(back))), acc
			}
		}
	}

	return "", "", acc
}

func zzC18ReplaySer(w *zzWriter, rng *rand.Rand, v *zzC18Vec, zones []string) (bad int) {
	zone := "UTC"
	if len(zones) > 0 {
		zone = zones[rng.Intn(len(zones))]
	}

	wk := zzC18SerWeek(v)
	what, detail, acc := zzC18CheckDocs(rng, zone, wk, v.Verdicts)
	if what == "" {
		w.put(map[string]any{"kind": "ser", "d": v.D, "s": v.S, "sn": v.SN, "e": v.E, "en": v.EN, "fill": v.Fill, "acc": acc})

		return 0
	}

	// Once more, with another spelling of the same documents.
	what2, detail2, _ := zzC18CheckDocs(rand.New(rand.NewSource(1)), zone, wk, v.Verdicts)
	if what2 == "" {
		w.put(map[string]any{"kind": "flaky", "ser": v, "what": what, "detail": detail})

		return 0
	}

	w.put(map[string]any{
		"kind": "bad", "what": "ser:" + what2, "d": v.D, "s": v.S, "sn": v.SN, "e": v.E, "en": v.EN, "fill": v.Fill,
		"verdicts": v.Verdicts, "zone": zone, "detail": detail2,
	})

	return 1
}

// ---------------------------------------------------------------- direction B

func zzC18RandRange(rng *rand.Rand) (r [2]int64) {
	const m = int64(time.Minute)
	switch rng.Intn(10) {
	case 0, 1, 2:
		return r
	case 3:
		return [2]int64{0, 1440 * m}
	case 4:
		return [2]int64{0, int64(1+rng.Intn(1439)) * m}
	case 5:
		return [2]int64{int64(rng.Intn(1440)) * m, 1440 * m}
	default:
		a, b := rng.Intn(1441), rng.Intn(1441)
		if a == b {
			return r
		}

		if a > b {
			a, b = b, a
		}

		return [2]int64{int64(a) * m, int64(b) * m}
	}
}

// zzC18RandInstant draws an instant, biased towards the places where a wrong
// containment test would show: transitions, local midnights, range edges.
func zzC18RandInstant(rng *rand.Rand, loc *time.Location, wk zzC18Week) (t time.Time) {
	span := zzC18WinHi.Unix() - zzC18WinLo.Unix()
	t = time.Unix(zzC18WinLo.Unix()+rng.Int63n(span), rng.Int63n(1e9))
	jitter := func() time.Duration {
		switch rng.Intn(6) {
		case 0:
			return -1
		case 1:
			return 0
		case 2:
			return 1
		case 3:
			return time.Duration(rng.Int63n(int64(26*time.Hour))) - 2*time.Hour
		case 4:
			return -time.Duration(rng.Int63n(int64(3 * time.Hour)))
		default:
			return time.Duration(rng.Int63n(int64(2*time.Minute))) - time.Minute
		}
	}

	switch rng.Intn(5) {
	case 0:
		return t
	case 1, 2:
		// Next transition of the zone, if any.
		_, end := t.In(loc).ZoneBounds()
		if end.IsZero() || end.After(zzC18WinHi) {
			return t
		}

		return end.Add(jitter())
	case 3:
		// An edge of that day's range, as the wall clock shows it.
		lt := t.In(loc)
		r := wk[lt.Weekday()]
		edge := r[rng.Intn(2)]
		y, mo, d := lt.Date()
		c := time.Date(y, mo, d, 0, 0, 0, 0, loc).Add(time.Duration(edge))

		return c.Add(jitter())
	default:
		lt := t.In(loc)
		y, mo, d := lt.Date()

		return time.Date(y, mo, d+rng.Intn(2), 0, 0, 0, 0, loc).Add(jitter())
	}
}

// TestZZVerifC18Trace is direction B.
func TestZZVerifC18Trace(t *testing.T) {
	w := zzNewWriter(t, "VERIF_OUT")
	defer w.close()

	rng := rand.New(rand.NewSource(zzSeed()))
	n := 5000
	if strings.EqualFold(strings.TrimSpace(zzGetenv("VERIF_TIER")), "thorough") {
		n = 50000
	}

	zones := zzC18ZoneNames()
	if len(zones) == 0 {
		t.Fatal("no time zones on the host")
	}

	for i := 0; i < n; i++ {
		zone := zones[rng.Intn(len(zones))]
		loc, err := time.LoadLocation(zone)
		if err != nil {
			continue
		}

		if i%5 == 4 {
			zzC18TraceSer(w, rng, zone)

			continue
		}

		var wk zzC18Week
		for d := range wk {
			wk[d] = zzC18RandRange(rng)
		}

		ws := [7][2]int64{}
		for d, r := range wk {
			ws[d] = [2]int64{r[0] / int64(time.Second), r[1] / int64(time.Second)}
		}

		sched, via, mode, err := zzC18BuildMode(rng, -1, zone, wk)
		if err == nil {
			if gz, gwk := zzC18Project(sched); gz != zone || gwk != wk {
				err = fmt.Errorf("decoded schedule differs: zone %q ranges %v", gz, gwk)
			}
		}

		if err != nil {
			w.put(map[string]any{
				"k": "build", "zone": zone, "s": 0, "n": 0, "off": 0, "wd": 0, "tod": 0, "w": ws,
				"got": 0, "via": via, "ser": []int{}, "detail": err.Error(), "wn": zzC18NoSub, "pres": 0, "obj": i, "call": 0, "mode": mode,
			})

			continue
		}

		// One to four calls on the same long-lived object; the later ones at
		// instants related to the one before (the transitions bounding its
		// zone period to the nanosecond, +-1 ns, a nearby instant), in any
		// time order.
		it := zzC18RandInstant(rng, loc, wk)
		calls := 1 + rng.Intn(4)
		for c := 0; c < calls; c++ {
			if c > 0 {
				start, end := it.In(loc).ZoneBounds()
				switch rng.Intn(8) {
				case 0, 1:
					if !end.IsZero() {
						it = end
					}
				case 2:
					if !end.IsZero() {
						it = end.Add(time.Duration(rng.Intn(3) - 1))
					}
				case 3:
					if !start.IsZero() {
						it = start.Add(time.Duration(rng.Intn(3) - 1))
					}
				case 4:
					it = it.Add(time.Duration(rng.Int63n(int64(50*time.Hour))) - 25*time.Hour)
				case 5:
					it = it.Add(time.Duration(rng.Intn(3) - 1))
				default:
					it = zzC18RandInstant(rng, loc, wk)
				}
			}

			if it.Before(zzC18WinLo) || it.After(zzC18WinHi) {
				break
			}

			s, ns := it.Unix(), int64(it.Nanosecond())
			off, wd, tod := zzC18WallOf(s, ns, loc)
			pres := rng.Intn(len(zzC18PresNames))
			got := sched.Contains(zzC18Present(pres, s, ns, loc, off))
			w.put(map[string]any{
				"k": "eval", "zone": zone, "s": s, "n": ns, "off": off, "wd": wd, "tod": tod, "w": ws,
				"got": zzC18Bit(got), "via": via, "ser": []int{}, "detail": "", "offs": zzC18DayOffsets(it, loc),
				"wn": zzC18NoSub, "pres": pres, "obj": i, "call": c, "mode": mode,
			})
		}
	}
}

// zzC18DayOffsets returns the UTC offsets on both sides of every transition
// that touches the local day of t (empty on ordinary days).  Used only to
// classify a rejected line, never for the verdict.
func zzC18DayOffsets(t time.Time, loc *time.Location) (offs []int64) {
	offs = []int64{}
	lt := t.In(loc)
	y, m, d := lt.Date()
	sameDay := func(x time.Time) bool {
		xy, xm, xd := x.In(loc).Date()

		return xy == y && xm == m && xd == d
	}

	start, end := lt.ZoneBounds()
	for _, tr := range []time.Time{start, end} {
		if tr.IsZero() {
			continue
		}

		before, after := tr.Add(-1).In(loc), tr.In(loc)
		if sameDay(before) || sameDay(after) || sameDay(before.Add(1)) {
			_, ob := before.Zone()
			_, oa := after.Zone()
			offs = append(offs, int64(ob), int64(oa))
		}
	}

	return offs
}

var zzC18NoSub = [7][2]int64{}

func zzC18Bit(x bool) (b int) {
	if x {
		return 1
	}

	return 0
}

// zzC18TraceSer logs how the real decoders treat a random serialised
// schedule (milliseconds plus nanoseconds; values of any sign and size up to
// ~11 days).
func zzC18TraceSer(w *zzWriter, rng *rand.Rand, zone string) {
	const ms = int64(time.Millisecond)
	val := func() int64 {
		switch rng.Intn(8) {
		case 0:
			return 0
		case 1:
			return int64(rng.Intn(1441)) * 60000
		case 2:
			return int64(rng.Intn(1441))*60000 + int64(rng.Intn(3)-1)
		case 3:
			return int64(rng.Intn(86400)) * 1000
		case 4:
			return -int64(rng.Intn(1441)) * 60000
		case 5:
			return 86400000 + int64(rng.Intn(3)-1)*60000
		case 6:
			return rng.Int63n(2000000000) - 1000000000
		default:
			return int64(rng.Intn(2881)) * 60000
		}
	}

	// A sub-millisecond part for about one bound in six: 1 ns, 1/64 ms, 1/2
	// ms, 1 ms - 1 ns, anything.
	frac := func() int64 {
		switch rng.Intn(30) {
		case 0:
			return 1
		case 1:
			return 15625 * int64(1+rng.Intn(63))
		case 2:
			return 500000
		case 3:
			return 999999
		case 4:
			return rng.Int63n(1000000)
		default:
			return 0
		}
	}

	var wk zzC18Week
	var wm, wn [7][2]int64
	for d := range wk {
		switch rng.Intn(4) {
		case 0:
			wm[d] = [2]int64{val(), val()}
			wn[d] = [2]int64{frac(), frac()}
		case 1:
			// Empty.
		default:
			r := zzC18RandRange(rng)
			wm[d] = [2]int64{r[0] / ms, r[1] / ms}
			if rng.Intn(8) == 0 {
				wn[d][rng.Intn(2)] = frac()
			}
		}

		// Floor form: value = wm ms + wn ns, 0 <= wn < 1 ms.
		wk[d] = [2]int64{wm[d][0]*ms + wn[d][0], wm[d][1]*ms + wn[d][1]}
	}

	// Probe with the full verdict set, so that only the round-trip parts of
	// zzC18CheckDocs can complain; the verdict itself is judged by TLC.
	what, detail, acc := zzC18CheckDocs(rng, zone, wk, []string{"accept", "reject"})
	w.put(map[string]any{
		"k": "ser", "zone": zone, "s": 0, "n": 0, "off": 0, "wd": 0, "tod": 0, "w": wm, "got": 0,
		"via": what, "ser": []int{acc[0], acc[1], zzC18Bit(what == "")}, "detail": detail, "wn": wn, "pres": 0, "obj": -1, "call": 0, "mode": 0,
	})
}
