---------------------------- MODULE ClientsRefB ----------------------------
(***************************************************************************)
(* G12 correspondence, direction  ClientsInd!Spec => Clients!Spec,  and    *)
(* the count of reachable states of ClientsInd over Clients.tla's own      *)
(* universes (checks/g12.py compares it with the count of ClientsRefA).    *)
(* Together with ClientsRefA: over these universes the two modules have    *)
(* the same reachable states and the same transition relation on them.     *)
(*                                                                         *)
(* Root module = ClientsInd; its constants are assigned (cfg) the sets the *)
(* universe record MCU denotes; Clients is instantiated with that record,  *)
(* variables mapped identically.  (C0 is an instance used only to read the *)
(* universe records USet, UCov, ... defined at the end of Clients.tla.)    *)
(***************************************************************************)
EXTENDS ClientsInd, TLC

CONSTANT MCU

C0 == INSTANCE Clients WITH U <- [w |-> 4], W <- 4, SampleMod <- 1, SampleSeed <- 0

Quiet(u) == [u EXCEPT !.emit = FALSE]
QSet   == Quiet(C0!USet)
QCov   == Quiet(C0!UCov)
QKinds == Quiet(C0!UKinds)
QNet   == Quiet(C0!UNet)
QZone  == Quiet(C0!UZone)
QMisc  == Quiet(C0!UMisc)

Orig == INSTANCE Clients WITH U <- MCU, W <- 4, SampleMod <- 1, SampleSeed <- 0

MCNames      == Orig!Names
MCIdent      == Orig!Ident
MCIdSets     == Orig!IdSets
MCFlags      == MCU.flags
MCLeaseAddrs == Orig!LeaseAddrs
MCLeaseMacs  == MCU.leasemacs
MCConfigs == UNION {UNION {
    {<<Mk(n1, i1, f1), Mk(n2, i2, f2)>> : f1 \in MCU.flags[n1], f2 \in MCU.flags[n2]}
    : i1 \in MCIdSets, i2 \in MCIdSets} : n1 \in MCNames, n2 \in MCNames}

ASSUME ConstOK /\ ConfigsAreSequences

view == <<clients, leases>>
OrigSpec == Orig!Spec
OrigInvs == Orig!TypeOK /\ Orig!UniqueOwner /\ Orig!ResolvesToOwnerOrNone
Rejected == [][RejectedLeavesUnchanged]_vars
=============================================================================
