"""C17 -- local files are read as filter lists only when matching the safe patterns."""
import json
import os
import random
import re
import vlib

PKG = "internal/filtering"
FILES = ["zz_verif_common_test.go", "zz_verif_c17_test.go"]
ENTRIES = ["add", "seturl", "inject"]
ACTIONS = ["AddStep", "SetURLStep", "InjectStep", "RefreshStep", "RemoveStep"]


def classify(rec):
    return None  # no known findings for C17


def go_replay(ctx, tables, vectors, tag):
    """Run TestZZVerifC17Replay on the vectors (each with entries/var/idx)."""
    vin, vout = ctx.path("c17_in_%s.ndjson" % tag), ctx.path("c17_out_%s.ndjson" % tag)
    work = ctx.path("c17_work_%s" % tag)
    os.makedirs(work, exist_ok=True)
    vlib.write_ndjson(vin, [tables] + vectors)
    rc, out = ctx.go_test(PKG, FILES, "^TestZZVerifC17Replay$",
                          env={"VERIF_IN": vin, "VERIF_OUT": vout, "VERIF_C17_WORK": work}, timeout=1500)
    rows = vlib.read_ndjson(vout)
    summ = [r for r in rows if r.get("kind") == "summary"]
    if rc != 0 or not summ:
        raise vlib.Inconclusive("C17 replay harness did not complete (rc=%s):\n%s" % (rc, out[-3000:]))
    return rows, summ[0]


def check_rows(ctx, rows):
    """Turn harness rows into disagreements / inconclusive verdicts."""
    for r in rows:
        k = r.get("kind")
        if k == "bad":
            ctx.disagreement(classify(r), r, "%s of %r under patterns %s: %s" % (
                r["entry"], r["url"], json.dumps(r.get("patterns")), r["what"]))
    soft = [r for r in rows if r.get("kind") in ("mismatch", "instrument", "panic")]
    return soft


def action_counts(out):
    """Per-action distinct-state counts from TLC's -coverage output."""
    res = {}
    for m in re.finditer(r"^<(\w+) line \d+, col \d+ to line \d+, col \d+ of module SafePath>: (\d+):(\d+)", out, re.M):
        res[m.group(1)] = (int(m.group(2)), int(m.group(3)))
    return res


def prepare(ctx, vectors, rng):
    """Select vectors and entry points for the tier; add per-vector seeds."""
    sel = []
    for i, v in enumerate(vectors):
        v = dict(v)
        v["idx"] = i
        v["var"] = (ctx.seed * 1000003 + i * 7919) % (1 << 62)
        sel.append(v)
    if ctx.quick:
        # Sample: every vector whose spec bound is non-empty for some entry with
        # probability 1/3, the others 1/14; one seeded entry point each.
        out = []
        for v in sel:
            nontrivial = bool(v["add"] or v["refresh"])
            p = 0.34 if nontrivial else 0.07
            if rng.random() < p:
                v["entries"] = [ENTRIES[rng.randrange(3)]]
                out.append(v)
        return out
    for v in sel:
        v["entries"] = list(ENTRIES)
    return sel


def run(ctx):
    rng = random.Random(ctx.seed)
    # Half 1: the state machine, all histories over the small location set.
    mc = ctx.tlc("SafePath", "SafePath.mc.cfg", workers=6, timeout=600, coverage=True)
    counts = action_counts(mc["out"])
    for a in ACTIONS:
        if counts.get(a, (0, 0))[0] == 0:
            raise vlib.Inconclusive("vacuous: action %s never taken in SafePath.mc.cfg (%s)" % (a, counts))
    # Vector generation: one per (pattern list, location).
    gen = ctx.tlc("SafePath", "SafePath.gen.cfg", workers=6, timeout=900)
    tables = [v for v in gen["vectors"] if v.get("t") == "tables"]
    vectors = [v for v in gen["vectors"] if v.get("t") == "v"]
    if len(tables) != 1 or len(vectors) < 10000:
        raise vlib.Inconclusive("vector generation incomplete: %d tables, %d vectors" % (len(tables), len(vectors)))
    tables = tables[0]
    sel = prepare(ctx, vectors, rng)
    ctx.log("replaying %d of %d vectors (%d scenarios)" % (len(sel), len(vectors), sum(len(v["entries"]) for v in sel)))
    rows, summ = go_replay(ctx, tables, sel, "a")
    soft = check_rows(ctx, rows)
    flaky = [r for r in rows if r.get("kind") == "flaky"]
    skipped = [r for r in rows if r.get("kind") == "skip"]
    if soft:
        r = soft[0]
        raise vlib.Inconclusive("harness/model problem (%s) in %d scenarios, first: %s of %r: %s" % (
            r["kind"], len(soft), r.get("entry"), r.get("url"), r.get("what")))
    if skipped:
        raise vlib.Inconclusive("%d scenarios could not be run, first: %s" % (len(skipped), skipped[0]))
    if summ["positive"] < 20 or summ["accepted"] < 20:
        raise vlib.Inconclusive("vacuous: only %d steps opened a permitted file, %d accepted" % (
            summ["positive"], summ["accepted"]))
    nt = sum(1 for v in sel if v["add"] or v["refresh"])
    samples = [sel[0], sel[len(sel) // 2], sel[-1]]
    cov = {
        "traces_validated_against_impl": summ["n"],
        "vectors_generated": len(vectors), "vectors_replayed": len(sel),
        "scenarios_replayed": summ["n"], "steps_observed": summ["steps"],
        "evaluations": summ["n"], "distinct_nontrivial": nt,
        "rule": "one vector per reachable state of SafePath.gen.cfg = (pattern list, location); each is replayed through "
                "up to three entry points (add_url, set_url, configuration file + refresh); non-trivial = the spec "
                "permits opening a file for it",
        "steps_that_opened_a_permitted_file": summ["positive"], "requests_accepted": summ["accepted"],
        "per_entry": summ["per_entry"], "flaky": len(flaky), "panics": summ["panics"],
        "mc_action_counts": {a: counts[a][0] for a in ACTIONS},
        "exhaustive": not ctx.quick, "samples": samples,
    }
    return ctx.finish("model_checking", cov, assumptions=[
        "TLC; conc()/abs() of zz_verif_c17_test.go (rendering of locations and globs, tree layout)",
        "opens are observed with inotify IN_OPEN on every directory of the scratch tree, plus sentinel rules in the "
        "stored lists and in the rebuilt engine; symlink-free tree; Linux path semantics only",
        "negated classes and ranges containing the separator are not generated (statement silent)"])


def replay(ctx, path):
    rec = json.load(open(path))["record"]
    vec = dict(rec["vec"])
    vec["entries"] = [rec["entry"]]
    gen = ctx.tlc("SafePath", "SafePath.gen.cfg", workers=6, timeout=900)
    tables = [v for v in gen["vectors"] if v.get("t") == "tables"][0]
    rows, summ = go_replay(ctx, tables, [vec], "r")
    bad = [r for r in rows if r.get("kind") == "bad"]
    print(json.dumps({"expected_bounds": {k: vec[k] for k in ("add", "seturl", "inject", "refresh")},
                      "observed": [b["obs"] for b in bad] or "within bounds"}, indent=1))
    return 1 if bad else 0
