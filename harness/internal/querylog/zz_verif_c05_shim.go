package querylog

import "context"

// ZZVerifRotateStep does what the periodic rotation worker does when the log
// file is due for rotation.
func (l *queryLog) ZZVerifRotateStep() {
	_ = l.rotate(context.Background())
}
