package filtering

// C17 conformance harness (specs/SafePath.tla, specs/TraceSafePath.tla).
//
// Direction A: every vector printed by TLC is one (pattern list, location)
// pair with the sets of paths that add_url, set_url, loading the location from
// the configuration file, and a following refresh may open.  The harness
// builds the spec's file tree under a scratch directory with one sentinel file
// per node, creates a real DNSFilter with the pattern list, drives the real
// HTTP handlers (as registered by RegisterFilteringHandlers) and observes
//
//   - which nodes of the tree were opened (inotify IN_OPEN on every directory
//     of the tree: an observation of the open system call itself),
//   - which sentinel rules ended up in the stored list files,
//   - which sentinel domains the rebuilt engine blocks,
//
// and requires every observed node to be in the spec's set for that step.
//
// Direction B: a seeded driver with random trees, names, globs, spellings and
// longer histories logs every step; TraceSafePath.tla decides.

import (
	"bytes"
	"context"
	"encoding/json"
	"fmt"
	"io"
	"math/rand"
	"net"
	"net/http"
	"net/http/httptest"
	"os"
	"os/exec"
	"path/filepath"
	"regexp"
	"runtime"
	"sort"
	"strconv"
	"strings"
	"sync"
	"syscall"
	"testing"
	"time"
	"unsafe"

	"github.com/AdguardTeam/golibs/log"
	"github.com/miekg/dns"
)

// ---------------------------------------------------------------- vocabulary

type zzC17Tok struct {
	K   string   `json:"k"`
	C   string   `json:"c"`
	Set []string `json:"set"`
}

type zzC17Glob struct {
	Abs  bool         `json:"abs"`
	Segs [][]zzC17Tok `json:"segs"`
}

type zzC17Loc struct {
	Scheme string   `json:"scheme"`
	Abs    bool     `json:"abs"`
	Segs   []string `json:"segs"`
}

type zzC17Matching struct {
	Cfg   []int      `json:"cfg"`
	Nodes [][]string `json:"nodes"`
}

type zzC17Tables struct {
	Dirs     [][]string      `json:"dirs"`
	Files    [][]string      `json:"files"`
	Cwd      []string        `json:"cwd"`
	Globs    []zzC17Glob     `json:"globs"`
	Scribble []zzC17Glob     `json:"scribble"`
	Matching []zzC17Matching `json:"matching"`
}

type zzC17Vec struct {
	T       string     `json:"t"`
	Cfg     []int      `json:"cfg"`
	Loc     zzC17Loc   `json:"loc"`
	Add     [][]string `json:"add"`
	SetURL  [][]string `json:"seturl"`
	Inject  [][]string `json:"inject"`
	Refresh [][]string `json:"refresh"`
	// Added by the orchestrator: which entry points to run and the seed of the
	// concrete spelling.
	Entries []string `json:"entries"`
	Var     int64    `json:"var"`
	Idx     int      `json:"idx"`
}

func zzC17Key(p []string) (k string) { return strings.Join(p, "/") }

func zzC17CfgKey(c []int) (k string) {
	c = append([]int{}, c...)
	sort.Ints(c)

	return fmt.Sprint(c)
}

func zzC17KeySet(ps [][]string) (m map[string]bool) {
	m = map[string]bool{}
	for _, p := range ps {
		m[zzC17Key(p)] = true
	}

	return m
}

// ------------------------------------------------------------------ inotify

// zzC17Watch observes open(2) on the directories of a tree and on their
// entries.
type zzC17Watch struct {
	wd  map[int32]string
	buf []byte
	fd  int
}

func zzC17NewWatch(dirs []string) (w *zzC17Watch, err error) {
	fd, err := syscall.InotifyInit1(syscall.IN_NONBLOCK | syscall.IN_CLOEXEC)
	if err != nil {
		return nil, fmt.Errorf("inotify_init: %w", err)
	}

	w = &zzC17Watch{fd: fd, wd: map[int32]string{}, buf: make([]byte, 1<<16)}
	for _, d := range dirs {
		var wd int
		wd, err = syscall.InotifyAddWatch(fd, d, syscall.IN_OPEN)
		if err != nil {
			_ = syscall.Close(fd)

			return nil, fmt.Errorf("inotify_add_watch %q: %w", d, err)
		}

		w.wd[int32(wd)] = d
	}

	return w, nil
}

func (w *zzC17Watch) close() { _ = syscall.Close(w.fd) }

// drain returns the real paths opened since the last call.
func (w *zzC17Watch) drain() (paths []string, overflow bool) {
	seen := map[string]bool{}
	for {
		n, err := syscall.Read(w.fd, w.buf)
		if n <= 0 || err != nil {
			break
		}

		for off := 0; off+syscall.SizeofInotifyEvent <= n; {
			ev := (*syscall.InotifyEvent)(unsafe.Pointer(&w.buf[off]))
			nameLen := int(ev.Len)
			name := ""
			if nameLen > 0 {
				b := w.buf[off+syscall.SizeofInotifyEvent : off+syscall.SizeofInotifyEvent+nameLen]
				name = string(bytes.TrimRight(b, "\x00"))
			}

			off += syscall.SizeofInotifyEvent + nameLen
			if ev.Mask&syscall.IN_Q_OVERFLOW != 0 {
				overflow = true

				continue
			}

			if ev.Mask&syscall.IN_OPEN == 0 {
				continue
			}

			dir, ok := w.wd[ev.Wd]
			if !ok {
				continue
			}

			p := dir
			if name != "" {
				p = filepath.Join(dir, name)
			}

			if !seen[p] {
				seen[p] = true
				paths = append(paths, p)
			}
		}
	}

	sort.Strings(paths)

	return paths, overflow
}

// -------------------------------------------------------------------- world

var zzC17MarkRe = regexp.MustCompile(`zzc17s(\d+)x`)

// zzC17World is a real directory tree with a sentinel rule in every file.
type zzC17World struct {
	w *zzC17Watch
	// root is the clean real path of the tree's root.
	root string
	// marks maps a sentinel number to the real path of its file.
	marks map[int]string
	files []string
	// planted are sentinel files that live in every server's data directory
	// (paths relative to it); plantedDirs are their directories.  They are
	// written by plant() whenever a server is created.  Opens inside a data
	// directory are not watched (the server reads and writes its own cache
	// there); such files are observed by their sentinel rules only.
	planted     map[string]int
	plantedDirs []string
	// dataDir is the data directory of the server the next request goes to:
	// what the abstract name "D" stands for (direction A).
	dataDir string
	// symbolic is true when the root is the abstract name "R" (direction A).
	symbolic bool
}

// zzC17Planted is the set of base names of planted files under
// <DataDir>/filters, which are not stored lists.
var zzC17Planted = map[string]bool{}

// plant writes the planted sentinel files into a data directory.
func (w *zzC17World) plant(dataDir string) (err error) {
	for _, d := range w.plantedDirs {
		if err = os.MkdirAll(filepath.Join(dataDir, d), 0o755); err != nil {
			return err
		}
	}

	for rel, k := range w.planted {
		err = os.WriteFile(filepath.Join(dataDir, rel), []byte("||"+zzC17Domain(k)+"^\n"), 0o644)
		if err != nil {
			return err
		}
	}

	return nil
}

// addPlanted registers planted files (relative to a data directory); their
// sentinel numbers follow those of the tree's files.
func (w *zzC17World) addPlanted(dirs, files []string) {
	w.planted = map[string]int{}
	w.plantedDirs = dirs
	sort.Strings(files)
	for _, f := range files {
		k := len(w.marks) + len(w.planted) + 1
		w.planted[f] = k
		if strings.HasPrefix(f, filterDir+"/") {
			zzC17Planted[strings.TrimPrefix(f, filterDir+"/")] = true
		}
	}
}

// markPath returns the path, in the spec's vocabulary, of the file carrying
// sentinel number k.
func (w *zzC17World) markPath(k int) (p []string) {
	if real, ok := w.marks[k]; ok {
		return w.abstract(real)
	}

	for rel, n := range w.planted {
		if n == k {
			if w.symbolic {
				return append([]string{"D"}, strings.Split(rel, "/")...)
			}

			return zzC17Segs(filepath.Join(w.dataDir, rel))
		}
	}

	return []string{"?"}
}

// allMarks lists every sentinel number.
func (w *zzC17World) allMarks() (ks []int) {
	for k := range w.marks {
		ks = append(ks, k)
	}

	for _, k := range w.planted {
		ks = append(ks, k)
	}

	sort.Ints(ks)

	return ks
}

func zzC17Domain(k int) (host string) { return fmt.Sprintf("zzc17s%dx.example", k) }

// zzC17BuildWorld creates dirs and files (paths relative to root, "/"-joined)
// under root and starts watching.
func zzC17BuildWorld(root string, dirs, files []string, symbolic bool) (w *zzC17World, err error) {
	w = &zzC17World{root: root, marks: map[int]string{}, symbolic: symbolic}
	all := []string{root}
	err = os.MkdirAll(root, 0o755)
	if err != nil {
		return nil, err
	}

	sort.Strings(dirs)
	for _, d := range dirs {
		if d == "" {
			continue
		}

		p := root + "/" + d
		err = os.MkdirAll(p, 0o755)
		if err != nil {
			return nil, err
		}

		all = append(all, p)
	}

	sort.Strings(files)
	for i, f := range files {
		p := root + "/" + f
		err = os.WriteFile(p, []byte("||"+zzC17Domain(i+1)+"^\n"), 0o644)
		if err != nil {
			return nil, err
		}

		w.marks[i+1] = p
		w.files = append(w.files, p)
	}

	w.w, err = zzC17NewWatch(all)
	if err != nil {
		return nil, err
	}

	return w, nil
}

// abstract maps a real path inside the tree to the spec's vocabulary.
func (w *zzC17World) abstract(real string) (p []string) {
	if w.symbolic {
		if real == w.root {
			return []string{"R"}
		}

		return append([]string{"R"}, strings.Split(strings.TrimPrefix(real, w.root+"/"), "/")...)
	}

	return strings.Split(strings.TrimPrefix(real, "/"), "/")
}

// rootSpelling renders the name "R": the real root without its leading
// separator, optionally with a redundant separator or dot inside, which no
// pattern and no cleaning may care about.
func (w *zzC17World) rootSpelling(rng *rand.Rand) (s string) {
	s = strings.TrimPrefix(w.root, "/")
	if rng == nil || rng.Intn(4) != 0 {
		return s
	}

	parts := strings.Split(s, "/")
	if len(parts) < 2 {
		return s
	}

	i := 1 + rng.Intn(len(parts)-1)
	ins := []string{"", "."}[rng.Intn(2)]
	parts = append(parts[:i], append([]string{ins}, parts[i:]...)...)

	return strings.Join(parts, "/")
}

// renderLoc is conc() for locations.
func (w *zzC17World) renderLoc(l zzC17Loc, rng *rand.Rand) (s string) {
	segs := make([]string, len(l.Segs))
	for i, x := range l.Segs {
		if w.symbolic && x == "R" {
			if l.Scheme == "none" {
				segs[i] = w.rootSpelling(rng)
			} else {
				segs[i] = w.rootSpelling(nil)
			}
		} else if w.symbolic && x == "D" {
			segs[i] = strings.TrimPrefix(w.dataDir, "/")
		} else {
			segs[i] = x
		}
	}

	body := strings.Join(segs, "/")
	if l.Scheme == "none" {
		if !l.Abs {
			return body
		}

		if rng != nil && rng.Intn(5) == 0 {
			return "//" + body
		}

		return "/" + body
	}

	if l.Abs {
		if rng != nil && rng.Intn(4) == 0 {
			// scheme:/path, no authority at all.
			return l.Scheme + ":/" + body
		}

		return l.Scheme + ":///" + body
	}

	return l.Scheme + "://" + body
}

func zzC17EscapeGlob(s string) (e string) {
	sb := &strings.Builder{}
	for _, r := range s {
		if strings.ContainsRune(`*?[\`, r) {
			sb.WriteByte('\\')
		}

		sb.WriteRune(r)
	}

	return sb.String()
}

// renderGlob is conc() for patterns.
func (w *zzC17World) renderGlob(g zzC17Glob, rng *rand.Rand) (s string) {
	parts := make([]string, len(g.Segs))
	for i, seg := range g.Segs {
		sb := &strings.Builder{}
		for _, t := range seg {
			switch t.K {
			case "lit":
				if w.symbolic && t.C == "R" {
					sb.WriteString(zzC17EscapeGlob(strings.TrimPrefix(w.root, "/")))
				} else {
					sb.WriteString(zzC17EscapeGlob(t.C))
				}
			case "star":
				sb.WriteByte('*')
			case "q":
				sb.WriteByte('?')
			case "cls":
				sb.WriteString(zzC17RenderClass(t.Set, rng))
			default:
				panic("bad token kind " + t.K)
			}
		}

		parts[i] = sb.String()
	}

	s = strings.Join(parts, "/")
	if g.Abs {
		s = "/" + s
	}

	return s
}

func zzC17RenderClass(set []string, rng *rand.Rand) (s string) {
	rs := []rune{}
	for _, c := range set {
		rs = append(rs, []rune(c)...)
	}

	sort.Slice(rs, func(i, j int) bool { return rs[i] < rs[j] })
	esc := func(r rune) (e string) {
		if r >= 'a' && r <= 'z' || r >= 'A' && r <= 'Z' || r >= '0' && r <= '9' {
			return string(r)
		}

		return `\` + string(r)
	}

	contiguous := len(rs) >= 2
	for i := 1; i < len(rs); i++ {
		if rs[i] != rs[i-1]+1 {
			contiguous = false
		}
	}

	if contiguous && rng != nil && rng.Intn(2) == 0 {
		return "[" + esc(rs[0]) + "-" + esc(rs[len(rs)-1]) + "]"
	}

	sb := &strings.Builder{}
	sb.WriteByte('[')
	for _, r := range rs {
		sb.WriteString(esc(r))
	}

	sb.WriteByte(']')

	return sb.String()
}

// ------------------------------------------------------------------- server

// zzC17Srv is a real DNSFilter with its handlers, as the web API reaches it.
type zzC17Srv struct {
	// owner is the very slice that was passed to New in Config.SafeFSPatterns:
	// the caller's property, which the caller may edit later.
	owner    []string
	d        *DNSFilter
	handlers map[string]http.HandlerFunc
	dataDir  string
	panics   int
}

type zzC17HTTP struct {
	srv    *httptest.Server
	client *http.Client
}

// zzC17BatchSize is the number of unvalidated locations put into one
// configuration in the inject scenario.
const zzC17BatchSize = 8

const zzC17BaseURL = "http://zzc17-base.example/base.txt"

// zzC17NewHTTP starts a local list server; every http connection of the
// client ends there, whatever host the URL names.
func zzC17NewHTTP() (h *zzC17HTTP) {
	h = &zzC17HTTP{}
	h.srv = httptest.NewServer(http.HandlerFunc(func(w http.ResponseWriter, r *http.Request) {
		_, _ = io.WriteString(w, "||zzc17http.example^\n||zzc17http2.example^\n")
	}))
	addr := h.srv.Listener.Addr().String()
	h.client = &http.Client{
		Timeout: 5 * time.Second,
		Transport: &http.Transport{
			DialContext: func(ctx context.Context, network, _ string) (c net.Conn, err error) {
				return (&net.Dialer{}).DialContext(ctx, network, addr)
			},
			TLSHandshakeTimeout: 2 * time.Second,
		},
	}

	return h
}

func zzC17NewSrv(
	dataDir string,
	pats []string,
	block, allow []FilterYAML,
	client *http.Client,
) (s *zzC17Srv, err error) {
	s = &zzC17Srv{handlers: map[string]http.HandlerFunc{}, dataDir: dataDir}
	s.owner = append([]string(nil), pats...)
	conf := &Config{
		FilteringEnabled:  true,
		ProtectionEnabled: true,
		Filters:           block,
		WhitelistFilters:  allow,
		HTTPClient:        client,
		ConfigModified:    func() {},
		DataDir:           dataDir,
		SafeFSPatterns:    s.owner,
		HTTPRegister: func(method, url string, h http.HandlerFunc) {
			s.handlers[method+" "+url] = h
		},
	}

	s.d, err = New(conf, nil)
	if err != nil {
		return nil, err
	}

	return s, nil
}

func (s *zzC17Srv) start() { s.d.Start() }

func (s *zzC17Srv) close() { s.d.Close() }

// call sends one request to the registered handler.  status -1 is a panic.
func (s *zzC17Srv) call(method, url string, body any) (status int, resp string) {
	h := s.handlers[method+" "+url]
	if h == nil {
		return -2, "no handler"
	}

	var rd io.Reader
	if body != nil {
		b, err := json.Marshal(body)
		if err != nil {
			panic(err)
		}

		rd = bytes.NewReader(b)
	}

	r := httptest.NewRequest(method, "http://adguard.example"+url, rd)
	r.Header.Set("Content-Type", "application/json")
	w := httptest.NewRecorder()
	func() {
		defer func() {
			if v := recover(); v != nil {
				s.panics++
				status, resp = -1, fmt.Sprint(v)
			}
		}()

		h(w, r)
		status, resp = w.Code, w.Body.String()
	}()

	return status, resp
}

type zzC17List struct {
	URL        string `json:"url"`
	ID         int64  `json:"id"`
	RulesCount int    `json:"rules_count"`
	Enabled    bool   `json:"enabled"`
	White      bool   `json:"-"`
}

// lists reads the configured lists through the status endpoint.
func (s *zzC17Srv) lists() (ls []zzC17List) {
	st, body := s.call(http.MethodGet, "/control/filtering/status", nil)
	if st != http.StatusOK {
		return nil
	}

	resp := struct {
		Filters          []zzC17List `json:"filters"`
		WhitelistFilters []zzC17List `json:"whitelist_filters"`
	}{}
	if json.Unmarshal([]byte(body), &resp) != nil {
		return nil
	}

	ls = append(ls, resp.Filters...)
	for _, l := range resp.WhitelistFilters {
		l.White = true
		ls = append(ls, l)
	}

	return ls
}

// configured reports whether a list with this URL is in the table.
func (s *zzC17Srv) configured(url string) (ok bool) {
	for _, l := range s.lists() {
		if l.URL == url {
			return true
		}
	}

	return false
}

// leaks returns the sentinel numbers found in stored list files.
func (s *zzC17Srv) leaks() (marks []int) {
	dir := filepath.Join(s.dataDir, filterDir)
	ents, err := os.ReadDir(dir)
	if err != nil {
		return nil
	}

	seen := map[int]bool{}
	for _, e := range ents {
		if e.IsDir() || strings.HasSuffix(e.Name(), ".old") || zzC17Planted[e.Name()] {
			continue
		}

		b, rerr := os.ReadFile(filepath.Join(dir, e.Name()))
		if rerr != nil {
			continue
		}

		for _, m := range zzC17MarkRe.FindAllSubmatch(b, -1) {
			k, _ := strconv.Atoi(string(m[1]))
			if !seen[k] {
				seen[k] = true
				marks = append(marks, k)
			}
		}
	}

	sort.Ints(marks)

	return marks
}

// blocked rebuilds the engine synchronously and returns the sentinel numbers
// whose domains are blocked.
func (s *zzC17Srv) blocked(w *zzC17World) (marks []int) {
	s.d.EnableFilters(false)
	setts := &Settings{ProtectionEnabled: true, FilteringEnabled: true}
	for _, k := range w.allMarks() {
		res, err := s.d.CheckHostRules(zzC17Domain(k), dns.TypeA, setts)
		if err == nil && res.IsFiltered {
			marks = append(marks, k)
		}
	}

	sort.Ints(marks)

	return marks
}

// housekeeping removes stale stored files (remove_url leaves *.old behind) so
// that leaks() only sees what the current scenario stored.
func (s *zzC17Srv) housekeeping(keep map[string]bool) {
	dir := filepath.Join(s.dataDir, filterDir)
	ents, _ := os.ReadDir(dir)
	for _, e := range ents {
		if !keep[e.Name()] && !zzC17Planted[e.Name()] {
			_ = os.Remove(filepath.Join(dir, e.Name()))
		}
	}
}

// --------------------------------------------------------------- scenarios

// zzC17Obs is what one step showed.
type zzC17Obs struct {
	Step    string     `json:"step"`
	Bound   string     `json:"bound"`
	URL     string     `json:"url,omitempty"`
	Resp    string     `json:"resp,omitempty"`
	Opened  [][]string `json:"opened"`
	Leaked  [][]string `json:"leaked"`
	Blocked [][]string `json:"blocked"`
	Status  int        `json:"status"`
	Ovf     bool       `json:"overflow,omitempty"`
}

func (w *zzC17World) marksToPaths(marks []int) (ps [][]string) {
	ps = [][]string{}
	for _, k := range marks {
		ps = append(ps, w.markPath(k))
	}

	return ps
}

func zzC17Observe(w *zzC17World, s *zzC17Srv, step, bound, url string, status int, resp string) (o zzC17Obs) {
	o = zzC17Obs{Step: step, Bound: bound, URL: url, Status: status, Opened: [][]string{}, Blocked: [][]string{}}
	if len(resp) > 200 {
		resp = resp[:200]
	}

	o.Resp = resp
	real, ovf := w.w.drain()
	o.Ovf = ovf
	for _, p := range real {
		o.Opened = append(o.Opened, w.abstract(p))
	}

	o.Leaked = w.marksToPaths(s.leaks())

	return o
}

type zzC17Env struct {
	world  *zzC17World
	http   *zzC17HTTP
	tables *zzC17Tables
	shared map[string]*zzC17Srv
	work   string
	nData  int
}

func (e *zzC17Env) newDataDir() (d string) {
	e.nData++
	d = filepath.Join(e.work, fmt.Sprintf("data%d", e.nData))
	_ = os.MkdirAll(d, 0o755)
	if err := e.world.plant(d); err != nil {
		panic(err)
	}

	return d
}

func (e *zzC17Env) patterns(cfg []int, rng *rand.Rand) (pats []string) {
	for _, i := range cfg {
		pats = append(pats, e.world.renderGlob(e.tables.Globs[i-1], rng))
	}

	return pats
}

// sharedSrv returns the server for a pattern list with exactly the base list
// configured.
func (e *zzC17Env) sharedSrv(cfg []int, fresh bool) (s *zzC17Srv, err error) {
	k := zzC17CfgKey(cfg)
	if s = e.shared[k]; s != nil && !fresh {
		return s, nil
	}

	if s != nil {
		s.close()
		_ = os.RemoveAll(s.dataDir)
	}

	// Patterns of the shared server are rendered canonically: the spelling
	// variants of a pattern are exercised by the inject scenario and by
	// direction B.
	s, err = zzC17NewSrv(e.newDataDir(), e.patterns(cfg, nil), nil, nil, e.http.client)
	if err != nil {
		return nil, err
	}

	s.start()
	st, resp := s.call(http.MethodPost, "/control/filtering/add_url",
		map[string]any{"name": "base", "url": zzC17BaseURL, "whitelist": false})
	if st != http.StatusOK {
		return nil, fmt.Errorf("adding base list: %d %s", st, resp)
	}

	_, _ = e.world.w.drain()
	e.shared[k] = s

	return s, nil
}

// restore brings a shared server back to "only the base list".
func (e *zzC17Env) restore(s *zzC17Srv) (ok bool) {
	base := int64(-1)
	cur := s.lists()
	if len(cur) == 1 && cur[0].URL == zzC17BaseURL && !cur[0].White {
		_, _ = e.world.w.drain()

		return true
	}

	for _, l := range cur {
		if l.URL == zzC17BaseURL && !l.White && base < 0 {
			base = l.ID

			continue
		}

		s.call(http.MethodPost, "/control/filtering/remove_url", map[string]any{"url": l.URL, "whitelist": l.White})
	}

	if base < 0 {
		st, _ := s.call(http.MethodPost, "/control/filtering/add_url",
			map[string]any{"name": "base", "url": zzC17BaseURL, "whitelist": false})
		if st != http.StatusOK {
			return false
		}

		for _, l := range s.lists() {
			if l.URL == zzC17BaseURL {
				base = l.ID
			}
		}
	}

	ls := s.lists()
	if len(ls) != 1 || ls[0].URL != zzC17BaseURL {
		return false
	}

	s.housekeeping(map[string]bool{strconv.FormatInt(base, 10) + ".txt": true})
	_, _ = e.world.w.drain()

	return true
}

// run executes one entry scenario for a vector and returns the observations.
func (e *zzC17Env) run(v *zzC17Vec, entry string, rng *rand.Rand, fresh bool) (obs []zzC17Obs, url string, err error) {
	w := e.world
	if entry == "add" || entry == "seturl" {
		// The server first: the abstract name "D" in a location stands for
		// the data directory of the server that gets the request.
		var s0 *zzC17Srv
		s0, err = e.sharedSrv(v.Cfg, fresh)
		if err != nil {
			return nil, "", err
		}

		fresh = false
		w.dataDir = s0.dataDir
	}

	url = w.renderLoc(v.Loc, rng)
	_, _ = w.w.drain()
	white := rng != nil && rng.Intn(3) == 0

	switch entry {
	case "add":
		var s *zzC17Srv
		s, err = e.sharedSrv(v.Cfg, fresh)
		if err != nil {
			return nil, url, err
		}

		st, resp := s.call(http.MethodPost, "/control/filtering/add_url",
			map[string]any{"name": "cand", "url": url, "whitelist": white})
		o := zzC17Observe(w, s, "add_url", "add", url, st, resp)
		if st == http.StatusOK && !white {
			o.Blocked = w.marksToPaths(s.blocked(w))
			// Rebuilding the engine reads the stored copies only; anything it
			// opened in the tree counts against this step as well.
			real, _ := w.w.drain()
			for _, p := range real {
				o.Opened = append(o.Opened, w.abstract(p))
			}
		}

		obs = append(obs, o)
		// A refresh can only reach the location if it is in the list table
		// now (accepted, or rejected but left behind).
		if s.configured(url) {
			st, resp = s.call(http.MethodPost, "/control/filtering/refresh", map[string]any{"whitelist": white})
			obs = append(obs, zzC17Observe(w, s, "refresh", "refresh", "", st, resp))
		} else if st == http.StatusOK {
			return nil, url, fmt.Errorf("add_url answered 200 but %q is not configured", url)
		}

		if !e.restore(s) {
			delete(e.shared, zzC17CfgKey(v.Cfg))
			s.close()
		}
	case "seturl":
		var s *zzC17Srv
		s, err = e.sharedSrv(v.Cfg, fresh)
		if err != nil {
			return nil, url, err
		}

		enabled := rng == nil || rng.Intn(4) != 0
		st, resp := s.call(http.MethodPost, "/control/filtering/set_url", map[string]any{
			"url": zzC17BaseURL, "whitelist": false,
			"data": map[string]any{"name": "base", "url": url, "enabled": enabled},
		})
		obs = append(obs, zzC17Observe(w, s, "set_url", "seturl", url, st, resp))
		if !enabled && st == http.StatusOK {
			// The list was pointed at the location while disabled (nothing is
			// read then); enabling it is the edit that reads.
			st, resp = s.call(http.MethodPost, "/control/filtering/set_url", map[string]any{
				"url": url, "whitelist": false,
				"data": map[string]any{"name": "base", "url": url, "enabled": true},
			})
			obs = append(obs, zzC17Observe(w, s, "set_url_enable", "seturl", url, st, resp))
		}

		if s.configured(url) {
			st, resp = s.call(http.MethodPost, "/control/filtering/refresh", map[string]any{"whitelist": false})
			obs = append(obs, zzC17Observe(w, s, "refresh", "refresh", "", st, resp))
		} else if st == http.StatusOK {
			return nil, url, fmt.Errorf("set_url answered 200 but %q is not configured", url)
		}

		if !e.restore(s) {
			delete(e.shared, zzC17CfgKey(v.Cfg))
			s.close()
		}
	case "inject":
		var all [][]zzC17Obs
		all, _, err = e.runInject([]*zzC17Vec{v}, []*rand.Rand{rng})
		if err != nil {
			return nil, url, err
		}

		obs = all[0]
	default:
		return nil, url, fmt.Errorf("bad entry %q", entry)
	}

	return obs, url, nil
}

// runInject starts one server whose configuration already contains the
// locations of all the vectors (same pattern list), as if read from the YAML
// file -- nothing validated them -- and refreshes both list tables.  Every
// vector gets the same observations; the bound of the batch is the union of
// the vectors' bounds (zzC17JudgeBatch).
func (e *zzC17Env) runInject(vs []*zzC17Vec, rngs []*rand.Rand) (obs [][]zzC17Obs, urls []string, err error) {
	w := e.world
	_, _ = w.w.drain()
	dd := e.newDataDir()
	defer func() { _ = os.RemoveAll(dd) }()

	w.dataDir = dd
	var block, allow []FilterYAML
	for i, v := range vs {
		url := w.renderLoc(v.Loc, rngs[i])
		urls = append(urls, url)
		white := rngs[i] != nil && rngs[i].Intn(3) == 0
		l := FilterYAML{Enabled: true, URL: url, Name: "injected", Filter: Filter{ID: 7 + i}}
		if white {
			allow = append(allow, l)
		} else {
			block = append(block, l)
		}
	}

	s, err := zzC17NewSrv(dd, e.patterns(vs[0].Cfg, rngs[0]), block, allow, e.http.client)
	if err != nil {
		return nil, urls, err
	}
	defer s.close()

	s.start()
	one := []zzC17Obs{zzC17Observe(w, s, "load_config", "inject", strings.Join(urls, " "), 0, "")}
	for _, white := range []bool{false, true} {
		st, resp := s.call(http.MethodPost, "/control/filtering/refresh", map[string]any{"whitelist": white})
		one = append(one, zzC17Observe(w, s, "refresh", "refresh", "", st, resp))
	}

	for range vs {
		obs = append(obs, one)
	}

	return obs, urls, nil
}

// zzC17Union is the vector whose bounds are the unions of the batch's.
func zzC17Union(vs []*zzC17Vec) (u *zzC17Vec) {
	u = &zzC17Vec{Cfg: vs[0].Cfg}
	for _, v := range vs {
		u.Add = append(u.Add, v.Add...)
		u.SetURL = append(u.SetURL, v.SetURL...)
		u.Inject = append(u.Inject, v.Inject...)
		u.Refresh = append(u.Refresh, v.Refresh...)
	}

	return u
}

// zzC17Judge compares the observations of a scenario with the vector.
// kind "" = fine; "bad" = a node outside the configuration's matching set was
// opened / stored / blocked (the statement is violated); "mismatch" = a
// matching node other than the one the spec expects (model or harness is
// wrong, never reported as a violation); "instrument" = the observers
// disagree with each other.
func zzC17Judge(e *zzC17Env, v *zzC17Vec, obs []zzC17Obs) (kind, what string, positive int) {
	bounds := map[string]map[string]bool{
		"add": zzC17KeySet(v.Add), "seturl": zzC17KeySet(v.SetURL),
		"inject": zzC17KeySet(v.Inject), "refresh": zzC17KeySet(v.Refresh),
	}

	var matching map[string]bool
	for _, m := range e.tables.Matching {
		if zzC17CfgKey(m.Cfg) == zzC17CfgKey(v.Cfg) {
			matching = zzC17KeySet(m.Nodes)
		}
	}

	for _, o := range obs {
		if o.Ovf {
			return "instrument", "inotify queue overflow", 0
		}

		if o.Status == -1 {
			return "panic", o.Step + ": " + o.Resp, 0
		}

		b := bounds[o.Bound]
		for name, set := range map[string][][]string{"opened": o.Opened, "stored": o.Leaked, "blocked": o.Blocked} {
			for _, p := range set {
				k := zzC17Key(p)
				if b[k] {
					continue
				}

				if matching == nil || !matching[k] {
					return "bad", fmt.Sprintf("step %s: %s %s, outside the safe patterns", o.Step, name, k), 0
				}

				kind, what = "mismatch", fmt.Sprintf("step %s: %s %s, which matches but is not in the spec's set", o.Step, name, k)
			}
		}

		if len(o.Opened) > 0 {
			positive++
		}

		// The observers must agree: what was stored was opened.
		op := zzC17KeySet(o.Opened)
		for _, p := range o.Leaked {
			if !op[zzC17Key(p)] && (o.Step == "add_url" || o.Step == "set_url" || o.Step == "set_url_enable") {
				return "instrument", fmt.Sprintf("step %s: %s stored but no open observed", o.Step, zzC17Key(p)), 0
			}
		}
	}

	return kind, what, positive
}

func zzC17Tier() (tier string) {
	if strings.EqualFold(strings.TrimSpace(zzGetenv("VERIF_TIER")), "thorough") {
		return "thorough"
	}

	return "quick"
}

var zzC17LogOnce sync.Once

// zzC17Quiet silences the package's logging and limits the scheduler to two
// threads: the code under test forces a full garbage collection at every
// engine rebuild (debug.FreeOSMemory in initFiltering), whose cost grows with
// the number of Ps (measured: 2.6 times faster with 2 than with 16).
func zzC17Quiet() {
	zzC17LogOnce.Do(func() {
		log.SetOutput(io.Discard)
		runtime.GOMAXPROCS(2)
	})
}

// zzC17Setup builds the spec's tree under VERIF_C17_WORK and changes into
// the spec's working directory.
func zzC17Setup(t *testing.T, tb *zzC17Tables) (e *zzC17Env) {
	work := zzGetenv("VERIF_C17_WORK")
	if work == "" {
		t.Skip("no VERIF_C17_WORK")
	}

	work, err := filepath.Abs(work)
	if err != nil {
		t.Fatal(err)
	}

	// Paths rooted at "R" are the scratch tree; paths rooted at "D" live in
	// every server's data directory.
	rel := func(p []string) (s string) { return strings.Join(p[1:], "/") }
	dirs, files, ddirs, dfiles := []string{}, []string{}, []string{}, []string{}
	for _, d := range tb.Dirs {
		if d[0] == "D" {
			ddirs = append(ddirs, rel(d))
		} else {
			dirs = append(dirs, rel(d))
		}
	}

	for _, f := range tb.Files {
		if f[0] == "D" {
			dfiles = append(dfiles, rel(f))
		} else {
			files = append(files, rel(f))
		}
	}

	world, err := zzC17BuildWorld(filepath.Join(work, "tree"), dirs, files, true)
	if err != nil {
		t.Fatalf("building tree: %v", err)
	}

	world.addPlanted(ddirs, dfiles)

	err = os.Chdir(filepath.Join(world.root, rel(tb.Cwd)))
	if err != nil {
		t.Fatalf("chdir: %v", err)
	}

	return &zzC17Env{world: world, http: zzC17NewHTTP(), tables: tb, shared: map[string]*zzC17Srv{}, work: work}
}

// zzC17Shards re-executes the test binary once per shard (separate
// processes: the working directory is per process, and the code under test
// forces a garbage collection at every engine rebuild, which serialises
// goroutines).  Shard k reads VERIF_IN.k, writes VERIF_OUT.k and works under
// VERIF_C17_WORK/k.
func zzC17Shards(t *testing.T, name string, k int) {
	out := zzNewWriter(t, "VERIF_OUT")
	defer out.close()

	var wg sync.WaitGroup
	codes := make([]string, k)
	for i := 0; i < k; i++ {
		wg.Add(1)
		go func(i int) {
			defer wg.Done()

			sfx := "." + strconv.Itoa(i)
			cmd := exec.Command(os.Args[0], "-test.run=^"+name+"$", "-test.timeout=30m", "-test.count=1")
			cmd.Env = append(os.Environ(),
				"VERIF_C17_SHARDS=0",
				"VERIF_IN="+zzGetenv("VERIF_IN")+sfx,
				"VERIF_OUT="+zzGetenv("VERIF_OUT")+sfx,
				"VERIF_C17_WORK="+filepath.Join(zzGetenv("VERIF_C17_WORK"), strconv.Itoa(i)),
				"VERIF_C17_SHARD="+strconv.Itoa(i),
			)
			b, err := cmd.CombinedOutput()
			codes[i] = "ok"
			if err != nil {
				codes[i] = err.Error()
				tail := string(b)
				if len(tail) > 3000 {
					tail = tail[len(tail)-3000:]
				}

				t.Errorf("shard %d: %v\n%s", i, err, tail)
			}
		}(i)
	}

	wg.Wait()
	out.put(map[string]any{"kind": "shards", "codes": codes})
}

// TestZZVerifC17Replay is direction A.
func TestZZVerifC17Replay(t *testing.T) {
	if k, _ := strconv.Atoi(zzGetenv("VERIF_C17_SHARDS")); k > 0 {
		zzC17Shards(t, "TestZZVerifC17Replay", k)

		return
	}

	zzC17Quiet()
	out := zzNewWriter(t, "VERIF_OUT")
	defer out.close()

	var e *zzC17Env
	n, steps, bad, positive, accepted, panics, batches := 0, 0, 0, 0, 0, 0, 0
	perEntry := map[string]int{}
	micros := map[string]int64{}

	// single runs one scenario, judges it and reproduces a disagreement in
	// isolation (fresh server, same spelling) before reporting it.
	single := func(v *zzC17Vec, entry string) {
		n++
		perEntry[entry]++
		t0 := time.Now()
		obs, url, err := e.run(v, entry, rand.New(rand.NewSource(v.Var)), false)
		micros[entry] += time.Since(t0).Microseconds()
		if err != nil {
			out.put(map[string]any{"kind": "skip", "idx": v.Idx, "entry": entry, "err": err.Error(), "url": url})

			return
		}

		steps += len(obs)
		for _, o := range obs {
			if o.Status == http.StatusOK && (o.Step == "add_url" || o.Step == "set_url") {
				accepted++
			}
		}

		kind, what, pos := zzC17Judge(e, v, obs)
		positive += pos
		if kind == "" {
			return
		}

		if kind == "panic" {
			panics++
		}

		obs2, url2, err2 := e.run(v, entry, rand.New(rand.NewSource(v.Var)), true)
		kind2, what2 := "", ""
		if err2 == nil {
			kind2, what2, _ = zzC17Judge(e, v, obs2)
		}

		if kind2 != kind {
			out.put(map[string]any{"kind": "flaky", "first": kind, "second": kind2, "what": what, "idx": v.Idx,
				"entry": entry, "url": url, "obs": obs})

			return
		}

		if kind == "bad" {
			bad++
		}

		out.put(map[string]any{"kind": kind, "what": what2, "idx": v.Idx, "entry": entry, "url": url2,
			"vec": v, "obs": obs2, "patterns": e.patterns(v.Cfg, nil)})
	}

	// Inject scenarios of one pattern list are run in batches: one server
	// start and one refresh for several unvalidated locations.  Anything
	// outside the union of the bounds sends every vector of the batch through
	// single().
	batch := []*zzC17Vec{}
	flush := func() {
		if len(batch) == 0 {
			return
		}

		vs := batch
		batch = []*zzC17Vec{}
		rngs := make([]*rand.Rand, len(vs))
		for i, v := range vs {
			rngs[i] = rand.New(rand.NewSource(v.Var))
		}

		t0 := time.Now()
		obs, _, err := e.runInject(vs, rngs)
		micros["inject"] += time.Since(t0).Microseconds()
		kind := "err"
		if err == nil {
			var pos int
			kind, _, pos = zzC17Judge(e, zzC17Union(vs), obs[0])
			if kind == "" {
				n += len(vs)
				perEntry["inject"] += len(vs)
				steps += len(obs[0])
				positive += pos
				batches++

				return
			}
		}

		for _, v := range vs {
			single(v, "inject")
		}
	}

	zzReadNDJSON(t, "VERIF_IN", func(line []byte) {
		v := &zzC17Vec{}
		if err := json.Unmarshal(line, v); err != nil {
			t.Fatalf("bad vector: %v", err)
		}

		if v.T == "tables" {
			tb := &zzC17Tables{}
			if err := json.Unmarshal(line, tb); err != nil {
				t.Fatalf("bad tables: %v", err)
			}

			e = zzC17Setup(t, tb)

			return
		}

		if e == nil {
			t.Fatal("vector before tables")
		}

		for _, entry := range v.Entries {
			if entry == "inject" {
				if len(batch) > 0 && (zzC17CfgKey(batch[0].Cfg) != zzC17CfgKey(v.Cfg) || len(batch) >= zzC17BatchSize) {
					flush()
				}

				batch = append(batch, v)

				continue
			}

			single(v, entry)
		}
	})

	if e != nil {
		flush()
	}

	if e != nil {
		for _, s := range e.shared {
			s.close()
		}

		e.http.srv.Close()
		e.world.w.close()
	}

	out.put(map[string]any{"kind": "summary", "n": n, "steps": steps, "bad": bad, "positive": positive,
		"accepted": accepted, "panics": panics, "per_entry": perEntry, "micros": micros, "inject_batches": batches})
}

// ---------------------------------------------------------------- direction B

var zzC17PlainNames = []string{"a", "b", "ab", "a.txt", "b.txt", "ab.txt", "list", "data", "x1", "lists.d", "conf"}

var zzC17OddNames = []string{"a b", "é.txt", "*", "a*", "?", "[a]", "%2e%2e", "..a", "a..", "...", ".hidden",
	"A.TXT", "-", `a\b`, "%2F", "a.txt~", "^a", "a-b", "]"}

func zzC17RandName(rng *rand.Rand) (s string) {
	if rng.Intn(4) == 0 {
		return zzC17OddNames[rng.Intn(len(zzC17OddNames))]
	}

	return zzC17PlainNames[rng.Intn(len(zzC17PlainNames))]
}

// zzC17RandTree draws directories and files as paths relative to the root.
func zzC17RandTree(rng *rand.Rand) (dirs, files [][]string) {
	dirs = [][]string{{}}
	used := map[string]bool{"": true}
	nd := 2 + rng.Intn(5)
	for i := 0; i < nd; i++ {
		parent := dirs[rng.Intn(len(dirs))]
		if len(parent) >= 3 {
			continue
		}

		p := append(append([]string{}, parent...), zzC17RandName(rng))
		if used[zzC17Key(p)] {
			continue
		}

		used[zzC17Key(p)] = true
		dirs = append(dirs, p)
	}

	// Siblings whose names merely begin like a directory's name.
	for _, d := range append([][]string{}, dirs[1:]...) {
		if rng.Intn(2) == 0 {
			continue
		}

		sfx := []string{"x", ".b", "_old", ".bak", "2"}[rng.Intn(5)]
		p := append(append([]string{}, d[:len(d)-1]...), d[len(d)-1]+sfx)
		if used[zzC17Key(p)] {
			continue
		}

		used[zzC17Key(p)] = true
		if rng.Intn(4) == 0 {
			dirs = append(dirs, p)
		} else {
			files = append(files, p)
		}
	}

	nf := 4 + rng.Intn(7)
	for i := 0; i < nf; i++ {
		parent := dirs[rng.Intn(len(dirs))]
		p := append(append([]string{}, parent...), zzC17RandName(rng))
		if used[zzC17Key(p)] {
			continue
		}

		used[zzC17Key(p)] = true
		files = append(files, p)
	}

	return dirs, files
}

func zzC17LitSeg(name string) (seg []zzC17Tok) {
	seg = []zzC17Tok{}
	for _, r := range name {
		seg = append(seg, zzC17Tok{K: "lit", C: string(r), Set: []string{}})
	}

	return seg
}

// zzC17RandGlob generalises a real path (all segments) into a glob.
func zzC17RandGlob(rng *rand.Rand, rootLen int, target []string) (g zzC17Glob) {
	g = zzC17Glob{Abs: true, Segs: [][]zzC17Tok{}}
	star := []zzC17Tok{{K: "star", Set: []string{}}}
	for i, name := range target {
		switch {
		case i < rootLen:
			if rng.Intn(40) == 0 {
				g.Segs = append(g.Segs, star)
			} else {
				g.Segs = append(g.Segs, zzC17LitSeg(name))
			}
		case rng.Intn(100) < 45:
			g.Segs = append(g.Segs, zzC17LitSeg(name))
		case rng.Intn(100) < 45:
			g.Segs = append(g.Segs, star)
		default:
			seg := []zzC17Tok{}
			for _, r := range name {
				switch x := rng.Intn(100); {
				case x < 55:
					seg = append(seg, zzC17Tok{K: "lit", C: string(r), Set: []string{}})
				case x < 70:
					seg = append(seg, zzC17Tok{K: "q", Set: []string{}})
				case x < 85:
					set := []string{string(r)}
					for _, o := range "abtx1" {
						if rng.Intn(3) == 0 && o != r {
							set = append(set, string(o))
						}
					}

					seg = append(seg, zzC17Tok{K: "cls", Set: set})
				default:
					seg = append(seg, star[0])
				}
			}

			if rng.Intn(4) == 0 {
				j := rng.Intn(len(seg) + 1)
				seg = append(seg[:j], append([]zzC17Tok{star[0]}, seg[j:]...)...)
			}

			g.Segs = append(g.Segs, seg)
		}
	}

	switch rng.Intn(20) {
	case 0:
		if len(g.Segs) > rootLen {
			g.Segs = g.Segs[:len(g.Segs)-1]
		}
	case 1:
		g.Segs = append(g.Segs, star)
	case 2:
		g.Abs = false
		g.Segs = g.Segs[rootLen:]
	case 3:
		j := rootLen + rng.Intn(len(g.Segs)-rootLen+1)
		g.Segs = append(g.Segs[:j], append([][]zzC17Tok{zzC17LitSeg("x"), zzC17LitSeg("..")}, g.Segs[j:]...)...)
	}

	return g
}

// zzC17Spell applies spelling mutations that a cleaning must undo (or that
// lead somewhere else: the spec computes where).
func zzC17Spell(rng *rand.Rand, segs []string, minIdx int) (out []string) {
	out = append([]string{}, segs...)
	ins := func(j int, xs ...string) {
		out = append(out[:j], append(append([]string{}, xs...), out[j:]...)...)
	}

	n := rng.Intn(4)
	for k := 0; k < n; k++ {
		j := len(out)
		if len(out) > minIdx {
			j = minIdx + rng.Intn(len(out)-minIdx+1)
		}

		switch rng.Intn(7) {
		case 0:
			ins(j, ".")
		case 1:
			if j > 0 {
				ins(j, "")
			}
		case 2:
			ins(j, zzC17RandName(rng), "..")
		case 3:
			if j > 0 && out[j-1] != "" && out[j-1] != "." && out[j-1] != ".." {
				ins(j, "..", out[j-1])
			}
		case 4:
			out = append(out, "")
		case 5:
			out = append(out, "..", zzC17RandName(rng))
		case 6:
			ins(j, "..")
		}
	}

	return out
}

func zzC17Segs(real string) (segs []string) {
	if real == "/" || real == "" {
		return []string{}
	}

	return strings.Split(strings.TrimPrefix(real, "/"), "/")
}

// zzC17RandLoc draws a location aimed at (or near) a node of the tree.
//
// Half of the time the target is a node that some configured pattern matches
// (path/filepath.Match is used for this CHOICE of inputs only, never for the
// verdict), so that permitted opens are frequent enough to see.
func zzC17RandLoc(
	rng *rand.Rand,
	w *zzC17World,
	nodes [][]string,
	cwd []string,
	pats []string,
	extra [][]string,
) (l zzC17Loc) {
	rootSegs := zzC17Segs(w.root)
	target := append(append([]string{}, rootSegs...), nodes[rng.Intn(len(nodes))]...)
	if len(extra) > 0 && rng.Intn(8) == 0 {
		// A path outside the tree (inside the server's own data directory).
		target = append([]string{}, extra[rng.Intn(len(extra))]...)
	} else if rng.Intn(2) == 0 {
		for try := 0; try < 12; try++ {
			hit := false
			for _, p := range pats {
				if ok, _ := filepath.Match(p, "/"+zzC17Key(target)); ok {
					hit = true
				}
			}

			if hit {
				break
			}

			target = append(append([]string{}, rootSegs...), nodes[rng.Intn(len(nodes))]...)
		}
	}
	if rng.Intn(10) < 3 && len(target) > 0 {
		if rng.Intn(2) == 0 && len(target) > len(rootSegs) {
			target[len(target)-1] = zzC17RandName(rng)
		} else {
			target = append(target, zzC17RandName(rng))
		}
	}

	switch x := rng.Intn(100); {
	case x < 60:
		return zzC17Loc{Scheme: "none", Abs: true, Segs: zzC17Spell(rng, target, 0)}
	case x < 80:
		common := 0
		for common < len(cwd) && common < len(target) && cwd[common] == target[common] {
			common++
		}

		rel := []string{}
		for i := common; i < len(cwd); i++ {
			rel = append(rel, "..")
		}

		rel = append(rel, target[common:]...)
		rel = zzC17Spell(rng, rel, 1)
		if len(rel) > 0 && rel[0] == "" {
			rel[0] = "."
		}

		return zzC17Loc{Scheme: "none", Abs: false, Segs: rel}
	default:
		sc := []string{"http", "https", "file", "file", "ftp"}[rng.Intn(5)]

		return zzC17Loc{Scheme: sc, Abs: rng.Intn(3) != 0, Segs: zzC17Spell(rng, target, 1)}
	}
}

type zzC17Name struct {
	N  string   `json:"n"`
	Cs []string `json:"cs"`
}

func zzC17Names(sets ...[]string) (ns []zzC17Name) {
	seen := map[string]bool{}
	ns = []zzC17Name{}
	for _, set := range sets {
		for _, n := range set {
			if seen[n] || n == "" || n == "." || n == ".." {
				continue
			}

			seen[n] = true
			cs := []string{}
			for _, r := range n {
				cs = append(cs, string(r))
			}

			ns = append(ns, zzC17Name{N: n, Cs: cs})
		}
	}

	return ns
}

// ------------------------------------------------- operations on an instance

// zzC17Op is one concrete operation on a running instance: either a request
// to a registered handler, or a restart with the current list table plus one
// location that nothing validated (as if the YAML file had been edited).
// Histories are logged as sequences of these, so that a step can be executed
// again together with everything that came before it on the same instance.
type zzC17Op struct {
	Body      map[string]any `json:"body,omitempty"`
	Kind      string         `json:"kind"`
	Path      string         `json:"path,omitempty"`
	InjectURL string         `json:"inject_url,omitempty"`
	White     bool           `json:"white,omitempty"`
}

// zzC17Inst is a server with its data directory; restarts keep the directory.
type zzC17Inst struct {
	srv     *zzC17Srv
	client  *http.Client
	dataDir string
	// pats are the configured patterns; the instance keeps them to itself and
	// hands a copy to every New.
	pats []string
	// scribblePats is what the owner writes over its copies of the pattern
	// list; scribbled is true once it has done so (and it does so again after
	// every restart, to the new server's copies).
	scribblePats []string
	scribbled    bool
}

// scribble is the environment step OwnerMutatesItsCopy: the owner of the
// server overwrites every element of the slice it passed to New and of the
// slice in the configuration copy that WriteDiskConfig hands out.  The
// patterns the server was started with stay the configured ones.
func (in *zzC17Inst) scribble() {
	if len(in.scribblePats) == 0 {
		return
	}

	c := Config{}
	in.srv.d.WriteDiskConfig(&c)
	for _, sl := range [][]string{in.srv.owner, c.SafeFSPatterns} {
		for i := range sl {
			sl[i] = in.scribblePats[i%len(in.scribblePats)]
		}
	}
}

func zzC17NewInst(dataDir string, pats []string, client *http.Client) (in *zzC17Inst, err error) {
	in = &zzC17Inst{dataDir: dataDir, pats: pats, client: client}
	in.srv, err = zzC17NewSrv(dataDir, pats, nil, nil, client)
	if err != nil {
		return nil, err
	}

	in.srv.start()

	return in, nil
}

func (in *zzC17Inst) exec(op zzC17Op) (status int, err error) {
	switch op.Kind {
	case "call":
		status, _ = in.srv.call(http.MethodPost, op.Path, op.Body)

		return status, nil
	case "restart":
		var block, allow []FilterYAML
		dup := false
		for _, x := range in.srv.lists() {
			dup = dup || x.URL == op.InjectURL
			y := FilterYAML{Enabled: x.Enabled, URL: x.URL, Name: "l", Filter: Filter{ID: int(x.ID)}}
			if x.White {
				allow = append(allow, y)
			} else {
				block = append(block, y)
			}
		}

		if !dup {
			inj := FilterYAML{Enabled: true, URL: op.InjectURL, Name: "injected"}
			if op.White {
				allow = append(allow, inj)
			} else {
				block = append(block, inj)
			}
		}

		in.srv.close()
		in.srv, err = zzC17NewSrv(in.dataDir, in.pats, block, allow, in.client)
		if err != nil {
			return 0, err
		}

		in.srv.start()
		if in.scribbled {
			in.scribble()
		}

		return 0, nil
	case "scribble":
		in.scribbled = true
		in.scribble()

		return 0, nil
	default:
		return 0, fmt.Errorf("bad op kind %q", op.Kind)
	}
}

func zzC17Call(path string, body map[string]any) (op zzC17Op) {
	return zzC17Op{Kind: "call", Path: "/control/filtering/" + path, Body: body}
}

// zzC17Delta returns the sentinel numbers stored now that were not in prev.
func zzC17Delta(s *zzC17Srv, prev map[int]bool) (fresh []int, now map[int]bool) {
	now = map[int]bool{}
	fresh = []int{}
	for _, k := range s.leaks() {
		now[k] = true
		if !prev[k] {
			fresh = append(fresh, k)
		}
	}

	return fresh, now
}

// ---------------------------------------------------------------- direction B

// TestZZVerifC17Trace is direction B.
func TestZZVerifC17Trace(t *testing.T) {
	zzC17Quiet()
	out := zzNewWriter(t, "VERIF_OUT")
	defer out.close()

	work, err := filepath.Abs(zzGetenv("VERIF_C17_WORK"))
	if err != nil || zzGetenv("VERIF_C17_WORK") == "" {
		t.Skip("no VERIF_C17_WORK")
	}

	rng := rand.New(rand.NewSource(zzSeed()))
	epochs, stepsPer := 100, 25
	if zzC17Tier() == "thorough" {
		epochs = 900
	}

	h := zzC17NewHTTP()
	defer h.srv.Close()

	baseLoc := zzC17Loc{Scheme: "http", Abs: false, Segs: []string{"zzc17-base.example", "base.txt"}}
	for ep := 0; ep < epochs; ep++ {
		root := filepath.Join(work, "tb", "e"+strconv.Itoa(ep))
		dirs, files := zzC17RandTree(rng)
		rel := func(ps [][]string) (ss []string) {
			for _, p := range ps {
				ss = append(ss, zzC17Key(p))
			}

			return ss
		}

		world, werr := zzC17BuildWorld(root, rel(dirs), rel(files), false)
		if werr != nil {
			t.Fatalf("epoch %d: %v", ep, werr)
		}

		nodes := append(append([][]string{}, dirs...), files...)
		rootSegs := zzC17Segs(root)
		cwdRel := dirs[rng.Intn(len(dirs))]
		cwd := append(append([]string{}, rootSegs...), cwdRel...)
		if err = os.Chdir("/" + zzC17Key(cwd)); err != nil {
			t.Fatalf("chdir: %v", err)
		}

		globs := []zzC17Glob{}
		if rng.Intn(8) != 0 {
			for i, n := 0, 1+rng.Intn(3); i < n; i++ {
				target := append(append([]string{}, rootSegs...), nodes[rng.Intn(len(nodes))]...)
				globs = append(globs, zzC17RandGlob(rng, len(rootSegs), target))
			}
		}

		pats := []string{}
		for _, g := range globs {
			pats = append(pats, world.renderGlob(g, rng))
		}

		// The server's own data directory holds sentinel files as well: it is
		// not special, nothing in it may be read without a matching pattern.
		dataDir := filepath.Join(work, "tb", "d"+strconv.Itoa(ep))
		_ = os.MkdirAll(dataDir, 0o755)
		plantedDirs, plantedFiles := []string{filterDir, "userfilters"}, []string{filterDir + "/x.txt", filterDir + "/77.txt", "x.txt", "userfilters/u.txt"}
		world.addPlanted(plantedDirs, plantedFiles)
		world.dataDir = dataDir
		if err = world.plant(dataDir); err != nil {
			t.Fatalf("planting: %v", err)
		}

		extra := [][]string{zzC17Segs(dataDir), zzC17Segs(filepath.Join(dataDir, filterDir))}
		for _, f := range plantedFiles {
			extra = append(extra, zzC17Segs(filepath.Join(dataDir, f)))
		}

		inst, serr := zzC17NewInst(dataDir, pats, h.client)
		if serr != nil {
			t.Fatalf("epoch %d: patterns %q: %v", ep, pats, serr)
		}

		// What the owner writes over its copies of the pattern list when the
		// history says so: everything up to three levels below the root.
		esc := zzC17EscapeGlob(root)
		scribble := []string{esc + "/*", esc + "/*/*", esc + "/*/*/*"}
		inst.scribblePats = scribble

		nameSets := [][]string{rootSegs, baseLoc.Segs}
		nameSets = append(nameSets, extra...)
		for _, p := range nodes {
			nameSets = append(nameSets, p)
		}

		// Draw the whole history first: the reset line must list every name.
		type step struct {
			act string
			loc zzC17Loc
		}

		hist := []step{{act: "add", loc: baseLoc}}
		for i := 0; i < stepsPer; i++ {
			var act string
			switch x := rng.Intn(100); {
			case x < 35:
				act = "add"
			case x < 55:
				act = "seturl"
			case x < 75:
				act = "refresh"
			case x < 85:
				act = "remove"
			case x < 89:
				act = "scribble"
			default:
				act = "inject"
			}

			st := step{act: act}
			if act != "refresh" && act != "remove" && act != "scribble" {
				st.loc = zzC17RandLoc(rng, world, nodes, cwd, pats, extra)
				nameSets = append(nameSets, st.loc.Segs)
			}

			hist = append(hist, st)
		}

		out.put(map[string]any{"act": "reset", "pats": globs, "cwd": cwd, "names": zzC17Names(nameSets...),
			"concrete": map[string]any{"root": root, "cwd": "/" + zzC17Key(cwd), "patterns": pats,
				"dirs": rel(dirs), "files": rel(files), "scribble": scribble,
				"data_dir": dataDir, "planted_dirs": plantedDirs, "planted_files": plantedFiles}})

		byURL := map[string]zzC17Loc{}
		prevLeaks := map[int]bool{}
		for _, st := range hist {
			_, _ = world.w.drain()
			rec := map[string]any{"act": st.act}
			url := ""
			ls := inst.srv.lists()
			var op zzC17Op
			switch st.act {
			case "add":
				url = world.renderLoc(st.loc, nil)
				op = zzC17Call("add_url", map[string]any{"name": "l", "url": url, "whitelist": rng.Intn(3) == 0})
			case "seturl":
				if len(ls) == 0 {
					continue
				}

				old := ls[rng.Intn(len(ls))]
				url = world.renderLoc(st.loc, nil)
				op = zzC17Call("set_url", map[string]any{
					"url": old.URL, "whitelist": old.White,
					"data": map[string]any{"name": "l", "url": url, "enabled": rng.Intn(6) != 0},
				})
			case "refresh":
				op = zzC17Call("refresh", map[string]any{"whitelist": rng.Intn(2) == 0})
			case "scribble":
				op = zzC17Op{Kind: "scribble"}
			case "remove":
				if len(ls) == 0 {
					continue
				}

				old := ls[rng.Intn(len(ls))]
				url = old.URL
				st.loc = byURL[url]
				op = zzC17Call("remove_url", map[string]any{"url": url, "whitelist": old.White})
			case "inject":
				// Restart with the current lists plus one unvalidated location.
				url = world.renderLoc(st.loc, nil)
				op = zzC17Op{Kind: "restart", InjectURL: url, White: rng.Intn(2) == 0}
			}

			if st.act != "refresh" && st.act != "remove" && st.act != "scribble" {
				byURL[url] = st.loc
			}

			status, xerr := inst.exec(op)
			if xerr != nil {
				t.Fatalf("epoch %d: %s: %v", ep, st.act, xerr)
			}

			real, ovf := world.w.drain()
			if ovf {
				t.Fatalf("inotify overflow")
			}

			opened := [][]string{}
			for _, p := range real {
				opened = append(opened, world.abstract(p))
			}

			lists := []zzC17Loc{}
			listURLs := []string{}
			for _, x := range inst.srv.lists() {
				listURLs = append(listURLs, x.URL)
				if lc, ok := byURL[x.URL]; ok {
					lists = append(lists, lc)
				} else {
					t.Fatalf("list with unknown url %q", x.URL)
				}
			}

			rec["loc"] = st.loc
			if st.act == "refresh" || st.act == "scribble" {
				rec["loc"] = zzC17Loc{Scheme: "none", Segs: []string{}}
			}

			// Only what this step added to the stored lists is attributed to it.
			var fresh []int
			fresh, prevLeaks = zzC17Delta(inst.srv, prevLeaks)
			rec["opened"] = opened
			rec["stored"] = world.marksToPaths(fresh)
			rec["lists"] = lists
			rec["status"] = status
			rec["concrete"] = map[string]any{"url": url, "op": op, "list_urls": listURLs}
			out.put(rec)
		}

		inst.srv.close()
		world.w.close()
		_ = os.RemoveAll(dataDir)
	}
}

// TestZZVerifC17Redo executes a logged history again on a fresh instance:
// VERIF_C17_REDO names a JSON file {"root","cwd","patterns","dirs","files",
// "ops":[op..]}.  The tree is rebuilt if it is gone.  It reports what the LAST
// operation opened and stored, everything before it being the instance's
// history.
func TestZZVerifC17Redo(t *testing.T) {
	zzC17Quiet()
	out := zzNewWriter(t, "VERIF_OUT")
	defer out.close()

	req := struct {
		Root         string    `json:"root"`
		Cwd          string    `json:"cwd"`
		Patterns     []string  `json:"patterns"`
		Dirs         []string  `json:"dirs"`
		Files        []string  `json:"files"`
		Scribble     []string  `json:"scribble"`
		DataDir      string    `json:"data_dir"`
		PlantedDirs  []string  `json:"planted_dirs"`
		PlantedFiles []string  `json:"planted_files"`
		Ops          []zzC17Op `json:"ops"`
	}{}
	b, err := os.ReadFile(zzGetenv("VERIF_C17_REDO"))
	if err != nil {
		t.Skip("no VERIF_C17_REDO")
	}

	if err = json.Unmarshal(b, &req); err != nil || len(req.Ops) == 0 {
		t.Fatalf("bad redo request: %v", err)
	}

	// Always build on a clean slate: same layout, same sentinel numbers.
	_ = os.RemoveAll(req.Root)
	world, err := zzC17BuildWorld(req.Root, req.Dirs, req.Files, false)
	if err != nil {
		t.Fatalf("rebuilding tree: %v", err)
	}
	defer world.w.close()

	if err = os.Chdir(req.Cwd); err != nil {
		t.Fatalf("chdir: %v", err)
	}

	h := zzC17NewHTTP()
	defer h.srv.Close()

	// The same data directory path as in the logged history: locations may
	// point into it.
	dataDir := req.DataDir
	if dataDir == "" {
		dataDir = t.TempDir()
	} else {
		_ = os.RemoveAll(dataDir)
		_ = os.MkdirAll(dataDir, 0o755)
	}

	world.addPlanted(req.PlantedDirs, req.PlantedFiles)
	world.dataDir = dataDir
	if err = world.plant(dataDir); err != nil {
		t.Fatalf("planting: %v", err)
	}

	inst, err := zzC17NewInst(dataDir, req.Patterns, h.client)
	if err != nil {
		t.Fatal(err)
	}

	inst.scribblePats = req.Scribble
	defer func() { inst.srv.close() }()

	prev := map[int]bool{}
	status := 0
	for i, op := range req.Ops {
		if i == len(req.Ops)-1 {
			_, _ = world.w.drain()
			_, prev = zzC17Delta(inst.srv, map[int]bool{})
		}

		status, err = inst.exec(op)
		if err != nil {
			t.Fatalf("op %d: %v", i, err)
		}
	}

	real, _ := world.w.drain()
	if real == nil {
		real = []string{}
	}

	fresh, _ := zzC17Delta(inst.srv, prev)
	stored := []string{}
	for _, k := range fresh {
		stored = append(stored, "/"+zzC17Key(world.markPath(k)))
	}

	out.put(map[string]any{"kind": "redo", "status": status, "opened": real, "stored": stored, "ops": len(req.Ops)})
}

// ------------------------------------------------- direction A, second half:
// walks over the edges of the state machine on one live instance each

type zzC17Step struct {
	Act string     `json:"act"`
	Loc zzC17Loc   `json:"loc"`
	May [][]string `json:"may"`
}

type zzC17WalkIn struct {
	T     string      `json:"t"`
	Cfg   []int       `json:"cfg"`
	Steps []zzC17Step `json:"steps"`
	Var   int64       `json:"var"`
	Idx   int         `json:"idx"`
}

type zzC17StepObs struct {
	Act     string     `json:"act"`
	URL     string     `json:"url"`
	Ops     []zzC17Op  `json:"ops"`
	Opened  [][]string `json:"opened"`
	Stored  [][]string `json:"stored"`
	Status  int        `json:"status"`
	Verdict string     `json:"verdict,omitempty"`
	What    string     `json:"what,omitempty"`
}

// runWalk executes the first upto steps of a walk on a fresh instance and
// judges every step against the edge's bound.  It stops at the first step
// that is not fine and returns its index (-1 if all were).
func (e *zzC17Env) runWalk(wk *zzC17WalkIn, upto int) (obs []zzC17StepObs, at int, kind string, err error) {
	w := e.world
	rng := rand.New(rand.NewSource(wk.Var))
	dd := e.newDataDir()
	defer func() { _ = os.RemoveAll(dd) }()

	w.dataDir = dd
	inst, err := zzC17NewInst(dd, e.patterns(wk.Cfg, rng), e.http.client)
	if err != nil {
		return nil, -1, "", err
	}

	for _, g := range e.tables.Scribble {
		inst.scribblePats = append(inst.scribblePats, w.renderGlob(g, nil))
	}
	defer func() { inst.srv.close() }()

	var matching map[string]bool
	for _, m := range e.tables.Matching {
		if zzC17CfgKey(m.Cfg) == zzC17CfgKey(wk.Cfg) {
			matching = zzC17KeySet(m.Nodes)
		}
	}

	urlOf := map[string]string{}
	render := func(l zzC17Loc) (u string) {
		b, _ := json.Marshal(l)
		u, ok := urlOf[string(b)]
		if !ok {
			u = w.renderLoc(l, rng)
			urlOf[string(b)] = u
		}

		return u
	}

	base := zzC17Call("add_url", map[string]any{"name": "base", "url": zzC17BaseURL, "whitelist": false})
	prev := map[int]bool{}
	for i := 0; i < upto && i < len(wk.Steps); i++ {
		st := wk.Steps[i]
		o := zzC17StepObs{Act: st.Act, Opened: [][]string{}}
		ops := []zzC17Op{}
		switch st.Act {
		case "add":
			o.URL = render(st.Loc)
			ops = append(ops, zzC17Call("add_url", map[string]any{"name": "l", "url": o.URL, "whitelist": rng.Intn(3) == 0}))
		case "seturl":
			// Editing needs a list to edit; the spec's table may be ahead of
			// the real one (it does not decide acceptance), so a list with an
			// http URL, which names no local file, is added when there is none.
			ls := inst.srv.lists()
			if len(ls) == 0 {
				if _, err = inst.exec(base); err != nil {
					return obs, i, "", err
				}

				ls = inst.srv.lists()
			}

			if len(ls) == 0 {
				return obs, i, "", fmt.Errorf("no list to edit")
			}

			old := ls[rng.Intn(len(ls))]
			o.URL = render(st.Loc)
			enabled := rng.Intn(6) != 0
			ops = append(ops, zzC17Call("set_url", map[string]any{
				"url": old.URL, "whitelist": old.White,
				"data": map[string]any{"name": "l", "url": o.URL, "enabled": enabled},
			}))
			if !enabled {
				ops = append(ops, zzC17Call("set_url", map[string]any{
					"url": o.URL, "whitelist": old.White,
					"data": map[string]any{"name": "l", "url": o.URL, "enabled": true},
				}))
			}
		case "inject":
			o.URL = render(st.Loc)
			ops = append(ops, zzC17Op{Kind: "restart", InjectURL: o.URL, White: rng.Intn(2) == 0})
		case "scribble":
			ops = append(ops, zzC17Op{Kind: "scribble"})
		case "refresh":
			ops = append(ops, zzC17Call("refresh", map[string]any{"whitelist": false}),
				zzC17Call("refresh", map[string]any{"whitelist": true}))
		case "remove":
			o.URL = render(st.Loc)
			white := false
			for _, x := range inst.srv.lists() {
				if x.URL == o.URL {
					white = x.White
				}
			}

			ops = append(ops, zzC17Call("remove_url", map[string]any{"url": o.URL, "whitelist": white}))
		default:
			return obs, i, "", fmt.Errorf("bad act %q", st.Act)
		}

		_, _ = w.w.drain()
		for _, op := range ops {
			o.Status, err = inst.exec(op)
			if err != nil {
				return obs, i, "", err
			}
		}

		o.Ops = ops
		real, ovf := w.w.drain()
		for _, p := range real {
			o.Opened = append(o.Opened, w.abstract(p))
		}

		var fresh []int
		fresh, prev = zzC17Delta(inst.srv, prev)
		o.Stored = w.marksToPaths(fresh)

		bound := zzC17KeySet(st.May)
		if ovf {
			o.Verdict, o.What = "instrument", "inotify queue overflow"
		} else if o.Status == -1 {
			o.Verdict, o.What = "panic", "handler panicked"
		}

		for name, set := range map[string][][]string{"opened": o.Opened, "stored": o.Stored} {
			for _, p := range set {
				k := zzC17Key(p)
				if bound[k] || o.Verdict == "bad" {
					continue
				}

				if matching == nil || !matching[k] {
					o.Verdict = "bad"
					o.What = fmt.Sprintf("step %d (%s %s): %s %s, outside the safe patterns", i, st.Act, o.URL, name, k)
				} else {
					o.Verdict = "mismatch"
					o.What = fmt.Sprintf("step %d (%s %s): %s %s, which matches but is not in the spec's set", i, st.Act, o.URL, name, k)
				}
			}
		}

		obs = append(obs, o)
		if o.Verdict != "" {
			return obs, i, o.Verdict, nil
		}
	}

	return obs, -1, "", nil
}

// TestZZVerifC17Walk walks the edges of SafePath.tla's state graph (as
// printed by SafePath.walk.cfg and arranged into walks by the orchestrator),
// one live instance per walk, comparing after every step.  A step that is
// not fine is reproduced by running the walk's prefix again on another fresh
// instance.
func TestZZVerifC17Walk(t *testing.T) {
	if k, _ := strconv.Atoi(zzGetenv("VERIF_C17_SHARDS")); k > 0 {
		zzC17Shards(t, "TestZZVerifC17Walk", k)

		return
	}

	zzC17Quiet()
	out := zzNewWriter(t, "VERIF_OUT")
	defer out.close()

	var e *zzC17Env
	walks, steps, bad, positive, accepted := 0, 0, 0, 0, 0
	perAct := map[string]int{}
	zzReadNDJSON(t, "VERIF_IN", func(line []byte) {
		wk := &zzC17WalkIn{}
		if err := json.Unmarshal(line, wk); err != nil {
			t.Fatalf("bad walk: %v", err)
		}

		if wk.T == "tables" {
			tb := &zzC17Tables{}
			if err := json.Unmarshal(line, tb); err != nil {
				t.Fatalf("bad tables: %v", err)
			}

			e = zzC17Setup(t, tb)

			return
		}

		walks++
		obs, at, kind, err := e.runWalk(wk, len(wk.Steps))
		if err != nil {
			out.put(map[string]any{"kind": "skip", "idx": wk.Idx, "err": err.Error(), "at": at})

			return
		}

		steps += len(obs)
		for _, o := range obs {
			perAct[o.Act]++
			if len(o.Opened) > 0 && o.Verdict == "" {
				positive++
			}

			if o.Status == http.StatusOK && (o.Act == "add" || o.Act == "seturl") {
				accepted++
			}
		}

		if kind == "" {
			return
		}

		obs2, at2, kind2, err2 := e.runWalk(wk, at+1)
		if err2 != nil || kind2 != kind || at2 != at {
			out.put(map[string]any{"kind": "flaky", "first": kind, "second": kind2, "idx": wk.Idx, "at": at,
				"what": obs[len(obs)-1].What})

			return
		}

		if kind == "bad" {
			bad++
		}

		prefix := *wk
		prefix.Steps = wk.Steps[:at+1]
		out.put(map[string]any{"kind": kind, "what": obs2[len(obs2)-1].What, "idx": wk.Idx, "at": at,
			"walk": prefix, "obs": obs2, "patterns": e.patterns(wk.Cfg, nil)})
	})

	if e != nil {
		e.http.srv.Close()
		e.world.w.close()
	}

	out.put(map[string]any{"kind": "summary", "walks": walks, "steps": steps, "bad": bad, "positive": positive,
		"accepted": accepted, "per_act": perAct})
}
