----------------------------- MODULE Dhcp4RefA -----------------------------
(***************************************************************************)
(* G12 correspondence Dhcp4 <-> Dhcp4Ind, root = the ORIGINAL Dhcp4.tla    *)
(* with its own constants; Dhcp4Ind is instantiated with the same          *)
(* constants and GenNameOf = Dhcp4's derived names, variables mapped       *)
(* identically.  TLC checks in every reachable state of Dhcp4:             *)
(*   SameOutcomes   for every action and every argument the outcome set    *)
(*                  (and every guard) is the same in both modules -- both  *)
(*                  modules define an action as "take any member of the    *)
(*                  outcome set", so this is equality of the transition    *)
(*                  relations label by label;                              *)
(*   IndIndInv      the inductive invariant holds (it is not too strong);  *)
(*   IndSafety      Dhcp4Ind!Safety holds;                                 *)
(*   SameInvs       the invariants common to both have the same value;     *)
(* and (Dhcp4RefA.small.cfg, a smaller universe, because evaluating        *)
(* Ind!Next on every one of 1.5 million transitions is too slow)           *)
(*   IndSpec        Dhcp4!Spec => Dhcp4Ind!Spec as a whole.                *)
(***************************************************************************)
EXTENDS Dhcp4

Ind == INSTANCE Dhcp4Ind WITH
         GenNameOf <- [a \in StatAddrs |-> GenName(a)],
         AltNameOf <- [a \in StatAddrs |-> AltName(a)]

ASSUME Ind!ConstOK

SameOutcomes ==
    /\ \A m \in Macs : DiscoverOut(ls, m) = Ind!DiscoverOut(ls, m)
    /\ \A m \in Macs, k \in Kinds, a \in ReqAddrs, h \in ReqHosts :
          RequestOut(ls, m, k, a, h) = Ind!RequestOut(ls, m, k, a, h)
    /\ \A m \in Macs, a \in ReqAddrs :
          /\ DeclineOut(ls, m, a) = Ind!DeclineOut(ls, m, a)
          /\ ReleaseOut(ls, m, a) = Ind!ReleaseOut(ls, m, a)
          /\ RemoveStaticOut(ls, m, a) = Ind!RemoveStaticOut(ls, m, a)
          /\ RemoveStatic4Out(ls, m, a) = Ind!RemoveStatic4Out(ls, m, a)
    /\ TickOut(ls) = Ind!TickOut(ls)
    /\ \A a \in Pool : ExpireOut(ls, a) = Ind!ExpireOut(ls, a) /\ BlockEndOut(ls, a) = Ind!BlockEndOut(ls, a)
    /\ \A m \in Macs, a \in StatAddrs, h \in StaticHosts :
          /\ AddStaticOut(ls, m, a, h) = Ind!AddStaticOut(ls, m, a, h)
          /\ UpdateStaticOut(ls, m, a, h) = Ind!UpdateStaticOut(ls, m, a, h)
    /\ RestartOut(disk) = Ind!RestartOut(disk)
    /\ \A m \in Macs : UpdEnabled(ls, m) = Ind!UpdEnabled(ls, m)
    /\ Statics(ls) = Ind!Statics(ls)
    /\ Kinds = Ind!Kinds /\ ReqAddrs = Ind!ReqAddrs /\ StatAddrs = Ind!StatAddrs

IndIndInv == Ind!IndInvB
IndSafety == Ind!Safety
SameInvs ==
    /\ OneHolderPerAddress = Ind!OneHolderPerAddress
    /\ NoReuseBeforeAnnouncedExpiry = Ind!NoReuseBeforeAnnouncedExpiry
    /\ ReservedClientGetsReservation = Ind!ReservedClientGetsReservation
    /\ OfferWhenFree = Ind!OfferWhenFree
    /\ DynamicInsidePool = Ind!DynamicInsidePool
    /\ RemoveKeepsHeldDynamic = Ind!RemoveKeepsHeldDynamic
    /\ OneLeasePerClient = Ind!OneLeasePerClient
IndSpec == Ind!Spec
IndStaticsStable == [][Ind!ProtocolNext => Ind!StaticsStable]_vars
=============================================================================
