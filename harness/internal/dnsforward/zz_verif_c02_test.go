package dnsforward

// C02 conformance harness.
//
// Direction A (TestZZVerifC02Replay): every line of VERIF_IN is one
// configuration of specs/DnsPipeline.tla (SpecGen02) with the verdict table
// over (query type x upstream answer section): the mock upstream returns the
// concretised answer section, the query goes through
// Server.handleDNSRequest, and the projected outcome (delivered unchanged /
// replaced by the blocking-mode response, reason, original answer kept for
// the query log) must be admissible.
//
// Direction B (TestZZVerifC02Trace): seeded larger configurations and answer
// sections (CNAME chains, several addresses, HTTPS hints with several
// addresses, up to 5 records) recorded for specs/TraceDnsPipeline.tla.

import (
	"encoding/json"
	"math/rand"
	"os"
	"path/filepath"
	"strconv"
	"strings"
	"testing"
)

// zzC02Entry is one entry of a configuration's table: the answer section
// number K (1-based index into the header's list), the query type, the name
// asked, the owner name of every record of the section, the admissible
// outcomes for a first-time question (Out) and for a repeated one (OutR, with
// the response cache on).
type zzC02Entry struct {
	K    int          `json:"k"`
	Qt   string       `json:"qt"`
	Name []string     `json:"name"`
	Own  [][]string   `json:"own"`
	Out  []zzC0102Out `json:"out"`
	OutR []zzC0102Out `json:"outr"`
}

type zzC02Step struct {
	Fail bool        `json:"fail"`
	CI  int          `json:"ci"`
	Cfg zzC0102Cfg   `json:"cfg"`
	Tab []zzC02Entry `json:"tab"`
}

// zzC02Line is the header (record alphabet, answer sections as index
// sequences) or a walk of ONE live server through configurations.
type zzC02Line struct {
	Kind    string      `json:"kind"`
	I       int         `json:"i"`
	RRs     []zzC0102RR `json:"rrs"`
	Answers [][]int     `json:"answers"`
	ProtOff  []zzC0102Out `json:"protoff"`
	ProtOffR []zzC0102Out `json:"protoffr"`
	Steps   []zzC02Step `json:"steps"`
}

type zzC02Bad struct {
	Kind     string       `json:"kind"`
	I        int          `json:"i"`
	S        int          `json:"s"`
	Q        int          `json:"q"`
	Qtype    string       `json:"qtype"`
	Name     []string     `json:"name"`
	Rep      bool         `json:"rep"`
	Ans      []zzC0102RR  `json:"ans"`
	Got      zzC0102Out   `json:"got"`
	Want     []zzC0102Out `json:"want"`
	Concrete string       `json:"concrete"`
	Lists    any          `json:"lists"`
	History  any          `json:"history"`
	Ops      []string     `json:"ops"`
	AddrForm string       `json:"addrform"`
}

func TestZZVerifC02Replay(t *testing.T) {
	idx, n, done := zzC0102Shard(t, "TestZZVerifC02Replay")
	if done {
		return
	}

	w := zzNewWriter(t, "VERIF_OUT")
	defer w.close()

	dir := zzC0102WorkDir(t)
	var hdr zzC02Line
	lineNo, walks, cfgs, evals, bad, reconfs, faults := 0, 0, 0, 0, 0, 0, 0
	zzReadNDJSON(t, "VERIF_IN", func(b []byte) {
		var l zzC02Line
		if err := json.Unmarshal(b, &l); err != nil {
			t.Fatalf("bad vector: %v", err)
		}

		if l.Kind == "hdr02" {
			hdr = l

			return
		}

		lineNo++
		if lineNo%n != idx {
			return
		}

		// Two generators: one for the concretisation and the reconfiguration
		// operations, one for the requests (their number depends on timing
		// when a reconfiguration is waited for), so that a walk is driven
		// with the same operations every time.
		rng := rand.New(rand.NewSource(zzSeed()*1000003 + int64(l.I)))
		rngQ := rand.New(rand.NewSource(zzSeed()*1000003 + int64(l.I) + 500009))
		d := filepath.Join(dir, strconv.Itoa(l.I))
		z, err := zzC0102Build(&l.Steps[0].Cfg, d, rng)
		if err != nil {
			w.put(map[string]any{"kind": "skip", "i": l.I, "configs": len(l.Steps), "err": err.Error()})

			return
		}
		defer func() { z.close(); _ = os.RemoveAll(d) }()

		walks++
		var history []any
		for si := range l.Steps {
			st := &l.Steps[si]
			if si > 0 && l.Steps[si-1].Fail {
				if err = z.heal(); err != nil {
					w.put(map[string]any{"kind": "skip", "i": l.I, "s": si, "configs": len(l.Steps) - si,
						"err": err.Error(), "ops": z.ops})

					return
				}
			}

			if st.Fail {
				var injected bool
				injected, err = z.failedRebuild(rng)
				if err != nil {
					w.put(map[string]any{"kind": "skip", "i": l.I, "s": si, "configs": len(l.Steps) - si,
						"err": err.Error(), "ops": z.ops})

					return
				}
				if injected {
					faults++
				}
			} else if si > 0 {
				if err = z.reconfigure(&st.Cfg, rng); err != nil {
					w.put(map[string]any{"kind": "skip", "i": l.I, "s": si, "configs": len(l.Steps) - si,
						"err": err.Error(), "ops": z.ops})

					return
				}
				reconfs++
			}

			cfgs++
			if st.Fail {
				history = append(history, "a rebuild that fails; nothing changes")
			} else {
				history = append(history, z.texts)
			}
			sends := 1
			if st.Cfg.Cache {
				sends = 2
			}
			for _, e := range st.Tab {
				req := &zzC0102Req{Name: e.Name, Qtype: e.Qt, Client: "c1"}
				ix := hdr.Answers[e.K-1]
				ans := make([]zzC0102RR, len(ix))
				for j, r := range ix {
					ans[j] = hdr.RRs[r-1]
					ans[j].O = e.Own[j]
				}

				for k := 0; k < sends; k++ {
					wantOf := func(rep bool) (want []zzC0102Out) {
						switch {
						case z.protOff && rep && st.Cfg.Cache:
							return hdr.ProtOffR
						case z.protOff:
							return hdr.ProtOff
						case rep && st.Cfg.Cache:
							return e.OutR
						default:
							return e.Out
						}
					}
					o, ok := z.settled(req, ans, rngQ, "", wantOf)
					evals++
					if ok {
						continue
					}
					want := wantOf(o.Rep)

					bad++
					if bad <= 300 {
						w.put(zzC02Bad{
							Kind: "bad", I: l.I, S: si, Q: e.K, Qtype: e.Qt, Name: e.Name, Rep: o.Rep,
							Ans: zzC0102FullRRs(ans), Got: o.Out, Want: want, Concrete: o.Concrete,
							Lists: z.texts, History: history, Ops: z.ops, AddrForm: o.AddrForm,
						})
					}

					break
				}
			}
		}

		if walks <= 2 {
			w.put(map[string]any{"kind": "sample", "i": l.I, "history": history, "ops": z.ops})
		}
	})

	w.put(map[string]any{"kind": "summary", "shard": idx, "walks": walks, "configs": cfgs, "evals": evals,
		"bad": bad, "reconfigurations": reconfs, "faults": faults})
}

// ---------------------------------------------------------------- direction B

var zzC02V4 = []string{"i1", "i2", "sent4"}
var zzC02V6 = []string{"i6", "j6", "sent6"}

func zzC02RandRule(rng *rand.Rand, names [][]string, id int) (r zzC0102Rule) {
	r = zzC0102Rule{
		ID: id, Dt: "none", Cl: "none", Da: [][]string{},
		Place: []string{"allow", "block", "block", "custom", "custom", "offblock"}[rng.Intn(6)],
		Kind:  []string{"block", "block", "allow"}[rng.Intn(3)],
		Imp:   rng.Intn(4) == 0,
	}

	if rng.Intn(2) == 0 {
		tok := append(append([]string{}, zzC02V4[:2]...), zzC02V6[:2]...)[rng.Intn(4)]
		r.Tgt = zzC0102Host{IsIP: true, N: []string{tok}}
		r.Pat = []string{"domain", "exact"}[rng.Intn(2)]
	} else {
		r.Tgt = zzC0102Host{N: names[rng.Intn(len(names))]}
		r.Pat = []string{"domain", "domain", "exact", "wild"}[rng.Intn(4)]
		if rng.Intn(8) == 0 {
			r.Kind, r.Pat, r.Imp = "hosts", "exact", false
			r.IP = []string{"r1", "r6", "null4"}[rng.Intn(3)]

			return r
		}
	}

	if rng.Intn(5) == 0 {
		r.Cl = []string{"only", "except"}[rng.Intn(2)]
		r.Clv = []string{"ip", "cidr", "name"}[rng.Intn(3)]
	}

	if rng.Intn(6) == 0 {
		r.Da = append(r.Da, names[rng.Intn(len(names))])
	}

	return r
}

func TestZZVerifC02Trace(t *testing.T) {
	w := zzNewWriter(t, "VERIF_OUT")
	defer w.close()

	nCfg, _ := strconv.Atoi(os.Getenv("VERIF_N"))
	if nCfg == 0 {
		nCfg = 100
	}

	only := zzC0102Only()
	dir := zzC0102WorkDir(t)
	for ci := 0; ci < nCfg; ci++ {
		if only != nil && !only[ci] {
			continue
		}

		rng := rand.New(rand.NewSource(zzSeed()*104729 + int64(ci)))
		qname := zzC01RandName(rng, 3)
		t1 := zzC01RandName(rng, 4)
		names := [][]string{qname, t1, append([]string{"cdn"}, t1...), zzC01RandName(rng, 3), t1[len(t1)-1:]}

		randRules := func() (rules []zzC0102Rule) {
			rules = []zzC0102Rule{}
			nr := rng.Intn(13)
			if rng.Intn(6) == 0 {
				nr = 0
			}
			for i := 0; i < nr; i++ {
				rules = append(rules, zzC02RandRule(rng, names, i+1))
			}

			return rules
		}

		cfg := zzC0102Cfg{Rules: randRules()}
		cfg.Mode = []string{"default", "refused", "nxdomain", "null_ip", "custom_ip"}[rng.Intn(5)]
		cfg.Prot = []string{"on", "on", "on", "on", "off", "paused", "expired"}[rng.Intn(7)]
		cfg.Filt = rng.Intn(6) != 0
		cfg.Svc = "none"
		cfg.AAAAOff = rng.Intn(4) == 0
		cfg.Cache = rng.Intn(3) == 0
		cfg.Cust = 1 + rng.Intn(2)
		cfg.Client = zzC0102Client{Known: rng.Intn(2) == 0, Filt: true, Svc: "inherit"}
		if cfg.Client.Known {
			cfg.Client.UseOwn = rng.Intn(2) == 0
			cfg.Client.Filt = rng.Intn(3) != 0
		}

		d := filepath.Join(dir, "t"+strconv.Itoa(ci))
		z, err := zzC0102Build(&cfg, d, rng)
		if err != nil {
			t.Fatalf("building %s: %v", zzC0102JSON(cfg), err)
		}

		// owner names: the question name, a CNAME target, an unrelated name
		owners := [][]string{{}, {}, names[1], names[2], names[3], {"u", "example"}}
		qn := 0
		cur := cfg
		for step, steps := 0, 1+rng.Intn(3); step < steps; step++ {
			if step > 0 {
				next := cur
				next.Rules = randRules()
				if rng.Intn(3) == 0 {
					kept := []zzC0102Rule{}
					for _, r := range next.Rules {
						if r.Place != "allow" {
							kept = append(kept, r)
						}
					}
					next.Rules = kept
				}
				next.Mode = []string{"default", "refused", "nxdomain", "null_ip", "custom_ip", "custom_ip"}[rng.Intn(6)]
				next.Cust = 1 + rng.Intn(2)
				if err = z.reconfigure(&next, rng); err != nil {
					t.Fatalf("reconfiguring: %v\n%s", err, strings.Join(z.ops, "\n"))
				}
				if err = z.quiesce(step); err != nil {
					// Give this server up; direction A reports reconfigurations
					// that do not take effect.
					w.put(map[string]any{"ev": "stuck", "ci": ci, "err": err.Error()})

					break
				}
				cur = next
			}

			logged := cur
			if z.protOff {
				// the flag was set during a running pause and the server
				// reports that the pause still holds (see setProt)
				logged.Prot = "paused"
			}
			w.put(map[string]any{"ev": "cfg", "ci": ci, "step": step, "cfg": logged, "lists": z.texts})
			for qi := 0; qi < 20; qi++ {
				var ans []zzC0102RR
				for k, na := 0, rng.Intn(6); k < na; k++ {
					own := owners[rng.Intn(len(owners))]
					switch rng.Intn(6) {
					case 0, 1:
						ans = append(ans, zzC0102RR{T: "CNAME", O: own, N: names[1+rng.Intn(3)]})
					case 2:
						ans = append(ans, zzC0102RR{T: "A", O: own, A: zzC02V4[rng.Intn(3)]})
					case 3:
						ans = append(ans, zzC0102RR{T: "AAAA", O: own, A: zzC02V6[rng.Intn(3)]})
					case 4:
						rr := zzC0102RR{T: "HTTPS", O: own}
						for j, m := 0, rng.Intn(3); j < m; j++ {
							rr.H4 = append(rr.H4, zzC02V4[rng.Intn(3)])
						}
						for j, m := 0, rng.Intn(3); j < m; j++ {
							rr.H6 = append(rr.H6, zzC02V6[rng.Intn(3)])
						}
						ans = append(ans, rr)
					default:
						ans = append(ans, zzC0102RR{T: "TXT", O: own})
					}
				}
				if rng.Intn(3) == 0 {
					// any order: reversed sections too
					for i, j := 0, len(ans)-1; i < j; i, j = i+1, j-1 {
						ans[i], ans[j] = ans[j], ans[i]
					}
				}

				qts := []string{"A", "HTTPS", "AAAA"}
				if cfg.AAAAOff {
					qts = qts[:2]
				}

				// With the cache on every request asks its own name under
				// the queried name (a cache answers by question; the
				// upstream's answer differs from request to request).
				name := qname
				if cfg.Cache {
					qn++
					name = append([]string{"n" + strconv.Itoa(qn)}, qname...)
				}
				req := zzC0102Req{Name: name, Qtype: qts[rng.Intn(len(qts))], Client: []string{"c1", "c1", "c2"}[rng.Intn(3)],
					Cid: []string{"", "", "", "x", "kid"}[rng.Intn(5)]}
				sends := 1
				if cfg.Cache {
					sends = 2
				}
				for k := 0; k < sends; k++ {
					o := z.query(&req, ans, rng, "")
					w.put(map[string]any{"ev": "q", "req": req, "ans": zzC0102FullRRs(ans), "rep": o.Rep,
						"obs": o.Out, "concrete": o.Concrete})
				}
			}
		}

		z.close()
		_ = os.RemoveAll(d)
	}
}
