SPECIFICATION Spec
CONSTANTS
  W = 4
  LowBits = 1
  SvcDomains <- AllSvcDomains
  Svc2Domains <- AllSvcDomains
