CONSTANT Design = "intended"
SPECIFICATION Spec
INVARIANTS NoIgnoredLogged NoIgnoredCounted AnonStored AnonReported SearchNames SearchClientsIdentifiable OracleConsistent
