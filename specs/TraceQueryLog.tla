--------------------------- MODULE TraceQueryLog ---------------------------
(***************************************************************************)
(* Direction B for C07.  trace.ndjson is the log of one seeded random      *)
(* history that the Go driver (TestZZVerifC07Trace) ran against the real   *)
(* query log: one line per call, with the arguments in the vocabulary of   *)
(* QueryLog.tla, the abstracted reply of GET /control/querylog for         *)
(* searches, and a cheap projection of the real state after the call       *)
(* (<<length, first ts, last ts>> of the ring buffer and of the two files, *)
(* the flags, the number of Add calls).                                    *)
(*                                                                         *)
(* The trace spec takes QueryLog's own actions (RecordE, Enc, App,         *)
(* AutoFlush, Rotate, Clear, SetConf, Restart) with the logged arguments   *)
(* and requires the spec's next state to project onto the logged           *)
(* projection; a search line must carry a reply that QueryLog!Admissible   *)
(* admits in the current state.  An inadmissible search does not change    *)
(* the state, so validation goes on and all such lines are collected in    *)
(* `bad' (each with the reply the spec fixes and the known-defect          *)
(* signature, for classification).  A line whose action is not enabled or  *)
(* whose projection no successor matches ends the validation (`stuck').    *)
(***************************************************************************)
EXTENDS QueryLog

Trace == TLCEval(ndJsonDeserialize("trace.ndjson"))   \* TLCEval: read the file once

VARIABLES l, bad
tvars == <<mem, cur, rot, batch, flushPending, memSize, fileEnabled, enabled, anon, ign, clock, pal, flight,
           recorded, inScope, lastReply, l, bad>>

Compact(q) == IF q = <<>> THEN <<0, 0, 0>> ELSE <<Len(q), q[1].ts, q[Len(q)].ts>>

(* The logged projection describes the spec's state.                        *)
ProjOK(s, m, c, r, fp, ms, en, an, ig, ck) ==
    /\ s.mem = Compact(m) /\ s.cur = Compact(c) /\ s.rot = Compact(r)
    /\ s.fp = fp /\ s.ms = ms /\ s.en = en /\ s.an = an /\ s.ig = ig /\ s.ck = ck

TInit ==
    /\ Trace[1].ev = "init"
    /\ mem = <<>> /\ cur = <<>> /\ rot = <<>> /\ batch = <<>> /\ flushPending = FALSE
    /\ memSize = Trace[1].ms /\ fileEnabled = (Trace[1].en = 1)
    /\ enabled = TRUE /\ anon = FALSE /\ ign = FALSE /\ clock = 0 /\ pal = 0
    /\ recorded = <<>> /\ inScope = TRUE /\ flight = <<>> /\ lastReply = [st |-> "none"]
    /\ l = 2 /\ bad = {}

Call(e) ==
    \/ e.ev = "rec"       /\ RecordE(e.name, e.cli, e.reason)
    \/ e.ev = "recn"      /\ RecordMany(e.n, e.name, e.cli, e.reason)
    \/ e.ev = "burst"     /\ Burst(e.tss, e.name, e.cli, e.reason)
    \/ e.ev = "flush"     /\ Flush
    \/ e.ev = "flushfail" /\ FlushFails
    \/ e.ev = "autoflushfail" /\ AutoFlushFails
    \/ e.ev = "autoflush" /\ AutoFlush
    \/ e.ev = "rotate"    /\ Rotate
    \/ e.ev = "rotcheck"  /\ UNCHANGED vars
    \/ e.ev = "clear"     /\ Clear
    \/ e.ev = "conf"      /\ SetConf(e.en = 1, e.an = 1, e.ig = 1)
    \/ e.ev = "restart"   /\ Restart(e.ms)

(* The automatic flush runs in a goroutine of its own: the driver cannot     *)
(* sample the state between the Add that requested it and its completion.   *)
(* When the spec says the Add requested a flush, the projection logged with *)
(* that Add is therefore not compared; the next line must be the completed  *)
(* flush (nothing else is enabled while it is pending) and is compared.     *)
TCall ==
    /\ l <= Len(Trace) /\ Trace[l].ev # "search"
    /\ flushPending => Trace[l].ev \in {"autoflush", "autoflushfail"}
    /\ Call(Trace[l])
    /\ \/ Trace[l].ev = "rec" /\ flushPending'
       \/ ProjOK(Trace[l].s, mem', cur', rot', flushPending', memSize', enabled', anon', ign', clock')
    /\ l' = l + 1 /\ UNCHANGED bad

(* While an automatic flush is pending the real driver does not search;     *)
(* a search line is judged in the quiescent state it was made in.           *)
TSearch ==
    /\ l <= Len(Trace) /\ Trace[l].ev = "search"
    /\ Quiescent
    /\ LET e  == Trace[l]
           ok == Admissible(e.p, Log, Disk, [st |-> e.r.st, data |-> e.r.data, oldest |-> e.r.oldest])
       IN /\ bad' = IF ok THEN bad ELSE bad \cup {l}
          /\ IF ok THEN TRUE ELSE PrintT(<<"@@V", ToJson([k |-> "bad", line |-> l, want |-> Q(e.p)])>>)
    /\ l' = l + 1
    /\ UNCHANGED vars

Verdict(stuckAt) ==
    PrintT(<<"@@V", ToJson([k |-> "verdict", n |-> Len(Trace), stuck |-> stuckAt, bad |-> bad,
                            at |-> [mem |-> Compact(mem), cur |-> Compact(cur), rot |-> Compact(rot),
                                    fp |-> flushPending, ms |-> memSize, en |-> enabled, an |-> anon,
                                    ck |-> clock, batch |-> Compact(batch)]])>>)

TDone ==
    /\ l = Len(Trace) + 1
    /\ Verdict(0)
    /\ l' = l + 1 /\ UNCHANGED <<vars, bad>>

TStuck ==
    /\ l <= Len(Trace)
    /\ ~ENABLED (TCall \/ TSearch)
    /\ Verdict(l)
    /\ l' = Len(Trace) + 2 /\ UNCHANGED <<vars, bad>>

TNext == TCall \/ TSearch \/ TDone \/ TStuck
TSpec == TInit /\ [][TNext]_tvars

(* The spec's own invariants keep holding along the validated history.      *)
TInv == NothingLost /\ Ordered
=============================================================================
