SPECIFICATION TSpec
CONSTANTS
  Limits <- TLimits
  MaxLim = 8760
  NCats = 5
  MaxLive = 1000000
  MaxTick = 1
  DayLen = 24
  DailyAbove = 7
  EmitEdges = FALSE
INVARIANTS TypeOK CountedOnceInItsHour ExactlyOneCategory Conservation OldNotReported
