---------------------------- MODULE FilterLists ----------------------------
(***************************************************************************)
(* G07, exhaustive state graph.                                            *)
(*                                                                         *)
(* A fresh installation (empty table, no custom rules, filtering on) to    *)
(* which ALL histories of admin requests over a small universe are         *)
(* applied: add_url, remove_url, set_url (rename / new URL / enable /      *)
(* disable, also aimed at the wrong side or at lists that are not there),  *)
(* set_rules, config, restart -- against a list server that serves, per    *)
(* download, one of Served.  The graph is closed under these requests, so  *)
(* there is no bound on the length of a history; the only bound is MaxId   *)
(* identifiers per process life time (add_url of a new list is not         *)
(* enumerated when they are used up; a restart frees the retired ones).    *)
(*                                                                         *)
(* TLC asserts the statement's step predicates on every transition and     *)
(* emits every transition as an edge                                       *)
(*     [src, act, dst, ok, dl, obs]                                        *)
(* which the Go harness walks on a real DNSFilter through the real         *)
(* registered handlers (edge-covering tours from a fresh data directory),  *)
(* comparing after EVERY step: the reply class, GET /control/filtering/    *)
(* status, the files in data/filters, the ids, and the verdicts of         *)
(* GET /control/filtering/check_host and of DNSFilter.CheckHost for the    *)
(* probe names.                                                            *)
(*                                                                         *)
(* `blank` (is a body without rules a valid list?) is part of the state    *)
(* and never changes: the graph has one component per policy in            *)
(* BlankPolicies, and the orchestrator walks the component of the policy   *)
(* it measured on the real add_url.                                        *)
(*                                                                         *)
(* Forget = TRUE is the negative control: a process that, at a restart,    *)
(* forgets the ids of the lists in its table as well (that is what seeding *)
(* the id generator from the clock alone amounts to when the restart comes *)
(* within the second); UniqueIds must then be violated.                    *)
(***************************************************************************)
EXTENDS FilterListsCore, Json

CONSTANTS Sides,          \* subset of {"b", "a"}
          Served,         \* subset of {"cA", "cB", "blank", "fail"}
          UserSets,       \* the sets of custom rules set_rules may install
          Switch,         \* TRUE: /control/filtering/config toggles the global switch
          Bad,            \* TRUE: requests with an invalid URL
          Aimless,        \* TRUE: also the requests that aim at no list (duplicate add_url, remove_url /
                          \* set_url of a URL that is not in the table or is on the other side)
          MaxId,          \* identifiers per process life time
          BlankPolicies,  \* subset of BOOLEAN
          Forget          \* negative control, see above

VARIABLE S
vars == <<S>>

N1 == CHOOSE n \in Names : TRUE    \* a representative name

Free(T) == (1 .. MaxId) \ T.used
NextId(T) == CHOOSE i \in Free(T) : \A j \in Free(T) : i <= j

A0(a) == Act(a, "-", "-", "-", "-", FALSE, "-", {}, TRUE)

\* The requests enumerated in state T.  A behaviour of the list server is
\* chosen only where a download happens (otherwise "-").
Adds(T) ==
    {[A0("add") EXCEPT !.url = u, !.side = s, !.name = n, !.beh = b] :
        u \in {v \in Urls : ~T.tab[v].p /\ Free(T) # {}}, s \in Sides, n \in Names, b \in Served}
    \cup {[A0("add") EXCEPT !.url = u, !.side = s, !.name = N1] :
        u \in (IF Aimless THEN Present(T) ELSE {}), s \in Sides}     \* duplicates
    \cup (IF Bad THEN {[A0("add") EXCEPT !.url = BadUrl, !.side = s, !.name = N1] : s \in Sides}
                 ELSE {})

Aims(T, u, s) == T.tab[u].p /\ T.tab[u].side = s
Removes(T) == {[A0("remove") EXCEPT !.url = p[1], !.side = p[2]] :
                  p \in {q \in Urls \X Sides : Aimless \/ Aims(T, q[1], q[2])}}

SetUrls(T) ==
    UNION {
        IF Aims(T, u, s)
        THEN {[A0("seturl") EXCEPT !.url = u, !.side = s, !.nurl = nu, !.name = n, !.en = e, !.beh = b] :
                 nu \in Urls \cup (IF Bad THEN {BadUrl} ELSE {}), n \in Names, e \in BOOLEAN,
                 b \in Served \cup {"-"}}
        ELSE IF Aimless THEN {[A0("seturl") EXCEPT !.url = u, !.side = s, !.nurl = u, !.name = N1, !.en = TRUE]}
        ELSE {}
        : u \in Urls, s \in Sides}

\* keep a behaviour exactly where the request downloads
Shaped(T, act) == LET r == Apply(T, act, 0) IN (act.beh = "-") <=> (r.dl = "-")

Others(T) ==
    {[A0("rules") EXCEPT !.rules = U] : U \in UserSets}
    \cup (IF Switch THEN {[A0("config") EXCEPT !.en = e] : e \in BOOLEAN} ELSE {})
    \cup {A0("restart")}

Requests(T) == {a \in Adds(T) \cup SetUrls(T) : Shaped(T, a)} \cup Removes(T) \cup Others(T)

------------------------------------------------------------------------------
Emit(act, r) ==
    PrintT(<<"@@V", ToJson([src |-> S, act |-> act, dst |-> r.st, ok |-> r.ok, dl |-> r.dl,
                            obs |-> Obs(r.st)])>>)

\* The statement, asserted on EVERY generated transition.
StepProps(act, r) ==
    /\ Assert(RefusedIsNoOp(S, r), "RefusedIsNoOp")
    /\ Assert(FreshId(S, act, r.st), "FreshId")
    /\ Assert(KeepsIdentity(S, act, r.st), "KeepsIdentity")
    /\ Assert(RemoveRemoves(S, act, r.st), "RemoveRemoves")
    /\ Assert(Forget \/ RestartKeeps(S, act, r.st), "RestartKeeps")
    /\ Assert(OthersKeepTable(S, act, r.st), "OthersKeepTable")

Init == S \in {S0(b) : b \in BlankPolicies}

Step(act) ==
    LET nid == IF Free(S) = {} THEN 0 ELSE NextId(S)
        r0  == Apply(S, act, nid)
        r   == IF Forget /\ act.a = "restart" THEN [r0 EXCEPT !.st.used = {}] ELSE r0
    IN /\ S' = r.st
       /\ Emit(act, r)
       /\ Forget \/ StepProps(act, r)

Next == \E act \in Requests(S) : Step(act)
Spec == Init /\ [][Next]_vars

------------------------------------------------------------------------------
InvUniqueIds == Forget \/ UniqueIds(S)
\* the negative control checks this one without the escape
InvUniqueIdsStrict ==
    /\ \A u, v \in Present(S) : u # v => S.tab[u].id # S.tab[v].id
    /\ \A u \in Present(S) : S.tab[u].id > CustomId

\* Named actions, only so that TLC's coverage report shows which kinds of
\* requests were taken (vacuity check of the orchestrator).
NAdd     == \E act \in {a \in Requests(S) : a.a = "add"}     : Step(act)
NRemove  == \E act \in {a \in Requests(S) : a.a = "remove"}  : Step(act)
NSetUrl  == \E act \in {a \in Requests(S) : a.a = "seturl"}  : Step(act)
NRules   == \E act \in {a \in Requests(S) : a.a = "rules"}   : Step(act)
NConfig  == \E act \in {a \in Requests(S) : a.a = "config"}  : Step(act)
NRestart == \E act \in {a \in Requests(S) : a.a = "restart"} : Step(act)
NextNamed == NAdd \/ NRemove \/ NSetUrl \/ NRules \/ NConfig \/ NRestart
SpecNamed == Init /\ [][NextNamed]_vars
=============================================================================
