SPECIFICATION Spec
CONSTANTS
  Macs = {"m1", "m2"}
  Pool = {1, 2}
  Outs = {3}
  GW = 0
  Far = 4
  ReqHosts = {"", "g2", "bad"}
  BadHosts = {"bad"}
  StaticHosts = {"", "h1"}
  MaxStatic = 1
  LeaseT = 1
INVARIANTS
  SameOutcomes IndIndInv IndSafety SameInvs
PROPERTIES IndSpec IndStaticsStable
