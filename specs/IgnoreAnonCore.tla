--------------------------- MODULE IgnoreAnonCore ---------------------------
(***************************************************************************)
(* C08 -- the decision procedures of the pipeline's tail stage, written    *)
(* from the statement of the property:                                     *)
(*                                                                         *)
(*   "Queries for names on the query-log (resp. statistics) ignore list,   *)
(*    and queries from clients marked to be ignored, are never recorded    *)
(*    in the query log (resp. statistics) ... and the log API does not     *)
(*    return entries whose name or client is currently ignored.  When      *)
(*    client-IP anonymisation is on, every client address stored or        *)
(*    reported has its last 16 bits (IPv4) or 80 bits (IPv6) zeroed."      *)
(*                                                                         *)
(* The module is free of variables so that the exhaustive model            *)
(* (IgnoreAnon.tla) and trace validation (TraceIgnoreAnon.tla) evaluate    *)
(* one and the same text.                                                  *)
(*                                                                         *)
(* Vocabulary                                                              *)
(*   name     sequence of lower-case labels, <<>> is the root "."          *)
(*   pattern  [k |-> "plain"|"domain"|"wild"|"root", n |-> name]           *)
(*            plain  = "a.com"     that name only                          *)
(*            domain = "||a.com^"  the name and all its subdomains         *)
(*            wild   = "*.a.com"   proper subdomains only                  *)
(*            root   = "|.^"       the root name only                      *)
(*   address  [fam |-> "v4"|"v6"|"m4", bits |-> <<0/1 ...>>] -- a bit      *)
(*            vector of width W; the LOW LowBits bits of the vector are    *)
(*            the part anonymisation must zero (the Go harness embeds the  *)
(*            vector so that they are exactly the real low 16 / 80 bits).  *)
(*            "m4" is the IPv4-mapped IPv6 form of a v4 host (the same     *)
(*            host, also when a client is IDENTIFIED by that spelling);    *)
(*            "z6" is a link-local IPv6 address with a zone (fe80::x%eth0):*)
(*            sender and identifier carry the same zone.                   *)
(*   client   the single persistent client of a configuration:             *)
(*            [kind |-> "none"] | [kind |-> "ip", addr] |                  *)
(*            [kind |-> "cidr", fam, bits (a prefix)] |                    *)
(*            [kind |-> "mac", addr (the address the MAC's lease is for)] |*)
(*            [kind |-> "cid", cid]                                        *)
(*   config   [ignQ, ignS (sets of patterns), client, flagQ, flagS,        *)
(*             anon, qlogOn, statsOn, refuseAny, extra (further persistent *)
(*             clients [id, flagQ, flagS]; the most specific one owns a    *)
(*             sender)]                                                    *)
(*   query    [name, addr, cid, qt]                                        *)
(***************************************************************************)
EXTENDS Sequences, Naturals, FiniteSets

CONSTANT LowBits    \* how many low bits of an abstract address are anonymised

Root == <<>>

LabelSuffix(s, t) == Len(s) <= Len(t) /\ SubSeq(t, Len(t) - Len(s) + 1, Len(t)) = s
BitPrefix(s, t) == Len(s) <= Len(t) /\ SubSeq(t, 1, Len(s)) = s

\* ------------------------------------------------------------ ignore lists
PatMatch(p, n) ==
    CASE p.k = "plain"  -> n # Root /\ n = p.n
      [] p.k = "domain" -> p.n # Root /\ LabelSuffix(p.n, n)
      [] p.k = "wild"   -> Len(n) > Len(p.n) /\ LabelSuffix(p.n, n)
      [] p.k = "root"   -> n = Root
      [] OTHER          -> FALSE

IgnoreMatch(list, n) == \E p \in list : PatMatch(p, n)

\* -------------------------------------------------------------- addresses
Zeros(k) == [i \in 1..k |-> 0]

\* Anonymisation: the low LowBits bits are zeroed, nothing else is required.
Anon(a) == [a EXCEPT !.bits = SubSeq(a.bits, 1, Len(a.bits) - LowBits) \o Zeros(LowBits)]
IsAnon(a) == a = Anon(a)

\* A 4-in-6 address denotes the v4 host it embeds.
Plain(a) == IF a.fam = "m4" THEN [a EXCEPT !.fam = "v4"] ELSE a

\* ---------------------------------------------------------------- clients
\* Is the sender (address a, ClientID cid) the persistent client P?
IdentsBy(P, a, cid) ==
    CASE P.kind = "none" -> FALSE
      [] P.kind = "ip"   -> Plain(a) = Plain(P.addr)
      [] P.kind = "mac"  -> Plain(a) = Plain(P.addr)
      [] P.kind = "cidr" -> Plain(a).fam = P.fam /\ BitPrefix(P.bits, Plain(a).bits)
      [] P.kind = "cid"  -> cid # "" /\ cid = P.cid
      [] OTHER           -> FALSE

Idents(P, q) == IdentsBy(P, q.addr, q.cid)

\* The registry of persistent clients of a configuration: the primary client
\* with the configuration's two flags, plus the extra clients (each a record
\* [id, flagQ, flagS] with its own fixed flags).
Registry(c) == (IF c.client.kind = "none" THEN {}
                ELSE {[id |-> c.client, flagQ |-> c.flagQ, flagS |-> c.flagS]}) \cup c.extra

\* Several persistent clients may claim a sender; it belongs to the most
\* specific one: ClientID, exact address, MAC, then the longest subnet.
Rank(P) == CASE P.kind = "cid"  -> 1000
             [] P.kind = "ip"   -> 900
             [] P.kind = "mac"  -> 800
             [] P.kind = "cidr" -> Len(P.bits)
             [] OTHER           -> 0
Claimants(c, a, cid) == {x \in Registry(c) : IdentsBy(x.id, a, cid)}
Owners(c, a, cid) == {x \in Claimants(c, a, cid) : \A y \in Claimants(c, a, cid) : Rank(y.id) <= Rank(x.id)}

\* Is the sender (address a, ClientID cid) a client marked to be ignored by
\* the query log (w = "q") / the statistics (w = "s")?
IgnBy(c, w, a, cid) == \E x \in Owners(c, a, cid) : IF w = "q" THEN x.flagQ ELSE x.flagS

\* What is written for the client address of a query recorded under
\* configuration c (anonymisation may be switched at run time; what counts is
\* the setting in force when the record is made).
StoredAddr(c, q) == IF c.anon THEN Anon(q.addr) ELSE q.addr

\* ----------------------------------------------- the statement's decisions
IgnoredClientQ(c, q) == IgnBy(c, "q", q.addr, q.cid)
IgnoredClientS(c, q) == IgnBy(c, "s", q.addr, q.cid)

ShouldLog(c, q)   == ~IgnoredClientQ(c, q) /\ ~IgnoreMatch(c.ignQ, q.name)
ShouldCount(c, q) == ~IgnoredClientS(c, q) /\ ~IgnoreMatch(c.ignS, q.name)

\* sa = the address as stored.  Looked up by it, the sender is no longer an
\* ignored client although it is one ...
Lost(c, w, q, sa) == IgnBy(c, w, q.addr, q.cid) /\ ~IgnBy(c, w, sa, q.cid)
\* ... or is an ignored client although it is none.  The statement forbids
\* recording ignored clients; it does not demand that everybody else IS
\* recorded, so over-blocking is admissible ("any").
Coll(c, w, q, sa) == ~IgnBy(c, w, q.addr, q.cid) /\ IgnBy(c, w, sa, q.cid)

LostByAnon(c, q) == Lost(c, "q", q, StoredAddr(c, q))

\* Why a query must not be recorded / returned: N = name on the list,
\* C = client marked, A = client marked and only identifiable by the address
\* bits that are not in the stored address.
Reasons(ign, w, c, q, sa) ==
    (IF IgnoreMatch(ign, q.name) THEN "N" ELSE "")
      \o (IF IgnBy(c, w, q.addr, q.cid) THEN (IF Lost(c, w, q, sa) THEN "A" ELSE "C") ELSE "")

\* Verdicts: "no:<stage>:<reasons>" must be absent; "yes" expected present;
\* "any" both admissible: the store is switched off (the statement does not
\* say a disabled log records nothing -- only that ignored things are never
\* recorded), refused ANY queries, over-blocking.
RecVerdict(ign, w, on, c, q) ==
    LET sa == StoredAddr(c, q)
        r  == Reasons(ign, w, c, q, sa) IN
    IF r # "" THEN "no:R:" \o r
    ELSE IF ~on \/ (q.qt = "ANY" /\ c.refuseAny) \/ Coll(c, w, q, sa) THEN "any"
    ELSE "yes"

LogVerdict(c, q)   == RecVerdict(c.ignQ, "q", c.qlogOn, c, q)
CountVerdict(c, q) == RecVerdict(c.ignS, "s", c.statsOn, c, q)

\* An entry recorded under configuration rec, looked at through the log API
\* under the current configuration cur.  It can only be re-identified by what
\* was stored under rec.
ApiVerdict(rec, cur, q) ==
    LET sa == StoredAddr(rec, q)
        r  == LogVerdict(rec, q)
        s  == Reasons(cur.ignQ, "q", cur, q, sa) IN
    IF r \notin {"yes", "any"} THEN r
    ELSE IF s # "" THEN "no:S:" \o s
    ELSE IF r = "any" \/ Coll(cur, "q", q, sa) THEN "any"
    ELSE "yes"

IsNo(v) == v \notin {"yes", "any"}
=============================================================================
