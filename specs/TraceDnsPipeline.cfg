SPECIFICATION Spec
