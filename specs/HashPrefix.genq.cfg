\* As HashPrefix.gen.cfg with a smaller service database universe (quick tier).
SPECIFICATION Spec
CONSTANTS
  T = 2
  DbIds = {"x.com", "w.y.com", "a.x.com", "io"}
  EmitOn = TRUE
VIEW GraphView
INVARIANTS TypeOK CacheTransparent
