"""C11 -- every admin endpoint requires a valid session or credentials once a user exists.

Pipeline (DESIGN.md section 4 "C11"):

 1. tools/c11_routes (go/ast) extracts every route registration of the current
    working tree -> routes.json + RoutesGenerated.tla (written into ctx.work).
 2. TLC checks Routes.tla over the extracted routes (all states x all routes x
    all request shapes) against the requirement written from the statement.
    A violated invariant names the route in the counterexample.
 3. TLC enumerates the verdict tables; they are flattened to request vectors
    and replayed into the real mux of two arenas (R: configured installation
    booted like run(); S: first run + effect of the install wizard, probe
    handlers) -- direction A.  The census of the real mux is compared with the
    extracted pattern set.
 4. Seeded random traffic recorded from arena R is validated by
    TraceRoutes.tla -- direction B.
"""
import concurrent.futures
import hashlib
import json
import os
import random
import re
import subprocess

import vlib

PKG = "internal/home"
FILES = ["zz_verif_common_test.go", "zz_verif_c11_test.go"]
TOOL = os.path.join(vlib.VERIF, "tools", "c11_routes")
GOOS = "linux,windows,darwin,freebsd,openbsd"
ADMIN_MUX = "globalContext.mux"
REQS = ("NoUnauthenticatedHandler", "MutatingNeedsMethodAndJSON", "PublicReachable", "AuthServed")


# ------------------------------------------------------------------ extractor
def extract(ctx):
    rj, tla = ctx.path("routes.json"), ctx.path("RoutesGenerated.tla")
    cmd = ["go", "run", ".", "-repo", vlib.REPO, "-goos", GOOS, "-json", rj, "-tla", tla]
    try:
        p = subprocess.run(cmd, cwd=TOOL, env=vlib.go_env(), capture_output=True, text=True, timeout=300)
    except subprocess.TimeoutExpired:
        raise vlib.Inconclusive("route extractor timed out")
    if p.returncode != 0 or not os.path.exists(rj):
        raise vlib.Inconclusive("route extractor failed:\n" + (p.stdout + p.stderr)[-2000:])
    doc = json.load(open(rj))
    ctx.log("extractor: %d files, %d packages, %d registrations, %d bindings" % (
        doc["files_parsed"], doc["packages"], len(doc["routes"]), len(doc.get("bindings") or [])))
    if doc.get("warnings"):
        raise vlib.Inconclusive("the route extractor cannot interpret part of the program:\n  " +
                                "\n  ".join(doc["warnings"]))
    model = [r for r in doc["routes"] if r["reachable"] and not r["pat"].startswith("?")]
    if len(model) < 20:
        raise vlib.Inconclusive("implausibly few routes extracted: %d" % len(model))
    return doc, model, tla, rj


# ----------------------------------------------------------------- flattening
def flatten(tables, model):
    """Verdict tables -> request vectors (deduplicated) and specification-level violations."""
    linux_sites = {r["site"] for r in model if "linux" in r["goos"]}
    vecs = {}
    spec_bad = {}     # (requirement, pat, site) -> example
    rows_total = 0
    for t in tables:
      for pat, site in t["members"]:
        for row in t["rows"]:
            ct, body, ck, ba, to, site2, outs, bad = row
            if to == "$self":
                to = pat
            if site2 == "$self":
                site2 = site
            rows_total += 1
            rk = (t["firstRun"], t["hasUser"], pat, site, t["sub"], t["spelling"], t["method"], ct, body, ck, ba)
            key = rk + (t["reg"],)
            v = vecs.get(key)
            if v is None:
                v = vecs[key] = {"fr": t["firstRun"], "hu": t["hasUser"], "pat": pat, "site": site,
                                 "reg": t["reg"], "rk": json.dumps(rk),
                                 "sub": t["sub"], "sp": t["spelling"], "m": t["method"], "ct": ct, "b": body,
                                 "ck": ck, "ba": ba, "to": to, "exp": set(), "viol": set(),
                                 "linux": site in linux_sites and (site2 in linux_sites),
                                 "decl": t["decl"], "chain": t["chain"]}
            v["exp"].update(outs)
            for b in bad:
                v["viol"].add(b)
                spec_bad.setdefault((b, pat, site, t["reg"]), v)
    out = []
    for i, (k, v) in enumerate(sorted(vecs.items(), key=lambda kv: json.dumps(kv[0]))):
        v["id"] = i
        v["exp"] = sorted(v["exp"])
        v["viol"] = sorted(v["viol"])
        out.append(v)
    return out, spec_bad, rows_total


def nontrivial(v):
    """A vector is non-trivial when the chain of a route decides it (not the mux's own 301)
    and the state has a user: these are the vectors the property speaks about."""
    return v["hu"] and v["to"] not in ("redirect", "none")


def select(ctx, vecs):
    """Quick tier: all vectors without credentials on the canonical path and every vector the
    model flags are kept, of the rest a seeded 20 % (chosen per request, so that the variants
    of one registration are selected together).  Thorough: everything."""
    lin = [v for v in vecs if v["linux"]]
    if not ctx.quick:
        return lin, True
    sel = []
    for v in lin:
        nocred = v["ck"] != "valid" and v["ba"] in ("none", "wrong")
        h = int(hashlib.sha1(("%d|%s" % (ctx.seed, v["rk"])).encode()).hexdigest()[:8], 16) / float(1 << 32)
        if v["viol"] or (nocred and v["sp"] == "canonical") or h < 0.20:
            sel.append(v)
    return sel, False


def go_vec(v):
    g = {k: v[k] for k in ("id", "fr", "hu", "pat", "sub", "sp", "m", "ct", "b", "ck", "ba", "to", "exp")}
    g["decl"] = v.get("decl", "")
    if v.get("viol") or v.get("w"):
        g["w"] = True      # the harness reports what it observed for this vector
    return g


# --------------------------------------------------------------------- arenas
def run_arena(ctx, test, vin, rj, tag, trace=None, trace_n=0):
    vout = ctx.path("c11_out_%s.ndjson" % tag)
    env = {"VERIF_IN": vin, "VERIF_OUT": vout, "VERIF_ROUTES": rj}
    if trace:
        env["VERIF_C11_TRACE"] = trace
        env["VERIF_C11_TRACE_N"] = str(trace_n)
    for attempt in (1, 2):
        rc, out = ctx.go_test(PKG, FILES, "^%s$" % test, env=env, timeout=1700, go_timeout="25m")
        rows = vlib.read_ndjson(vout)
        summ = [r for r in rows if r.get("kind") == "summary"]
        if rc == 0 and summ:
            return rows
        # the booted server listens on a picked loopback port: another process may take it first
        if attempt == 1 and ("address already in use" in out or "startDNSServer" in out):
            ctx.log("arena %s failed to boot (port taken); retrying once" % test)
            continue
        raise vlib.Inconclusive("C11 harness %s did not complete (rc=%s):\n%s" % (test, rc, out[-3000:]))


def history_subset(ctx, vecs):
    """Arena H (first run -> real install wizard -> same process): every vector of the state
    (installed, user exists) that carries no basic credentials, and a seeded sample of those that
    do (the wizard hashes with the default bcrypt cost: ~60 ms per basic-auth request).  Cookie
    histories that contain a restart are not sent: a restart is a new boot."""
    cap = 150 if ctx.quick else 600
    out, withbasic = [], []
    for v in vecs:
        if v["fr"] or not v["hu"] or v["ck"] in ("loggedOutRestarted", "expiredRestarted"):
            continue
        if v["ba"] == "none":
            out.append(v)
        else:
            withbasic.append(v)
    withbasic.sort(key=lambda v: hashlib.sha1(("%d|h|%s|%s" % (ctx.seed, v["rk"], v["reg"])).encode()).hexdigest())
    # the telling ones first: canonical path, no cookie
    front = [v for v in withbasic if v["sp"] == "canonical" and v["ck"] == "none"]
    rest = [v for v in withbasic if not (v["sp"] == "canonical" and v["ck"] == "none")]
    return out + front[:cap] + rest[:cap // 3]


def both_arenas(ctx, vecs, rj, tag, trace=None, trace_n=0):
    """Runs the three arenas (R, S, H) as concurrent processes."""
    vin = ctx.path("c11_in_%s.ndjson" % tag)
    vlib.write_ndjson(vin, [go_vec(v) for v in vecs])
    vinh = ctx.path("c11_in_%s_h.ndjson" % tag)
    if tag == "main":
        hv = history_subset(ctx, vecs)
    else:   # re-runs and replays: everything that is a vector of arena H's state
        hv = [v for v in vecs if not v["fr"] and v["hu"] and v["ck"] not in ("loggedOutRestarted", "expiredRestarted")][:3000]
        hv = hv or [dict(vecs[0], pat="/zz-none", to="/zz-none", exp=[])]
    vlib.write_ndjson(vinh, [go_vec(v) for v in hv])
    with concurrent.futures.ThreadPoolExecutor(3) as ex:
        fr = ex.submit(run_arena, ctx, "TestZZVerifC11Real", vin, rj, tag + "_R", trace, trace_n)
        fs = ex.submit(run_arena, ctx, "TestZZVerifC11Fresh", vin, rj, tag + "_S")
        fh = ex.submit(run_arena, ctx, "TestZZVerifC11History", vinh, rj, tag + "_H")
        return fr.result() + fs.result() + fh.result()


def classify(rec):
    """Narrow keys for known findings (none are known for C11)."""
    if rec.get("kind") == "spec-violation":
        return "%s:%s" % (rec["requirement"], rec["route"]["pat"])
    return None


def validate_trace(ctx, tla, trace):
    r = ctx.tlc("TraceRoutes", "TraceRoutes.cfg", workers=1, timeout=900,
                extra_files=[(tla, "RoutesGenerated.tla"), (trace, "trace.ndjson")])
    if not r["vectors"]:
        raise vlib.Inconclusive("trace specification produced no verdict")
    return r["vectors"][-1]


# ------------------------------------------------------------------------ run
def run(ctx):
    doc, model, tla, rj = extract(ctx)
    extra = [(tla, "RoutesGenerated.tla")]

    # Half 1: the requirement on the model instantiated from the source.
    mc = ctx.tlc("Routes", "Routes.mc.cfg", workers=6, timeout=900, coverage=True, extra_files=extra, allow_fail=True)
    if not mc["ok"] and not mc["violated"]:
        raise vlib.Inconclusive("TLC failed on Routes.mc.cfg:\n" + "\n".join(mc["out"].splitlines()[-30:]))
    if mc["violated"]:
        ctx.log("TLC: invariant %s violated on the extracted routes" % mc["violated"])
    else:
        # an action of the specification that is never taken
        acts = re.findall(r"^<(\w+) line \d+, col \d+ to line \d+, col \d+ of module Routes>: (\d+):(\d+)", mc["out"], re.M)
        never = [a for a, distinct, total in acts if a not in ("Init", "EmitTables") and int(total) == 0]
        if not acts or never:
            raise vlib.Inconclusive("vacuity: actions never taken: %s (of %d reported)" % (never, len(acts)))

    gen = ctx.tlc("Routes", "Routes.gen.cfg", workers=6, timeout=900, extra_files=extra)
    if not gen["vectors"]:
        raise vlib.Inconclusive("zero vectors")
    vecs, spec_bad, rows_total = flatten(gen["vectors"], model)
    ctx.log("vectors: %d tables, %d rows, %d distinct request vectors" % (len(gen["vectors"]), rows_total, len(vecs)))
    if bool(spec_bad) != bool(mc["violated"]):
        raise vlib.Inconclusive("model-checking run and vector run disagree about violations: %s vs %s" % (
            mc["violated"], sorted(spec_bad)[:3]))

    # Vacuity of the requirement: each antecedent must be exercised.
    guard = {
        "unauthenticated, protected, user exists": sum(1 for v in vecs if v["hu"] and not v["fr"] and v["exp"] and set(v["exp"]) <= {"deny403", "redirLogin"}),
        "authenticated, handler runs": sum(1 for v in vecs if v["hu"] and v["exp"] == ["handler"] and (v["ck"] == "valid" or v["ba"] == "right")),
        "public, handler runs without credentials": sum(1 for v in vecs if v["hu"] and v["exp"] == ["handler"] and v["ck"] == "none" and v["ba"] == "none"),
        "mutating route refused for method": sum(1 for v in vecs if v["exp"] == ["m405"]),
        "mutating route refused for content type": sum(1 for v in vecs if v["exp"] == ["c415"]),
        "first run redirect": sum(1 for v in vecs if v["exp"] == ["redirInstall"]),
        "logged-out cookie after a restart, protected": sum(1 for v in vecs if v["ck"] == "loggedOutRestarted" and v["exp"] and set(v["exp"]) <= {"deny403", "redirLogin"}),
        "expired cookie after a restart, protected": sum(1 for v in vecs if v["ck"] == "expiredRestarted" and v["exp"] and set(v["exp"]) <= {"deny403", "redirLogin"}),
        "chunked body without JSON content type refused": sum(1 for v in vecs if v["b"] == "chunked" and v["exp"] == ["c415"]),
        "streamed (unknown length, no transfer encoding) body without JSON content type refused": sum(1 for v in vecs if v["b"] == "stream" and v["exp"] == ["c415"]),
    }
    empty = [k for k, n in guard.items() if n == 0]
    if empty and not spec_bad:
        raise vlib.Inconclusive("vacuity: no vector of kind %s" % empty)

    # Direction A.
    sel, exhaustive = select(ctx, vecs)
    trace = ctx.path("c11_trace.ndjson")
    trace_n = 3000 if ctx.quick else 20000
    rows = both_arenas(ctx, sel, rj, "main", trace=trace, trace_n=trace_n)
    summ = {r["arena"]: r["stats"] for r in rows if r["kind"] == "summary"}
    census = [r for r in rows if r["kind"] == "census"]
    by_id = {v["id"]: v for v in vecs}

    # Cross-check: the extractor is bound to the code by the census of the real mux.
    live_all, probed = set(), set()
    for c in census:
        live_all.update(c["patterns"])
        probed.update(c.get("probed") or [])
    if not live_all:
        raise vlib.Inconclusive("census of the real mux is empty (ServeMux has no readable pattern list in this Go version)")
    extracted_linux = {r["pat"] for r in model if "linux" in r["goos"]}
    admin_linux = {r["pat"] for r in model if "linux" in r["goos"] and r["mux"] == ADMIN_MUX}
    unexplained = sorted(live_all - extracted_linux)
    if unexplained:
        raise vlib.Inconclusive("patterns served by the real mux that the extractor did not find: %s" % unexplained)
    real_live = set()
    for c in census:
        if c["arena"] in ("R", "H") or c["phase"] == "first-run":
            real_live.update(c["patterns"])
    real_live |= (live_all - probed)
    never_live = sorted(admin_linux - live_all)
    only_probe = sorted(admin_linux - real_live)
    if never_live:
        raise vlib.Inconclusive("extracted routes that no arena could register: %s" % never_live)

    replayed = sum(s["n"] for s in summ.values())
    if replayed == 0:
        raise vlib.Inconclusive("zero vectors replayed")
    detector = sum(s["detector_mismatch"] for s in summ.values())
    if detector:
        ex = [r for r in rows if r["kind"] == "detector"][:2]
        raise vlib.Inconclusive("response classifier disagrees with the probe flag on %d vectors (harness unsound): %s" % (
            detector, json.dumps(ex)[:1500]))

    # A registration reached through the callback has one model variant per
    # registrar bound in the program (the extractor cannot tell which package
    # receives which): a disagreement of one variant is dismissed when a
    # sibling variant of the same registration explains the same request.
    by_rk = {}
    for v in sel:
        by_rk.setdefault(v["rk"], []).append(v)
    bad_all = [r for r in rows if r["kind"] == "bad"]
    bad_keys = {(r["arena"], r["vec"]["id"]) for r in bad_all}
    bad, dismissed = [], 0
    for r in bad_all:
        sib = [x for x in by_rk.get(by_id[r["vec"]["id"]]["rk"], []) if x["id"] != r["vec"]["id"]]
        if any((r["arena"], x["id"]) not in bad_keys for x in sib):
            dismissed += 1
        else:
            bad.append(r)

    # Every disagreement is re-run alone, a second time, in fresh processes.
    reproduced = []
    if bad:
        ids = sorted({r["vec"]["id"] for r in bad})
        ctx.log("%d disagreeing vectors; re-running them in isolation" % len(ids))
        again = both_arenas(ctx, [by_id[i] for i in ids[:2000]], rj, "again")
        bad2 = {(r["arena"], r["vec"]["id"]): r for r in again if r["kind"] == "bad"}
        for r in bad:
            k = (r["arena"], r["vec"]["id"])
            if k in bad2:
                reproduced.append(bad2[k])
    flaky = len(bad) - len(reproduced)

    # Specification-level violations (TLC found the requirement violated on an
    # extracted route): reported only after the real mux confirmed that the
    # route behaves as the model says -- for "a handler runs that must not",
    # that the response to a witness request can only be the handler's.
    watch = {}
    for r in rows:
        if r["kind"] == "watch":
            watch.setdefault(r["id"], []).append(r)
    reported = set()
    for (req, pat, site, reg), ex in sorted(spec_bad.items()):
        route = next((r for r in model if r["pat"] == pat and r["site"] == site and r.get("registrar", "") == reg),
                     {"pat": pat, "site": site})
        witnesses = [v for v in vecs if req in v["viol"] and v["pat"] == pat and v["site"] == site and v["reg"] == reg]
        runs = req in ("NoUnauthenticatedHandler", "MutatingNeedsMethodAndJSON")
        conf = []
        for v in witnesses:
            for o in watch.get(v["id"], []):
                certain_ran = o["possible"] == ["handler"]
                certain_not = "handler" not in o["possible"]
                if (runs and certain_ran) or (not runs and certain_not):
                    conf.append((v, o))
        variants = [r for r in model if r["pat"] == pat and r["site"] == site]
        if not conf:
            msg = "TLC: %s violated for %s (%s, registrar %s, chain %s) but the real mux does not confirm it" % (
                req, pat, site, reg or "-", route.get("chain"))
            if len(variants) > 1 or pat not in live_all or "linux" not in route.get("goos", ["linux"]):
                ctx.notes.append(msg)      # another variant / another OS / not served
                continue
            raise vlib.Inconclusive(msg + ": extractor and code disagree")
        # the most telling witness first: plain GET, no cookie, no credentials
        conf.sort(key=lambda vo: (vo[0]["ck"] != "none", vo[0]["ba"] != "none", vo[0]["sp"] != "canonical", vo[0]["m"] != "GET",
                                  vo[0]["b"] != "none", vo[0]["ct"] != "none", vo[0]["id"]))
        w, o = conf[0]
        rec = {"kind": "spec-violation", "requirement": req, "route": route, "tlc_invariant": mc["violated"],
               "vec": go_vec(w), "observed": o, "witnesses": len(witnesses), "confirmed_at_runtime": len(conf),
               "what": "%s %s%s cookie=%s basic=%s ctype=%s body=%s: model %s, real mux %s %s" % (
                   w["m"], w["pat"], w["sub"], w["ck"], w["ba"], w["ct"], w["b"], w["exp"], o["status"], o["possible"])}
        ctx.disagreement(classify(rec), rec, "%s violated by route %s registered at %s%s (chain %s); confirmed on the real mux: %s" % (
            req, pat, site, (" through " + reg) if reg else "", route.get("chain"), rec["what"]))
        reported.add(pat)

    # the most telling disagreements first: a handler that ran, canonical path, plain request
    reproduced.sort(key=lambda r: (r["possible"] != ["handler"],
                                   not (r["vec"].get("decl") in ("POST", "PUT", "DELETE") and r["vec"]["ct"] != "json" and r["vec"]["b"] != "none"
                                        and r["vec"]["exp"] in (["m405"], ["c415"])),
                                   r["vec"]["sp"] != "canonical", r["vec"]["ck"] != "none",
                                   r["vec"]["ba"] != "none", r["vec"]["m"] != "GET", r["vec"]["id"]))
    for r in reproduced:
        if r["vec"]["pat"] in reported:
            continue
        v = r["vec"]
        ctx.disagreement(classify(r), r, "arena %s (firstRun=%s hasUser=%s): %s %s cookie=%s basic=%s ctype=%s body=%s -> %s %s; specification admits %s (%s)" % (
            r["arena"], v["fr"], v["hu"], r["concrete"]["method"], r["concrete"]["target"], v["ck"], v["ba"], v["ct"], v["b"],
            r["obs"]["status"], r["possible"], v["exp"], r["why"]))

    # Direction B.
    trows = vlib.read_ndjson(trace)
    if len(trows) < trace_n // 2:
        raise vlib.Inconclusive("trace driver produced %d lines" % len(trows))
    verdict = validate_trace(ctx, tla, trace)
    if verdict["n"] != len(trows):
        raise vlib.Inconclusive("trace specification consumed %s of %d lines" % (verdict["n"], len(trows)))
    tbad = verdict["bad"]
    trace_rejected = len(tbad)
    if tbad:
        # Second run of the same seeded history in a fresh process.
        ctx.log("%d trace lines rejected; recording the same history again" % len(tbad))
        trace2 = ctx.path("c11_trace2.ndjson")
        vin = ctx.path("c11_in_empty.ndjson")
        vlib.write_ndjson(vin, [go_vec(sel[0])])
        run_arena(ctx, "TestZZVerifC11Real", vin, rj, "trace2", trace=trace2, trace_n=trace_n)
        verdict2 = validate_trace(ctx, tla, trace2)
        again = {b["i"] for b in verdict2["bad"]}
        t2 = vlib.read_ndjson(trace2)
        for b in sorted(tbad, key=lambda b: (not b["why"].startswith("NoUnauth"), b["i"])):
            i = b["i"]
            if i in again and i <= len(t2) and t2[i - 1].get("concrete") == trows[i - 1].get("concrete"):
                if trows[i - 1]["matched"] in reported:
                    continue   # the route itself has been reported above
                rec = {"kind": "trace", "line": i, "entry": trows[i - 1], "expected": b["exp"], "cookie_class": b["cookie"],
                       "hasUser": b["hasUser"], "why": b["why"], "seed": ctx.seed, "trace_n": trace_n}
                ctx.disagreement(classify(rec), rec, "trace line %d rejected by TraceRoutes (%s): %s cookie=%s(%s) basic=%s answered %s %s, admitted %s" % (
                    i, b["why"], trows[i - 1]["concrete"], trows[i - 1]["cookie"], b["cookie"], trows[i - 1]["basic"],
                    trows[i - 1]["status"], trows[i - 1]["poss"], b["exp"]))

    treq = [t for t in trows if t["ev"] == "req"]
    nt = [v for v in sel if nontrivial(v)]
    samples = [go_vec(sel[0]), go_vec(sel[len(sel) // 2]), go_vec(sel[-1])]
    samples += [{k: r[k] for k in ("arena", "concrete", "obs", "possible")} for r in rows if r["kind"] == "sample"][:3]
    samples += [{"trace_line": treq[0]}, {"trace_line": treq[len(treq) // 2]}]
    skipped = {}
    for s in summ.values():
        for k, n in s["skipped"].items():
            skipped[k] = skipped.get(k, 0) + n
    cov = {
        "traces_validated_against_impl": replayed + len(trows),
        "evaluations": replayed + len(treq),
        "distinct_nontrivial": len({(v["pat"], v["sub"], v["sp"], v["m"], v["ct"], v["b"], v["ck"], v["ba"]) for v in nt}),
        "rule": "one vector per (state, extracted route, target path, method, spelling, content type, body, cookie class, "
                "basic class) enumerated by TLC from Routes.tla; non-trivial = a user exists and the request is dispatched "
                "to a route (its wrapper chain, not the mux's own 301, decides); trace lines are seeded random requests "
                "from a larger universe recorded on the really booted server and validated by TraceRoutes.tla",
        "routes_extracted": len(model), "routes_extracted_linux": len(extracted_linux),
        "routes_live_on_real_mux": len(real_live & extracted_linux), "routes_only_as_probe": only_probe,
        "bindings_checked": len(doc.get("bindings") or []),
        "registrations_not_linked_into_binary": [r["site"] for r in doc["routes"] if not r["reachable"]],
        "vectors_generated": len(vecs), "vectors_selected": len(sel), "vectors_replayed": replayed,
        "vectors_not_replayable": skipped,
        "per_arena": {k: {x: s[x] for x in ("n", "handler_ran", "handler_not_ran", "probe_vectors", "handler_panics", "handler_panic_routes",
                                            "routes_exercised", "by_class", "slowest_ms", "slowest_req")} for k, s in summ.items()},
        "vacuity_guards": guard,
        "spec_level_violations": sorted("%s %s %s" % (k[0], k[1], k[3]) for k in spec_bad),
        "disagreements_first_pass": len(bad), "disagreements_reproduced": len(reproduced), "flaky": flaky,
        "disagreements_explained_by_sibling_variant": dismissed,
        "trace_lines": len(trows), "trace_requests": len(treq), "trace_lines_rejected": trace_rejected,
        "exhaustive": exhaustive, "samples": samples,
    }
    return ctx.finish("model_checking", cov, assumptions=[
        "TLC; the go/ast extractor tools/c11_routes (syntactic: wrapper names postInstall/optionalAuth/preInstall/ensure/"
        "gzip are given their meaning by Routes.tla and bound to the code by the replay); the response classifier "
        "zzC11Classify of the harness (cross-checked against probe handlers in arena S)",
        "requests are served by withMiddlewares(mux, limitRequestBody) with httptest, no sockets; HTTPS redirect and "
        "GL-Inet mode are off; Windows-only registrations are model-checked, not replayed",
        "reflection on net/http.ServeMux's unexported pattern list is used (read-only) for the census",
    ])


def replay(ctx, path):
    rec = json.load(open(path))["record"]
    doc, model, tla, rj = extract(ctx)
    if rec.get("kind") == "trace":
        # the seeded history is recorded again and validated again
        ctx.seed = rec.get("seed", ctx.seed)
        trace = ctx.path("c11_trace_replay.ndjson")
        vin = ctx.path("c11_in_replay.ndjson")
        vlib.write_ndjson(vin, [])
        open(vin, "a").write(json.dumps({"id": 0, "fr": True, "hu": False, "pat": "/zz-none", "sub": "", "sp": "canonical",
                                         "m": "GET", "ct": "none", "b": "none", "ck": "none", "ba": "none", "to": "/zz-none",
                                         "exp": []}) + "\n")
        run_arena(ctx, "TestZZVerifC11Real", vin, rj, "replay", trace=trace, trace_n=rec.get("trace_n", 3000))
        verdict = validate_trace(ctx, tla, trace)
        rows = vlib.read_ndjson(trace)
        i = rec["line"]
        hit = [b for b in verdict["bad"] if b["i"] == i and i <= len(rows) and rows[i - 1].get("concrete") == rec["entry"].get("concrete")]
        print(json.dumps({"line": i, "request": rec["entry"].get("concrete"), "expected": rec.get("expected"),
                          "observed": rows[i - 1] if i <= len(rows) else None, "rejected_again": bool(hit)}, indent=1))
        return 1 if hit else 0
    vec = rec["vec"]
    vec = dict(vec, w=True)
    rows = both_arenas(ctx, [vec], rj, "replay")
    bad = [r for r in rows if r["kind"] == "bad"]
    obs = [r for r in rows if r["kind"] == "watch"]
    print(json.dumps({"vector": vec, "expected": vec["exp"], "observed": obs,
                      "disagreements": [{"arena": r["arena"], "concrete": r["concrete"], "obs": r["obs"], "why": r["why"]} for r in bad]},
                     indent=1))
    if rec.get("kind") == "spec-violation":
        # the violation is the route itself: it is still there while the real mux
        # still answers the witness request the way the record says
        runs = rec["requirement"] in ("NoUnauthenticatedHandler", "MutatingNeedsMethodAndJSON")
        still = [o for o in obs if (o["possible"] == ["handler"]) == runs and (runs or "handler" not in o["possible"])]
        return 1 if still else 0
    return 1 if bad else 0
