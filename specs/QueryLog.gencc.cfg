SPECIFICATION Spec
VIEW View
CONSTANTS
  MaxRec = 5
  MemSizes = {3}
  FileModes = {TRUE}
  Palettes = {0}
  Kinds = {}
  RestartResizes = FALSE
  IgnoreModes = {FALSE}
  AnonModes = {FALSE}
  MaxFlight = 2
  Faults = FALSE
  AllowWindow = FALSE
  EmitEdges = TRUE
INVARIANTS TypeOK Ordered NothingLost
