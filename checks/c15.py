"""C15 -- a failed filter refresh changes nothing; a successful one stores a stable normal form.

Two specifications, both bound in both directions:

  RuleList.tla       parser: every text of a finite universe -> admissible outcomes; replayed into the
                     real rulelist.Parser (normal form, count, fixed point on the real bytes);
                     TraceRuleList.tla validates random larger texts.
  FilterRefresh.tla  refresh state machine: every transition emitted as an edge; edge-covering tours are
                     walked on real DNSFilters (file bytes, inode, rules_count via the status handler,
                     rules in force via CheckHost compared after every step);
                     TraceFilterRefresh.tla validates random histories over four lists.
"""
import collections
import concurrent.futures
import json
import os
import random
import re
import subprocess
import time

import vlib

PKG = "internal/filtering"
FILES = ["zz_verif_common_test.go", "zz_verif_c15_test.go"]



# ------------------------------------------------------------------ helpers
def proj(st):
    """Projection of a spec state to what the harness observes."""
    return {
        "file": {l: {"ex": f["ex"], "rules": f["rules"]} for l, f in st["file"].items()},
        # a disabled list shows no rule count (-1 = not compared)
        "count": {l: (c if st["en"][l] else -1) for l, c in st["count"].items()},
        "en": dict(st["en"]),
        # rules in force are observed through probe names, i.e. for rule atoms only
        "eng": {l: sorted(r for r in e if len(r) == 1 and r[0].startswith("R")) for l, e in st["eng"].items()},
    }


def skey(st):
    return json.dumps({"p": proj(st), "sum": st.get("sum")}, sort_keys=True)


def norm_edge(e):
    if isinstance(e["script"], list):   # TLC prints the empty function as <<>>
        e["script"] = {}
    e["rew"] = sorted(e["rew"])
    e["failed"] = sorted(e["failed"])
    if "asis" not in e:
        e["asis"] = e["dst"]
    e["rewfree"] = sorted(e.get("rewfree", []))
    if "due" in e["act"]:
        e["act"]["due"] = sorted(e["act"]["due"])
    e["sk"], e["dk"] = skey(e["src"]), skey(e["dst"])
    e["ck"] = json.dumps(e["cfg"], sort_keys=True)
    return e


def dedup(edges):
    seen, res = set(), []
    for e in edges:
        k = json.dumps(e, sort_keys=True)
        if k not in seen:
            seen.add(k)
            res.append(e)
    return res


def actions_taken(out):
    """Action name -> generated count, from TLC's -coverage output."""
    acts = collections.Counter()
    for m in re.finditer(r"^<(\w+) line \d+, col \d+ to line \d+, col \d+ of module \w+>: (\d+):(\d+)", out, re.M):
        acts[m.group(1)] += int(m.group(3))
    return acts


LONG = ("L4095", "L4096", "L4097", "L5K", "L40K", "L65535", "L65536")   # rule lines of that many bytes

SHARDS = 6   # test processes run side by side (the code under test forces a GC per engine rebuild,
             # which stalls every goroutine of a process, so processes scale and goroutines do not)


def build(ctx):
    """Compile the overlay harness into /repo's package once (go test -c); rebuilt on every check run."""
    if getattr(ctx, "_c15_bin", None):
        return ctx._c15_bin
    overlay = {os.path.join(vlib.REPO, PKG, f): os.path.join(vlib.HARNESS, PKG, f) for f in FILES}
    ov = ctx.path("c15_overlay.json")
    with open(ov, "w") as fh:
        json.dump({"Replace": overlay}, fh)
    binp = ctx.path("c15_filtering.test")
    t = time.time()
    try:
        p = subprocess.run(["go", "test", "-c", "-overlay", ov, "-vet=off", "-o", binp, "./" + PKG], cwd=vlib.REPO,
                           env=vlib.go_env(), capture_output=True, text=True, timeout=1200)
    except subprocess.TimeoutExpired:
        raise vlib.Inconclusive("go test -c timeout")
    ctx.log("go test -c %s: rc=%d %.1fs" % (PKG, p.returncode, time.time() - t))
    if p.returncode != 0 or not os.path.exists(binp):
        raise vlib.Inconclusive("harness build failed in %s:\n%s" % (PKG, (p.stdout + p.stderr)[-3000:]))
    ctx._c15_bin = binp
    return binp


def go(ctx, run, env, timeout=1500):
    """Run one test of the built harness binary.  Returns (rc, output)."""
    binp = build(ctx)
    e = vlib.go_env({"VERIF_SEED": str(ctx.seed), "VERIF_TIER": ctx.tier, "GOMAXPROCS": "2", "VERIF_PAR": "1"})
    e.update(getattr(ctx, "_c15_env", {}))
    e.update(env)
    t = time.time()
    try:
        p = subprocess.run([binp, "-test.run", run, "-test.timeout", "25m"], cwd=os.path.join(vlib.REPO, PKG), env=e,
                           capture_output=True, text=True, timeout=timeout)
    except subprocess.TimeoutExpired:
        raise vlib.Inconclusive("harness test timeout (%s)" % run)
    out = p.stdout + p.stderr
    if "no tests to run" in out:
        raise vlib.Inconclusive("harness test %s not found" % run)
    return p.returncode, out


def go_sharded(ctx, run, envs, timeout=1500):
    """Run the same test in several processes, one environment each."""
    build(ctx)
    t = time.time()
    with concurrent.futures.ThreadPoolExecutor(max_workers=SHARDS) as ex:
        res = list(ex.map(lambda e: go(ctx, run, e, timeout), envs))
    ctx.log("harness %s x%d: %.1fs" % (run, len(envs), time.time() - t))
    return res


# ------------------------------------------------------------- parser half
def parser_vectors(ctx):
    cfgs = ["RuleList.q1.cfg", "RuleList.q2.cfg", "RuleList.lenq.cfg"] if ctx.quick else ["RuleList.t1.cfg", "RuleList.t2.cfg", "RuleList.len.cfg"]
    seen, vectors = set(), []
    for i, cfg in enumerate(cfgs):
        r = ctx.tlc("RuleList", cfg, workers=6, timeout=800, coverage=(i == 0))
        if i == 0:
            acts = actions_taken(r["out"])
            for a in ("Start", "AddLine"):
                if acts.get(a, 0) == 0:
                    raise vlib.Inconclusive("vacuous: action %s of RuleList never taken" % a)
        for v in r["vectors"]:
            k = " ".join(v["t"])
            if k not in seen:
                seen.add(k)
                vectors.append(v)
    if len(vectors) < 2000:
        raise vlib.Inconclusive("too few parser vectors: %d" % len(vectors))
    kinds = collections.Counter()
    for v in vectors:
        oks = [a["ok"] for a in v["adm"] if not a["cosm"]]
        kinds["soft" if len(oks) > 1 else ("ok" if oks[0] else "fail")] += 1
        if any(t in LONG for t in v["t"]):
            kinds["long-line"] += 1
            if any(t not in LONG and t not in ("LF", "CR", "SP", "HASH") for t in v["t"]):
                kinds["long-line-among-short-rules"] += 1
        if "COSM" in v["t"]:
            kinds["policy-dependent" if len({json.dumps(sorted((a["ok"], a["rules"]) for a in v["adm"] if a["cosm"] == c))
                                             for c in (False, True)}) > 1 else "cosm-line"] += 1
            if "TITLE" in v["t"] and v["t"].index("TITLE") < len(v["t"]) - 1 - v["t"][::-1].index("COSM"):
                kinds["cosm-after-title"] += 1
    for k in ("ok", "fail", "soft", "policy-dependent", "cosm-after-title", "long-line-among-short-rules"):
        if kinds[k] == 0:
            raise vlib.Inconclusive("vacuous: no parser vector of kind %s" % k)
    # negative control: a parser whose treatment of "#"-lines depends on the mode
    # (before / after the title line) must break the fixed point in the spec
    neg = ctx.tlc("RuleList", "RuleList.modes.cfg", workers=2, timeout=600, expect_violation=True)
    if neg["violated"] != "Statement":
        raise vlib.Inconclusive("RuleList.modes.cfg no longer violates Statement: the negative control lost its meaning")
    ctx.tlc_runs[-1]["violated"] = "Statement (expected: negative control, mode-dependent policy)"
    return vectors, kinds


def parser_replay(ctx, vectors, tag="a"):
    n = max(1, min(SHARDS, len(vectors) // 2000))
    envs = []
    for k in range(n):
        vin, vout = ctx.path("c15_parse_in_%s_%d.ndjson" % (tag, k)), ctx.path("c15_parse_out_%s_%d.ndjson" % (tag, k))
        vlib.write_ndjson(vin, vectors[k::n])
        envs.append({"VERIF_IN": vin, "VERIF_OUT": vout})
    rows, summ = [], {"n": 0, "bad": 0, "nontrivial": 0}
    policies = {}
    for env, (rc, out) in zip(envs, go_sharded(ctx, "^TestZZVerifC15ParseReplay$", envs)):
        part = vlib.read_ndjson(env["VERIF_OUT"])
        ss = [r for r in part if r.get("kind") == "summary"]
        if rc != 0 or not ss:
            raise vlib.Inconclusive("C15 parser replay did not complete:\n" + out[-3000:])
        rows += part
        for k in summ:
            summ[k] += ss[0][k]
        policies.update(ss[0]["policies"])
    summ["policies"] = policies
    return rows, summ


def choose_policy(ctx, policies):
    """The parser policy measured by the harness (is a "#"-line that is not a
    plain comment stored as a rule, in a text without a title line), per
    spelling.  The refresh half is run for the majority policy with the
    spellings that follow it; the parser half covers every spelling."""
    keep = sorted(sp for sp, v in policies.items() if v)
    drop = sorted(sp for sp, v in policies.items() if not v)
    if not keep and not drop:
        raise vlib.Inconclusive("parser policy not measured")
    cosm = len(keep) > len(drop)
    ctx._c15_env = {"VERIF_COSM": json.dumps(keep if cosm else drop)}
    ctx.log("parser policy: #-lines that are not plain comments are %s (%d of %d spellings)" % (
        "rules" if cosm else "comments", len(keep if cosm else drop), len(policies)))
    return cosm


def classify_parser(rec):
    return None   # no known findings in the parser half


def parser_trace(ctx):
    tout = ctx.path("c15_parse_trace.ndjson")
    rc, out = go(ctx, "^TestZZVerifC15ParseTrace$", {"VERIF_OUT": tout})
    rows = vlib.read_ndjson(tout)
    if rc != 0 or not rows:
        raise vlib.Inconclusive("C15 parser trace driver did not complete:\n" + out[-3000:])
    slim = ctx.path("c15_parse_trace_slim.ndjson")
    vlib.write_ndjson(slim, [{k: r[k] for k in ("t", "ok", "rules", "count", "fp")} for r in rows])
    r = ctx.tlc("TraceRuleList", "TraceRuleList.cfg", workers=1, extra_files=[(slim, "trace.ndjson")], timeout=900)
    if not r["vectors"]:
        raise vlib.Inconclusive("TraceRuleList produced no verdict")
    verdict = r["vectors"][-1]
    if verdict["n"] != len(rows):
        raise vlib.Inconclusive("TraceRuleList consumed %s of %d lines" % (verdict["n"], len(rows)))
    return rows, sorted(verdict["bad"])


# ------------------------------------------------------------ refresh half
UNIVERSES = {
    "FilterRefresh.mc.cfg": {"block": ["b1"], "allow": ["a1"]},
    "FilterRefresh.mck.cfg": {"block": ["b1"], "allow": ["a1"]},   # the same with the other parser policy
    "FilterRefresh.three.cfg": {"block": ["b1", "b2"], "allow": ["a1"]},
    "FilterRefresh.admin.cfg": {"block": ["b1"], "allow": ["a1"]},   # refused set_url, disable, enable between refreshes
    "FilterRefresh.long.cfg": {"block": ["b1"], "allow": ["a1"]},    # rule lines of 4095 .. 65535 bytes
}


def refresh_edges(ctx, cfg, coverage):
    r = ctx.tlc("FilterRefresh", cfg, workers=6, timeout=800, coverage=coverage)
    edges = [norm_edge(e) for e in dedup(r["vectors"])]
    if coverage:
        acts = actions_taken(r["out"])
        for a in ("Boot", "Refresh", "Restart"):
            if acts.get(a, 0) == 0:
                raise vlib.Inconclusive("vacuous: action %s of FilterRefresh never taken" % a)
    return edges


def edge_stats(edges):
    c = collections.Counter()
    for e in edges:
        a = e["act"]
        if a["a"] != "refresh":
            c[a["a"]] += 1
            continue
        c[a["mode"] + ":" + a["kind"]] += 1
        for l, b in e["script"].items():
            c["beh:" + b["k"]] += 1
        if e["failed"] and e["rew"]:
            c["failure-next-to-replacement"] += 1
        if e["failed"]:
            c["some-failure"] += 1
        if [l for l in e["script"] if l not in e["failed"] and l not in e["rew"]]:
            c["unchanged-checksum"] += 1
        if e["failed"] and e["rew"] and a["mode"] == "sched" and any(
                all(l in e["failed"] for l in e["script"] if (l[0] == "b") == blk) and any((l[0] == "b") == blk for l in e["script"])
                for blk in (True, False)):
            c["sched-one-kind-all-failed-other-replaced"] += 1
    return c


class Graph:
    """The emitted transition graph of one universe, per configuration."""

    def __init__(self, edges, uni):
        self.uni = uni
        self.edges = edges
        self.by_cfg = collections.defaultdict(list)
        for i, e in enumerate(edges):
            e["eid"] = i
            self.by_cfg[e["ck"]].append(e)
        self.init, self.out = {}, {}
        for ck, es in self.by_cfg.items():
            boot = [e for e in es if e["act"]["a"] == "boot"]
            if len(boot) != 1:
                raise vlib.Inconclusive("no unique boot edge for configuration " + ck)
            self.init[ck] = boot[0]["dk"]
            out = collections.defaultdict(list)
            for e in es:
                if e["act"]["a"] != "boot":
                    out[e["sk"]].append(e)
            self.out[ck] = out

    def path(self, ck, start, goal, avoid=lambda e: False):
        """Shortest edge path from state start to a state satisfying goal."""
        prev = {start: None}
        q = collections.deque([start])
        while q:
            k = q.popleft()
            if goal(k):
                p = []
                while prev[k] is not None:
                    k, e = prev[k]
                    p.append(e)
                return list(reversed(p))
            for e in self.out[ck].get(k, []):
                if e["dk"] not in prev and not avoid(e):
                    prev[e["dk"]] = (k, e)
                    q.append(e["dk"])
        return None

    def tour(self, n, steps):
        return {"id": n, "cfg": steps[0]["cfg"], "lists": self.uni["block"] + self.uni["allow"],
                "block": self.uni["block"], "atoms": ["R1", "R2"], "steps": steps}

    def tours(self, rng, maxlen, select=None, terminal=lambda e: False):
        """Greedy walks that cover every selected edge (default: all); they may
        travel over any edge.  Files are never deleted, so states without a file
        are reachable from a fresh start only: a walk ends when nothing uncovered
        is reachable, when it gets long, or after a `terminal` edge (one that is
        known to leave today's code in a state the specification does not have)."""
        want = None if select is None else {e["eid"] for e in select}
        walks = []
        for ck in sorted(self.by_cfg):
            out, init = self.out[ck], self.init[ck]
            pending = {}
            for k in sorted(out):
                es = [e for e in out[k] if want is None or e["eid"] in want]
                rng.shuffle(es)
                pending[k] = es
            left = sum(len(v) for v in pending.values())
            cur, steps, fresh = init, [], 0
            while left:
                if not pending.get(cur):
                    p = self.path(ck, cur, lambda k: bool(pending.get(k)), avoid=terminal)
                    if p is None and cur == init and not steps:
                        raise vlib.Inconclusive("edges unreachable from the initial state")
                    if not p or len(steps) + len(p) >= maxlen:
                        if fresh:
                            walks.append(steps)
                        cur, steps, fresh = init, [], 0
                        continue
                    steps += p
                    cur = p[-1]["dk"]
                    continue
                e = pending[cur].pop()
                left -= 1
                fresh += 1
                steps.append(e)
                cur = e["dk"]
                if terminal(e):
                    walks.append(steps)
                    cur, steps, fresh = init, [], 0
            if fresh:
                walks.append(steps)
        res = []
        for n, steps in enumerate(walks):
            if want is not None:   # drop a tail that only travels
                steps = steps[:max(i for i, e in enumerate(steps) if e["eid"] in want) + 1]
            res.append(self.tour(n, steps))
        return res

    def shortest_to(self, e):
        p = self.path(e["ck"], self.init[e["ck"]], lambda k: k == e["sk"], avoid=diverges)
        return None if p is None else p + [e]


def sumchg(e):
    """Lists whose remembered checksum changes on this edge."""
    return sorted(l for l in e["dst"]["sum"] if e["dst"]["sum"][l] != e["src"]["sum"][l])


def tour_json(t):
    return {"id": t["id"], "cfg": t["cfg"], "lists": t["lists"], "block": t["block"], "atoms": t["atoms"],
            "go_on": t.get("go_on", False),
            "steps": [{"act": e["act"], "script": e["script"], "dst": proj(e["dst"]), "rew": e["rew"],
                       "sumchg": sumchg(e), "rewfree": e["rewfree"]} for e in t["steps"]]}


def run_tours(ctx, tours, tag, shards=SHARDS):
    order = sorted(range(len(tours)), key=lambda i: -len(tours[i]["steps"]))
    parts = [[] for _ in range(max(1, min(shards, len(tours))))]
    for n, i in enumerate(order):
        parts[n % len(parts)].append(tours[i])
    envs = []
    for n, part in enumerate(parts):
        vin, vout = ctx.path("c15_tours_in_%s_%d.ndjson" % (tag, n)), ctx.path("c15_tours_out_%s_%d.ndjson" % (tag, n))
        vlib.write_ndjson(vin, [tour_json(t) for t in part])
        envs.append({"VERIF_IN": vin, "VERIF_OUT": vout})
    rows, summ = [], {"steps": 0, "bad": 0, "tours": 0}
    for env, (rc, out) in zip(envs, go_sharded(ctx, "^TestZZVerifC15Tours$", envs)):
        part = vlib.read_ndjson(env["VERIF_OUT"])
        ss = [r for r in part if r.get("kind") == "summary"]
        if rc != 0 or not ss:
            raise vlib.Inconclusive("C15 tour harness did not complete:\n" + out[-3000:])
        rows += part
        for k in summ:
            summ[k] += ss[0][k]
    return rows, summ


KEY_SETURL = "failed-set-url-forgets-checksum"
KEY_RULELESS = "ruleless-list-into-unloaded-filter-not-stored"


def diverges(e):
    """Today's code is known to leave this edge in a state the specification does not have."""
    return skey(e["asis"]) != skey(e["dst"])


def same_obs(got, st):
    """The observation equals the projection of state st (no file = empty file)."""
    p = proj(st)
    return (all(got["file"][l]["rules"] == p["file"][l]["rules"] for l in p["file"])
            and all(c < 0 or got["count"][l] == c for l, c in p["count"].items())
            and all(sorted(got["eng"][l]) == p["eng"][l] for l in p["eng"])
            and all(got.get("en", {}).get(l) == v for l, v in p["en"].items()))


def classify_step(edge, row):
    """Narrow classification of a reproduced disagreement on one edge."""
    got = row["got"]
    if (edge["act"]["a"] == "seturl" and row["diffs"] == ["sum"] and got["sumchg"] == [edge["act"]["list"]]
            and sumchg(dict(edge, dst=edge["asis"])) == got["sumchg"] and not got["rew"]):
        # nothing but the remembered checksum of that list changed, as in SetURLFailedAsIs
        return KEY_SETURL
    if (edge["act"]["a"] == "enable" and row["diffs"] == ["file:" + edge["act"]["list"]] and diverges(edge)
            and not edge["dst"]["file"][edge["act"]["list"]]["rules"] and same_obs(got["state"], edge["asis"])):
        # the list was enabled with content without rules, everything is as expected
        # except that the stale file of its earlier life is still there (EnabledWith.ai)
        return KEY_RULELESS
    return None


def consequence(g, edge):
    """The step that shows, in the isolated run, what a known deviation leads to.
    Refused set_url on list l: the forced refresh of l that follows with content
    whose checksum is unchanged (must not be rewritten).  Rule-less list enabled:
    a restart (the stale rules must not come back)."""
    l = edge["act"]["list"]
    if edge["act"]["a"] == "enable":
        return next((e for e in g.out[edge["ck"]].get(edge["dk"], []) if e["act"]["a"] == "restart"), None)
    for e in g.out[edge["ck"]].get(edge["dk"], []):
        a = e["act"]
        if (a["a"] == "refresh" and a["mode"] == "forced" and l in e["script"] and e["script"][l]["k"] == "ok"
                and l not in e["rew"] and l not in e["failed"] and e["src"]["sum"][l]):
            return e
    return None


def what_step(edge, row):
    return "after %s with script %s: %s differ; expected %s, observed %s" % (
        json.dumps(edge["act"], sort_keys=True),
        json.dumps({l: (b["k"], b["arg"], " ".join(b["t"])) for l, b in edge["script"].items()}, sort_keys=True),
        ",".join(row["diffs"]), json.dumps(proj(edge["dst"]), sort_keys=True),
        json.dumps(row["got"]["state"], sort_keys=True))


def refresh_replay(ctx, edges, uni, tag, rng, budget=None):
    g = Graph(edges, uni)
    select = None
    moves = [e for e in edges if e["act"]["a"] != "boot"]
    if budget is not None and len(moves) > budget:
        select = rng.sample(moves, budget)
    tours = g.tours(rng, 250, select, terminal=lambda e: e["act"]["a"] == "seturl" or diverges(e))
    rows, summ = run_tours(ctx, tours, tag)
    by_id = {t["id"]: t for t in tours}
    bad = [r for r in rows if r.get("kind") == "bad"]
    skipped = [r for r in rows if r.get("kind") == "skip"]
    truncated = sum(r.get("lost", 0) for r in rows if r.get("kind") == "truncated")
    res = {"tours": len(tours), "steps": summ["steps"], "bad": len(bad), "skipped": len(skipped),
           "truncated": truncated, "known": 0, "known_with_consequence": 0, "not_rerun": 0, "contact_mismatch": 0, "flaky": 0,
           "planned": sum(len(t["steps"]) for t in tours),
           "selected": len(moves) if select is None else len(select), "edges": len(moves),
           "nontrivial": sum(1 for e in (moves if select is None else select)
                             if e["act"]["a"] == "refresh" and (e["failed"] or e["rew"]))}
    if skipped:
        ctx.log("skipped tours, first: %s" % json.dumps(skipped[0])[:500])
    if not bad:
        return res
    # Reproduce in isolation, a second time: the shortest history from a fresh
    # start to the source state of the edge, then the edge; if that does not
    # show it, the prefix of the original tour.  When very many steps disagree,
    # the ones that look alike (same kind of action, same kinds of differing
    # fields) are re-run for a sample.
    todo, sampled = [], collections.Counter()
    for r in bad:
        edge = by_id[r["tour"]]["steps"][r["step"]]
        key = classify_step(edge, r)
        sig = key or (edge["act"].get("mode"), tuple(sorted({d.split(":")[0] for d in r["diffs"]})))
        sampled[sig] += 1
        if sampled[sig] > 12:
            res["not_rerun"] += 1
            continue
        todo.append((r, edge, key))
    if len(todo) > 400:
        raise vlib.Inconclusive("%d disagreements to reproduce one by one (first: %s)" % (len(todo), what_step(todo[0][1], todo[0][0])[:600]))

    def rerun(items, stage):
        # a refused set_url that only changes the remembered checksum is followed,
        # in the isolated run, by the refresh that shows what that leads to
        extra = [consequence(g, item[1]) if item[2] in (KEY_SETURL, KEY_RULELESS) else None for _, item in items]
        iso = [dict(g.tour(n, steps + ([x] if x else [])), go_on=bool(x)) for n, ((steps, _), x) in enumerate(zip(items, extra))]
        rows2, _ = run_tours(ctx, iso, "%s_iso%d" % (tag, stage))
        hit = {}
        for r2 in rows2:
            if r2.get("kind") == "bad":
                hit.setdefault((r2["tour"], r2["step"]), r2)
        out = []
        for n, ((steps, item), x) in enumerate(zip(items, extra)):
            r2 = hit.get((n, len(steps) - 1))
            if r2 is not None and x is not None:
                c = hit.get((n, len(steps)))
                r2["consequence"] = {"then": {"act": x["act"], "script": x["script"]},
                                     "unchanged_content_rewritten": bool(c and "rew" in c["diffs"]),
                                     "stale_rules_back_after_restart": bool(c and x["act"]["a"] == "restart" and any(
                                         d.startswith(("count:", "eng:")) for d in c["diffs"])),
                                     "diffs": c["diffs"] if c else []}
            out.append(r2)
        return out

    short = [(g.shortest_to(edge), (r, edge, key)) for r, edge, key in todo]
    got = rerun(short, 1)
    retry = []
    for (steps, item), r2 in zip(short, got):
        r, edge, key = item
        if r2 is not None and sorted(r2["diffs"]) == sorted(r["diffs"]):
            item = (r2, edge, key)
            confirm(ctx, res, tag, g, steps, item)
        else:
            retry.append((by_id[r["tour"]]["steps"][:r["step"] + 1], item))
    if retry:
        got = rerun(retry, 2)
        for (steps, item), r2 in zip(retry, got):
            r, edge, key = item
            if r2 is not None and sorted(r2["diffs"]) == sorted(r["diffs"]):
                confirm(ctx, res, tag, g, steps, (r2, edge, key))
            else:
                res["flaky"] += 1
    return res


def confirm(ctx, res, tag, g, steps, item):
    r, edge, key = item
    if all(d.startswith("hits:") for d in r["diffs"]):
        res["contact_mismatch"] += 1
        return
    rec = {"kind": "tour", "universe": tag, "cfg": edge["cfg"], "lists": g.uni["block"] + g.uni["allow"],
           "block": g.uni["block"], "diffs": r["diffs"], "observed": r["got"], "consequence": r.get("consequence"),
           "steps": [{"act": e["act"], "script": e["script"], "dst": proj(e["dst"]), "rew": e["rew"],
                      "sumchg": sumchg(e), "rewfree": e["rewfree"]} for e in steps]}
    if ctx.disagreement(key, rec, what_step(edge, r)) == "known":
        res["known"] += 1
        c = r.get("consequence") or {}
        if c.get("unchanged_content_rewritten") or c.get("stale_rules_back_after_restart"):
            res["known_with_consequence"] += 1


def refresh_trace(ctx, cosm):
    envs = [{"VERIF_OUT": ctx.path("c15_refresh_trace_%d.ndjson" % n), "VERIF_SHARD": "%d/%d" % (n, SHARDS)} for n in range(SHARDS)]
    rows = []
    for env, (rc, out) in zip(envs, go_sharded(ctx, "^TestZZVerifC15RefreshTrace$", envs)):
        part = vlib.read_ndjson(env["VERIF_OUT"])
        if rc != 0 or not part:
            raise vlib.Inconclusive("C15 refresh trace driver did not complete:\n" + out[-3000:])
        rows += part
    for r in rows:
        if r.get("ev") == "boot":
            r["cfg"]["cosm"] = cosm   # the measured parser policy
    verdict = validate_refresh_trace(ctx, rows)
    return rows, verdict


def validate_refresh_trace(ctx, rows):
    slim = ctx.path("c15_refresh_trace_slim_%d.ndjson" % len(ctx.tlc_runs))
    keep = ("ev", "cfg", "act", "script", "obs", "rew", "sumchg", "contact_ok")
    vlib.write_ndjson(slim, [{k: r[k] for k in keep if k in r} for r in rows])
    r = ctx.tlc("TraceFilterRefresh", "TraceFilterRefresh.cfg", workers=1, extra_files=[(slim, "trace.ndjson")], timeout=900)
    if not r["vectors"]:
        raise vlib.Inconclusive("TraceFilterRefresh produced no verdict")
    verdict = r["vectors"][-1]
    if verdict["n"] != len(rows):
        raise vlib.Inconclusive("TraceFilterRefresh consumed %s of %d lines" % (verdict["n"], len(rows)))
    return verdict


def reproduce_trace_lines(ctx, rows, verdict, cosm):
    """Re-record the traces that contain rejected lines and validate them again:
    a line counts only if it is rejected a second time."""
    res = {"known": 0, "flaky": 0}
    by_trace = collections.defaultdict(list)
    for n in verdict["bad"]:
        by_trace[rows[n - 1]["trace"]].append(n)
    want = sorted(by_trace)
    if not want:
        return res
    if len(want) > 40:
        want = want[:40]
    tout = ctx.path("c15_refresh_trace_iso.ndjson")
    rc, out = go(ctx, "^TestZZVerifC15RefreshTrace$", {"VERIF_OUT": tout, "VERIF_ONLY": ",".join(map(str, want))})
    rows2 = vlib.read_ndjson(tout)
    if rc != 0 or not rows2:
        raise vlib.Inconclusive("C15 refresh trace driver (isolated) did not complete:\n" + out[-2000:])
    for r in rows2:
        if r.get("ev") == "boot":
            r["cfg"]["cosm"] = cosm
    v2 = validate_refresh_trace(ctx, rows2)
    again = {(rows2[n - 1]["trace"], rows2[n - 1]["i"]) for n in v2["bad"]}
    for tr in want:
        for n in by_trace[tr]:
            row = rows[n - 1]
            if (tr, row["i"]) not in again:
                res["flaky"] += 1
                continue
            hist = [r for r in rows2 if r["trace"] == tr and (r.get("ev") == "boot" or r.get("i", 0) <= row["i"])]
            rec = {"kind": "trace", "trace": tr, "step": row["i"], "cosm": cosm,
                   "history": [{k: r[k] for k in ("ev", "cfg", "act", "script", "obs", "rew", "sumchg") if k in r} for r in hist]}
            what = "trace %d step %d: the state observed after %s with %s is rejected by TraceFilterRefresh; observed %s, replaced %s, checksum changed %s" % (
                tr, row["i"], json.dumps(row["act"], sort_keys=True),
                json.dumps({l: b["k"] for l, b in row["script"].items()}, sort_keys=True),
                json.dumps(row["obs"], sort_keys=True)[:1500], row["rew"], row["sumchg"])
            if ctx.disagreement(None, rec, what) == "known":
                res["known"] += 1
    return res


# --------------------------------------------------------------------- run
def run(ctx):
    rng = random.Random(ctx.seed)
    for m in ("RuleListCore", "RuleList", "TraceRuleList", "FilterRefreshCore", "FilterRefresh", "TraceFilterRefresh"):
        ctx.sany(m)

    # ---- parser half, direction A
    vectors, vkinds = parser_vectors(ctx)
    prow, psumm = parser_replay(ctx, vectors)
    cosm = choose_policy(ctx, psumm["policies"])
    pbad = [r for r in prow if r.get("kind") in ("bad", "chunking")]
    for r in pbad:
        ctx.disagreement(classify_parser(r), {"kind": "parser", "t": r["t"], "adm": r.get("adm"), "cosm": r.get("cosm"),
                                              "got": r["got"], "diffs": r["diffs"]},
                         "rulelist.Parser on %s: %s (input %s; stored %s; count %s)" % (
                             " ".join(r["t"]), ",".join(r["diffs"]), r["got"].get("in"), r["got"].get("out"), r["got"].get("count")))
    # ---- parser half, direction B
    trows, tbad = parser_trace(ctx)
    for i in tbad:
        rec = trows[i - 1]
        ctx.disagreement(classify_parser(rec), {"kind": "parser-trace", "line": rec},
                         "trace line %d rejected by TraceRuleList: ok=%s count=%s fp=%s for %s" % (
                             i, rec["ok"], rec["count"], rec["fp"], rec["in"]))

    # ---- refresh half: negative control = the behaviour before fix 9116a9d
    # (early return before the engine rebuild) must violate FailureIsNoOp
    neg = ctx.tlc("FilterRefresh", "FilterRefresh.asis.cfg", workers=1, timeout=600, allow_fail=True)
    if '"FailureIsNoOp"' not in neg["out"] or "Assert evaluated to FALSE" not in neg["out"]:
        raise vlib.Inconclusive("FilterRefresh.asis.cfg no longer violates FailureIsNoOp: the negative control lost its meaning")
    ctx.tlc_runs[-1]["violated"] = "FailureIsNoOp (expected: negative control, pre-fix early return)"

    # ---- refresh half, direction A (universe of the measured parser policy)
    mc = "FilterRefresh.mck.cfg" if cosm else "FilterRefresh.mc.cfg"
    edges = refresh_edges(ctx, mc, coverage=True)
    stats = edge_stats(edges)
    need = ["boot", "restart", "forced:block", "forced:allow", "sched:both", "failure-next-to-replacement",
            "unchanged-checksum", "some-failure", "sched-one-kind-all-failed-other-replaced"] + ["beh:" + k for k in (
                "ok", "unframedCut", "connError", "status", "cutBeforeHeaders", "cutAfterHeaders", "cutMidLine",
                "cutAtLineBoundary", "missingLocal", "dirLocal")]
    for k in need:
        if stats[k] == 0:
            raise vlib.Inconclusive("vacuous: no edge of kind %s" % k)
    res2 = refresh_replay(ctx, edges, UNIVERSES[mc], "mc", rng, budget=4000 if ctx.quick else None)
    edges3 = refresh_edges(ctx, "FilterRefresh.three.cfg", coverage=False)
    res3 = refresh_replay(ctx, edges3, UNIVERSES["FilterRefresh.three.cfg"], "three", rng, budget=600 if ctx.quick else None)

    # line length through the real download-and-store path
    edgesl = refresh_edges(ctx, "FilterRefresh.long.cfg", coverage=False)
    longrew = sum(1 for e in edgesl if any(any(t in LONG for t in b["t"]) and l in e["rew"] for l, b in e["script"].items()))
    if longrew == 0:
        raise vlib.Inconclusive("vacuous: no edge stores a list with a long line")
    resl = refresh_replay(ctx, edgesl, UNIVERSES["FilterRefresh.long.cfg"], "long", rng, budget=800 if ctx.quick else None)

    # admin operations between refreshes: refused set_url, disable, enable
    edgess = refresh_edges(ctx, "FilterRefresh.admin.cfg", coverage=False)
    if not any(e["act"]["a"] == "seturl" and e["src"]["sum"][e["act"]["list"]] for e in edgess):
        raise vlib.Inconclusive("vacuous: no refused set_url on a list that has content")
    if not any(e["act"]["a"] == "enable" and e["src"]["file"][e["act"]["list"]]["rules"]
               and e["dst"]["en"][e["act"]["list"]] and not e["dst"]["file"][e["act"]["list"]]["rules"] for e in edgess):
        raise vlib.Inconclusive("vacuous: no list with a stale file enabled with rule-less content")
    if not any(e["act"]["a"] == "disable" for e in edgess) or not any(e["act"]["a"] == "enable" and e["failed"] for e in edgess):
        raise vlib.Inconclusive("vacuous: no disable / refused enable")
    ress = refresh_replay(ctx, edgess, UNIVERSES["FilterRefresh.admin.cfg"], "admin", rng)
    negs = ctx.tlc("FilterRefresh", "FilterRefresh.seturlasis.cfg", workers=1, timeout=600, expect_violation=True)
    if negs["violated"] != "InvCoherent":
        raise vlib.Inconclusive("FilterRefresh.seturlasis.cfg no longer violates InvCoherent: the negative control lost its meaning")
    ctx.tlc_runs[-1]["violated"] = "InvCoherent (expected: negative control, roll-back forgets the checksum)"

    # ---- refresh half, direction B
    rrows, verdict = refresh_trace(ctx, cosm)
    if verdict["odd"]:
        raise vlib.Inconclusive("refresh trace: harness and specification disagree on the contacted lists at lines %s" % verdict["odd"][:5])
    resb = reproduce_trace_lines(ctx, rrows, verdict, cosm)

    tot = {k: res2[k] + res3[k] + resl[k] + ress[k] for k in res2}
    steps_a = tot["steps"]
    n_edges = len(edges) + len(edges3) + len(edgesl) + len(edgess)
    skipped = tot["skipped"]
    contact = tot["contact_mismatch"]
    if skipped or contact:
        raise vlib.Inconclusive("tour harness skipped %d tours, %d contact mismatches" % (skipped, contact))
    if steps_a + tot["truncated"] < tot["planned"] and not ctx.violations:
        raise vlib.Inconclusive("tours walked %d of %d planned steps" % (steps_a, tot["planned"]))
    nontrivial_edges = tot["nontrivial"]
    trace_steps = sum(1 for r in rrows if r.get("ev") == "step")
    samples = [
        {"parser_vector": vectors[len(vectors) // 3]},
        {"parser_trace_line": {k: trows[0][k] for k in ("t", "ok", "rules", "count", "fp")}},
        {"edge": {k: (proj(v) if k in ("src", "dst") else v) for k, v in edges[len(edges) // 2].items() if k not in ("eid", "sk", "dk", "ck")}},
        {"refresh_trace_line": {k: rrows[1][k] for k in ("act", "script", "obs", "rew", "sumchg") if k in rrows[1]}},
    ]
    cov = {
        "traces_validated_against_impl": psumm["n"] + len(trows) + tot["tours"] + len({r["trace"] for r in rrows}),
        "evaluations": psumm["n"] + len(trows) + steps_a + trace_steps,
        "distinct_nontrivial": psumm["nontrivial"] + nontrivial_edges,
        "rule": "parser vectors: one per text of the enumerated universe, non-trivial = accepted with at least one stored rule; "
                "refresh edges: one per transition of FilterRefresh.tla (two universes), non-trivial = some list fails or is replaced; "
                "trace lines: random texts / random refresh histories validated by TLC",
        "parser_policy_measured": psumm["policies"], "refresh_universe": mc,
        "parser_vectors": len(vectors), "parser_vector_kinds": dict(vkinds), "parser_vectors_replayed": psumm["n"],
        "parser_bad": len(pbad), "parser_trace_lines": len(trows), "parser_trace_rejected": len(tbad),
        "refresh_edges": n_edges, "refresh_edges_selected": tot["selected"],
        "refresh_edge_kinds": dict(stats), "refresh_edges_storing_a_long_line": longrew, "refresh_steps_walked": steps_a,
        "refresh_tours": tot["tours"], "refresh_steps_planned": tot["planned"],
        "refresh_bad_steps": tot["bad"], "refresh_flaky": tot["flaky"] + resb["flaky"],
        "refresh_bad_steps_not_rerun_alike": tot["not_rerun"],
        "refresh_steps_lost_after_a_disagreement": tot["truncated"],
        "truncated_by_known_finding": ress["truncated"] if ress["known"] else 0,
        "refresh_known_finding_steps": tot["known"], "refresh_known_finding_steps_with_consequence_shown": tot["known_with_consequence"],
        "refresh_trace_steps": trace_steps, "refresh_trace_rejected": len(verdict["bad"]),
        "negative_controls": ["FilterRefresh.asis.cfg (pre-fix early return before the engine rebuild) violates FailureIsNoOp",
                              "FilterRefresh.seturlasis.cfg (roll-back of a refused set_url forgets the checksum) violates InvCoherent",
                              "RuleList.modes.cfg (treatment of #-lines depends on the title mode) violates NormalFormIsFixedPoint"],
        "exhaustive": not ctx.quick, "samples": samples,
    }
    return ctx.finish("model_checking", cov, assumptions=[
        "TLC; conc()/lex() of zz_verif_c15_test.go (token spellings and the longest-match lexer over the same spellings)",
        "list server = httptest server on loopback with hijacked connections for cuts; connection errors = dial to a closed port",
        "scheduled refresh = periodicallyRefreshFilters called directly with LastUpdated back-dated for the due lists (no timer loop)",
        "rules in force observed through CheckHost on one probe name per rule atom and list",
        "checksum collisions of the real CRC-32 are ignored; last_updated / file mtime are not compared (statement silent)",
        "whether a #-line that is not a plain comment (##, #@#, #?#, #$#, #%#) is a comment or a rule is measured per spelling on a text "
        "without a title line and then demanded of every text, of restarts and of refreshes",
        "the remembered checksum is read from the unexported FilterYAML.checksum only to see whether it changed in a step",
    ])


# ------------------------------------------------------------------ replay
def replay(ctx, path):
    rec = json.load(open(path))["record"]
    kind = rec.get("kind")
    # measure the parser policy of the tree under test first (one trivial vector)
    _, ps = parser_replay(ctx, [{"t": [], "adm": [{"ok": True, "rules": [], "cosm": c} for c in (False, True)]}], tag="p")
    cosm = choose_policy(ctx, ps["policies"])
    if kind in ("parser", "parser-trace"):
        t = rec["t"] if kind == "parser" else rec["line"]["t"]
        rows, summ = parser_replay(ctx, [{"t": t, "adm": rec.get("adm") or []}], tag="r")
        bad = [x for x in rows if x.get("kind") in ("bad", "chunking")]
        print(json.dumps({"text": t, "admissible": rec.get("adm"), "observed": [b["got"] for b in bad] or "admissible"}, indent=1))
        return 1 if bad else 0
    if kind == "tour":
        tour = {"id": 0, "cfg": rec["cfg"], "lists": rec["lists"], "block": rec["block"], "atoms": ["R1", "R2"],
                "steps": [{"act": s["act"], "script": s["script"], "dst": s["dst"], "rew": s["rew"],
                           "sumchg": s.get("sumchg", []), "rewfree": s.get("rewfree", [])} for s in rec["steps"]]}
        vin, vout = ctx.path("c15_replay_in.ndjson"), ctx.path("c15_replay_out.ndjson")
        vlib.write_ndjson(vin, [tour])
        rc, out = go(ctx, "^TestZZVerifC15Tours$", {"VERIF_IN": vin, "VERIF_OUT": vout, "VERIF_PAR": "1"})
        rows = vlib.read_ndjson(vout)
        bad = [r for r in rows if r.get("kind") == "bad"]
        last = rec["steps"][-1]
        print(json.dumps({"history": [(s["act"], {l: b["k"] for l, b in s["script"].items()}) for s in rec["steps"]],
                          "expected": last["dst"], "expected_rew": last["rew"],
                          "observed": [{"step": b["step"], "diffs": b["diffs"], "state": b["got"]["state"], "rew": b["got"]["rew"]} for b in bad] or "as expected"}, indent=1))
        return 1 if bad else 0
    if kind == "trace":
        tout = ctx.path("c15_replay_trace.ndjson")
        rc, out = go(ctx, "^TestZZVerifC15RefreshTrace$", {"VERIF_OUT": tout, "VERIF_ONLY": str(rec["trace"])})
        rows = vlib.read_ndjson(tout)
        if rc != 0 or not rows:
            raise vlib.Inconclusive("trace driver did not complete:\n" + out[-2000:])
        for r in rows:
            if r.get("ev") == "boot":
                r["cfg"]["cosm"] = cosm
        v = validate_refresh_trace(ctx, rows)
        rej = [{"step": rows[n - 1]["i"], "act": rows[n - 1]["act"], "observed": rows[n - 1]["obs"]} for n in v["bad"]]
        print(json.dumps({"trace": rec["trace"], "rejected_steps": rej or "none"}, indent=1))
        return 1 if rej else 0
    raise vlib.Inconclusive("unknown replay record kind %r" % kind)
