"""C20 -- query-log files read backwards completely; timestamp seeks land on the entry.

Pipeline (see notes/C20.md):

  1. TLC, abstract level: QLogFileProps (statement's sentences as invariants over
     all histories; emits the edge relation of the abstract reader per log).
  2. TLC, algorithm level: QLogFileAlgMC (qlogfile.go's byte arithmetic with scaled
     constants, the 0-byte file included) REFINES the abstract reader; negative
     controls that must fail: lines as long as the limit, and the code without
     the empty-file guard of commit ecfd163.
  3. Direction A1: every log of the abstract universe is rendered with real line
     lengths (tiny / ~8 KiB / 16 KiB-1); the Go harness puts the real qLogFile /
     qLogReader into every abstract state and performs every action; every
     observed edge must be in the relation TLC emitted.
  4. Direction A2 + B: layouts enumerated by TLC at the algorithm level are read
     as fractions of the real limits and rendered as files below / around /
     above the 32 KiB probe window and the 1.6 MB buffer; the real code is
     driven through scripted reads and seeks; TLC validates the op log against
     the abstract reader (TraceQLogFile) and, for the single-file level, the
     logged position / bufferStart / depth against the algorithm spec with the
     real constants (TraceQLogFileAlg).
"""
import bisect
import concurrent.futures as cf
import json
import os
import random
import shutil

import vlib

PKG = "internal/querylog"
FILES = ["zz_verif_common_test.go", "zz_verif_c20_test.go"]

MAXENTRY = 16 * 1024
BUFSIZE = 100 * MAXENTRY
MINLEN = 64

KEY_EMPTY = "empty-file-seek-eof"


# --------------------------------------------------------------- concretisation
def tsmap(npoints, rng):
    """Strictly increasing real timestamps (ns) for the abstract grid 0..npoints-1."""
    base = rng.randint(1420070400, 1735689600) * 10**9  # 2015 .. 2025
    style = rng.choice(["ns", "mixed", "mixed", "sec", "ms", "us"])
    if style == "sec":
        base -= base % 10**9
    out = []
    cur = base
    budget = 2 * 365 * 86400 * 10**9 // max(1, npoints)   # keep the span below ~2 years
    for _ in range(npoints):
        out.append(cur)
        if style == "ns":
            g = rng.choice([1, 1, 2, 3])
        elif style == "sec":
            g = 10**9 * rng.choice([1, 1, 2, 60])
        elif style == "ms":
            g = 10**6 * rng.randint(1, 50)
        elif style == "us":
            g = 10**3 * rng.randint(1, 999)
        else:
            g = rng.choice([1, 2, 999, 1000, 10**6, 10**9 + 1, 3600 * 10**9, rng.randint(1, 10**10)])
        cur += min(g, max(1, budget))
    return out


# Record layouts (QLogFile!Layouts), numbered order*12 + addr*3 + tsf for the harness; -1 is the bare
# record {"T":..} that fits into MINLEN bytes.  LAY_BOUND: bytes a line of that order needs at most.
ORDERS = ["T", "IP", "long130", "long260", "long1100", "last"]
ADDRS = ["v4", "v6s", "v6f", "v6z"]
TSFORMS = ["utc", "off", "nsoff"]
LAY_BOUND = [150, 150, 285, 415, 1255, 120]


def lay_code(lay):
    return ORDERS.index(lay["order"]) * 12 + ADDRS.index(lay["addr"]) * 3 + TSFORMS.index(lay["tsf"])


def lay_bound(code):
    return MINLEN if code < 0 else LAY_BOUND[code // 12]


def any_layout(ln, rng):
    """Seeded layout for a line of ln bytes whose layout the spec leaves open ("any")."""
    orders = [o for o in range(6) if LAY_BOUND[o] <= ln]
    if not orders or rng.random() < 0.15:
        return -1
    return rng.choice(orders) * 12 + rng.randrange(12)


def class_len(cls, rng, floor=MINLEN):
    if cls == "t":
        return rng.choice([floor, floor + 1, rng.randint(floor, floor + 336)])
    if cls == "h":
        return rng.choice([MAXENTRY // 2 - 1, MAXENTRY // 2, rng.randint(7800, 8600)])
    return rng.choice([MAXENTRY - 1, MAXENTRY - 1, MAXENTRY - 2, rng.randint(16000, MAXENTRY - 1)])


def walk_case(cid, vec, seed):
    """A config of QLogFileProps rendered with real line lengths."""
    rng = random.Random(seed)
    n = vec["n"]
    files = []
    for f in vec["files"]:
        lens, lays = [], []
        for ln in f:
            if ln["lay"]["order"] == "any":
                l = class_len(ln["len"], rng)
                lays.append(any_layout(l, rng))
            else:
                code = lay_code(ln["lay"])
                l = class_len(ln["len"], rng, lay_bound(code))
                lays.append(code)
            lens.append(l)
        files.append({"ts": [ln["ts"] for ln in f], "len": lens, "lay": lays})
    return {"id": cid, "level": vec["level"], "mode": "walk", "files": files, "ops": [],
            "tsmap": tsmap(2 * n + 3, rng), "seed": rng.randint(1, 1 << 30)}


DELTAS = [0, 1, -1, 2, -2, MAXENTRY - 1, -(MAXENTRY - 1), MAXENTRY, -MAXENTRY, MAXENTRY + 1, -(MAXENTRY + 1)]


def layout_lengths(lens, mode, rng):
    """Real content lengths for a scaled layout (lengths 1..3 of MaxEntry = 4)."""
    out = []
    if mode == "tiny":
        for l in lens:
            out.append(MINLEN + (l - 1) * rng.randint(0, 40))
        return out
    if mode == "probe":
        # one real line per scaled line, the scaled byte = 4096 real bytes
        for l in lens:
            jitter = 0 if rng.random() < 0.5 else rng.randint(0, 4095)
            out.append(max(MINLEN, (l + 1) * 4096 - 1 - jitter))
        return out
    # mode "buf": the scaled byte = BufSize / 12 real bytes; a scaled line becomes a
    # run of real lines of the class given by its scaled length.
    unit = BUFSIZE / 12.0
    cls_of = {1: "t", 2: "h", 3: "m"}
    want = 0.0
    have = 0
    for l in lens:
        want += (l + 1) * unit
        while have < want:
            c = cls_of[l] if rng.random() < 0.9 else rng.choice("thm")
            ln = class_len(c, rng)
            out.append(ln)
            have += ln + 1
    units = sum(l + 1 for l in lens)
    delta = rng.choice(DELTAS) if rng.random() < 0.7 else rng.randint(-2 * MAXENTRY, 2 * MAXENTRY)
    target = int(round(units * unit)) + delta
    diff = target - have
    while diff < 0 and len(out) > 1:
        ln = out.pop(rng.randrange(len(out)))
        diff += ln + 1
    while diff > 0:
        c = min(diff, MAXENTRY)
        if 0 < diff - c < MINLEN + 1:
            c -= MINLEN + 1
        if c < MINLEN + 1:
            break   # cannot hit the target exactly; close enough
        out.insert(rng.randrange(len(out) + 1), c - 1)
        diff -= c
    return out



# ------------------------------------------------------------ alignment classes
# The scaled exhaustive universe (QLogFileAlg!ReadClasses / !ProbeClasses, emitted per layout by
# QLogFileAlgMC) tells WHICH ways a buffer start or a probe-window edge can lie relative to the line
# being extracted.  Every class is realised here with a real-size file by solving for the padding,
# and afterwards found again in the positions the real code logged (read_classes_hit).

def fill(nbytes, rng):
    """Content lengths of filler lines occupying exactly nbytes bytes (each line + its newline)."""
    if nbytes == 0:
        return []
    if nbytes < MINLEN + 1:
        raise ValueError("cannot fill %d bytes with lines of >= %d bytes" % (nbytes, MINLEN))
    out = []
    while nbytes > MAXENTRY + MINLEN + 1:
        c = MAXENTRY if rng.random() < 0.8 else rng.randint(MINLEN + 1, MAXENTRY)
        out.append(c - 1)
        nbytes -= c
    if nbytes <= MAXENTRY:
        out.append(nbytes - 1)
    else:
        out += [nbytes - 8000 - 1, 8000 - 1]
    return out


LEN_OF = {"max": MAXENTRY - 1, "sub": MAXENTRY - 2}


def len_class(l):
    return "max" if l == MAXENTRY - 1 else "sub" if l == MAXENTRY - 2 else "small"


def off_class(d):
    return "0" if d == 0 else "1" if d == 1 else "2+"


def ol_class(d):
    return "<-1" if d < -1 else "-1" if d == -1 else "0" if d == 0 else "1" if d == 1 else ">1"


def reinit_distance(c, L, rng):
    """How far into the old buffer the line X (L bytes) must end for trigger class c["trig"] and
    start class c["ol"]; None if no such distance exists."""
    if c["trig"] in ("0", "1"):
        r0 = int(c["trig"])
    elif c["ol"] == "<-1":
        r0 = L - 2 if rng.random() < 0.5 else rng.randint(2, L - 2)
    elif c["ol"] == ">1":
        r0 = L + 2 if rng.random() < 0.5 else rng.randint(L + 2, MAXENTRY - 1) if L + 2 <= MAXENTRY - 1 else -1
    else:
        r0 = L + int(c["ol"])
    if not 0 <= r0 <= MAXENTRY - 1 or ol_class(r0 - L) != c["ol"] or (r0 >= 2) != (c["trig"] == "more"):
        return None
    return r0


def read_class_unrealisable(c):
    """Scaled classes that need a line of at most 2 bytes: a re-init triggered on or next to the old
    buffer start whose line nevertheless begins at most one byte before that start."""
    return c["kind"] == "reinit" and c["trig"] in ("0", "1") and c["ol"] != "<-1"


def solve_read_class(c, rng):
    """Content lengths (oldest line first) of a file whose backward read after SeekStart passes
    through alignment class c.  None if the class needs a line shorter than MINLEN bytes."""
    L = LEN_OF.get(c["len"], rng.choice([300, 8000, MINLEN]) if c["kind"] != "keep" or c["on"] == "zero" else rng.choice([6000, 8000]))
    head = fill(rng.randint(1, 3) * 20000 + rng.randint(0, 5000), rng)
    if c["on"] == "zero":
        # the buffer starts at the file start: the line is the first of the file ("bof") or not
        pre = [] if c["lf"] == "bof" else [rng.choice([MINLEN, 700, MAXENTRY - 1])]
        pbytes = sum(x + 1 for x in pre)
        p = pbytes + L                      # newline of the line X
        if c["kind"] == "nil":
            return pre + [L]                # X is the last line: read first, buffer absent
        if c["kind"] == "keep":
            return pre + [L] + fill(rng.randint(MINLEN + 1, 40000), rng)   # file below the buffer size
        # re-initialisation that lands on the file start: old buffer start b0 = p - r0 > 0
        r0 = reinit_distance(c, L, rng)
        if r0 is None:
            return None
        if p - r0 <= 0:
            if not pre:
                return None
            pre = [MAXENTRY - 1]
            p = MAXENTRY + L
        lw = rng.randint(max(MINLEN, MAXENTRY - r0 - 1), MAXENTRY - 1)   # the line after X: no line end
        return pre + [L, lw] + fill(BUFSIZE - r0 - lw - 1, rng)          # in (b0, b0 + MaxEntry) but p
    delta = {"lf": 0, "last": 1, "first": -1, "inside": -rng.randint(2, 40)}[c["on"]]   # a newline at bs + delta
    if c["kind"] == "reinit":
        # second buffer: the first one starts at b0 = Size - 1 - BufSize; X ends at p = b0 + r0 and is
        # the first line end below b0 + MaxEntry (the line W after it is long enough); the new buffer
        # starts at p - BufSize, delta bytes after the newline that ends the head
        r0 = reinit_distance(c, L, rng)
        if r0 is None:
            return None
        lw = rng.randint(max(MINLEN, MAXENTRY - r0 - 1), MAXENTRY - 1)
        return head + fill(BUFSIZE - delta - L - 1, rng) + [L, lw] + fill(BUFSIZE - r0 - lw - 1, rng)
    # buffer start bs > 0 = Size - 1 - BufSize (the first buffer of the backward read)
    if c["kind"] == "nil":
        # X is the last line; head ends with the newline at bs + delta
        return head + fill(BUFSIZE - L - 1 - delta, rng) + [L]
    # kind keep: the newline before X at bs + d, X read without re-initialisation (d + L + 1 >= MaxEntry)
    if c["lf"] == "0":
        d = 0
    elif c["lf"] == "1":
        d = 1
    elif c["rel"] == "=":
        if c["len"] != "small":
            return None
        L = 8000
        d = MAXENTRY - L - 1
    else:
        d = max(MAXENTRY - L - 1, 0) + rng.randint(2500, 4000)
    if d + L + 1 < MAXENTRY or (c["rel"] == "=") != (d + L + 1 == MAXENTRY):
        return None
    mid = []
    if d != delta:
        ly = d - delta - 1                  # one line between the newline at bs+delta and the one at bs+d
        if not MINLEN <= ly <= MAXENTRY - 1:
            return None
        mid = [ly]
    elif delta < 0:
        return None
    return head + mid + [L] + fill(BUFSIZE - d - L - 1, rng)


def geometry(lens):
    ends, s = [], 0
    for ln in lens:
        s += ln + 1
        ends.append(s - 1)
    return ends


def on_class(ends, endset, b):
    if b == 0:
        return "zero"
    if b in endset:
        return "lf"
    if b + 1 in endset:
        return "last"
    if b - 1 in endset:
        return "first"
    return "inside"


def read_class(ends, endset, p, bn, b0, bs):
    """Class of the ReadNext that was made at position p (a line's newline) with buffer state
    (bn, b0) and left bufferStart = bs -- the Python twin of QLogFileAlg!ReadClass, fed with the
    positions the real code logged."""
    i = bisect.bisect_left(ends, p)
    a = ends[i - 1] + 1 if i > 0 else 0
    kind = "nil" if bn else ("reinit" if p - b0 < MAXENTRY and b0 != 0 else "keep")
    t0 = p - b0
    return {"kind": kind,
            "trig": "-" if kind != "reinit" else "0" if t0 == 0 else "1" if t0 == 1 else "more",
            "ol": "-" if kind != "reinit" else ol_class(a - b0),
            "rel": "-" if kind != "keep" or bs == 0 else "=" if p - bs == MAXENTRY else ">",
            "len": len_class(p - a),
            "lf": ("bof" if a == 0 else "in") if bs == 0 else off_class(a - 1 - bs),
            "on": on_class(ends, endset, bs)}


def ckey(c):
    return json.dumps(c, sort_keys=True)


def read_classes_hit(case, rows):
    """Alignment classes the real single-file reader went through in this case, from its log."""
    if case["level"] != "file":
        return set()
    ends = geometry(case["files"][0]["len"])
    endset = set(ends)
    hit = set()
    pos, bs, bn = 0, 0, True
    for r in sorted((r for r in rows if r["k"] == "op"), key=lambda r: r["oi"]):
        if r["op"] == "reads" and "ps" in r:
            for j in range(r["n"]):
                if pos > 0 and pos in endset:
                    hit.add(ckey(read_class(ends, endset, pos, bn, bs, r["bss"][j])))
                    bn = False
                pos, bs = r["ps"][j], r["bss"][j]
        else:
            pos, bs, bn = r["pos"], r["bs"], r["bn"]
    return hit


def probe_line(ends, size, p):
    """readProbeLine on the file geometry: (lineIdx, lineEnd, lineEndIdx, seekPos, winEnd)."""
    seek = p - MAXENTRY if p > MAXENTRY else 0
    win_end = min(seek + 2 * MAXENTRY, size)
    k = bisect.bisect_left(ends, p)             # newlines below p
    nl = ends[k - 1] if k >= 1 and ends[k - 1] >= seek else -1
    line_idx = seek if nl == -1 else nl + 1
    nr = ends[k] if k < len(ends) and ends[k] < win_end else -1
    line_end = win_end if nr == -1 else nr
    return line_idx, line_end, (win_end if nr == -1 else nr + 1), seek, win_end


def probe_classes(lens, targets=None):
    """{class key: target} for the probes seekTS makes on a well-formed file (line g has abstract
    timestamp 2g).  Used to SELECT files and to ACCOUNT for coverage, never for a verdict."""
    ends = geometry(lens)
    size = ends[-1] + 1 if ends else 0
    n = len(lens)
    out = {}
    if size == 0:
        return out
    starts = {(ends[i - 1] + 1 if i else 0): i + 1 for i in range(n)}
    for t in (targets or range(1, 2 * n + 2)):
        start, end, p, last, depth = 0, size, size // 2, -1, 0
        while True:
            li, le, lei, seek, win_end = probe_line(ends, size, p)
            c = {"z": seek == 0, "clip": win_end < seek + 2 * MAXENTRY,
                 "len": "eof" if li == size else len_class(le - li),
                 "dl": "bof" if li == 0 else off_class(li - 1 - seek),
                 "dr": "-" if li == size else off_class(win_end - 1 - le)}
            out.setdefault(ckey(c), t)
            if li == last or li == size:
                break
            ts = 2 * starts[li]
            if ts == t:
                break
            if ts > t:
                end = li
            else:
                start = lei
            p = start + (end - start) // 2
            last = li
            depth += 1
            if depth >= 100:
                break
    return out


def solve_probe_class(c, rng):
    """A file whose FIRST probe (Size div 2) falls into class c (window neither at the file start
    nor clipped); None for the other classes, which select_probe_files looks for by enumeration."""
    if c["z"] or c["clip"] or c["len"] == "eof" or c["dl"] == "bof":
        return None
    L = LEN_OF.get(c["len"], 8000)
    want = 2 * MAXENTRY - 2 - L              # dl + dr for a window that contains the whole line
    if c["dl"] != "2+":
        dl = int(c["dl"])
    elif c["dr"] != "2+":
        dl = want - int(c["dr"])
    else:
        dl = want // 2
    dr = want - dl
    if off_class(dl) != c["dl"] or off_class(dr) != c["dr"] or not 0 <= MAXENTRY - 1 - dl <= L:
        return None
    a = rng.randint(2, 6) * 20000 + rng.randint(0, 999)      # X starts at offset a
    P = a + MAXENTRY - 1 - dl
    tail = 2 * P - a - L - 1
    if tail < MINLEN + 1 or a < MINLEN + 1:
        return None
    return fill(a, rng) + [L] + fill(tail, rng)


def select_probe_files(layouts, want, rng):
    """Greedy cover of the probe classes in `want` by real-size files: first the solved ones, then an
    enumeration of the scaled layouts at the isomorphic scale (1 scaled byte = 4096 bytes) with
    boundary-length variants."""
    chosen, covered = [], set()
    for k in sorted(want):
        if k in covered:
            continue
        lens = solve_probe_class(json.loads(k), rng)
        if lens is not None:
            pcs = probe_classes(lens)
            if k in pcs:
                chosen.append((lens, sorted(set(pcs.values()))))
                covered |= set(pcs)
    cands = []
    for lay in layouts:
        if not lay:
            continue
        base = [(l + 1) * 4096 - 1 for l in lay]
        cands.append(base)
        for v in (MAXENTRY - 2, MINLEN, 8000):
            i = rng.randrange(len(base))
            cands.append(base[:i] + [v] + base[i + 1:])
    rng.shuffle(cands)
    for lens in cands:
        if not (want - covered):
            break
        pcs = probe_classes(lens)
        new = (set(pcs) & want) - covered
        if new:
            chosen.append((lens, sorted({pcs[k] for k in new})))
            covered |= set(pcs)
    # exact offsets ("0", "1") next to a clipped window do not survive scaling: look for them among
    # short files of boundary lengths
    vals = [MINLEN, MINLEN + 1, MINLEN + 2, 100, 4000, 8000, 8191, 12287, MAXENTRY - 3, MAXENTRY - 2, MAXENTRY - 1]
    for n in (2, 3, 4, 5):
        for _ in range(3000):
            if not (want - covered):
                break
            lens = [rng.choice(vals) if rng.random() < 0.7 else rng.randint(MINLEN, MAXENTRY - 1) for _ in range(n)]
            pcs = probe_classes(lens)
            new = (set(pcs) & want) - covered
            if new:
                chosen.append((lens, sorted({pcs[k] for k in new})))
                covered |= set(pcs)
    return chosen, want - covered


def probe_class_unrealisable(c):
    """Scaled classes that cannot exist with real log lines (a line holds at least its timestamp,
    MINLEN bytes): a newline at offset 1 of the file, or a probe 2 bytes before the end of a file
    whose last line is longer than 3 bytes."""
    return (c["z"] and c["dl"] == "1") or (c["clip"] and not c["z"] and c["dl"] == "1" and c["dr"] == "0")


def aligned_case(cid, desc):
    """An op case for a file given by explicit content lengths (an alignment-class realisation)."""
    rng = random.Random(desc["seed"])
    lens = desc["explicit"]
    n = len(lens)
    grid_max = 2 * n + 1
    ops = [[0], [2, -1, 1]]
    tg = set(desc.get("targets") or [])
    if n <= 8:
        tg.update(range(1, grid_max + 1))
    else:
        # the lines around the solved place (it is at the end of the head filler) and a few others
        ends = geometry(lens)
        s = ends[-1] + 1
        for off in (s - 1 - BUFSIZE, s - 1 - BUFSIZE + MAXENTRY, s // 2):
            if 0 <= off < s:
                i = bisect.bisect_left(ends, off)
                for g in (i, i + 1, i + 2):
                    if 1 <= g <= n:
                        tg.update([2 * g, 2 * g + 1])
        tg.update([1, grid_max, 2 * rng.randint(1, n), 2 * rng.randint(1, n) + 1])
    for t in sorted(tg):
        if 1 <= t <= grid_max:
            ops.append([1, t])
            ops.append([2, rng.choice([1, 2, 3]) if n > 8 else -1, 1])
    return {"id": cid, "level": "file", "mode": "ops",
            "files": [{"ts": [2 * (g + 1) for g in range(n)], "len": lens, "lay": [any_layout(l, rng) for l in lens]}],
            "ops": ops, "tsmap": tsmap(grid_max + 2, rng), "seed": 0}


def ops_case(cid, desc):
    """Deterministic function of the descriptor: files, timestamps and the script."""
    if "explicit" in desc:
        return aligned_case(cid, desc)
    rng = random.Random(desc["seed"])
    lens = layout_lengths(desc["lens"], desc["mode"], rng)
    n = len(lens)
    level = desc["level"]
    if level == "reader2":
        r = rng.random()
        k = 0 if r < 0.03 else n if r < 0.06 else rng.randint(0, n)
        k = {"empty_old": 0, "empty_cur": n}.get(desc.get("split"), k)
        parts = [(0, k), (k, n)]
    else:
        parts = [(0, n)]
    lays = [any_layout(l, rng) for l in lens]
    files = [{"ts": [2 * (g + 1) for g in range(a, b)], "len": lens[a:b], "lay": lays[a:b]} for a, b in parts]
    quick = desc["tier"] == "quick"

    # --- targets ---------------------------------------------------------------
    grid_max = 2 * n + 1
    tg = set([1, grid_max])
    if n <= (60 if quick else 150):
        tg.update(range(1, grid_max + 1))
    else:
        for g in list(range(1, 6)) + list(range(n - 4, n + 1)):
            tg.update([2 * g, 2 * g + 1])
        for _ in range(40 if quick else 120):
            tg.add(2 * rng.randint(1, n))
        for _ in range(20 if quick else 60):
            tg.add(2 * rng.randint(1, n) + 1)
        # lines at the places where the code's windows fall
        for a, b in parts:
            ends, s = [], 0
            for ln in lens[a:b]:
                s += ln + 1
                ends.append(s - 1)
            for off in [s - 1 - BUFSIZE, s - 1 - 2 * BUFSIZE, s - BUFSIZE + MAXENTRY, s - 1 - BUFSIZE - MAXENTRY,
                        s // 2, s // 4, 3 * s // 4, MAXENTRY, 2 * MAXENTRY, BUFSIZE, BUFSIZE + 1]:
                if 0 <= off < s:
                    i = bisect.bisect_left(ends, off)
                    for g in (a + i, a + i + 1, a + i + 2):
                        if 1 <= g <= n:
                            tg.update([2 * g, 2 * g + 1, 2 * g - 1])
    tg = sorted(t for t in tg if 1 <= t <= grid_max)
    rng.shuffle(tg)

    # --- script ----------------------------------------------------------------
    ops = [[0], [2, -1, 1]]
    fulls = 1 if quick else 2
    fulls_detail = 1
    for t in tg:
        ops.append([1, t])
        r = rng.random()
        if r < 0.6:
            ops.append([2, rng.choice([1, 1, 2, 3]), 1])
        elif r < 0.7 and fulls + fulls_detail > 0 and t > grid_max // 2:
            if fulls_detail > 0:
                fulls_detail -= 1
                ops.append([2, -1, 1])
            else:
                fulls -= 1
                ops.append([2, -1, 0])
        elif r < 0.75:
            ops.append([0])
            ops.append([2, rng.randint(1, 4), 1])
    # read -> failed seek -> read, at every level: position on a stored line, read a little, seek
    # an absent timestamp of each kind (before everything, between two neighbours of each file,
    # in the gap between the files, after everything), and keep reading.
    if n >= 1:
        absent = [1, grid_max]
        for a, b in parts:
            if b - a >= 2:
                g = rng.randint(a + 1, b - 1)
                absent.append(2 * g + 1)            # between lines g and g+1 of this file
        if len(parts) == 2 and 0 < parts[0][1] < n:
            absent.append(2 * parts[0][1] + 1)      # the gap between rotated and current file
        for t in absent:
            for _ in range(2):
                g = rng.randint(1, n)
                ops.append([1, 2 * g])
                ops.append([2, rng.randint(1, 3), 1])
                ops.append([1, t])
                ops.append([2, rng.randint(1, 3), 1])
    return {"id": cid, "level": "file" if level == "file" else "reader", "mode": "ops", "files": files,
            "ops": ops, "tsmap": tsmap(grid_max + 2, rng), "seed": 0}


# --------------------------------------------------------------------- running
def run_go_one(ctx, cases, tag, wd_ms=None, timeout=1500):
    d = ctx.path("files_" + tag)
    shutil.rmtree(d, ignore_errors=True)
    os.makedirs(d)
    vin, vout = ctx.path("c20_%s_in.ndjson" % tag), ctx.path("c20_%s_out.ndjson" % tag)
    vlib.write_ndjson(vin, cases)
    env = {"VERIF_IN": vin, "VERIF_OUT": vout, "VERIF_DIR": d}
    if wd_ms:
        env["VERIF_WD_MS"] = str(wd_ms)
    try:
        # (the alternative that matches nothing gives every parallel shard its own overlay file
        # name in vlib.go_test, which derives it from the -run expression)
        rc, out = ctx.go_test(PKG, FILES, "^TestZZVerifC20Run$|^zz_%s$" % tag, env=env, timeout=timeout)
    finally:
        shutil.rmtree(d, ignore_errors=True)   # big files never outlive the run
    rows = vlib.read_ndjson(vout)
    if not os.environ.get("VERIF_KEEP"):
        os.remove(vin)
        if os.path.exists(vout):
            os.remove(vout)
    summ = [r for r in rows if r.get("k") == "summary"]
    if rc != 0 or not summ:
        raise vlib.Inconclusive("C20 harness did not complete (%s):\n%s" % (tag, out[-3000:]))
    return rows, summ[0]


def run_go(ctx, cases, tag, wd_ms=None, timeout=1500, shards=1):
    """Run the cases through the Go harness (in `shards` parallel test processes; each holds at
    most one case's files on disk at a time).  -> ({case id: records}, summary)"""
    shards = max(1, min(shards, len(cases) // 20 or 1))
    parts = [cases[i::shards] for i in range(shards)]
    if shards == 1:
        results = [run_go_one(ctx, parts[0], tag, wd_ms, timeout)]
    else:
        # the first build is done once, alone, so that the shards hit the build cache
        first = run_go_one(ctx, parts[0][:1], tag + "_warm", wd_ms, timeout)
        parts[0] = parts[0][1:]
        with cf.ThreadPoolExecutor(max_workers=shards) as ex:
            futs = [ex.submit(run_go_one, ctx, part, "%s_%d" % (tag, i), wd_ms, timeout) for i, part in enumerate(parts)]
            results = [first] + [f.result() for f in futs]
    by, summ = {}, {"cases": 0, "calls": 0, "hangs": 0}
    for rows, sm in results:
        for k in summ:
            summ[k] += sm[k]
        for r in rows:
            if "id" in r:
                by.setdefault(r["id"], []).append(r)
    return by, summ


def edge_table(vec):
    tab = set()
    for e in vec["edges"]:
        tab.add((e["src"], e["act"], e["arg"], e["res"], e["line"], e["dst"]))
    return tab


def edge_ok(tab, n, e):
    k = (e["src"], e["act"], e["arg"], e["res"], e["line"])
    return (k + (e["dst"],)) in tab


def has_empty_file(case):
    return any(len(f["ts"]) == 0 for f in case["files"])


def classify(case, rec):
    """Narrow key of a known finding, or None."""
    res = rec.get("res")
    act = rec.get("act") or rec.get("op") or rec.get("k")
    if act == "seek" and res == "ioerr" and has_empty_file(case):
        return KEY_EMPTY
    return None


def check_walk(vec, case, rows):
    """-> (bad edges, covered triples, unreached count, calls)"""
    tab = edge_table(vec)
    bad, covered, unreached = [], set(), 0
    for r in rows:
        if r["k"] == "edge":
            # an edge that starts from a mis-positioned object (src -3) is a consequence of the
            # edge that mis-positioned it (dst -3), which is the one reported
            if r["src"] != -3 and not edge_ok(tab, vec["n"], r):
                bad.append(r)
        elif r["k"] == "cover":
            covered.add((r["src"], r["act"], r["arg"]))
        elif r["k"] == "unreached":
            unreached += 1
    return bad, covered, unreached


# ------------------------------------------------------------------ op traces
def runs_of(idx):
    """Lossless run-length encoding of the line indices of successful reads."""
    runs = []
    for g in idx:
        if g == 0:
            continue
        if g < 0:
            runs.append([-1, -1])
        elif runs and runs[-1][1] == g + 1 and runs[-1][0] > 0:
            runs[-1][1] = g
        else:
            runs.append([g, g])
    return runs


def abs_records(case, rows):
    recs = [{"k": "file", "level": case["level"],
             "files": [[{"ts": t, "len": l} for t, l in zip(f["ts"], f["len"])] for f in case["files"]]}]
    for r in sorted((r for r in rows if r["k"] == "op"), key=lambda r: r["oi"]):
        if r["op"] == "start":
            recs.append({"k": "start", "res": r["res"], "cur": r["cur"], "oi": r["oi"]})
        elif r["op"] == "seek":
            recs.append({"k": "seek", "t": r["t"], "res": r["res"], "cur": r["cur"], "oi": r["oi"]})
        else:
            runs = r["runs"] if "runs" in r else runs_of(r["idx"])
            if r.get("detail"):
                runs = runs + [[-1, -1]]
            recs.append({"k": "reads", "n": r["n"], "eof": r["eof"], "runs": runs, "cur": r["cur"], "oi": r["oi"]})
    return recs


def alg_records(case, rows):
    f = case["files"][0]
    ends, s = [], 0
    for ln in f["len"]:
        s += ln + 1
        ends.append(s - 1)
    recs = [{"k": "file", "ends": ends, "ts": f["ts"]}]
    for r in sorted((r for r in rows if r["k"] == "op"), key=lambda r: r["oi"]):
        b = {"pos": r["pos"], "bs": r["bs"], "bn": r["bn"], "oi": r["oi"]}
        if r["op"] == "start":
            b.update(k="start", res=r["res"])
        elif r["op"] == "seek":
            b.update(k="seek", t=r["t"], res=r["res"], depth=r["depth"])
        else:
            b.update(k="reads", n=r["n"], eof=r["eof"])
            if "idx" in r:
                b.update(idx=r["idx"], ps=r["ps"], bss=r["bss"])
            else:
                b.update(runs=r["runs"])
        recs.append(b)
    return recs


def steps_of(recs):
    return sum(r.get("n", 1) if r["k"] == "reads" else (25 if r["k"] == "seek" else 1) for r in recs)


def validate_traces(ctx, module, per_case, max_steps, parallel, timeout):
    """per_case: {cid: [records]}.  Returns {cid: [oi of rejected records]} and the
    number of records consumed.  Chunks run as parallel single-worker TLC processes."""
    chunks, cur, cur_steps = [], [], 0
    for cid in sorted(per_case):
        st = steps_of(per_case[cid])
        if cur and cur_steps + st > max_steps:
            chunks.append(cur)
            cur, cur_steps = [], 0
        cur.append(cid)
        cur_steps += st
    if cur:
        chunks.append(cur)

    def one(ci):
        cids = chunks[ci]
        lines, owner = [], []
        for cid in cids:
            for r in per_case[cid]:
                owner.append((cid, r.get("oi", -1)))
                lines.append({k: v for k, v in r.items() if k != "oi"})
        tp = ctx.path("%s_trace_%d.ndjson" % (module, ci))
        vlib.write_ndjson(tp, lines)
        cfg = ctx.path("%s.c%d.cfg" % (module, ci))
        shutil.copy(os.path.join(vlib.SPECS, module + ".cfg"), cfg)
        r = ctx.tlc(module, cfg, workers=1, timeout=timeout, extra_files=[(tp, "trace.ndjson")], heap="3g")
        if not os.environ.get("VERIF_KEEP"):
            os.remove(tp)
            shutil.rmtree(r["dir"], ignore_errors=True)
        if not r["vectors"]:
            raise vlib.Inconclusive("%s chunk %d produced no verdict:\n%s" % (module, ci, r["out"][-1500:]))
        v = r["vectors"][-1]
        if v["n"] != len(lines):
            raise vlib.Inconclusive("%s chunk %d consumed %s of %d records" % (module, ci, v["n"], len(lines)))
        return [owner[i - 1] for i in v["bad"]], len(lines), r["generated"]

    bad, nrec, nstates = {}, 0, 0
    with cf.ThreadPoolExecutor(max_workers=parallel) as ex:
        for b, n, g in ex.map(one, range(len(chunks))):
            nrec += n
            nstates += g
            for cid, oi in b:
                bad.setdefault(cid, []).append(oi)
    return bad, nrec, nstates, len(chunks)


# ------------------------------------------------------------------------ main
def tlc_generate(ctx):
    """The vectors direction A starts from: the edge relation of every abstract log (QLogFileProps,
    Pick only) and every scaled layout (QLogFileAlgMC, Pick only).  Seconds."""
    tier = "quick" if ctx.quick else "thorough"
    res = {}

    def pgen():
        res["pgen"] = ctx.tlc("QLogFileProps", "QLogFileProps.gen%s.cfg" % tier, workers=1, timeout=300)

    def gen():
        res["gen"] = ctx.tlc("QLogFileAlgMC", "QLogFileAlgMC.gen.cfg", workers=2, timeout=300)

    def cls():
        # read-alignment classes of longer scaled files (7 lines quick / 8 thorough): files of more
        # than 2 x BufSize are needed for a re-initialisation that does not land on the file start
        res["cls"] = ctx.tlc("QLogFileAlgMC", "QLogFileAlgMC.classes%s.cfg" % tier, workers=4, timeout=600)

    with cf.ThreadPoolExecutor(max_workers=3) as ex:
        for f in [ex.submit(g) for g in (pgen, gen, cls)]:
            f.result()
    return res


def tlc_models_start(ctx, res):
    """Half 1: the exhaustive runs, started in the background while the Go harness works."""
    tier = "quick" if ctx.quick else "thorough"

    def props():
        res["props"] = ctx.tlc("QLogFileProps", "QLogFileProps.%s.cfg" % tier, workers=4, timeout=1500, coverage=True)

    def refine():
        res["ref"] = ctx.tlc("QLogFileAlgMC", "QLogFileAlgMC.%s.cfg" % tier, workers=4 if ctx.quick else 6,
                             timeout=2400, coverage=True)

    def small():
        res["neg"] = ctx.tlc("QLogFileAlgMC", "QLogFileAlgMC.neg.cfg", workers=1, timeout=300, expect_violation=True)
        # the file of 0 bytes alone: a positive configuration (it is also part of quick/thorough)
        res["empty"] = ctx.tlc("QLogFileAlgMC", "QLogFileAlgMC.empty.cfg", workers=1, timeout=300)
        # negative control: without the empty-file guard (the code before ecfd163) Refines must fail
        res["noguard"] = ctx.tlc("QLogFileAlgMC", "QLogFileAlgMC.noguard.cfg", workers=1, timeout=300, expect_violation=True)
        res["live"] = ctx.tlc("QLogFileAlgMC", "QLogFileAlgMC.live.cfg", workers=2, timeout=900)

    ex = cf.ThreadPoolExecutor(max_workers=3)
    return ex, [ex.submit(f) for f in (props, refine, small)]


def cov_counts(out):
    """{(module, line): largest evaluation count of an expression starting on that line}"""
    import re
    c = {}
    for m in re.finditer(r"line (\d+), col \d+ to line \d+, col \d+ of module (\w+): (\d+)", out):
        k = (m.group(2), int(m.group(1)))
        c[k] = max(c.get(k, 0), int(m.group(3)))
    return c


def line_of(module, snippet, nth=0):
    src = open(os.path.join(vlib.SPECS, module + ".tla")).read().splitlines()
    hits = [i + 1 for i, t in enumerate(src) if snippet in t]
    if len(hits) <= nth:
        raise vlib.Inconclusive("vacuity marker %r not found in %s.tla" % (snippet, module))
    return hits[nth]


def vacuity(res):
    """Every action and every outcome branch of the two specs was taken in the exhaustive
    runs (from TLC's -coverage 1 counters).  Expected to stay at zero: the io-error
    branch (empty files are checked by their own configuration), the fragment / no-timestamp
    branches and the depth-limit return of seekTS -- that they are unreachable is the point."""
    import re
    problems = []
    for key in ("props", "ref"):
        for nm in ("Pick", "Run"):
            m = re.search(r"^<%s line .*>: (\d+):(\d+)" % nm, res[key]["out"], re.M)
            if not m or int(m.group(1)) == 0:
                problems.append("%s: action %s never taken" % (key, nm))
    # abstract spec: a conjunct below the guard of each action was evaluated
    c = cov_counts(res["props"]["out"])
    for what, snip in (("SeekStart", "/\\ cur' = N"), ("ReadNext eof", '/\\ out\' = Reply("read", 0, "eof", 0)'),
                       ("ReadNext line", '/\\ out\' = Reply("read", 0, "ok", cur)'),
                       ("SeekFound", "/\\ cur' = Below(All, t) + 1"), ("SeekAbsentError", "/\\ cur' = cur "),
                       ("SeekTooLateFallsBackToStart", '/\\ out\' = Reply("seek", t, "ok", 0)')):
        nth = 1 if what == "SeekTooLateFallsBackToStart" else 0
        snip = snip.replace("/\\ out' = Reply(\"read\"", "out' = Reply(\"read\"")
        if c.get(("QLogFile", line_of("QLogFile", snip, nth)), 0) == 0:
            problems.append("abstract action %s never taken" % what)
    # algorithm spec
    c = cov_counts(res["ref"]["out"])

    def n(snip, nth=0):
        return c.get(("QLogFileAlg", line_of("QLogFileAlg", snip, nth)), 0)
    for what, snip in (("SeekStart", "/\\ position' = IF Size - 1 < 0"), ("ReadNext eof", 'THEN /\\ out\' = Reply("read", 0, "eof", 0)'),
                       ("ReadNext line", "/\\ bufferStart' = r.bs"), ("SeekTSBegin", "/\\ sLast' = -1")):
        if n(snip) == 0:
            problems.append("algorithm action %s never taken" % what)
    chain = [n("IF r.ioerr THEN"), n("ELSE IF r.lineIdx = sLast /\\ r.lineIdx = 0"), n("ELSE IF r.lineIdx = sLast THEN"),
             n("ELSE IF r.lineIdx = Size THEN"), n("ELSE IF ts = 0 THEN"), n("ELSE IF ts = sTarget THEN"),
             n("IN IF sDepth + 1 >= DepthLimit")]
    taken = {"tooEarly": chain[1] - chain[2], "notFound": chain[2] - chain[3], "tooLate": chain[3] - chain[4],
             "lands": chain[5] - chain[6], "narrows": chain[6]}
    for what, k in taken.items():
        if k <= 0:
            problems.append("Probe outcome %s never taken" % what)
    if res["neg"]["violated"] is None:
        problems.append("negative control (lines as long as MaxEntry) did not violate the refinement")
    if res["noguard"]["violated"] is None:
        problems.append("negative control (EmptyGuard = FALSE) did not violate the refinement")
    if n('/\\ out\' = Reply("seek", t, "tooEarly", 0)') == 0:
        problems.append("empty-file guard of SeekTSBegin never taken")
    return problems, taken


def run(ctx):
    rng = random.Random(ctx.seed)
    tier = "quick" if ctx.quick else "thorough"
    res = tlc_generate(ctx)
    edge_vecs = res["pgen"]["vectors"]
    layouts = [v["lens"] for v in res["gen"]["vectors"]]
    if len(edge_vecs) < 100 or len(layouts) < 1000:
        raise vlib.Inconclusive("too few vectors: %d configs, %d layouts" % (len(edge_vecs), len(layouts)))
    mc_pool, mc_futs = tlc_models_start(ctx, res)
    try:
        return run_binding(ctx, rng, tier, res, edge_vecs, layouts, mc_futs)
    finally:
        mc_pool.shutdown(wait=True)


def run_binding(ctx, rng, tier, res, edge_vecs, layouts, mc_futs):
    # ----------------------------------------------------------- A1: edge walk
    edge_vecs.sort(key=lambda v: json.dumps([v["level"], v["files"]], sort_keys=True))
    wcases = [walk_case(i + 1, v, ctx.seed * 1000003 + i) for i, v in enumerate(edge_vecs)]
    # --------------------------------------------- A2/B: layouts at real scale
    layouts.sort()
    n_ops = 40 if ctx.quick else 300
    forced = [l for l in layouts if len(l) == 6 and sum(x + 1 for x in l) in (12, 13, 23, 24)]
    rng.shuffle(forced)
    pool = [l for l in layouts if len(l) >= 1]
    picked = forced[: n_ops // 5]
    picked = picked + [rng.choice(pool) for _ in range(n_ops - len(picked) - 4)]
    # ordinary cases with empty files: the 0-byte file alone (file level => algorithm level too,
    # and reader level), and two-file readers whose rotated / current file is empty
    special = {len(picked): ("file", None), len(picked) + 1: ("reader1", None),
               len(picked) + 2: ("reader2", "empty_old"), len(picked) + 3: ("reader2", "empty_cur")}
    picked = picked + [[], [], rng.choice(pool), rng.choice(pool)]
    descs = []
    for i, l in enumerate(picked):
        units = sum(x + 1 for x in l)
        r = rng.random()
        mode = "buf" if (units >= 8 and r < 0.8) or r < 0.45 else ("probe" if r < 0.85 else "tiny")
        r = rng.random()
        level = "file" if r < 0.6 else ("reader1" if r < 0.7 else "reader2")
        d = {"lens": l, "mode": mode, "level": level, "seed": ctx.seed * 7919 + i, "tier": tier}
        if i in special:
            d["level"] = special[i][0]
            if not l:
                d["mode"] = "tiny"      # (mode buf would pad the file up to its size target)
            if special[i][1]:
                d["split"] = special[i][1]
        descs.append(d)
    # ---- alignment classes of the scaled universe, each realised by a solved real-size file
    rc_all = {ckey(c) for k in ("gen", "cls") for v in res[k]["vectors"] for c in v["rc"]}
    rc_want = {k for k in rc_all if not read_class_unrealisable(json.loads(k))}
    pc_want = {ckey(c) for v in res["gen"]["vectors"] for c in v["pc"]}
    arng = random.Random(ctx.seed * 104729 + 7)
    rc_unsolved = []
    for k in sorted(rc_want):
        lens = solve_read_class(json.loads(k), arng)
        if lens is None:
            rc_unsolved.append(k)
            continue
        descs.append({"explicit": lens, "align": json.loads(k), "level": "file", "mode": "aligned", "lens": [],
                      "seed": ctx.seed * 7919 + len(descs), "tier": tier})
    pc_real = {k for k in pc_want if not probe_class_unrealisable(json.loads(k))}
    pfiles, pc_missing = select_probe_files(layouts, pc_real, arng)
    for lens, tgs in pfiles:
        descs.append({"explicit": lens, "targets": tgs, "level": "file", "mode": "aligned-probe", "lens": [],
                      "seed": ctx.seed * 7919 + len(descs), "tier": tier})
    ocases = [ops_case(100000 + i, d) for i, d in enumerate(descs)]

    allc = wcases + ocases
    rng.shuffle(allc)
    by, summ = run_go(ctx, allc, "main", shards=3 if ctx.quick else 5)
    ctx.log("harness: %d cases, %d calls, %d hangs" % (summ["cases"], summ["calls"], summ["hangs"]))

    # ---- non-termination: re-run alone with a longer bound before reporting
    hangs = [cid for cid, rows in by.items() if any(r["k"] == "hang" for r in rows)]
    panics = [cid for cid, rows in by.items() if any(r["k"] == "panic" for r in rows)]
    case_of = {c["id"]: c for c in wcases + ocases}
    desc_of = {100000 + i: d for i, d in enumerate(descs)}
    vec_of = {i + 1: v for i, v in enumerate(edge_vecs)}
    for cid in hangs[:2]:
        by2, _ = run_go(ctx, [case_of[cid]], "hang%d" % cid, wd_ms=60000)
        h2 = [r for r in by2[cid] if r["k"] == "hang"]
        if h2:
            c = case_of[cid]
            ctx.disagreement(None, {"kind": "hang", "case": _replay_case(cid, vec_of, desc_of, ctx.seed), "call": h2[0].get("call"),
                                    "after_records": h2[0]["after_records"]},
                             "%s did not return within 60 s when the case was re-run alone (%s level, files with %s lines)" % (
                                 h2[0].get("call"), c["level"], [len(f["ts"]) for f in c["files"]]))
        else:
            ctx.notes.append("case %d exceeded the 10 s watchdog once, returned in isolation" % cid)
    for cid in panics[:5]:
        by2, _ = run_go(ctx, [case_of[cid]], "panic%d" % cid)
        p = [r for r in by2[cid] if r["k"] == "panic"]
        if p:
            ctx.disagreement(None, {"kind": "panic", "case": _replay_case(cid, vec_of, desc_of, ctx.seed), "detail": p[0]["detail"]},
                             "panic in the code under test: %s" % p[0]["detail"][:200])

    # ---- A1 verdicts
    a1_edges = a1_bad = a1_known = a1_unlisted = 0
    covered = total_triples = unreached = 0
    nontrivial = set()
    samples = []
    suspects = []
    for c in wcases:
        rows = by.get(c["id"], [])
        vec = vec_of[c["id"]]
        bad, cov, unr = check_walk(vec, c, rows)
        a1_edges += sum(1 for r in rows if r["k"] == "edge")
        covered += len(cov)
        unreached += unr
        total_triples += len({(e["src"], e["act"], e["arg"]) for e in vec["edges"]})
        for r in rows:
            if r["k"] == "edge" and (r["act"] == "seek" or r["res"] == "ok"):
                nontrivial.add((c["id"], r["src"], r["act"], r["arg"]))
        if bad:
            suspects.append((c, vec, bad))
        elif len(samples) < 2 and rows:
            samples.append({"walk_case": {"level": c["level"], "files": c["files"]},
                            "edge": [r for r in rows if r["k"] == "edge"][:1]})
    if suspects:
        # reproduce: the suspicious cases alone, a second time
        by2, _ = run_go(ctx, [c for c, _, _ in suspects], "a1repro")
    for c, vec, bad in suspects:
        bad2, _, _ = check_walk(vec, c, by2.get(c["id"], []))
        sig2 = {(r["src"], r["act"], r["arg"], r["res"], r["line"], r["dst"]) for r in bad2}
        seen = set()
        for r in bad:
            sig = (r["src"], r["act"], r["arg"], r["res"], r["line"], r["dst"])
            if sig not in sig2:
                ctx.notes.append("A1 edge %s of case %d not reproduced" % (sig, c["id"]))
                continue
            a1_bad += 1
            key = classify(c, r)
            if key:
                a1_known += 1
                if key in seen:
                    continue
            if (key, sig[1:]) in seen:
                continue
            seen.update([key, (key, sig[1:])])
            if key is None:
                a1_unlisted += 1
                if a1_unlisted > 25:
                    continue
            want = sorted(e for e in edge_table(vec) if e[:3] == sig[:3])
            ctx.disagreement(key, {"kind": "walk", "vec": vec, "seed": ctx.seed, "case_index": c["id"] - 1,
                                   "edge": r, "admissible": want},
                             "%s-level %s(%s) from cursor %s on files with %s lines: observed res=%s line=%s cursor->%s %s; spec admits %s" % (
                                 c["level"], r["act"], r["arg"], r["src"], [len(f["ts"]) for f in c["files"]],
                                 r["res"], r["line"], r["dst"], r.get("detail", "")[:160],
                                 [(e[3], e[4], e[5]) for e in want]))

    # ---- A2 / B verdicts
    abs_tr, alg_tr = {}, {}
    for c in ocases:
        rows = by.get(c["id"], [])
        if not any(r["k"] == "op" for r in rows):
            continue
        abs_tr[c["id"]] = abs_records(c, rows)
        if c["level"] == "file":
            alg_tr[c["id"]] = alg_records(c, rows)
    par = 3 if ctx.quick else 5
    chunk = 40000 if ctx.quick else 200000
    with cf.ThreadPoolExecutor(max_workers=2) as ex:
        fa = ex.submit(validate_traces, ctx, "TraceQLogFile", abs_tr, chunk, par, 1500)
        fb = ex.submit(validate_traces, ctx, "TraceQLogFileAlg", alg_tr, chunk, par, 1500)
        bad_abs, nrec_abs, st_abs, ch_abs = fa.result()
        bad_alg, nrec_alg, st_alg, ch_alg = fb.result()
    ctx.log("trace validation: abstract %d records (%d TLC steps, %d chunks), algorithm %d records (%d steps, %d chunks)" % (
        nrec_abs, st_abs, ch_abs, nrec_alg, st_alg, ch_alg))

    # ---- the trace specs can say no: corrupt one record of the smallest clean case each
    demo = {}
    clean = [cid for cid in alg_tr if cid not in bad_abs and cid not in bad_alg
             and any(r["k"] == "seek" and r["res"] == "ok" for r in abs_tr[cid])
             and any(r["k"] == "reads" and r["n"] > 0 for r in alg_tr[cid])]
    if not clean and not bad_abs and not bad_alg:
        raise vlib.Inconclusive("no clean single-file case to corrupt for the binding demonstration")
    if clean:
        cid = min(clean, key=lambda c: steps_of(alg_tr[c]))
        import copy
        ta, tb = copy.deepcopy(abs_tr[cid]), copy.deepcopy(alg_tr[cid])
        ia = next((i for i, r in enumerate(ta) if r["k"] == "seek" and r["res"] == "ok"), None)
        ib = next((i for i, r in enumerate(tb) if r["k"] == "reads" and r["n"] > 0), None)
        if ia is not None and ib is not None:
            ta[ia]["cur"] += 1              # "landed one line further"
            tb[ib]["bs"] += 1               # "buffer starts one byte later"
            if "bss" in tb[ib]:
                tb[ib]["bss"][-1] += 1
            da, _, _, _ = validate_traces(ctx, "TraceQLogFile", {cid: ta}, 10**9, 1, 600)
            db, _, _, _ = validate_traces(ctx, "TraceQLogFileAlg", {cid: tb}, 10**9, 1, 600)
            demo = {"abstract_corrupted_op_rejected": da.get(cid, []) == [ta[ia]["oi"]],
                    "algorithm_corrupted_op_rejected": db.get(cid, []) == [tb[ib]["oi"]]}
            if not all(demo.values()):
                raise vlib.Inconclusive("a corrupted trace record was not rejected: %s" % demo)

    ops_known = ops_bad = truncated = 0
    alg_only = []
    again = sorted(set(list(bad_abs)[:20] + list(bad_alg)[:20]))
    if again:
        # reproduce: the rejected cases alone, harness and TLC, a second time
        by2, _ = run_go(ctx, [case_of[cid] for cid in again], "opsrepro")
    for which, module, badmap, builder in (("abstract", "TraceQLogFile", bad_abs, abs_records),
                                           ("algorithm", "TraceQLogFileAlg", bad_alg, alg_records)):
        cids = [cid for cid in sorted(badmap) if cid in again]
        if not cids:
            continue
        b2, _, _, _ = validate_traces(ctx, module, {cid: builder(case_of[cid], by2.get(cid, [])) for cid in cids}, chunk, par, 900)
        for cid in cids:
            c = case_of[cid]
            oi = min(badmap[cid])
            if oi not in b2.get(cid, []):
                ctx.notes.append("%s rejection of case %d op %d not reproduced" % (which, cid, oi))
                continue
            rec = [r for r in by2[cid] if r["k"] == "op" and r["oi"] == oi][0]
            rec = {k: (v if not isinstance(v, list) or len(v) <= 6 else v[:3] + ["..."] + v[-3:]) for k, v in rec.items()}
            if which == "algorithm":
                if cid in bad_abs:
                    continue        # the abstract-level rejection of this case is what gets reported
                # The code returned what the statement asks for but did not follow the transcribed
                # algorithm (bufferStart, depth, buffer reuse): not an observable of the property.
                # The refinement proof no longer speaks about this code => inconclusive, not a violation.
                alg_only.append("layout %s (%s) op %d %s: observed %s" % (
                    desc_of[cid]["lens"], _mode(desc_of[cid]), oi, c["ops"][oi], json.dumps(rec, sort_keys=True)[:300]))
                continue
            key = classify(c, rec)
            ops_bad += 1
            if key:
                ops_known += 1
                truncated += len(c["ops"]) - oi - 1
            ctx.disagreement(key, {"kind": "ops", "against": which, "desc": desc_of[cid], "oi": oi, "op": c["ops"][oi], "observed": rec},
                             "%s spec rejects op %d %s of layout %s (%s, %s, files with %s lines): observed %s" % (
                                 which, oi, c["ops"][oi], desc_of[cid]["lens"], _mode(desc_of[cid]), desc_of[cid]["level"],
                                 [len(f["ts"]) for f in c["files"]], json.dumps(rec, sort_keys=True)[:400]))

    # ---- half 1 results (started before the harness)
    for f in mc_futs:
        f.result()
    probs, taken = vacuity(res)
    if probs and not ctx.violations:
        raise vlib.Inconclusive("vacuous: " + "; ".join(probs[:6]))

    # ---- alignment classes: found again in what the real code logged?
    rc_hit = set()
    for c in ocases:
        rc_hit |= read_classes_hit(c, by.get(c["id"], []))
    rc_missing = sorted(rc_want - rc_hit)
    pc_hit = set()
    for c in ocases:
        if c["level"] == "file":
            seeks = [op[1] for op in c["ops"] if op[0] == 1]
            pc_hit |= set(probe_classes(c["files"][0]["len"], seeks)) if seeks else set()
    if rc_missing and not ctx.violations:
        raise vlib.Inconclusive("alignment classes of the scaled universe not realised by the backward reads of the real code "
                                "(%d of %d; unsolved %d): %s" % (len(rc_missing), len(rc_want), len(rc_unsolved), rc_missing[:4]))

    # ---- coverage
    sizes = sorted(sum(l + 1 for f in c["files"] for l in f["len"]) for c in ocases)
    calls_ops = sum(r["calls"] for c in ocases for r in by.get(c["id"], []) if r["k"] == "done")
    seeks_ops = sum(1 for c in ocases for r in by.get(c["id"], []) if r["k"] == "op" and r["op"] == "seek")
    if not ctx.violations:
        # (a reproduced violation is reported even if it made the rest of the run incomplete)
        if covered < total_triples * 0.98:
            raise vlib.Inconclusive("edge cover incomplete: %d of %d (unreached %d)" % (covered, total_triples, unreached))
        if not abs_tr or not alg_tr:
            raise vlib.Inconclusive("no op traces")
        if hangs and not any("watchdog" in n for n in ctx.notes):
            raise vlib.Inconclusive("hang observed but not settled")
        if alg_only:
            raise vlib.Inconclusive("the code answers as the statement requires but no longer follows specs/QLogFileAlg.tla "
                                    "(direction B, %d cases): the refinement result does not transfer; re-transcribe the algorithm. "
                                    "First: %s" % (len(alg_only), alg_only[0]))
    oc = ocases[len(ocases) // 2]
    samples.append({"ops_case": {k: (v if k != "explicit" else "%d lines" % len(v)) for k, v in desc_of[oc["id"]].items()}, "bytes": [sum(l + 1 for l in f["len"]) for f in oc["files"]],
                    "lines": [len(f["ts"]) for f in oc["files"]],
                    "first_records": [r for r in by.get(oc["id"], []) if r["k"] == "op" and r["op"] != "reads"][:3]})
    cov = {
        "traces_validated_against_impl": len(wcases) + len(abs_tr) + len(alg_tr),
        "evaluations": a1_edges + calls_ops,
        "distinct_nontrivial": len(nontrivial) + seeks_ops,
        "rule": "A1: one walk per log of the abstract universe (every (cursor, action, argument) of the emitted edge "
                "relation performed on the real object; non-trivial = a seek, or a call that returned a line); "
                "A2/B: one op log per real-size file, every record validated by TLC against the abstract reader and "
                "(single-file level) the algorithm spec with real constants; non-trivial = seeks",
        "abstract_configs": len(wcases), "edge_triples_total": total_triples, "edge_triples_covered": covered,
        "edges_observed": a1_edges, "edges_rejected": a1_bad, "edges_rejected_known": a1_known, "unreached": unreached,
        "layouts_enumerated": len(layouts), "op_cases": len(ocases), "op_cases_alg_level": len(alg_tr),
        "op_calls": calls_ops, "op_seeks": seeks_ops,
        "file_bytes_min_median_max": [sizes[0], sizes[len(sizes) // 2], sizes[-1]],
        "files_above_buffer": sum(1 for s in sizes if s > BUFSIZE),
        "read_alignment_classes": {"in_scaled_universe": len(rc_all), "impossible_with_lines_of_64_bytes": len(rc_all - rc_want), "hit_by_real_reads": len(rc_want & rc_hit),
                                   "other_classes_seen_at_real_scale": len(rc_hit - rc_want)},
        "probe_alignment_classes": {"in_scaled_universe": len(pc_want), "impossible_with_lines_of_64_bytes": len(pc_want - pc_real),
                                    "hit_by_scripted_seeks": len(pc_real & pc_hit),
                                    "not_realised": sorted(pc_real - pc_hit)},
        "op_cases_with_empty_file": sum(1 for c in ocases if has_empty_file(c)),
        "op_cases_alg_level_empty_file": sum(1 for c in ocases if c["level"] == "file" and has_empty_file(c) and c["id"] in alg_tr),
        "trace_records_abstract": nrec_abs, "trace_records_algorithm": nrec_alg,
        "trace_steps_abstract": st_abs, "trace_steps_algorithm": st_alg,
        "op_records_rejected": ops_bad, "op_records_rejected_known": ops_known,
        "truncated_by_known_finding": truncated,
        "hangs_first_pass": len(hangs), "notes": ctx.notes[:10],
        "refinement": {"cfg": res["ref"]["cfg"], "generated": res["ref"]["generated"], "distinct": res["ref"]["distinct"]},
        "probe_outcomes_taken_in_mc": taken, "binding_demo": demo,
        "negative_control_violated": res["neg"]["violated"], "empty_file_cfg_ok": res["empty"]["ok"],
        "noguard_control_violated": res["noguard"]["violated"],
        "exhaustive": False,
        "samples": samples,
    }
    cov["exhaustive_note"] = ("A1 replays the whole abstract universe of the tier (every config, every edge triple); "
                              "A2/B is a seeded selection of the 1093 layouts (%d), so 'exhaustive' is reported false" % len(ocases))
    return ctx.finish("model_checking", cov, assumptions=[
        "TLC; the harness's line renderer / recogniser and its cursor projection (zz_verif_c20_test.go); "
        "the orchestrator's lossless run-length encoding of read results",
        "files are well-formed: every line newline-terminated, non-empty, shorter than 16 KiB, timestamps strictly increasing",
        "a watchdog of 10 s per call (60 s when re-run alone) stands for 'never loops'"])


def _mode(d):
    return d["mode"] + (" " + json.dumps(d["align"], sort_keys=True) if "align" in d else "")


def _replay_case(cid, vec_of, desc_of, seed):
    if cid in vec_of:
        return {"kind": "walk", "vec": vec_of[cid], "seed": seed, "case_index": cid - 1}
    return {"kind": "ops", "desc": desc_of[cid]}


def replay(ctx, path):
    rec = json.load(open(path))["record"]
    if rec["kind"] in ("hang", "panic"):
        inner = rec["case"]
    else:
        inner = rec
    if inner["kind"] == "walk":
        vec = inner["vec"]
        c = walk_case(inner["case_index"] + 1, vec, inner["seed"] * 1000003 + inner["case_index"])
        by, _ = run_go(ctx, [c], "replay", wd_ms=60000)
        rows = by.get(c["id"], [])
        bad, _, _ = check_walk(vec, c, rows)
        hang = [r for r in rows if r["k"] in ("hang", "panic")]
        print(json.dumps({"expected": "every observed edge in the emitted relation; admissible for the stored edge: %s" % rec.get("admissible"),
                          "observed_rejected_edges": bad[:10], "hang_or_panic": hang}, indent=1))
        return 1 if bad or hang else 0
    c = ops_case(1, inner["desc"])
    by, _ = run_go(ctx, [c], "replay", wd_ms=60000)
    rows = by.get(1, [])
    hang = [r for r in rows if r["k"] in ("hang", "panic")]
    out = {"hang_or_panic": hang}
    rc = 1 if hang else 0
    b1, _, _, _ = validate_traces(ctx, "TraceQLogFile", {1: abs_records(c, rows)}, 10**9, 1, 900)
    out["abstract_spec_rejects_ops"] = sorted(b1.get(1, []))
    if c["level"] == "file":
        b2, _, _, _ = validate_traces(ctx, "TraceQLogFileAlg", {1: alg_records(c, rows)}, 10**9, 1, 900)
        out["algorithm_spec_rejects_ops"] = sorted(b2.get(1, []))
    else:
        b2 = {}
    for oi in sorted(set(b1.get(1, []) + b2.get(1, [])))[:5]:
        rec = [r for r in rows if r["k"] == "op" and r["oi"] == oi][0]
        out.setdefault("observed", []).append(
            {k: (v if not isinstance(v, list) or len(v) <= 6 else v[:3] + ["..."] + v[-3:]) for k, v in rec.items()})
    out["expected"] = "every op of the script admitted by TraceQLogFile (abstract reader) and TraceQLogFileAlg (algorithm, real constants)"
    print(json.dumps(out, indent=1, default=str)[:6000])
    return 1 if rc or b1 or b2 else 0
