"""C10 -- DHCPv4 lease table: one address <-> one client; table survives restart.

Direction A: TLC explores all histories of specs/Dhcp4.tla over a small
universe, checks the statement's invariants and emits, per reachable state, the
admissible outcomes of every action instance.  The Go harness walks the real
server through every abstract state it can reach, tries every action instance
there and looks the observed (post-state, reply) up in that table.
Direction B: long random histories over a larger universe are recorded and
validated by specs/TraceDhcp4.tla (which reuses Dhcp4's outcome operators).
"""
import json
import os
import re
import shutil
import tempfile
import vlib

PKG = "internal/dhcpd"
FILES = ["zz_verif_common_test.go", "zz_verif_c10_test.go"]

# tier -> passes of direction A (cfg of the exhaustive universe, walker options) and sizes of direction B.
# order=True: the walker distinguishes states of the server by the order of its lease slice as well.
TIERS = {
    "quick": dict(passes=[dict(cfg="Dhcp4.mc.cfg", order=False, workers=4, deadline_s=45, tlc_workers=6)],
                  traceruns=3, tracesteps=400),
    "thorough": dict(passes=[dict(cfg="Dhcp4.mc.cfg", order=True, workers=6, deadline_s=120, tlc_workers=6),
                             dict(cfg="Dhcp4.big.cfg", order=False, workers=6, deadline_s=200, tlc_workers=8)],
                     traceruns=12, tracesteps=600),
}

TRACE_UNIV = dict(macs=["m%d" % i for i in range(1, 9)], pool=list(range(1, 9)), outs=[9, 10], gw=0, far=11,
                  reqhosts=["", "h1", "h2", "g3", "bad"], badhosts=["bad"], stathosts=["", "h1", "h2", "g5"], leaset=4)


def parse_cfg(name):
    """The constants of a TLC configuration, as the Go harness needs them."""
    txt = open(os.path.join(vlib.SPECS, name)).read()

    def setof(n):
        m = re.search(r"^\s*%s\s*=\s*\{([^}]*)\}" % n, txt, re.M)
        if not m:
            raise vlib.Inconclusive("constant %s not found in %s" % (n, name))
        return [json.loads(x.strip()) for x in m.group(1).split(",") if x.strip()]

    def intof(n):
        m = re.search(r"^\s*%s\s*=\s*(-?\d+)" % n, txt, re.M)
        if not m:
            raise vlib.Inconclusive("constant %s not found in %s" % (n, name))
        return int(m.group(1))

    return dict(macs=setof("Macs"), pool=setof("Pool"), outs=setof("Outs"), gw=intof("GW"), far=intof("Far"),
                reqhosts=setof("ReqHosts"), stathosts=setof("StaticHosts"), badhosts=setof("BadHosts"),
                leaset=intof("LeaseT"))


def scratch(ctx):
    """Data directories of the servers under test: tmpfs when there is one
    (leases.json is fsynced on every store), else the check's work dir."""
    if getattr(ctx, "_c10_tmp", None):
        return ctx._c10_tmp
    base = "/dev/shm" if os.path.isdir("/dev/shm") and os.access("/dev/shm", os.W_OK) else ctx.work
    ctx._c10_tmp = tempfile.mkdtemp(prefix="verif-c10-", dir=base)
    return ctx._c10_tmp


def cleanup(ctx):
    if getattr(ctx, "_c10_tmp", None):
        shutil.rmtree(ctx._c10_tmp, ignore_errors=True)
        ctx._c10_tmp = None


# ---------------------------------------------------------------- findings
def _ms(ls):
    """Multiset of leases as a sorted list of tuples."""
    return sorted(tuple(l) for l in ls)


def _minus(a, b):
    """Multiset difference a - b of lease lists."""
    b = list(map(tuple, b))
    out = []
    for x in map(tuple, a):
        if x in b:
            b.remove(x)
        else:
            out.append(x)
    return out


def classify(rec):
    """Narrow keys of the known findings; anything else is None (reported).

    Every predicate names the action and the precise symptom; problems that
    were already present before the step (srcprob) are not counted."""
    a = rec["act"]
    act = a["act"]
    post = rec.get("post") or {}
    src = rec.get("src") or []
    ls = post.get("ls", [])
    srcprob = set(rec.get("srcprob") or [])
    newprob = set(post.get("prob", [])) - srcprob
    univ = rec.get("univ") or {}
    pool0 = min(univ.get("pool") or [0])
    outs = set(univ.get("outs") or [])
    why = rec.get("why")
    reply = (rec.get("reply") or {}).get("k")
    want = rec.get("want") or []

    if act == "Decline":
        # the re-allocated lease is appended to the list a second time
        if "list:dup" in newprob:
            dups = _minus(ls, [list(x) for x in set(map(tuple, ls))])
            if dups and all(d[0] == a["m"] for d in dups):
                return "decline-duplicates-lease"
        # leases.json is written before the table is changed
        if newprob == {"disk:differs"} and _ms(post.get("disk", [])) == _ms(src) and _ms(ls) != _ms(src):
            return "decline-stores-before-change"

    if act in ("AddStatic", "UpdateStatic", "Restart") and why == "structures" and newprob == {"bitset:+0"}:
        # a reservation outside the range marks offset 0 of the range as leased
        if any(l[2] == -1 and l[1] in outs for l in ls) and not any(l[1] == pool0 for l in ls):
            return "static-outside-pool-marks-offset0"
    if act == "Discover" and "bitset:+0" in srcprob and why == "state" and reply in ("nak", "none") \
            and _ms(ls) == _ms(src) and want and all(w["K"] == "offer" for w in want) \
            and any(w["IP"] == pool0 for w in want) and not (newprob - {"bitset:+0"}):
        # ... and the first address of the range is then never offered
        return "static-outside-pool-marks-offset0"

    if act == "AddStatic" and why == "state" and reply == "ok" \
            and not (newprob - {"ipindex:miss", "dns:hostbyip", "dns:ipbyhost", "bitset:+0"}):
        # rmDynamicLease skips the element that follows a removed one: a lease
        # of the same client / on the same address survives next to the new
        # reservation (it should have been evicted, or have blocked the call)
        ns = (a["m"], a["a"], -1, a["h"])
        rest = [tuple(l) for l in ls]
        if ns in rest:
            rest.remove(ns)
            srcl = [tuple(l) for l in src]
            ok = True
            for l in rest:
                named = (l[0], l[1], l[2], a["h"])
                if l in srcl:
                    srcl.remove(l)
                elif a["h"] != "" and l[3] == "" and named in srcl:
                    srcl.remove(named)
                else:
                    ok = False
            removed = srcl
            survivors = [l for l in rest if l[0] == a["m"] or l[1] == a["a"]]
            if ok and survivors and all(r[2] >= 0 and (r[0] == a["m"] or r[1] == a["a"]) for r in removed):
                return "addstatic-leaves-conflicting-lease"
    if act == "AddStatic" and why == "state" and reply == "err" \
            and not (newprob - {"disk:differs", "hostindex:extra"}):
        # a refused reservation has already removed / renamed other leases
        gone = _minus(src, ls)
        came = _minus(ls, src)
        ok = bool(gone)
        for g in gone:
            dropped = g[2] >= 0 and (g[0] == a["m"] or g[1] == a["a"])
            renamed = a["h"] != "" and g[3] == a["h"] and (g[0], g[1], g[2], "") in came
            if renamed:
                came.remove((g[0], g[1], g[2], ""))
            ok = ok and (dropped or renamed)
        if ok and not came:
            # The host name of a dynamic lease was blanked but hostsIndex still has it: that stale
            # entry is what makes the add fail (ErrDupHostname) -- its own defect.  Otherwise the
            # add was refused for a reason that should have been found before anything was removed.
            if "hostindex:extra" in newprob:
                return "addstatic-hostname-index-stale"
            return "addstatic-error-after-mutation"

    if act in ("Request", "Decline") and why == "state" and reply == "ack" \
            and not (newprob - {"hostindex:miss", "hostindex:extra", "dns:ipbyhost", "dns:hostbyip"}):
        mine = [l for l in ls if l[0] == a["m"]]
        if len(mine) == 1:
            me = mine[0]
            others = [l for l in ls if l is not me]
            # commitLease falls back to the generated name without checking that it is free
            if me[3] == "g%d" % me[1] and any(o[3] == me[3] for o in others) \
                    and _ms(others) == _ms([l for l in src if l[0] != a["m"]]):
                return "duplicate-generated-hostname"
            # a client host name that cannot be used leaves the acknowledged lease without any name
            if act == "Request" and a["h"] in (univ.get("badhosts") or []) and me[3] == "" and me[2] > 0:
                for w in want:
                    wl = [x.split("/") for x in w["Dst"].split(",") if x]
                    wl = [list(l) for l in src] if w["Same"] else [[m, int(i), int(f), h] for m, i, f, h in wl]
                    wm = [l for l in wl if l[0] == a["m"]]
                    if len(wm) == 1 and _ms(others + [[me[0], me[1], me[2], wm[0][3]]]) == _ms(wl):
                        return "unusable-hostname-leaves-lease-nameless"

    if act == "RemoveStatic" and why == "state" and reply == "ok" and not newprob:
        # the call that removes reservations deletes a dynamic lease its client still holds
        gone = _minus(src, ls)
        if len(gone) == 1 and not _minus(ls, src) and gone[0][0] == a["m"] and gone[0][1] == a["a"] and gone[0][2] > 0:
            return "removestatic-removes-held-dynamic-lease"

    if act in ("Discover", "Decline") and why == "state" and not newprob:
        # an expired entry is reused for a client whose hardware address has another length:
        # copy() keeps the old length, the entry then belongs to nobody (or to somebody else)
        odd = [l for l in ls if l[0].startswith("?")]
        if len(odd) == 1 and not any(l[0] == a["m"] for l in ls):
            fixed = [[a["m"] if l is odd[0] else l[0], l[1], l[2], l[3]] for l in ls]
            for w in want:
                if not w["Same"] and w["Dst"] == lkey(fixed):
                    return "reused-lease-keeps-old-hwaddr-length"

    static_out = any(l[2] == -1 and l[1] in outs for l in ls) and not any(l[1] == pool0 for l in ls)
    if act == "Restart" and why == "state" and not (newprob - {"disk:differs"} - ({"bitset:+0"} if static_out else set())):
        # dynamic leases without a host name come back with a generated one
        disk = rec.get("srcdisk") or []
        by_addr = {(l[0], l[1], l[2]): l[3] for l in ls}
        same_leases = _ms([l[:3] for l in disk]) == _ms([l[:3] for l in ls])
        renamed = [l for l in disk if by_addr.get((l[0], l[1], l[2])) != l[3]]
        if same_leases and renamed and all(
                l[2] >= 0 and l[3] == "" and by_addr[(l[0], l[1], l[2])] in ("g%d" % l[1], "u%d" % l[1])
                for l in renamed):
            # an offer made by reusing an expired nameless entry keeps that entry's old, non-zero
            # expiry and is therefore taken for an acknowledged lease while loading
            stale = set(rec.get("srcnote") or [])
            offered = [l for l in renamed if l[2] == 0]
            if offered and all("pastexpiry:%d" % l[1] in stale and l[0] != "blk" for l in offered):
                return "reused-offer-keeps-old-expiry"
            # offered, never acknowledged entries (nobody holds them) get a name and DNS records
            if offered:
                return "restart-names-unacked-lease"
            # a running lease that had lost its name to a reservation gets its new name only now
            return "displaced-lease-nameless-until-restart"
        # a lease of the database is not restored because the name it has there is, after loading,
        # the name of another lease (ResetLeases drops it with ErrDupHostname)
        lost = [d for d in disk if (d[0], d[1], d[2]) not in by_addr]
        kept = [d for d in disk if (d[0], d[1], d[2]) in by_addr]
        names = [l[3] for l in ls]

        def kept_ok(d):
            now = by_addr[(d[0], d[1], d[2])]
            return now == d[3] or (d[2] >= 0 and d[3] == "" and now == "g%d" % d[1])

        if lost and len(kept) == len(ls) and all(d[3] != "" and d[3] in names for d in lost) \
                and all(kept_ok(d) for d in kept):
            return "restart-drops-lease-on-hostname-clash"
    return None


def describe(rec):
    post = rec.get("post") or {}
    return "%s(%s) from %s: %s not admitted (%s); reply %s, table %s, structures %s" % (
        rec["act"]["act"], ",".join(str(rec["act"][k]) for k in ("m", "kind", "a", "h") if rec["act"][k] not in ("",)),
        json.dumps(rec["src"]), rec.get("why"), "history of %d steps" % len(rec.get("history", [])),
        json.dumps(rec["reply"]), json.dumps(post.get("ls")), json.dumps(post.get("prob")))


# ------------------------------------------------------------- direction A
def tlc_raw(ctx, module, cfg, **kw):
    """ctx.tlc without vlib's parsing of the emitted lines (the Go harness reads
    TLC's output file itself; the big universe emits ~200 MB)."""
    orig = vlib.parse_vectors
    vlib.parse_vectors = lambda out: []
    try:
        r = ctx.tlc(module, cfg, **kw)
    finally:
        vlib.parse_vectors = orig
    r["nvec"] = len(re.findall(r'^<<"@@V", ', r["out"], re.M))
    r["outfile"] = os.path.join(r["dir"], "tlc.out")
    return r


def walk(ctx, outfile, univ, opts, tag):
    vout = ctx.path("c10_walk_%s.ndjson" % tag)
    rc, out = ctx.go_test(PKG, FILES, "^TestZZVerifC10Walk$",
                          env={"VERIF_HDR": json.dumps({"univ": univ, "opts": opts}), "VERIF_IN": outfile,
                               "VERIF_OUT": vout, "VERIF_TMP": scratch(ctx)},
                          timeout=opts["deadline_s"] + 600, go_timeout="%ds" % (opts["deadline_s"] + 500))
    rows = vlib.read_ndjson(vout)
    summ = [r for r in rows if r.get("kind") == "summary"]
    if rc != 0 or not summ:
        raise vlib.Inconclusive("C10 walker did not complete:\n" + out[-3000:])
    return rows, summ[0]


def register(ctx, rows, counts):
    """Reproduced disagreements -> known finding or violation."""
    sig_status = {}
    for r in rows:
        if r.get("kind") != "bad":
            continue
        key = classify(r)
        r["seed"] = ctx.seed
        st = ctx.disagreement(key, r, describe(r))
        sig_status[r["sig"]] = (key, st)
        counts[key or "unclassified"] = counts.get(key or "unclassified", 0) + 1
    for r in rows:
        if r.get("kind") == "bad-more":
            key, _ = sig_status.get(r["sig"], (None, None))
            counts[key or "unclassified"] = counts.get(key or "unclassified", 0) + 1


# ------------------------------------------------------------- direction B
def shape(frm, to):
    """Kinds of the leases that disappeared / appeared (as zzC10Shape in the harness)."""
    def cls(l):
        c = "s" if l[2] < 0 else ("r" if l[2] > 0 else "o")
        return c + ("?" if l[0].startswith("?") else "") + ("_" if l[3] == "" else "")
    return "-" + ",".join(sorted(cls(l) for l in _minus(frm, to))) + "+" + ",".join(sorted(cls(l) for l in _minus(to, frm)))


def lkey(ls):
    return ",".join(sorted("%s/%d/%d/%s" % tuple(l) for l in ls))


def run_histories(ctx, recs):
    """Replays histories on fresh servers; returns one result row per record."""
    vin, vout = ctx.path("c10_replay_in.ndjson"), ctx.path("c10_replay_out.ndjson")
    vlib.write_ndjson(vin, recs)
    rc, out = ctx.go_test(PKG, FILES, "^TestZZVerifC10Replay$",
                          env={"VERIF_IN": vin, "VERIF_OUT": vout, "VERIF_TMP": scratch(ctx)}, timeout=900)
    rows = vlib.read_ndjson(vout)
    if rc != 0 or len(rows) != len(recs):
        raise vlib.Inconclusive("C10 replay harness did not complete:\n" + out[-3000:])
    return rows


def trace(ctx, opts, counts):
    vout = ctx.path("c10_trace.ndjson")
    rc, out = ctx.go_test(PKG, FILES, "^TestZZVerifC10Trace$",
                          env={"VERIF_HDR": json.dumps({"univ": TRACE_UNIV, "opts": opts}), "VERIF_OUT": vout,
                               "VERIF_TMP": scratch(ctx)}, timeout=900)
    rows = vlib.read_ndjson(vout)
    if rc != 0 or not rows:
        raise vlib.Inconclusive("C10 trace driver did not complete:\n" + out[-3000:])
    tfile = ctx.path("c10_trace_full.ndjson")
    vlib.write_ndjson(tfile, [dict(TRACE_UNIV, hdr=True)] + rows)
    r = ctx.tlc("TraceDhcp4", "TraceDhcp4.cfg", workers=1, extra_files=[(tfile, "trace.ndjson")], timeout=900)
    if not r["vectors"]:
        raise vlib.Inconclusive("trace spec produced no verdict")
    verdict = r["vectors"][-1]
    if verdict["n"] != len(rows) + 1:
        raise vlib.Inconclusive("trace spec consumed %s of %d lines" % (verdict["n"], len(rows) + 1))
    # Rejected lines -> records of the walker's shape, reproduced in isolation.
    recs = []
    for b in sorted(verdict["bad"], key=lambda x: x["l"]):
        i = b["l"] - 2
        t = rows[i]
        j = i
        while not rows[j]["reset"]:
            j -= 1
        want = [{"Same": w[0], "Dst": lkey(w[1]), "K": w[2], "IP": w[3], "T": w[4]} for w in b["want"]]
        recs.append({"kind": "bad", "act": t["act"], "src": t["src"], "srcdisk": t["srcdisk"], "srcprob": t["srcprob"], "srcnote": t.get("srcnote") or [],
                     "want": want, "why": b["why"], "reply": t["out"],
                     "post": {"ls": t["dst"], "disk": t["disk"], "prob": t["prob"]},
                     "history": [x["act"] for x in rows[j:i + 1]], "univ": TRACE_UNIV, "seed": ctx.seed,
                     "trace_line": b["l"], "sig": "trace|%s|%s|%s|%s" % (t["act"]["act"], b["why"], ";".join(t["prob"]),
                                                 shape(t["srcdisk"] if t["act"]["act"] == "Restart" else t["src"], t["dst"]))})
    per_sig = {}
    todo = []
    for rec in recs:
        n = per_sig[rec["sig"]] = per_sig.get(rec["sig"], 0) + 1
        if n <= 3:
            todo.append(rec)
    flaky = 0
    if todo:
        res = run_histories(ctx, [{"univ": TRACE_UNIV, "history": x["history"], "seed": ctx.seed} for x in todo])
        for rec, got in zip(todo, res):
            same = got.get("kind") == "replayed" and got["reply"] == rec["reply"] and \
                lkey(got["post"]["ls"]) == lkey(rec["post"]["ls"]) and got["post"]["prob"] == rec["post"]["prob"]
            rec["reproduced"] = bool(same)
            if not same:
                flaky += 1
    status = {}
    for rec in recs:
        if rec.get("reproduced") is False:
            continue
        key = classify(rec)
        if "reproduced" in rec:
            ctx.disagreement(key, rec, "trace line %d rejected by TraceDhcp4: %s" % (rec["trace_line"], describe(rec)))
            status[rec["sig"]] = key
        else:
            key = key or status.get(rec["sig"])
        counts[key or "unclassified"] = counts.get(key or "unclassified", 0) + 1
    return rows, recs, flaky


def run(ctx):
    try:
        return run1(ctx)
    finally:
        cleanup(ctx)


def run1(ctx):
    T = TIERS[ctx.tier]
    ctx.sany("Dhcp4")
    ctx.sany("TraceDhcp4")
    counts = {}
    passes = []
    flaky = 0
    for i, P in enumerate(T["passes"]):
        univ = parse_cfg(P["cfg"])
        # Half 1 + emission: all histories over the universe, the statement's invariants, one line per state.
        mc = tlc_raw(ctx, "Dhcp4", P["cfg"], workers=P["tlc_workers"], timeout=900, coverage=True)
        if mc["nvec"] != mc["distinct"] or not mc["nvec"]:
            raise vlib.Inconclusive("emitted %d state lines for %d distinct states" % (mc["nvec"], mc["distinct"]))
        # Direction A.
        opts = dict(order=P["order"], workers=P["workers"], deadline_s=P["deadline_s"], resetevery=400, maxrepro=3)
        rows, summ = walk(ctx, mc["outfile"], univ, opts, str(i))
        vac = vacuity(mc, summ)
        if vac:
            raise vlib.Inconclusive("vacuous: " + vac)
        register(ctx, rows, counts)
        if summ["steps"] < 1000 or summ["nontrivial"] < 100:
            raise vlib.Inconclusive("walker did too little: %s" % {k: summ[k] for k in ("steps", "nontrivial")})
        flaky += summ["flaky"]
        passes.append(dict(cfg=P["cfg"], universe=univ, tlc_states=mc["distinct"], tlc_transitions=mc["generated"],
                           walker={k: summ[k] for k in summ if k not in ("kind", "samples")},
                           samples=(summ.get("samples") or [])[:2]))
        mc["out"] = None
    # Direction B.
    trows, trecs, tflaky = trace(ctx, dict(traceruns=T["traceruns"], tracesteps=T["tracesteps"]), counts)
    flaky += tflaky
    if flaky > 5:
        raise vlib.Inconclusive("%d disagreements did not reproduce in isolation" % flaky)
    steps = sum(p["walker"]["steps"] for p in passes)
    cov = {
        "traces_validated_against_impl": steps + len(trows),
        "evaluations": steps + len(trows),
        "distinct_nontrivial": sum(p["walker"]["nontrivial"] for p in passes),
        "rule": "one evaluation = one action executed on the real server and judged by the spec's outcome set "
                "(direction A: looked up in TLC's emission; direction B: decided by TLC on the recorded line); "
                "non-trivial = distinct (abstract state, action instance) pairs whose execution changed the table",
        "passes": [{k: p[k] for k in p if k != "samples"} for p in passes], "trace_universe": TRACE_UNIV,
        "code_reachable_states": [p["walker"]["abstract_states"] for p in passes],
        "spec_states": [p["walker"]["spec_states"] for p in passes],
        "trace_lines": len(trows), "trace_lines_rejected": len(trecs), "trace_runs": T["traceruns"],
        "disagreements_by_key": counts,
        "truncated_by_known_finding": sum(p["walker"]["truncated"] for p in passes)
        + sum(1 for t in trows[1:] if t["reset"] and t["step"] > 0),
        "not_reproduced": flaky,
        "exhaustive": all(bool(p["walker"]["closed"]) for p in passes),
        "samples": [x for p in passes for x in p["samples"]][:3] + [{"trace_line": trows[len(trows) // 2]}],
    }
    return ctx.finish("model_checking", cov, assumptions=[
        "TLC; conc()/abs() of zz_verif_c10_test.go (address, MAC and host-name tables; acknowledged = Expiry after now)",
        "lease expiry is simulated by setting Lease.Expiry of the chosen lease to a past instant and storing the database",
        "packets enter at v4Server.packetHandler (wire format, fake PacketConn), static leases at the HTTP handlers, "
        "restart = dhcpd.Create on the same data directory; ICMP conflict detection is off (no blocklisted leases)",
        "exhaustive = every action instance was executed in every abstract state the real server reached "
        "(states are discovered by the walk itself; states only reachable through a reported disagreement are not entered)"])


def vacuity(mc, summ):
    """Every action of the spec must have been taken by TLC and must be able to change the table."""
    ch = summ.get("spec_changing") or {}
    need = ["Discover", "Request", "Decline", "Release", "Expire", "AddStatic", "UpdateStatic", "RemoveStatic", "Restart"]
    missing = [a for a in need if not ch.get(a)]
    if missing:
        return "actions that never change the table in the emission: %s" % missing
    acts = re.findall(r"^<(\w+) line \d+, col \d+ to line \d+, col \d+ of module Dhcp4>: (\d+):(\d+)", mc["out"], re.M)
    names = {a for a, d, g in acts}
    never = [a for a, d, g in acts if int(g) == 0 and a != "Init"]
    if never:
        return "actions never taken according to TLC's coverage: %s" % never
    if not names:
        return "no action coverage in TLC's output"
    zero = [z for z in (mc.get("zero_cov") or []) if "module Dhcp4" in z]
    if zero:
        return "expressions of Dhcp4.tla never evaluated: %s" % zero[:5]
    return None


DEFAULTS = {"Discover": ["none"], "Request": ["refuse"], "Decline": ["any"], "Release": ["any"],
            "AddStatic": ["err"], "UpdateStatic": ["err"], "RemoveStatic": ["err", "ok"]}


def admitted(rec, got):
    """The judgement of the Go walker, on a replayed step and the outcome set stored with the record."""
    a = rec["act"]
    srckey = lkey(got["src"])
    want = rec.get("want") or [{"Same": True, "Dst": "", "K": k, "IP": 0} for k in DEFAULTS.get(a["act"], [])]
    post, r = got["post"], got["reply"]
    if set(post["prob"]) - set(got.get("srcprob") or []):
        return False
    for o in want:
        if (srckey if o["Same"] else o["Dst"]) != lkey(post["ls"]):
            continue
        k = o["K"]
        if k in ("offer", "ack"):
            ok = r["k"] == k and r["ip"] == o["IP"] and (k == "offer" or r.get("t", 0) == o.get("T", r.get("t", 0)))
        elif k == "refuse":
            ok = r["k"] in ("none", "nak")
        elif k == "any":
            ok = r["ip"] == 0 or any(l[0] == a["m"] and l[1] == r["ip"] for l in post["ls"])
        elif k in ("ok", "err"):
            ok = r["k"] == k
        else:
            ok = r["k"] == "-"
        if ok:
            return True
    return False


def replay(ctx, path):
    try:
        rec = json.load(open(path))["record"]
        got = run_histories(ctx, [{"univ": rec["univ"], "history": rec["history"], "seed": rec.get("seed", ctx.seed)}])[0]
        if got.get("kind") != "replayed":
            print(json.dumps(got))
            return 2
        same = got["reply"] == rec["reply"] and lkey(got["post"]["ls"]) == lkey(rec["post"]["ls"]) \
            and got["post"]["prob"] == rec["post"]["prob"]
        ok = admitted(rec, got)
        print(json.dumps({"action": rec["act"], "from": rec["src"],
                          "expected_one_of": rec.get("want") or "refused, table unchanged",
                          "observed": {"reply": got["reply"], "table": got["post"]["ls"], "disk": got["post"]["disk"],
                                       "structures": got["post"]["prob"]},
                          "same_as_recorded": same, "admitted_by_spec": ok}, indent=1))
        return 0 if ok else 1
    finally:
        cleanup(ctx)
