"""G06 -- the other two lease tables: DHCPv6 (internal/dhcpd/v6_unix.go) and the
new DHCP service (internal/dhcpsvc).

Two halves, run side by side, each built like C10:

Direction A: TLC explores all histories of specs/Dhcp6.tla (which EXTENDS
C10's Dhcp4.tla) resp. specs/DhcpSvc.tla over a small universe, checks the
statement's invariants and emits, per reachable state, the admissible outcomes
of every action instance.  The Go harness walks the real object through every
abstract state it can reach, tries every action instance there and looks the
observed (reply, table, database) up in that table.
Direction B: long random histories over a larger universe are recorded and
decided line by line by specs/TraceDhcp6.tla resp. specs/TraceDhcpSvc.tla,
which instantiate the same outcome operators.
"""
import json
import os
import re
import shutil
import tempfile
import threading
import vlib

HALVES = {
    "v6": dict(
        pkg="internal/dhcpd", files=["zz_verif_common_test.go", "zz_verif_g06_test.go"],
        module="Dhcp6", tracemodule="TraceDhcp6",
        actions=["Solicit", "Request", "Decline", "Release", "Expire", "AddStatic", "UpdateStatic", "RemoveStatic", "Restart"],
        tlc_actions=["GenNext6"],
        trace_univ=dict(macs=["m%d" % i for i in range(1, 9)], pool=list(range(1, 9)), outs=[9, 10, 11, 12],
                        stathosts=["", "h1", "h2", "h3"]),
        tiers={
            "quick": dict(passes=[dict(cfg="Dhcp6.mc.cfg", order=False, workers=4, deadline_s=30, tlc_workers=4)],
                          traceruns=3, tracesteps=400),
            "thorough": dict(passes=[dict(cfg="Dhcp6.mc.cfg", order=True, workers=5, deadline_s=80, tlc_workers=4),
                                     dict(cfg="Dhcp6.big.cfg", order=False, workers=5, deadline_s=130, tlc_workers=5)],
                             traceruns=10, tracesteps=600),
        },
        defaults={"Solicit": ["none"], "Request": ["refuse"], "Decline": ["any"], "Release": ["any"],
                  "AddStatic": ["err"], "UpdateStatic": ["err"], "RemoveStatic": ["err", "ok"]},
    ),
    "svc": dict(
        pkg="internal/dhcpsvc", files=["zz_verif_g06_test.go"],
        module="DhcpSvc", tracemodule="TraceDhcpSvc",
        actions=["AddLease", "UpdateStatic", "RemoveLease", "Reset"],
        tlc_actions=["GenNext"],
        trace_univ=dict(macs=["m%d" % i for i in range(1, 7)], pool=[11, 12, 13, 14, 21, 22, 23, 31, 32, 41], outs=[15, 16, 35],
                        gws=[10, 30], fars=[1, 20, 40, 99], hosts=["h%d" % i for i in range(1, 9)]),
        tiers={
            "quick": dict(passes=[dict(cfg="DhcpSvc.mc.cfg", order=False, workers=3, deadline_s=30, tlc_workers=3)],
                          traceruns=3, tracesteps=400),
            "thorough": dict(passes=[dict(cfg="DhcpSvc.mc.cfg", order=False, workers=4, deadline_s=40, tlc_workers=3),
                                     dict(cfg="DhcpSvc.big.cfg", order=False, workers=5, deadline_s=170, tlc_workers=5)],
                             traceruns=10, tracesteps=600),
        },
        defaults={"AddLease": ["err"], "UpdateStatic": ["err"], "RemoveLease": ["err"]},
    ),
}


def parse_cfg(name):
    """The constants of a TLC configuration, as the Go harnesses need them."""
    txt = open(os.path.join(vlib.SPECS, name)).read()
    out = {}
    for m in re.finditer(r"^\s*(\w+)\s*=\s*\{([^}]*)\}", txt, re.M):
        out[m.group(1).lower()] = [json.loads(x.strip()) for x in m.group(2).split(",") if x.strip()]
    if "statichosts" in out:
        out["stathosts"] = out.pop("statichosts")
    if "macs" not in out or "pool" not in out:
        raise vlib.Inconclusive("constants not found in %s" % name)
    return out


def scratch(ctx):
    """Data directories of the servers under test: tmpfs when there is one
    (the database is fsynced on every store), else the check's work dir."""
    if getattr(ctx, "_g06_tmp", None):
        return ctx._g06_tmp
    base = "/dev/shm" if os.path.isdir("/dev/shm") and os.access("/dev/shm", os.W_OK) else ctx.work
    ctx._g06_tmp = tempfile.mkdtemp(prefix="verif-g06-", dir=base)
    return ctx._g06_tmp


def cleanup(ctx):
    if getattr(ctx, "_g06_tmp", None):
        shutil.rmtree(ctx._g06_tmp, ignore_errors=True)
        ctx._g06_tmp = None


# ---------------------------------------------------------------- findings
def _ms(ls):
    return sorted(tuple(l) for l in ls)


def _minus(a, b):
    """Multiset difference a - b of lease lists."""
    b = list(map(tuple, b))
    out = []
    for x in map(tuple, a):
        if x in b:
            b.remove(x)
        else:
            out.append(x)
    return out


def classify(half, rec):
    """Narrow keys of the known findings; anything else is None (reported)."""
    return classify_v6(rec) if half == "v6" else classify_svc(rec)


def _alias(univ):
    """Abstract address outside the range -> index of the pool address with the same last byte
    (the concretisation of zz_verif_g06_test.go: every other `out' lies in another prefix)."""
    pool, outs = sorted(univ.get("pool") or []), sorted(univ.get("outs") or [])
    return {o: (j // 2) % len(pool) for j, o in enumerate(outs) if j % 2 == 0 and pool}


def classify_v6(rec):
    a = rec["act"]
    act = a["act"]
    post = rec.get("post") or {}
    src = [tuple(l) for l in rec.get("src") or []]
    ls = [tuple(l) for l in post.get("ls", [])]
    srcprob = set(rec.get("srcprob") or [])
    newprob = set(post.get("prob", [])) - srcprob
    univ = rec.get("univ") or {}
    pool = sorted(univ.get("pool") or [])
    alias = _alias(univ)
    why = rec.get("why")
    reply = rec.get("reply") or {}
    want = rec.get("want") or []
    diskstale = _ms(post.get("disk", [])) == _ms(rec.get("srcdisk") or [])

    # --- the table of last bytes in use (ipAddrs) is indexed by the last byte alone
    if why == "structures" and newprob and act in ("AddStatic", "UpdateStatic", "RemoveStatic", "Restart"):
        ok = True
        for p in newprob:
            m = re.match(r"^bitmap:([+-])(\d+)$", p)
            if not m:
                ok = False
                break
            i = int(m.group(2))
            if m.group(1) == "+":
                # marked although free: a lease on an address of another prefix with that last byte exists now
                ok = ok and any(alias.get(l[1]) == i for l in ls) and not any(l[1] == pool[i] for l in ls)
            else:
                # unmarked although leased: a lease on such an address went away in this step
                ok = ok and any(alias.get(l[1]) == i for l in _minus(src, ls)) and any(l[1] == pool[i] for l in ls)
        if ok:
            return "v6-lastbyte-table-aliases-addresses"
    if act == "Solicit" and why == "state" and not newprob:
        marked = [int(p[8:]) for p in srcprob if p.startswith("bitmap:+")]
        cleared = [int(p[8:]) for p in srcprob if p.startswith("bitmap:-")]
        # ... a free address of the range is never offered
        if marked and reply.get("k") in ("nak", "none") and _ms(ls) == _ms(src) and want \
                and all(w["K"] == "offer" and w["IP"] in [pool[i] for i in marked] for w in want):
            return "v6-lastbyte-table-aliases-addresses"
        # ... or an address that is leased is handed to a second client
        if cleared and reply.get("k") == "offer" and reply.get("ip") in [pool[i] for i in cleared]:
            extra = _minus(ls, src)
            if len(extra) == 1 and extra[0][:3] == (a["m"], reply["ip"], 0) and not _minus(src, ls) \
                    and any(l[1] == reply["ip"] for l in src):
                return "v6-lastbyte-table-aliases-addresses"

    # --- UpdateStaticLease does not look whether the new address is in use
    if act == "UpdateStatic" and why == "state" and reply.get("k") == "ok" and not (newprob - {"bitmap:+%d" % i for i in range(len(pool))}
                                                                                    - {"bitmap:-%d" % i for i in range(len(pool))}):
        new = (a["m"], a["a"], -1, a["h"])
        mine = [l for l in src if l[0] == a["m"]]
        others = [l for l in src if l[0] != a["m"] and l[1] == a["a"]]
        if new in ls and len(mine) == 1 and others and _ms(ls) == _ms([l for l in src if l != mine[0]] + [new]):
            return "v6-updatestatic-onto-leased-address"

    if act == "AddStatic" and why == "state":
        new = (a["m"], a["a"], -1, a["h"])
        gone = _minus(src, ls)
        came = _minus(ls, src)
        evictable = all(g[2] >= 0 and (g[0] == a["m"] or g[1] == a["a"]) for g in gone)
        # --- a refused reservation has already removed dynamic leases (from memory only)
        if reply.get("k") == "err" and gone and not came and evictable and diskstale and not (newprob - {"bitmap:-%d" % i for i in range(len(pool))}):
            if any(l[2] == -1 and (l[0] == a["m"] or l[1] == a["a"]) for l in src):
                return "v6-addstatic-error-after-mutation"
        # --- rmDynamicLease skips the element swapped into the place of a removed one
        if reply.get("k") == "ok" and came == [new] and gone and evictable and not newprob:
            survivors = [l for l in ls if l != new and (l[0] == a["m"] or l[1] == a["a"])]
            if survivors:
                return "v6-addstatic-leaves-conflicting-lease"
    return None


def _net(x):
    return x // 10


def classify_svc(rec):
    a = rec["act"]
    act = a["act"]
    post = rec.get("post") or {}
    src = [tuple(l) for l in rec.get("src") or []]
    ls = [tuple(l) for l in post.get("ls", [])]
    newprob = set(post.get("prob", [])) - set(rec.get("srcprob") or [])
    univ = rec.get("univ") or {}
    why = rec.get("why")
    ok = (rec.get("reply") or {}).get("k") == "ok"
    mine = [l for l in src if l[0] == a.get("m") and _net(l[1]) == _net(a.get("a", 0))]

    # --- a lease on the gateway address is accepted
    if act in ("AddLease", "UpdateStatic") and a["a"] in (univ.get("gws") or []) and ok and why == "state":
        new = (a["m"], a["a"], 1 if a["kind"] == "dynamic" else 3, a["h"])
        base = src if act == "AddLease" else [l for l in src if l not in mine]
        # (the update may at the same time show the symptom of svc-update-takes-hostname-of-own-lease-elsewhere)
        twin = act == "UpdateStatic" and any(l[0] == a["m"] and l[3] == a["h"] and _net(l[1]) != _net(a["a"]) for l in src)
        if newprob <= ({"byname:miss", "leases:differs"} if twin else set()) \
                and (act == "AddLease" and not mine or act == "UpdateStatic" and len(mine) == 1) and _ms(ls) == _ms(base + [new]):
            return "svc-gateway-address-leased"

    # --- RemoveLease with identifiers of different leases removes index entries of each
    if act == "RemoveLease" and ok and why in ("state", "reply"):
        eq = [l for l in src if (l[0], l[1], l[3]) == (a["m"], a["a"], a["h"])]
        if not eq and any(l[1] == a["a"] for l in src) and any(l[3] == a["h"] for l in src) and mine:
            return "svc-remove-mixed-identifiers"

    # --- UpdateStaticLease takes the name of the client's own lease on another network
    if act == "UpdateStatic" and ok and why == "state" and len(mine) == 1 and a["a"] not in (univ.get("gws") or []):
        new = (a["m"], a["a"], 3, a["h"])
        twin = [l for l in src if l[0] == a["m"] and l[3] == a["h"] and _net(l[1]) != _net(a["a"])]
        if twin and new in ls and not any(l[1] == a["a"] for l in src if l not in mine):
            return "svc-update-takes-hostname-of-own-lease-elsewhere"
    return None


def describe(half, rec):
    post = rec.get("post") or {}
    a = rec["act"]
    return "[%s] %s(%s) from table %s database %s: %s not admitted (history of %d steps); reply %s, table %s, database %s, structures %s" % (
        half, a["act"], ",".join(str(a[k]) for k in ("m", "kind", "a", "h") if a.get(k) not in ("", None)),
        json.dumps(rec["src"]), json.dumps(rec.get("srcdisk")), rec.get("why"), len(rec.get("history", [])),
        json.dumps(rec["reply"]), json.dumps(post.get("ls")), json.dumps(post.get("disk")), json.dumps(post.get("prob")))


# ------------------------------------------------------------- direction A
_PARSE = vlib.parse_vectors


def tlc_raw(ctx, module, cfg, **kw):
    """ctx.tlc for the exhaustive runs: the Go harness reads TLC's output file
    itself (run1 switches vlib's parsing of emitted lines off for the duration
    of the check; the trace runs parse their single verdict line with _PARSE)."""
    r = ctx.tlc(module, cfg, **kw)
    r["nvec"] = len(re.findall(r'^<<"@@V", ', r["out"], re.M))
    r["outfile"] = os.path.join(r["dir"], "tlc.out")
    return r


def walk(ctx, half, H, outfile, univ, opts, tag):
    vout = ctx.path("g06_%s_walk_%s.ndjson" % (half, tag))
    rc, out = ctx.go_test(H["pkg"], H["files"], "^TestZZVerifG06Walk$",
                          env={"VERIF_HDR": json.dumps({"univ": univ, "opts": opts}), "VERIF_IN": outfile,
                               "VERIF_OUT": vout, "VERIF_TMP": scratch(ctx)},
                          timeout=opts["deadline_s"] + 600, go_timeout="%ds" % (opts["deadline_s"] + 500))
    rows = vlib.read_ndjson(vout)
    summ = [r for r in rows if r.get("kind") == "summary"]
    if rc != 0 or not summ:
        raise vlib.Inconclusive("G06/%s walker did not complete:\n%s" % (half, out[-3000:]))
    return rows, summ[0]


def register(ctx, half, rows, counts):
    """Reproduced disagreements -> known finding or violation."""
    sig_status = {}
    for r in rows:
        if r.get("kind") != "bad":
            continue
        key = classify(half, r)
        r["seed"] = ctx.seed
        r["half"] = half
        st = ctx.disagreement(key, r, describe(half, r))
        sig_status[r["sig"]] = (key, st)
        counts[key or "unclassified"] = counts.get(key or "unclassified", 0) + 1
    for r in rows:
        if r.get("kind") == "bad-more":
            key, _ = sig_status.get(r["sig"], (None, None))
            counts[key or "unclassified"] = counts.get(key or "unclassified", 0) + 1


# ------------------------------------------------------------- direction B
def lkey(ls):
    return ",".join(sorted("%s/%d/%d/%s" % tuple(l) for l in ls))


def run_histories(ctx, half, H, recs):
    """Replays histories on fresh objects; returns one result row per record."""
    vin, vout = ctx.path("g06_%s_replay_in.ndjson" % half), ctx.path("g06_%s_replay_out.ndjson" % half)
    vlib.write_ndjson(vin, recs)
    rc, out = ctx.go_test(H["pkg"], H["files"], "^TestZZVerifG06Replay$",
                          env={"VERIF_IN": vin, "VERIF_OUT": vout, "VERIF_TMP": scratch(ctx)}, timeout=900)
    rows = vlib.read_ndjson(vout)
    if rc != 0 or len(rows) != len(recs):
        raise vlib.Inconclusive("G06/%s replay harness did not complete:\n%s" % (half, out[-3000:]))
    return rows


def trace(ctx, half, H, opts, counts):
    univ = H["trace_univ"]
    vout = ctx.path("g06_%s_trace.ndjson" % half)
    rc, out = ctx.go_test(H["pkg"], H["files"], "^TestZZVerifG06Trace$",
                          env={"VERIF_HDR": json.dumps({"univ": univ, "opts": opts}), "VERIF_OUT": vout,
                               "VERIF_TMP": scratch(ctx)}, timeout=900)
    rows = vlib.read_ndjson(vout)
    if rc != 0 or not rows:
        raise vlib.Inconclusive("G06/%s trace driver did not complete:\n%s" % (half, out[-3000:]))
    tfile = ctx.path("g06_%s_trace_full.ndjson" % half)
    vlib.write_ndjson(tfile, [dict(univ, hdr=True)] + rows)
    r = ctx.tlc(H["tracemodule"], H["tracemodule"] + ".cfg", workers=1, extra_files=[(tfile, "trace.ndjson")], timeout=900)
    vectors = _PARSE(r["out"])
    if not vectors:
        raise vlib.Inconclusive("trace spec produced no verdict")
    verdict = vectors[-1]
    if verdict["n"] != len(rows) + 1:
        raise vlib.Inconclusive("trace spec consumed %s of %d lines" % (verdict["n"], len(rows) + 1))
    # Rejected lines -> records of the walker's shape, reproduced in isolation.
    recs = []
    for b in sorted(verdict["bad"], key=lambda x: x["l"]):
        i = b["l"] - 2
        t = rows[i]
        j = i
        while not rows[j]["reset"]:
            j -= 1
        want = [{"Same": w[0], "Dst": lkey(w[1]), "K": w[2], "IP": w[3], "Rule": w[4]} for w in b["want"]]
        recs.append({"kind": "bad", "act": t["act"], "src": t["src"], "srcdisk": t["srcdisk"], "srcprob": t["srcprob"],
                     "want": want, "why": b["why"], "reply": t["out"],
                     "post": {"ls": t["dst"], "disk": t["disk"], "prob": t["prob"]},
                     "history": [x["act"] for x in rows[j:i + 1]], "univ": univ, "seed": ctx.seed,
                     "trace_line": b["l"], "sig": "trace|%s|%s|%s|%s" % (t["act"]["act"], b["why"], t["out"]["k"], ";".join(t["prob"]))})
    per_sig = {}
    todo = []
    for rec in recs:
        n = per_sig[rec["sig"]] = per_sig.get(rec["sig"], 0) + 1
        if n <= 3:
            todo.append(rec)
    flaky = 0
    if todo:
        res = run_histories(ctx, half, H, [{"univ": univ, "history": x["history"], "seed": ctx.seed} for x in todo])
        for rec, got in zip(todo, res):
            same = got.get("kind") == "replayed" and got["reply"] == rec["reply"] and \
                lkey(got["post"]["ls"]) == lkey(rec["post"]["ls"]) and lkey(got["post"]["disk"]) == lkey(rec["post"]["disk"]) \
                and got["post"]["prob"] == rec["post"]["prob"]
            rec["reproduced"] = bool(same)
            if not same:
                flaky += 1
    status = {}
    for rec in recs:
        if rec.get("reproduced") is False:
            continue
        key = classify(half, rec)
        rec["half"] = half
        if "reproduced" in rec:
            ctx.disagreement(key, rec, "trace line %d rejected by %s: %s" % (rec["trace_line"], H["tracemodule"], describe(half, rec)))
            status[rec["sig"]] = key
        else:
            key = key or status.get(rec["sig"])
        counts[key or "unclassified"] = counts.get(key or "unclassified", 0) + 1
    return rows, recs, flaky


def vacuity(H, mc, summ):
    """Every action of the spec must have been taken by TLC and must be able to change the table."""
    ch = summ.get("spec_changing") or {}
    missing = [a for a in H["actions"] if not ch.get(a)]
    if missing:
        return "actions that never change the table in the emission: %s" % missing
    acts = re.findall(r"^<(\w+) line \d+, col \d+ to line \d+, col \d+ of module %s>: (\d+):(\d+)" % H["module"], mc["out"], re.M)
    names = {a for a, d, g in acts}
    never = [a for a, d, g in acts if int(g) == 0 and not a.startswith("Init")]
    if never:
        return "actions never taken according to TLC's coverage: %s" % never
    if not set(H["tlc_actions"]) <= names:
        return "no action coverage in TLC's output"
    zero = [z for z in (mc.get("zero_cov") or []) if "module %s" % H["module"] in z]
    if zero:
        return "expressions of %s.tla never evaluated: %s" % (H["module"], zero[:5])
    return None


def run_half(ctx, half, res):
    try:
        res[half] = run_half1(ctx, half)
    except BaseException as e:  # noqa: B902 -- re-raised by run()
        res[half] = e


def run_half1(ctx, half):
    H = HALVES[half]
    T = H["tiers"][ctx.tier]
    counts = {}
    passes = []
    flaky = 0
    for i, P in enumerate(T["passes"]):
        univ = parse_cfg(P["cfg"])
        mc = tlc_raw(ctx, H["module"], P["cfg"], workers=P["tlc_workers"], timeout=900, coverage=True)
        if mc["nvec"] != mc["distinct"] or not mc["nvec"]:
            raise vlib.Inconclusive("%s: emitted %d state lines for %d distinct states" % (half, mc["nvec"], mc["distinct"]))
        opts = dict(order=P["order"], workers=P["workers"], deadline_s=P["deadline_s"], resetevery=400, maxrepro=5)
        rows, summ = walk(ctx, half, H, mc["outfile"], univ, opts, str(i))
        vac = vacuity(H, mc, summ)
        if vac:
            raise vlib.Inconclusive("%s vacuous: %s" % (half, vac))
        register(ctx, half, rows, counts)
        if summ["steps"] < 1000 or summ["nontrivial"] < 50:
            raise vlib.Inconclusive("%s walker did too little: %s" % (half, {k: summ[k] for k in ("steps", "nontrivial")}))
        flaky += summ["flaky"]
        passes.append(dict(cfg=P["cfg"], universe=univ, tlc_states=mc["distinct"], tlc_transitions=mc["generated"],
                           walker={k: summ[k] for k in summ if k not in ("kind", "samples")},
                           samples=(summ.get("samples") or [])[:2]))
        mc["out"] = None
    trows, trecs, tflaky = trace(ctx, half, H, dict(traceruns=T["traceruns"], tracesteps=T["tracesteps"]), counts)
    flaky += tflaky
    return dict(passes=passes, trows=trows, trecs=trecs, flaky=flaky, counts=counts)


def run(ctx):
    vlib.parse_vectors = lambda out: []
    try:
        return run1(ctx)
    finally:
        vlib.parse_vectors = _PARSE
        cleanup(ctx)


def run1(ctx):
    for m in ("Dhcp6", "TraceDhcp6", "DhcpSvc", "TraceDhcpSvc"):
        ctx.sany(m)
    scratch(ctx)
    # VERIF_G06_HALVES=v6 (or svc) restricts a development run to one half; such a run never ends OK.
    only = [h for h in os.environ.get("VERIF_G06_HALVES", "").split(",") if h in HALVES]
    res = {}
    ths = [threading.Thread(target=run_half, args=(ctx, h, res)) for h in (only or HALVES)]
    for t in ths:
        t.start()
    for t in ths:
        t.join()
    for h in (only or HALVES):
        if isinstance(res.get(h), vlib.Inconclusive) and not ctx.violations:
            raise res[h]
    for h in (only or HALVES):
        if isinstance(res.get(h), BaseException):
            raise res[h]
    if only:
        for h in only:
            ctx.log("half %s: %s" % (h, json.dumps({"counts": res[h]["counts"], "flaky": res[h]["flaky"],
                                                     "passes": [p["walker"] for p in res[h]["passes"]],
                                                     "trace_lines": len(res[h]["trows"]), "rejected": len(res[h]["trecs"])})))
        raise vlib.Inconclusive("development run restricted to %s" % only)
    flaky = sum(res[h]["flaky"] for h in HALVES)
    if flaky > 5:
        raise vlib.Inconclusive("%d disagreements did not reproduce in isolation" % flaky)
    allp = [(h, p) for h in HALVES for p in res[h]["passes"]]
    steps = sum(p["walker"]["steps"] for _, p in allp)
    tlines = sum(len(res[h]["trows"]) for h in HALVES)
    counts = {}
    for h in HALVES:
        for k, v in res[h]["counts"].items():
            counts[k] = counts.get(k, 0) + v
    cov = {
        "traces_validated_against_impl": steps + tlines,
        "evaluations": steps + tlines,
        "distinct_nontrivial": sum(p["walker"]["nontrivial"] for _, p in allp),
        "rule": "one evaluation = one action executed on the real object (v6Server behind dhcpd.Create / dhcpsvc.DHCPServer) and judged by "
                "the spec's outcome set (direction A: looked up in TLC's emission; direction B: decided by TLC on the recorded line); "
                "non-trivial = distinct (abstract table, action instance) pairs whose execution changed the table",
        "halves": {h: {"passes": [{k: p[k] for k in p if k != "samples"} for p in res[h]["passes"]],
                       "trace_universe": HALVES[h]["trace_univ"], "trace_lines": len(res[h]["trows"]),
                       "trace_lines_rejected": len(res[h]["trecs"])} for h in HALVES},
        "code_reachable_states": {h: [p["walker"]["abstract_states"] for p in res[h]["passes"]] for h in HALVES},
        "spec_states": {h: [p["walker"]["spec_states"] for p in res[h]["passes"]] for h in HALVES},
        "trace_lines": tlines, "trace_lines_rejected": sum(len(res[h]["trecs"]) for h in HALVES),
        "disagreements_by_key": counts,
        "truncated_by_known_finding": sum(p["walker"]["truncated"] for _, p in allp)
        + sum(1 for h in HALVES for t in res[h]["trows"][1:] if t["reset"] and t["step"] > 0),
        "not_reproduced": flaky,
        "exhaustive": all(bool(p["walker"]["closed"]) for _, p in allp),
        "samples": [x for _, p in allp for x in p["samples"]][:4]
        + [{"half": h, "trace_line": res[h]["trows"][len(res[h]["trows"]) // 2]} for h in HALVES],
    }
    return ctx.finish("model_checking", cov, assumptions=[
        "TLC; conc()/abs() of harness/internal/dhcpd/zz_verif_g06_test.go and harness/internal/dhcpsvc/zz_verif_g06_test.go",
        "v6: packets enter at v6Server.packetHandler (wire format, fake PacketConn, DUID-LL/LLT clients), static leases at the HTTP handlers, "
        "restart = dhcpd.Create on the same data directory (v4 enabled next to v6, one v4 reservation shares leases.json); "
        "lease expiry is simulated by setting Lease.Expiry of the chosen lease to a past instant and storing the database",
        "dhcpsvc: exported API only drives (New / AddLease / UpdateStaticLease / RemoveLease / Reset / HostByIP / IPByHost / MACByIP / Leases); "
        "unexported indexes are only read; restart = dhcpsvc.New on the same DBFilePath; calls outside 'l must be valid' "
        "(empty host name, odd hardware address length, dynamic lease outside a range) are not made",
        "exhaustive = every action instance was executed in every abstract state the real object reached "
        "(states are discovered by the walk itself; states only reachable through a reported disagreement are not entered)"])


def admitted(half, rec, got):
    """The judgement of the Go walker, on a replayed step and the outcome set stored with the record."""
    a = rec["act"]
    srckey, srcdisk = lkey(got["src"]), lkey(got.get("srcdisk") or [])
    want = rec.get("want") or [{"Same": True, "Dst": "", "K": k, "IP": 0, "Rule": 1} for k in HALVES[half]["defaults"].get(a["act"], [])]
    post, r = got["post"], got["reply"]
    if set(post["prob"]) - set(got.get("srcprob") or []):
        return False
    pk, dk = lkey(post["ls"]), lkey(post["disk"])
    for o in want:
        if (srckey if o["Same"] else o["Dst"]) != pk:
            continue
        k = o["K"]
        if k in ("offer", "ack"):
            ok = r["k"] == k and r["ip"] == o["IP"]
        elif k == "refuse":
            ok = r["k"] in ("none", "nak")
        elif k == "any":
            ok = r["ip"] == 0 or any(l[0] == a["m"] and l[1] == r["ip"] for l in post["ls"])
        elif k in ("ok", "err"):
            ok = r["k"] == k
        else:
            ok = r["k"] == "-"
        rule = o.get("Rule", 0)
        stored, left = dk == pk, dk == srcdisk
        if ok and ((rule == 0 and stored) or (rule == 1 and (stored or left)) or (rule == 2 and left)):
            return True
    return False


def replay(ctx, path):
    try:
        rec = json.load(open(path))["record"]
        half = rec.get("half", "v6")
        H = HALVES[half]
        got = run_histories(ctx, half, H, [{"univ": rec["univ"], "history": rec["history"], "seed": rec.get("seed", ctx.seed)}])[0]
        if got.get("kind") != "replayed":
            print(json.dumps(got))
            return 2
        same = got["reply"] == rec["reply"] and lkey(got["post"]["ls"]) == lkey(rec["post"]["ls"]) \
            and lkey(got["post"]["disk"]) == lkey(rec["post"]["disk"]) and got["post"]["prob"] == rec["post"]["prob"]
        ok = admitted(half, rec, got)
        print(json.dumps({"half": half, "action": rec["act"], "from": rec["src"], "database_before": rec.get("srcdisk"),
                          "expected_one_of": rec.get("want") or "refused, table unchanged",
                          "observed": {"reply": got["reply"], "table": got["post"]["ls"], "database": got["post"]["disk"],
                                       "structures": got["post"]["prob"]},
                          "same_as_recorded": same, "admitted_by_spec": ok}, indent=1))
        return 0 if ok else 1
    finally:
        cleanup(ctx)
