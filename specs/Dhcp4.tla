------------------------------- MODULE Dhcp4 -------------------------------
(***************************************************************************)
(* C10 -- the DHCPv4 lease table as the statement of the property intends  *)
(* it.                                                                     *)
(*                                                                         *)
(* The table is ONE set of leases.  There is no parallel list, no host     *)
(* index, no address index and no bitset of leased pool offsets here: the  *)
(* code's four structures are projected onto this one set by the Go        *)
(* harness (abs()), which also checks that they agree with each other.     *)
(*                                                                         *)
(* Written from the statement (and the RFC 2131 vocabulary it uses), not   *)
(* from v4_unix.go.  Every action is given as the SET of admissible        *)
(* outcomes [dst, out]; where the statement is silent (which free address  *)
(* is offered, which host name a lease ends up with, what a DECLINE does   *)
(* beyond dropping the lease, whether NAK or silence refuses a request,    *)
(* whether a reservation that would evict another client is refused or     *)
(* carried out) the set has several members.  The conformance harness      *)
(* accepts a step of the real server iff the projected real post-state and *)
(* reply are a member of the set.                                          *)
(*                                                                         *)
(* Addresses are integers: GW (gateway), Pool (dynamic range), Outs        *)
(* (inside the subnet, outside the range: only reservations may live       *)
(* there), Far (outside the subnet: nothing may live there).               *)
(***************************************************************************)
EXTENDS Integers, Sequences, FiniteSets, TLC, Json

CONSTANTS Macs,        \* hardware addresses
          Pool,        \* addresses of the dynamic range
          Outs,        \* in-subnet addresses outside the range
          GW,          \* the gateway address
          Far,         \* an address outside the subnet
          ReqHosts,    \* host names a client may send ("" = none); may contain
                       \* names that look like derived ones (GenName of an address)
          BadHosts,    \* those of ReqHosts that cannot be used as a host name
                       \* (empty label, over-long label, trailing dot)
          StaticHosts, \* host names an administrator may give ("" = none)
          MaxStatic,   \* model bound: number of reservations
          LeaseT       \* the configured lease time, in clock ticks

VARIABLES ls,    \* the lease table: set of lease records
          disk   \* the persisted table
vars == <<ls, disk>>

Subnet == Pool \cup Outs \cup {GW}

\* The name the server derives from an address when the client sends none,
\* and some other name derived from the address that nobody else can have
\* (for the case that the first one is taken: a client may ASK for a name
\* that looks like the derived name of somebody else's address).
GenName(a) == "g" \o ToString(a)
AltName(a) == "u" \o ToString(a)

\* A lease.  st: reservation (static).  rem: the number of clock ticks for
\* which the client may still use the address according to the LAST DHCPACK it
\* was sent (every DHCPACK announces LeaseT ticks, so rem is "announced
\* expiry minus now"); 0 = merely offered, or expired.  Reservations do not
\* expire (rem is 0 and not used).  host: "" = none.
\* Lease(.., ak, ..): ak = freshly acknowledged.
Lease(m, a, st, ak, h) ==
    [mac |-> m, ip |-> a, st |-> st, rem |-> IF ak /\ ~st THEN LeaseT ELSE 0, host |-> h]

\* A table S is a set of leases.
Of(S, m)  == {l \in S : l.mac = m}
On(S, a)  == {l \in S : l.ip = a}
Held(l)   == l.st \/ l.rem > 0

\* ------------------------------------------------------------------ replies
\* What the client (or the administrator) sees.  "refuse" is a DHCPNAK or
\* silence -- the statement does not distinguish them.  "any" is used for
\* DECLINE and RELEASE, for which RFC 2131 defines no reply; the harness
\* still checks that a yiaddr carried by such a reply is the client's lease.
\* t is the lease time a DHCPACK announces to the client.
Offer(a) == [k |-> "offer", ip |-> a, t |-> 0]
Ack(a)   == [k |-> "ack", ip |-> a, t |-> LeaseT]
Refuse   == [k |-> "refuse", ip |-> 0, t |-> 0]
AnyR     == [k |-> "any", ip |-> 0, t |-> 0]
Ok       == [k |-> "ok", ip |-> 0, t |-> 0]
Err      == [k |-> "err", ip |-> 0, t |-> 0]
None     == [k |-> "none", ip |-> 0, t |-> 0]

Outc(S, o) == [dst |-> S, out |-> o]

\* --------------------------------------------------------------- allocation
\* Pool addresses nobody has, and pool addresses whose dynamic lease is not
\* (or no longer) acknowledged: offered-but-never-requested or expired.  The
\* latter may be recycled for another client.
FreeAddrs(S)  == {a \in Pool : On(S, a) = {}}
Recyclable(S) == {a \in Pool : \E l \in On(S, a) : ~Held(l)}

\* All ways of giving client m (who has no lease in S) a fresh lease with
\* acknowledgement status ak.  hs = host names the fresh lease may carry
\* (besides the one inherited from a recycled lease and, if gen, a name
\* derived from the address); a non-empty name must be unique in the table.
Fresh(T, m, a, ak, names) ==
    {T \cup {Lease(m, a, FALSE, ak, h)} : h \in {x \in names : x = "" \/ \A o \in T : o.host # x}}
Allocs(S, m, ak, hs, gen) ==
    \* derived names for address a in table T: the derived name, or -- only
    \* when somebody else has that -- the alternative one
    LET g(a, T) == IF ~gen THEN {}
                   ELSE IF \E o \in T : o.host = GenName(a) THEN {AltName(a)} ELSE {GenName(a)}
    IN
    UNION {Fresh(S, m, a, ak, hs \cup g(a, S)) : a \in FreeAddrs(S)}
    \cup
    UNION {Fresh(S \ On(S, a), m, a, ak, hs \cup g(a, S \ On(S, a)) \cup {l.host : l \in On(S, a)})
           : a \in Recyclable(S)}

\* ----------------------------------------------------------------- DISCOVER
\* A client that has a lease (reservation, acknowledged, offered or expired)
\* is offered that address again.  A new client is offered some address that
\* is free or recyclable; the table then records the offer.  Only when every
\* pool address is held is the client refused.
DiscoverOut(S, m) ==
    IF Of(S, m) # {} THEN {Outc(S, Offer(l.ip)) : l \in Of(S, m)}
    ELSE LET as == Allocs(S, m, FALSE, {""}, FALSE) IN
         IF as = {} THEN {Outc(S, Refuse)}
         ELSE {Outc(T, Offer((CHOOSE l \in Of(T, m) : TRUE).ip)) : T \in as}

\* ------------------------------------------------------------------ REQUEST
\* Host names.  The client asks for h ("" = none, or a name that cannot be
\* used: a name derived from the address).  The lease ends up with a
\* non-empty name nobody else has, taken from: the wanted name, the name the
\* lease already had, the derived name.  Should all of these belong to other
\* leases, the lease gets another unique derived name or stays without one
\* (the statement does not say which) -- but never a name somebody else has:
\* the name -> address answer must stay a function.
HostChoices(S, l, h) ==
    LET want  == IF h = "" \/ h \in BadHosts THEN GenName(l.ip) ELSE h
        cands == {want, l.host, GenName(l.ip)} \ {""}
        ok    == {x \in cands : \A o \in S \ {l} : o.host # x}
        alt   == {x \in {AltName(l.ip)} : \A o \in S \ {l} : o.host # x}
    IN  IF ok = {} THEN {""} \cup alt ELSE ok

\* The three kinds (selecting, init-reboot, renew) differ in how the packet
\* names the address; the table treats them alike: acknowledged iff the
\* address is the client's own lease.  A reservation is acknowledged without
\* changing the table; a dynamic lease becomes acknowledged for the full
\* lease time again -- whenever in its life the request comes (immediately,
\* early, late or after expiry): the client has been TOLD LeaseT ticks.
RequestOut(S, m, kind, a, h) ==
    LET mine == {l \in Of(S, m) : l.ip = a} IN
    IF mine = {} THEN {Outc(S, Refuse)}
    ELSE LET l == CHOOSE x \in mine : TRUE IN
         IF l.st THEN {Outc(S, Ack(a))}
         ELSE {Outc((S \ {l}) \cup {Lease(m, a, FALSE, TRUE, x)}, Ack(a))
               : x \in HostChoices(S, l, h)}

\* ------------------------------------------------------------------ DECLINE
\* The client found its dynamic address in use: the lease is dropped.  The
\* statement says nothing more; the server may in the same step hand the
\* client another lease (any admissible address, offered or acknowledged,
\* with the old host name -- unless that was derived from the declined
\* address --, a name derived from the new address, or none).
\* Reservations are not affected.
DeclineOut(S, m, a) ==
    LET mine == {l \in Of(S, m) : l.ip = a /\ ~l.st} IN
    IF mine = {} THEN {Outc(S, AnyR)}
    ELSE LET l  == CHOOSE x \in mine : TRUE
             S1 == S \ {l}
             \* the name derived from the declined address describes that
             \* address and does not move to another one
             keep == {""} \cup ({l.host} \ {GenName(a)})
         IN  {Outc(S1, AnyR)}
             \cup {Outc(T, AnyR) : T \in Allocs(S1, m, TRUE, keep, TRUE)}
             \cup {Outc(T, AnyR) : T \in Allocs(S1, m, FALSE, keep, TRUE)}

\* ------------------------------------------------------------------ RELEASE
ReleaseOut(S, m, a) ==
    LET mine == {l \in Of(S, m) : l.ip = a /\ ~l.st} IN
    IF mine = {} THEN {Outc(S, AnyR)} ELSE {Outc(S \ mine, AnyR)}

\* --------------------------------------------------------------------- time
\* The clock advances by one tick: every acknowledged dynamic lease has one
\* tick less to live.  (Enabled while some lease is running; otherwise the
\* passage of time changes nothing.)
Running(S) == {l \in S : ~l.st /\ l.rem > 0}
TickOut(S) ==
    IF Running(S) = {} THEN {}
    ELSE {Outc({IF l \in Running(S) THEN [l EXCEPT !.rem = @ - 1] ELSE l : l \in S}, None)}

\* A long time passes for the acknowledged dynamic lease on address a alone
\* (it had been acknowledged long before the others): it runs out.
\* Independent of everything else, so that TLC interleaves expiry with
\* allocation in all orders and not only in the order of acknowledgement.
ExpireOut(S, a) ==
    {Outc((S \ {l}) \cup {[l EXCEPT !.rem = 0]}, None) : l \in {x \in On(S, a) : ~x.st /\ x.rem > 0}}

\* ------------------------------------------------- ended address conflict
\* Before offering an address the server may probe it (ICMP echo); an address
\* that answers is put aside for one lease time under the hardware address
\* of nobody (Blk) and without a name.  The harness cannot make an address
\* answer, so only the aftermath is modelled: the entry of an address nobody
\* holds becomes the record that such a conflict leaves behind once its time
\* is over -- an expired, nameless entry of nobody, reusable like any other.
Blk == "blk"
BlockEndOut(S, a) ==
    {Outc((S \ {l}) \cup {[l EXCEPT !.mac = Blk, !.host = ""]}, None)
     : l \in {x \in On(S, a) : ~x.st /\ x.rem = 0 /\ x.mac # Blk}}

\* ------------------------------------------------------------- reservations
Statics(S) == {l \in S : l.st}

\* Replace the host name h (if any) of leases in L by none.
Unname(L, h) == {IF h # "" /\ l.host = h THEN [l EXCEPT !.host = ""] ELSE l : l \in L}

\* The tables that L may become when the name h goes to a new reservation:
\* the (dynamic) lease that has it loses it and is left without a name or
\* gets, at once, the name derived from its address (the alternative one
\* where that is taken) -- the statement does not say which.
Renames(L, h) ==
    IF h = "" \/ \A l \in L : l.host # h THEN {L}
    ELSE LET l    == CHOOSE x \in L : x.host = h
             rest == L \ {l}
             free(n) == n # h /\ \A o \in rest : o.host # n
             names == {""} \cup (IF free(GenName(l.ip)) THEN {GenName(l.ip)}
                                 ELSE {n \in {AltName(l.ip)} : free(n)})
         IN  {rest \cup {[l EXCEPT !.host = n]} : n \in names}

\* Add a reservation (m, a, h).  It MUST be refused when the address is the
\* gateway or outside the subnet, when the address, the client or the name
\* already belongs to a reservation.  Otherwise it is carried out: dynamic
\* leases of the same client or on the same address disappear, a dynamic
\* lease with the same name loses the name.  When that takes something away
\* from ANOTHER client the statement does not say whether to refuse instead,
\* so both are admitted.
AddStaticOut(S, m, a, h) ==
    LET hard  == \/ a = GW \/ a \notin Subnet
                 \/ \E l \in Statics(S) : l.ip = a \/ l.mac = m \/ (h # "" /\ l.host = h)
        evict == {l \in S : ~l.st /\ (l.mac = m \/ l.ip = a)}
        soft  == \E l \in S : ~l.st /\ l.mac # m /\ (l.ip = a \/ (h # "" /\ l.host = h))
        acc   == {Outc(T \cup {Lease(m, a, TRUE, TRUE, h)}, Ok) : T \in Renames(S \ evict, h)}
    IN  IF hard THEN {Outc(S, Err)}
        ELSE acc \cup (IF soft THEN {Outc(S, Err)} ELSE {})

\* Change address and name of the reservation of client m.  Same mandatory
\* refusals; admissible refusals additionally when the client's lease is not
\* a reservation, or when no name is given (the statement is silent on both).
UpdateStaticOut(S, m, a, h) ==
    IF Of(S, m) = {} THEN {Outc(S, Err)}
    ELSE
    LET l      == CHOOSE x \in Of(S, m) : TRUE
        others == S \ {l}
        hard   == \/ a = GW \/ a \notin Subnet
                  \/ \E o \in others : o.st /\ (o.ip = a \/ (h # "" /\ o.host = h))
        evict  == {o \in others : ~o.st /\ o.ip = a}
        soft   == \/ ~l.st \/ h = ""
                  \/ \E o \in others : ~o.st /\ (o.ip = a \/ (h # "" /\ o.host = h))
        acc    == {Outc(T \cup {Lease(m, a, TRUE, TRUE, h)}, Ok) : T \in Renames(others \ evict, h)}
    IN  IF hard THEN {Outc(S, Err)}
        ELSE acc \cup (IF soft THEN {Outc(S, Err)} ELSE {})

\* Remove the reservation (m, a).  Asked to remove a dynamic lease through
\* this call the server may refuse or comply (statement silent).  When there
\* is nothing to remove nothing changes; whether that is reported as an error
\* the statement does not say.
RemoveStaticOut(S, m, a) ==
    LET mine == {l \in Of(S, m) : l.ip = a} IN
    IF mine = {} THEN {Outc(S, Err), Outc(S, Ok)}
    ELSE LET l == CHOOSE x \in mine : TRUE IN
         IF l.st THEN {Outc(S \ {l}, Ok)} ELSE {Outc(S \ {l}, Ok), Outc(S, Err)}

\* The same for the DHCPv4 table, one latitude less: a dynamic lease that its
\* client HOLDS (the last DHCPACK still covers it) must not be removed through
\* this call -- the client goes on using the address, and the next client
\* would be given it as well.  (RemoveStaticOut above is kept as it was for
\* the modules that extend this one.)
RemoveStatic4Out(S, m, a) ==
    LET heldDyn == {l \in Of(S, m) : l.ip = a /\ ~l.st /\ Held(l)} IN
    IF heldDyn # {} THEN {Outc(S, Err)} ELSE RemoveStaticOut(S, m, a)

\* ------------------------------------------------------------------ restart
\* The table is reloaded from disk D: "a restart restores the same table and
\* the same hostname/address answers".  The database itself is not touched.
RestartOut(D) == {Outc(D, None)}

\* ------------------------------------------------------------------ actions
\* Every action stores the table it leaves behind (disk' = ls').
Take(o) == ls' = o.dst /\ disk' = o.dst
Load(o) == ls' = o.dst /\ UNCHANGED disk

Discover(m)           == \E o \in DiscoverOut(ls, m) : Take(o)
Request(m, k, a, h)   == \E o \in RequestOut(ls, m, k, a, h) : Take(o)
Decline(m, a)         == \E o \in DeclineOut(ls, m, a) : Take(o)
Release(m, a)         == \E o \in ReleaseOut(ls, m, a) : Take(o)
Tick                  == \E o \in TickOut(ls) : Take(o)
Expire(a)             == \E o \in ExpireOut(ls, a) : Take(o)
BlockEnd(a)           == \E o \in BlockEndOut(ls, a) : Take(o)
AddStatic(m, a, h)    == /\ Cardinality(Statics(ls)) < MaxStatic
                         /\ \E o \in AddStaticOut(ls, m, a, h) : Take(o)
\* (model bound: turning a dynamic lease into a reservation counts as adding)
UpdEnabled(S, m)      == \/ Cardinality(Statics(S)) < MaxStatic
                         \/ \A l \in Of(S, m) : l.st
UpdateStatic(m, a, h) == /\ UpdEnabled(ls, m)
                         /\ \E o \in UpdateStaticOut(ls, m, a, h) : Take(o)
RemoveStatic(m, a)    == \E o \in RemoveStatic4Out(ls, m, a) : Take(o)
Restart               == \E o \in RestartOut(disk) : Load(o)

Kinds     == {"selecting", "initreboot", "renew"}
ReqAddrs  == Pool \cup Outs
StatAddrs == Pool \cup Outs \cup {GW, Far}

Init == ls = {} /\ disk = {}

Next == \/ \E m \in Macs : Discover(m)
        \/ \E m \in Macs, k \in Kinds, a \in ReqAddrs, h \in ReqHosts : Request(m, k, a, h)
        \/ \E m \in Macs, a \in ReqAddrs : Decline(m, a)
        \/ \E m \in Macs, a \in ReqAddrs : Release(m, a)
        \/ Tick
        \/ \E a \in Pool : Expire(a)
        \/ \E a \in Pool : BlockEnd(a)
        \/ \E m \in Macs, a \in StatAddrs, h \in StaticHosts : AddStatic(m, a, h)
        \/ \E m \in Macs, a \in StatAddrs, h \in StaticHosts : UpdateStatic(m, a, h)
        \/ \E m \in Macs, a \in ReqAddrs : RemoveStatic(m, a)
        \/ Restart

Spec == Init /\ [][Next]_vars

\* ------------------------------------------- the statement, as invariants
\* "For every IPv4 address at most one client at a time holds an
\* acknowledged, unexpired lease (static or dynamic)".  The table is in fact
\* keyed by address even for leases that are merely offered or expired.
OneHolderPerAddress ==
    \A l1, l2 \in ls : Held(l1) /\ Held(l2) /\ l1.ip = l2.ip => l1 = l2
KeyedByAddress == \A l1, l2 \in ls : l1.ip = l2.ip => l1 = l2
Gives(o) == o.out.k \in {"offer", "ack"}
\* The same, seen from the client: an address that the last DHCPACK to some
\* client still covers (announced expiry not reached) is never offered or
\* acknowledged to another client, whatever anybody sends.
NoReuseBeforeAnnouncedExpiry ==
    \A m \in Macs :
      LET outs == DiscoverOut(ls, m)
                  \cup UNION {RequestOut(ls, m, k, a, h) : k \in Kinds, a \in ReqAddrs, h \in ReqHosts}
      IN  \A o \in outs : Gives(o) =>
            /\ \A l \in ls : l.ip = o.out.ip /\ l.mac # m => ~Held(l)
            /\ o.out.k = "ack" => \A l \in On(o.dst, o.out.ip) : l.mac = m /\ (l.st \/ l.rem = o.out.t)
\* ... nor is the table entry of such a lease taken away by the call that
\* removes reservations (the client would go on using the address).
RemoveKeepsHeldDynamic ==
    \A l \in ls : ~l.st /\ Held(l) => \A o \in RemoveStatic4Out(ls, l.mac, l.ip) : l \in o.dst
\* "and a client holds at most one lease"
OneLeasePerClient == \A l1, l2 \in ls : l1.mac = l2.mac /\ l1.mac # Blk => l1 = l2
\* "dynamic addresses lie inside the configured pool and never coincide with
\* a static reservation or the gateway"
DynamicInsidePool ==
    /\ \A l \in ls : ~l.st => l.ip \in Pool
    /\ \A l \in ls : l.ip # GW /\ l.ip \in Subnet
    /\ \A l1, l2 \in ls : l1.st /\ ~l2.st => l1.ip # l2.ip
\* "a client with a reservation is only ever given that address": whatever
\* the client sends, no admissible reply names another address and no
\* admissible outcome gives it another lease.
ReservedClientGetsReservation ==
    \A l \in Statics(ls) :
      LET m == l.mac
          outs == DiscoverOut(ls, m)
                  \cup UNION {RequestOut(ls, m, k, a, h) : k \in Kinds, a \in ReqAddrs, h \in ReqHosts}
                  \cup UNION {DeclineOut(ls, m, a) \cup ReleaseOut(ls, m, a) : a \in ReqAddrs}
      IN  \A o \in outs : /\ Gives(o) => o.out.ip = l.ip
                          /\ Of(o.dst, m) = {l}
\* "A DISCOVER from a new client is answered with an offer whenever some pool
\* address is neither leased nor reserved."
OfferWhenFree ==
    \A m \in Macs :
      (Of(ls, m) = {} /\ \E a \in Pool : \A l \in On(ls, a) : ~Held(l))
        => \A o \in DiscoverOut(ls, m) : o.out.k = "offer" /\ o.out.ip \in Pool
\* "The lease database on disk lists exactly the leases in memory, each once"
DiskEqualsMemoryEachOnce == disk = ls
\* "so a restart restores the same table and the same hostname/address
\* answers given to DNS" (for every lease a client holds).
HostAnswers(S) == {<<l.ip, l.host>> : l \in S}
RestartRestoresSameTable ==
    \A o \in RestartOut(disk) : o.dst = ls /\ HostAnswers(o.dst) = HostAnswers(ls)
\* Structure: names are unique (the name -> address answer is a function);
\* nothing lives longer than the lease time.
HostsUnique == \A l1, l2 \in ls : l1.host # "" /\ l1.host = l2.host => l1 = l2
RemBounded == \A l \in ls : l.rem \in 0..LeaseT /\ (l.st => l.rem = 0)
BoundedStatics == Cardinality(Statics(ls)) <= MaxStatic

\* ----------------------------------------- emission for the Go harness (A)
\* One line per reachable state: every enabled action instance whose outcome
\* set is not the default "refused, nothing changes" of its kind, with the
\* outcome set.  The harness walks the real server through the states it
\* reaches, tries every action instance in each of them and looks the
\* observed (post-state, reply) up here.  Leases are encoded as
\* <<mac, ip, rem (-1 for a reservation), host>> to keep the lines short.
EncL(l)  == <<l.mac, l.ip, IF l.st THEN -1 ELSE l.rem, l.host>>
EncS(S)  == {EncL(l) : l \in S}
EncO(S, o) == IF o.dst = S THEN <<TRUE, {}, o.out.k, o.out.ip, o.out.t>>
              ELSE <<FALSE, EncS(o.dst), o.out.k, o.out.ip, o.out.t>>
E(S, name, m, k, a, h, outs, dflts) ==
    IF outs = {Outc(S, d) : d \in dflts} \/ outs = {} THEN {}
    ELSE {<<name, m, k, a, h, {EncO(S, o) : o \in outs}>>}
Edges(S, D) ==
    UNION {E(S, "Discover", m, "", 0, "", DiscoverOut(S, m), {None}) : m \in Macs}
    \cup UNION {E(S, "Request", m, k, a, h, RequestOut(S, m, k, a, h), {Refuse})
                : m \in Macs, k \in Kinds, a \in ReqAddrs, h \in ReqHosts}
    \cup UNION {E(S, "Decline", m, "", a, "", DeclineOut(S, m, a), {AnyR}) : m \in Macs, a \in ReqAddrs}
    \cup UNION {E(S, "Release", m, "", a, "", ReleaseOut(S, m, a), {AnyR}) : m \in Macs, a \in ReqAddrs}
    \cup E(S, "Tick", "", "", 0, "", TickOut(S), {None})
    \cup UNION {E(S, "Expire", "", "", a, "", ExpireOut(S, a), {None}) : a \in Pool}
    \cup UNION {E(S, "BlockEnd", "", "", a, "", BlockEndOut(S, a), {None}) : a \in Pool}
    \cup (IF Cardinality(Statics(S)) < MaxStatic
          THEN UNION {E(S, "AddStatic", m, "", a, h, AddStaticOut(S, m, a, h), {Err})
                      : m \in Macs, a \in StatAddrs, h \in StaticHosts}
          ELSE {})
    \cup UNION {E(S, "UpdateStatic", m, "", a, h, UpdateStaticOut(S, m, a, h), {Err})
                : m \in {x \in Macs : UpdEnabled(S, x)}, a \in StatAddrs, h \in StaticHosts}
    \cup UNION {E(S, "RemoveStatic", m, "", a, "", RemoveStatic4Out(S, m, a), {Err, Ok}) : m \in Macs, a \in ReqAddrs}
    \cup E(S, "Restart", "", "", 0, "", RestartOut(D), {Err})
EmitState ==
    PrintT(<<"@@V", ToJson([s |-> EncS(ls),
                            noadd |-> Cardinality(Statics(ls)) >= MaxStatic,
                            noupd |-> {m \in Macs : ~UpdEnabled(ls, m)},
                            e |-> Edges(ls, disk)])>>)
GenNext == EmitState /\ Next
GenSpec == Init /\ [][GenNext]_vars
=============================================================================
